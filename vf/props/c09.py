"""C09 — printed value and uncertainty are the correctly rounded pair in every style."""
import collections
import json
import re
from fractions import Fraction as F

from common import canon_hash

ID = "C09"
SECTIONS = ["printing"]
LEAN_MODULES = ["QExPy.Props.C09"]
THEOREMS = ["QExPy.C09_total", "QExPy.C09_round_bound", "QExPy.C09_ilog10_spec",
            "QExPy.C09_sig_round", "QExPy.C09_model_ok", "QExPy.C09_spec_sig_figs",
            "QExPy.C09_model_sig_figs", "QExPy.C09_render_parse", "QExPy.C09_model_wf",
            "QExPy.C09_model_text_ok"]
RULE = ("value/uncertainty pairs built from decimal mantissas of 1-12 digits times 10^k with "
        "magnitudes in [1e-12, 1e12]: random digits, just below a decade (95..99x), exact powers of "
        "ten, within 1e-9 of a power of ten, rounding ties (…5), either sign of the value, value 0, "
        "uncertainty 0, ratios e/|v| from 1e-12 to 1e12; each pair printed by str(q.Measurement(v, e)) "
        "(a sample also through repr and str(MeasurementArray)) under styles x modes x n in 1..6; the "
        "string is parsed (regex) and (a) the Lean predicate PrintedOK is evaluated on it, (b) its "
        "structure is compared with the exact model (power of ten, decimals, form equal; mantissas "
        "within 1 unit of the last place); cases whose model output has more than 12 digits are "
        "outside the statement's domain and counted as skipped; non-trivial = rounding carries into "
        "the next decade, a zero, or a negative-order scientific case; distinct by hash of "
        "(v, e, configuration). HISTORIES: sessions of 2-5 prints about one pair (and its neighbours) "
        "under configurations differing in exactly the mode / style / number of figures / nothing, "
        "reached by reset+setters, setters only or the settings object, printed through str, repr, an "
        "array, with name and unit, through one object kept over the session, and after re-assigning "
        "value and uncertainty of a printed object; every print judged. Every failure is re-run in a "
        "new interpreter (alone, else after its minimised history, which the replay file carries)")
ASSUMPTIONS = ["inputs are finite floats with magnitudes in [1e-12, 1e12], uncertainty >= 0, at most "
               "12 printed digits, n in 1..6 (the statement's domain)",
               "the model is exact over the rationals; binary rounding inside x / back_off, 10 ** k "
               "and '{:.nf}'.format is not modelled: it is bounded by the 0.05-unit allowance of the "
               "statement and the 1-unit structural slack"]
TRUSTED = ["the implementation's raw text is read back by the Lean parser parsePrinted (round trip "
           "with render proved: C09_render_parse); the harness regex (vf/props/c09.py: parse) is only "
           "a cross-check and the carrier of the structural comparison",
           "modelled not verified: CPython round(), math.log10/floor, str.format('.nf')"]
LEVEL_TEXT = ("Lean 4 theorems about an exact rational model of printing.py whose constants are "
              "regenerated from the source on every run; the decidable predicate the theorems are "
              "about is evaluated on the real library's output")
LEVEL_NOTE = ("PrintedOK is proved of the exact model (see THEOREMS for what is complete); the code "
              "computes in binary64, agreement with the model is validated up to one unit of the "
              "last place")
TECHNIQUE = ("Lean 4 machine-checked proof over an exact model tied to the source by translator + "
             "differential correspondence run; spec predicate evaluated on implementation output")

STYLES = ["default", "scientific", "latex"]
MODES = ["auto", "error", "value"]

NUM = r"(-?\d+(?:\.(\d+))?)"
RE_SCI = re.compile(r"\(" + NUM + r" (\+/-|\\pm) " + NUM + r"\) \* 10\^(-?\d+)")
RE_DEF = re.compile(NUM + r" (\+/-|\\pm) " + NUM)


def parse(s):
    """printed text -> structured form (None if it is not of the documented shape)"""
    m = RE_SCI.fullmatch(s)
    sci = True
    if not m:
        m = RE_DEF.fullmatch(s)
        sci = False
    if not m:
        return None
    vs, vd, pm, es, ed = m.group(1), m.group(2), m.group(3), m.group(4), m.group(5)
    return {"mv": str(int(vs.replace(".", ""))), "me": str(int(es.replace(".", ""))),
            "dv": len(vd) if vd else 0, "de": len(ed) if ed else 0,
            "p": int(m.group(6)) if sci else 0, "bare": es == "0", "sci": sci, "latex": pm != "+/-"}


ROUTES = ["reset", "keep", "settings-object"]
HOWS_HISTORY = ["str", "str", "kept", "kept", "repr", "array", "named", "edited"]


def configure(q, style, mode, n, route="reset"):
    """reach the configuration (style, mode, n).  Routes: `reset` = restore the defaults, then the
    module-level setters (what every batch case does); `keep` = only the setters, on top of whatever
    the session left behind; `settings-object` = through attributes / methods of q.get_settings(),
    the style as an enum member.  There is no setter back to the automatic mode: it is reached
    through a reset on every route."""
    if route == "reset" or mode == "auto":
        q.reset_default_configuration()
    if route == "settings-object":
        st = q.get_settings()
        st.print_style = {"default": q.PrintStyle.DEFAULT, "scientific": q.PrintStyle.SCIENTIFIC,
                          "latex": q.PrintStyle.LATEX}[style]
        if mode == "value":
            st.set_sig_figs_for_value(n)
        elif mode == "error":
            st.set_sig_figs_for_error(n)
        else:
            st.sig_fig_value = n
        return
    q.set_print_style(style)
    if mode == "value":
        q.set_sig_figs_for_value(n)
    elif mode == "error":
        q.set_sig_figs_for_error(n)
    else:
        q.get_settings().sig_fig_value = n   # automatic mode with n figures


def show(q, v, e, how="str", frm=None, kept=None):
    try:
        if how == "str":
            return str(q.Measurement(v, e))
        if how == "kept":
            # ONE object per pair for the whole session: printed again under the next configuration
            if kept is None:
                kept = {}
            if (v, e) not in kept:
                kept[(v, e)] = q.Measurement(v, e)
            return str(kept[(v, e)])
        if how == "repr":
            r = repr(q.Measurement(v, e))
            m = re.fullmatch(r"\w+\((.*)\)", r)
            return m.group(1) if m else "UNPARSED " + r
        if how == "named":
            # name and unit around the pair: "x = <pair> [m]"
            s = str(q.Measurement(v, e, unit="m", name="x"))
            return s[4:-4] if s.startswith("x = ") and s.endswith(" [m]") else "UNPARSED " + s
        if how == "edited":
            # the SAME object printed before and after its value and uncertainty were re-assigned:
            # the text must be about the pair the object holds now
            v0, e0 = frm if frm else (1.0, 0.5)
            x = q.Measurement(v0, e0)
            str(x)
            x.value = v
            x.error = e
            return str(x)
        a = q.MeasurementArray([v, v], [e, e])
        s = str(a)
        m = re.fullmatch(r"\[ (.*), (.*) \]", s)
        if not m or m.group(1) != m.group(2):
            return "UNPARSED " + s
        return m.group(1)
    except Exception as ex:  # noqa: BLE001
        return "EXC {}: {}".format(type(ex).__name__, ex)


FIRST_STEP = None

# ------------------------------------------------------------------ rejected requests (faults)
# A request the library REJECTS (it raises; the caller -- a notebook cell -- catches and goes on) is not
# a configuration: the pair printed afterwards must be rounded by the configuration in force before
# it.  A fault is [kind, argument-name]; it is sent after the configuration of its step has been
# reached and before the judged print.
FAULT_ARGS = {   # name -> (object, "invalid" = not a positive integer by any reading | "maybe" = has a meaning)
    "0": (0, "invalid"), "-1": (-1, "invalid"), "-3": (-3, "invalid"), "2.5": (2.5, "invalid"),
    "0.0": (0.0, "invalid"), "'3'": ("3", "invalid"), "None": (None, "invalid"), "nan": (float("nan"), "invalid"),
    "[2]": ([2], "invalid"), "-2.0": (-2.0, "invalid"),
    # integral values in other number types: the library may accept them with their meaning (then the
    # step is skipped and counted) or reject them (then nothing may have changed)
    "3.0": (3.0, "maybe"), "np.int64(4)": ("np.int64", "maybe"), "Fraction(2)": ("Fraction", "maybe"),
}
FAULT_FIGS = ["value-fn", "error-fn", "value-obj", "error-obj", "figs-attr"]
FAULT_OTHER = [["style-fn", "'bogus'"], ["style-fn", "7"], ["style-fn", "None"], ["style-attr", "'Scientific'"],
               ["style-attr", "2"], ["unit-style", "'bogus'"], ["error-method", "'bogus'"], ["mc-size", "0"],
               ["mc-size", "2.5"], ["plot-dims", "(0, 1)"], ["bad-measurement", "negative-uncertainty"],
               ["bad-measurement", "string-uncertainty"], ["bad-unit", "'m/*s'"]]
OTHER_ARGS = {"'bogus'": "bogus", "7": 7, "None": None, "'Scientific'": "Scientific", "2": 2, "0": 0, "2.5": 2.5,
              "(0, 1)": (0, 1)}


def fault_text(f):
    kind, arg = f
    return {"value-fn": "q.set_sig_figs_for_value({})", "error-fn": "q.set_sig_figs_for_error({})",
            "value-obj": "q.get_settings().set_sig_figs_for_value({})",
            "error-obj": "q.get_settings().set_sig_figs_for_error({})",
            "figs-attr": "q.get_settings().sig_fig_value = {}", "style-fn": "q.set_print_style({})",
            "style-attr": "q.get_settings().print_style = {}", "unit-style": "q.set_unit_style({})",
            "error-method": "q.set_error_method({})", "mc-size": "q.set_monte_carlo_sample_size({})",
            "plot-dims": "q.set_plot_dimensions({})", "bad-measurement": "q.Measurement(1.0, <{}>)",
            "bad-unit": "q.Measurement(1.0, 0.1, unit={})"}[kind].format(arg)


def gen_faults(rng, mode=None):
    """1-2 requests that must be rejected.  Most are about the number of significant figures -- through
    both setters (the one of the mode in force and the OTHER one), function and settings-object form,
    and the attribute; the rest are rejected requests to other settings and constructors"""
    out = []
    for _ in range(rng.choice([1, 1, 2])):
        if rng.random() < 0.75:
            kinds = list(FAULT_FIGS)
            if mode in ("error", "auto"):
                kinds += ["value-fn", "value-obj"]        # the setter of the OTHER mode
            if mode in ("value", "auto"):
                kinds += ["error-fn", "error-obj"]
            names = list(FAULT_ARGS)
            out.append([rng.choice(kinds), rng.choice(names[:10] * 3 + names[10:])])
        else:
            out.append(list(rng.choice(FAULT_OTHER)))
    return out


def apply_fault(q, f):
    """-> "rejected" (the library raised), "accepted" (no exception although the request is invalid by
    the harness's own reading: not a positive integer / no such style), "accepted-with-a-meaning" """
    kind, arg = f
    verdict = "invalid"
    if kind in FAULT_FIGS:
        x, verdict = FAULT_ARGS[arg]
        if x == "np.int64":
            import numpy as np
            x = np.int64(4)
        elif x == "Fraction":
            x = F(2)
    elif kind == "bad-measurement":
        x = -0.5 if arg == "negative-uncertainty" else "0.1"
    elif kind == "bad-unit":
        x = "m/*s"
    else:
        x = OTHER_ARGS[arg]
    st = q.get_settings()
    try:
        if kind == "value-fn":
            q.set_sig_figs_for_value(x)
        elif kind == "error-fn":
            q.set_sig_figs_for_error(x)
        elif kind == "value-obj":
            st.set_sig_figs_for_value(x)
        elif kind == "error-obj":
            st.set_sig_figs_for_error(x)
        elif kind == "figs-attr":
            st.sig_fig_value = x
        elif kind == "style-fn":
            q.set_print_style(x)
        elif kind == "style-attr":
            st.print_style = x
        elif kind == "unit-style":
            q.set_unit_style(x)
        elif kind == "error-method":
            q.set_error_method(x)
        elif kind == "mc-size":
            q.set_monte_carlo_sample_size(x)
        elif kind == "plot-dims":
            q.set_plot_dimensions(x)
        elif kind == "bad-measurement":
            q.Measurement(1.0, x)
        elif kind == "bad-unit":
            str(q.Measurement(1.0, 0.1, unit=x))
    except Exception:  # noqa: BLE001
        return "rejected"
    return "accepted" if verdict == "invalid" else "accepted-with-a-meaning"


FAULT_STATS = collections.Counter()


def session(q, steps):
    """print the steps one after the other in THIS interpreter (printing must not depend on what
    was printed or configured before, so the order must not matter); returns the texts.  A step may
    carry `faults`: rejected requests sent between reaching its configuration and its print."""
    global FIRST_STEP
    outs = []
    last = None
    kept = {}
    if FIRST_STEP is None and steps:
        FIRST_STEP = step_of(steps[0])        # the very first print of this interpreter
    for c in steps:
        route = c.get("route", "reset")
        key = (c["style"], c["mode"], c["n"])
        if key != last or route != "reset":
            configure(q, *key, route=route)
            last = key
        skip = None
        for f in c.get("faults") or []:
            r = apply_fault(q, f)
            FAULT_STATS["rejected-request:{}:{}".format(f[0], r)] += 1
            FAULT_STATS["rejected-request:argument:{}".format(f[1])] += 1
            if r == "accepted-with-a-meaning":
                skip = f            # the library gave the request a meaning: another configuration
            last = None             # (the next step reaches its configuration anew)
        if skip is not None:
            outs.append("SKIP accepted " + fault_text(skip))
            continue
        outs.append(show(q, c["v"], c["e"], c.get("how", "str"), c.get("from"), kept))
    q.reset_default_configuration()
    return outs


def fresh_session(steps):
    """the same in a NEW interpreter (no earlier print, no earlier configuration): what a replay
    file must reproduce on its own"""
    import os
    import subprocess
    import sys
    import common as C
    code = ("import sys, json\n"
            "sys.path[:0] = [{!r}, {!r}]\n"
            "from props import c09\n"
            "import qexpy as q\n"
            "print('\\n' + json.dumps(c09.session(q, json.load(sys.stdin))))\n").format(
                os.path.dirname(os.path.dirname(os.path.abspath(__file__))), C.REPO)
    p = subprocess.run([sys.executable, "-c", code], input=json.dumps(steps), capture_output=True,
                       text=True, timeout=300)
    if p.returncode != 0:
        raise RuntimeError("fresh interpreter failed: " + p.stderr[-400:])
    return json.loads(p.stdout.strip().splitlines()[-1])


def dec_ratio(x):
    """the shortest decimal that round-trips to the float (what the user wrote), exactly"""
    f = F(repr(float(x)))
    return [str(f.numerator), str(f.denominator)]


def scaled_ratio(x, sgn):
    f = F(*float(x).as_integer_ratio()) * (1 + F(sgn, 2 ** 40))
    return [str(f.numerator), str(f.denominator)]


def ratio(x):
    n, d = float(x).as_integer_ratio()
    return [str(n), str(d)]


# ------------------------------------------------------------------ generator
def dec(m, k):
    """m * 10^k as the nearest float"""
    return float(F(m) * F(10) ** k)


def gen_number(rng, dist):
    d = rng.choice([1, 1, 2, 2, 3, 3, 4, 5, 6, 7, 8, 9, 10, 11, 12])
    kind = rng.random()
    if kind < 0.40:
        m, tag = rng.randint(10 ** (d - 1), 10 ** d - 1), "random"
    elif kind < 0.55:
        m, tag = 10 ** d - rng.randint(1, max(1, min(5 * 10 ** (d - 1), 50))), "below-decade"
    elif kind < 0.68:
        m, tag = 10 ** (d - 1), "power-of-ten"
    elif kind < 0.78:
        d = rng.choice([10, 11, 12])
        m, tag = 10 ** (d - 1) + rng.choice([-1, 1, 2, -2, 7]), "near-power-of-ten"
        if m < 10 ** (d - 1):
            m = 10 ** d + (m - 10 ** (d - 1))  # 99999999999x
    elif kind < 0.90:
        m, tag = (rng.randint(10 ** (d - 1), 10 ** d - 1) // 10) * 10 + 5, "tie-5"
        if m >= 10 ** d or m < 10 ** (d - 1):
            m = 10 ** (d - 1) + 5 if d > 1 else 5
    else:
        m, tag = rng.choice([95, 949, 951, 9949, 9951, 995, 96, 996, 9996, 15, 25, 35, 45, 55]), "carry-edge"
        d = len(str(m))
    k = rng.randint(-12, 12)          # order of magnitude of the number
    dist["num:" + tag] += 1
    return dec(m, k - (d - 1))


def gen_pair(rng, dist):
    r = rng.random()
    v = gen_number(rng, dist) * rng.choice([1, 1, -1])
    e = gen_number(rng, dist)
    if r < 0.07:
        v, tag = 0.0, "v=0"
    elif r < 0.14:
        e, tag = 0.0, "e=0"
    elif r < 0.16:
        v, e, tag = 0.0, 0.0, "both=0"
    elif r < 0.60:
        # uncertainty at a ratio to the value that keeps the printed digits few
        import math
        kv = math.floor(math.log10(abs(v)))
        ke = kv - rng.randint(-2, 6)
        ke = max(-12, min(11, ke))
        d = rng.randint(1, 4)
        m = rng.choice([rng.randint(10 ** (d - 1), 10 ** d - 1), 10 ** d - 1, 10 ** (d - 1),
                        10 ** d - rng.randint(1, 5)])
        m = max(m, 1)
        e, tag = dec(m, ke - (len(str(m)) - 1)), "ratio-modest"
    else:
        tag = "independent"
    dist["pair:" + tag] += 1
    return v, e


def in_domain(v, e):
    return (v == 0 or 1e-12 <= abs(v) <= 1e12) and (e == 0 or 1e-12 <= e <= 1e12)


def digits(p):
    return max(len(p["mv"].lstrip("-")), len(p["me"].lstrip("-")))


def classify(case, p, spec):
    if case["e"] != 0 and p["de"] != p["dv"]:
        return "common-place"
    if spec.get("pivotZero"):
        return "faithful"
    allowed = {min(spec["p0"], p["p"])}
    if spec.get("carryAllowed"):
        allowed.add(min(spec["p0"] + 1, p["p"]))
    if spec["place"] not in allowed:
        return "place"
    return "rounding"


def run(ctx, cases, ref=False, outs=None):
    """cases: dicts v, e, style, mode, n, how (+ route, from, history).  `outs`: the texts when they were
    produced elsewhere (history scenarios, a fresh interpreter); otherwise the cases are printed one
    after the other in this interpreter.
    Returns (failures, nontrivial, skipped, dist, samples)."""
    if outs is None:
        import qexpy as q
        outs = session(q, cases)
    lines = []
    parsed = []
    for c, s in zip(cases, outs):
        base = {"v": ratio(c["v"]), "e": ratio(c["e"]), "style": c["style"], "mode": c["mode"],
                "n": c["n"]}
        lines.append(dict(base, cmd="print_model"))
        lines.append(dict(base, cmd="print_model", v=dec_ratio(c["v"]), e=dec_ratio(c["e"])))
        p = None if s.startswith(("EXC", "UNPARSED", "SKIP")) else parse(s)
        parsed.append(p)
        if p is not None:
            lines.append(dict(base, cmd="print_spec", text=s))
    replies = ctx.model(lines, ref=ref)
    failures, nontriv, skipped = [], set(), 0
    dist = collections.Counter()
    samples = []
    selftest = []
    i = 0
    for c, s, p in zip(cases, outs, parsed):
        m = replies[i]       # exact model on the floats' exact values
        md = replies[i + 1]  # exact model on the shortest decimals that round-trip to the floats
        i += 2
        spec = None
        if p is not None:
            spec = replies[i]
            i += 1
        inp = {"v": c["v"], "e": c["e"], "style": c["style"], "mode": c["mode"], "n": c["n"],
               "how": c.get("how", "str"), "v_exact": ratio(c["v"]), "e_exact": ratio(c["e"])}
        for k in ("route", "from", "history", "scenario", "faults"):
            if c.get(k) is not None:
                inp[k] = c[k]
        if c.get("batch_index") is not None:
            inp["batch_index"] = c["batch_index"]
        if spec is not None and (spec.get("fail") == "unparsed" or (
                "parsed" in spec and any(str(spec["parsed"][k]) != str(p[k])
                                         for k in ("mv", "me", "dv", "de", "p", "sci", "latex")))):
            failures.append({"signature": "c09:parsers-differ", "kind": "disagreement",
                             "what": "the Lean parser (parsePrinted) and the harness regex read the "
                                     "printed text differently", "input": inp, "impl": s,
                             "expected": p, "lean": spec.get("parsed", spec.get("fail"))})
            continue
        if "fail" in m or "fail" in md or (spec is not None and "fail" in spec):
            failures.append({"signature": "c09:model-error", "kind": "disagreement",
                             "what": "model driver: " + str(m.get("fail") or md.get("fail")
                                                            or spec.get("fail")),
                             "input": inp})
            continue
        mp = m["printed"]
        # the trusted regex parser against the Lean `render` of the model's structured output
        back = parse(m["text"])
        if back is None or any(str(back[k]) != str(mp[k]) for k in ("mv", "me", "dv", "de", "p", "sci", "latex")):
            failures.append({"signature": "c09:parser-roundtrip", "kind": "disagreement",
                             "what": "parse(render(model output)) differs from the model output "
                                     "(harness parser or Lean render wrong)", "input": inp,
                             "impl": back, "expected": mp, "text": m["text"]})
            continue
        dist["parser round trips on rendered model output"] += 1
        if digits(mp) > 12:
            skipped += 1          # more than 12 printed digits: outside the statement's domain
            dist["skipped:>12 digits"] += 1
            continue
        if s.startswith("SKIP"):
            skipped += 1          # a request of the step was accepted with a meaning of its own
            dist["skipped:request accepted with a meaning"] += 1
            continue
        if c.get("faults"):
            dist["print judged after rejected request(s)"] += 1
            dist["print judged after rejected request(s):mode in force " + c["mode"]] += 1
        dist["cfg:{}/{}".format(c["style"], c["mode"])] += 1
        dist["n:{}".format(c["n"])] += 1
        dist["how:" + c.get("how", "str")] += 1
        if c.get("scenario"):
            dist["history-route:" + c.get("route", "reset")] += 1
        cls = "{}:{}".format(c["style"], c["mode"])
        if c.get("faults"):
            cls += ":after-rejected-request"
        if s.startswith("UNPARSED"):
            failures.append({"signature": "c09:wrapper-format:" + c.get("how", "str"),
                             "kind": "disagreement", "what": "repr()/str(array) no longer wrap the "
                             "printed pair the way the harness strips it", "input": inp, "impl": s,
                             "expected": m["text"]})
            continue
        if s.startswith("EXC"):
            failures.append({"signature": "c09:exception:{}:{}:{}".format(
                c["style"], "v=0" if c["v"] == 0 else "v!=0", s.split(":")[0][4:]),
                "kind": "violation", "oracle": "independent",
                "what": "formatting raised " + s[4:], "input": inp, "impl": s,
                "expected": m["text"], "clause": "formatting succeeds"})
            continue
        if p is None:
            failures.append({"signature": "c09:unparsed:" + cls, "kind": "violation",
                             "oracle": "independent", "what": "printed text is not of the "
                             "documented shape", "input": inp, "impl": s, "expected": m["text"],
                             "clause": "text reads back as numbers"})
            continue
        carry = (not spec["pivotZero"]) and (mp["p"] - mp["dv"] == min(spec["p0"] + 1, mp["p"])
                                             and spec["p0"] + 1 <= mp["p"])
        if carry or c["v"] == 0 or c["e"] == 0 or (mp["sci"] and mp["p"] < 0):
            nontriv.add(canon_hash([inp["v_exact"], inp["e_exact"], c["style"], c["mode"], c["n"]]))
            dist["nontrivial:" + ("carry" if carry else "zero" if c["v"] == 0 or c["e"] == 0
                                  else "negative-order")] += 1
        if not m.get("ok", True):
            failures.append({"signature": "c09:model-not-ok:" + cls, "kind": "disagreement",
                             "what": "the model's own output does not satisfy PrintedOK (contradicts "
                                     "C09_model_ok: driver and proof out of step)", "input": inp,
                             "expected": m["text"]})
        if spec["ok"] and len(selftest) < 200 and (len(selftest) < 40 or carry):
            selftest.append((dict(v=ratio(c["v"]), e=ratio(c["e"]), style=c["style"], mode=c["mode"],
                                  n=c["n"]), p, spec))
        if not spec["ok"]:
            why = classify(c, p, spec)
            failures.append({"signature": "c09:spec:{}:{}".format(why, cls), "kind": "violation",
                             "oracle": "independent",
                             "what": "printed pair is not the correctly rounded pair ({})".format(why) + (
                                 " -- the configuration in force was reached, then these requests were sent "
                                 "(rejected ones configure nothing): " + "; ".join(
                                     fault_text(f) for f in c["faults"]) if c.get("faults") else ""),
                             "input": inp, "impl": s, "impl_parsed": p, "expected": m["text"],
                             "spec": spec, "clause": "PrintedOK"})
            continue
        # structure against the exact model (the property itself holds on this output)
        # one unit of the place the pair was rounded at, in units of the last printed digit
        slack = 1 if spec["pivotZero"] else 10 ** max(0, spec["p0"] + (1 if carry else 0) - spec["place"])

        def structure_diff(mp):
            diff = [k for k in ("p", "dv", "de", "sci", "latex") if p[k] != mp[k]]
            if abs(int(p["mv"]) - int(mp["mv"])) > slack:
                diff.append("mv")
            if abs(int(p["me"]) - int(mp["me"])) > slack:
                diff.append("me")
            return diff
        diff = structure_diff(mp)
        if diff and not structure_diff(md["printed"]):
            dist["matches decimal-input model only"] += 1
            diff = []
        if diff and dist["alternative-input model runs"] < 60:
            dist["alternative-input model runs"] += 1
            # a rounding tie of the pivot that binary division resolves the other way changes
            # the structure (carry or no carry): the implementation must then agree with the
            # exact algorithm on an input within 2^-40 (relative) of the actual one
            def variants(x):
                return [ratio(x), dec_ratio(x), scaled_ratio(x, -1), scaled_ratio(x, 1)]
            alts = ctx.model([dict(cmd="print_model", style=c["style"], mode=c["mode"], n=c["n"],
                                   v=vv, e=ee)
                              for vv in variants(c["v"]) for ee in variants(c["e"])], ref=ref)
            if any("fail" not in a and not structure_diff(a["printed"]) for a in alts):
                dist["matches model on input*(1 +- 2^-40) only"] += 1
                diff = []
        if diff:
            failures.append({"signature": "c09:structure:{}:{}".format(",".join(diff), cls),
                             "kind": "disagreement",
                             "what": "implementation output differs from the exact model in " +
                                     ",".join(diff) + " (PrintedOK holds for it)",
                             "input": inp, "impl": s, "expected": m["text"],
                             "expected_decimal_input": md["text"]})
            continue
        if len(samples) < 5 and (carry or len(samples) < 2):
            samples.append({"input": {k: inp[k] for k in ("v", "e", "style", "mode", "n")},
                            "impl": s, "model": m["text"], "PrintedOK": spec["ok"]})
    failures += spec_selftest(ctx, selftest, dist, ref)
    return failures, nontriv, skipped, dist, samples


def spec_selftest(ctx, items, dist, ref=False):
    """PrintedOK must not be vacuous: outputs it accepted are damaged (mantissa moved by twelve units of
    the rounding place; one more printed decimal) and must then be rejected"""
    lines, meta = [], []
    for base, p, spec in items[:200]:
        clipped = (not spec["pivotZero"]) and spec["place"] not in (spec["p0"], spec["p0"] + 1)
        if clipped:
            continue
        # 12 units: when rounding may carry, the spec also accepts the next coarser place, of which
        # 2 fine units are only 0.2 unit (a thorough-tier run met that: 1 case in 1.2 million)
        a = dict(p, mv=str(int(p["mv"]) + 12))
        lines.append(dict(base, cmd="print_spec", printed=a))
        meta.append(("value moved by 12 units", base, a))
        if not spec["pivotZero"] and spec["place"] == spec["p0"]:
            b = dict(p, mv=str(int(p["mv"]) * 10), me=str(int(p["me"]) * 10), dv=p["dv"] + 1,
                     de=p["de"] + 1)
            lines.append(dict(base, cmd="print_spec", printed=b))
            meta.append(("one more decimal than the place", base, b))
    if not lines:
        return []
    out = []
    for (what, base, pr), r in zip(meta, ctx.model(lines, ref=ref)):
        dist["spec self-test: " + what + (" rejected" if not r.get("ok") else " ACCEPTED")] += 1
        if r.get("ok"):
            out.append({"signature": "c09:spec-selftest", "kind": "disagreement",
                        "what": "PrintedOK accepted a damaged output (" + what + ")",
                        "input": {"v": base["v"], "e": base["e"], "style": base["style"],
                                  "mode": base["mode"], "n": base["n"]}, "impl": pr})
    return out[:1]


def corpus():
    """inputs named in the design / found earlier: always run first"""
    pairs = [(0.0, 0.5), (0.0, 0.0), (1.234, 0.096), (9.96, 0.34), (99.96, 0.04), (0.0996, 0.00034),
             (1e-5, 3.41e-5), (1e-4, 1e-4), (-1e-9, 3.667e-9), (1e-10, 4.699e-9), (-0.1, 0.001),
             (0.0, 1e-4), (4e-4, 1e-4), (-6.676348e-10, 1e-10), (1234.0, 56789.0), (57321.0, 1234.0),
             (-0.04, 0.5), (-0.14, 0.96), (1.245, 0.0996), (0.995, 0.995), (1000.0, 1000.0),
             (999.9, 0.96), (1e12, 1e12), (1e-12, 1e-12), (-5.0, 0.0), (123456.789, 0.0),
             (0.15, 0.15), (2.5, 2.5), (3.5, 0.5), (1e3, 9.5), (1e-3, 9.5e-5)]
    out = []
    for v, e in pairs:
        for style in STYLES:
            for mode in MODES:
                for n in (1, 2, 3, 6):
                    out.append({"v": v, "e": e, "style": style, "mode": mode, "n": n})
    return out


def make_cases(ctx, n_pairs, dist):
    cases = []
    for _ in range(n_pairs):
        v, e = gen_pair(ctx.rng, dist)
        if not in_domain(v, e):
            continue
        cfgs = [(s, m) for s in STYLES for m in MODES]
        for style, mode in cfgs:
            for n in ctx.rng.sample(range(1, 7), 2 if ctx.quick else 6):
                how = "str"
                r = ctx.rng.random()
                if r < 0.04:
                    how = "repr"
                elif r < 0.08:
                    how = "array"
                c = {"v": v, "e": e, "style": style, "mode": mode, "n": n, "how": how}
                if 0.08 <= r < 0.11:
                    c["faults"] = gen_faults(ctx.rng, mode)   # a rejected request right before the print
                cases.append(c)
    cases.sort(key=lambda c: (c["style"], c["mode"], c["n"]))
    return cases


# ------------------------------------------------------------------ histories
SCENARIOS = ["mode-switch", "style-switch", "n-switch", "repeat", "neighbour-pair", "mixed",
             "rejected-request", "rejected-request"]
STEP_KEYS = ("v", "e", "style", "mode", "n", "how", "route", "from", "faults")


def step_of(c):
    return {k: c[k] for k in STEP_KEYS if c.get(k) is not None}


def gen_history(rng, dist):
    """a short session: 2-5 prints about ONE pair (or a pair and its neighbours: same value with
    another uncertainty, same uncertainty with another value) under configurations that differ in
    exactly the mode / the style / the number of figures, or not at all; the configuration is reached
    with or without a reset, through the module functions or the settings object; the pair is printed
    through str / repr / an array / with name and unit / after re-assigning value and uncertainty of
    an object that was already printed.  EVERY print of the session is judged (the printed text is a
    function of the pair and the configuration in force, whatever was printed or configured before);
    a failing step carries the steps before it as its `history`."""
    while True:
        v, e = gen_pair(rng, dist)
        v2, e2 = gen_pair(rng, dist)
        if in_domain(v, e) and in_domain(v2, e2):
            break
    kind = rng.choice(SCENARIOS)
    style, mode, n = rng.choice(STYLES), rng.choice(MODES), rng.randint(1, 6)
    pairs = [(v, e)]
    if kind in ("neighbour-pair", "mixed"):
        pairs += [(v, e2), (v2, e)]
    steps = []
    for i in range(rng.randint(2, 5)):
        if i:
            what = kind if kind not in ("mixed", "neighbour-pair", "rejected-request") else rng.choice(
                ["mode-switch", "style-switch", "n-switch", "repeat"])
            if what == "mode-switch":
                mode = rng.choice([m for m in MODES if m != mode])
            elif what == "style-switch":
                style = rng.choice([x for x in STYLES if x != style])
            elif what == "n-switch":
                n = rng.choice([k for k in range(1, 7) if k != n])
        pv, pe = pairs[0] if kind not in ("neighbour-pair", "mixed") else rng.choice(pairs)
        st = {"v": pv, "e": pe, "style": style, "mode": mode, "n": n,
              "how": rng.choice(HOWS_HISTORY), "route": rng.choice(ROUTES)}
        if st["how"] == "edited":
            st["from"] = list(rng.choice(pairs + [(v2, e2)]))
        # FAULTS: rejected requests between reaching the configuration and the print (always in the
        # scenario made for them, now and then in the others)
        if (kind == "rejected-request" and (i or rng.random() < 0.5)) or rng.random() < 0.12:
            st["faults"] = gen_faults(rng, mode)
            dist["history-step:with rejected request(s) before the print"] += 1
        steps.append(st)
    dist["history-scenario:" + kind] += 1
    return kind, steps


def run_histories(ctx, n_sessions, dist, ref=False):
    import qexpy as q
    cases, outs = [], []
    for _ in range(n_sessions):
        kind, steps = gen_history(ctx.rng, dist)
        texts = session(q, steps)
        for i, (st, t) in enumerate(zip(steps, texts)):
            cases.append(dict(st, history=[dict(x) for x in steps[:i]], scenario=kind))
            outs.append(t)
            dist["history-step:prints-before-the-judged-one:{}".format(i)] += 1
    f, nt, sk, d, sm = run(ctx, cases, ref=ref, outs=outs)
    return len(cases), f, nt, sk, d, sm


def fresh_many(sessions):
    """several independent new interpreters at once (8 in parallel) -> list of lists of texts"""
    from concurrent.futures import ThreadPoolExecutor
    if not sessions:
        return []
    with ThreadPoolExecutor(max_workers=8) as ex:
        return list(ex.map(fresh_session, sessions))


def fresh_verdicts(ctx, sessions, kinds, ref=False):
    """for every session: does its LAST step fail (with a failure of the given kind) when the steps are
    printed in a new interpreter?"""
    outs = fresh_many(sessions)
    lasts = [dict(step_of(steps[-1]), batch_index=k) for k, steps in enumerate(sessions)]
    fs = run(ctx, lasts, ref=ref, outs=[o[-1] for o in outs])[0]      # one model call for all
    bad = {f["input"].get("batch_index") for f in fs
           if isinstance(f.get("input"), dict) and f.get("kind") == kinds[f["input"].get("batch_index", 0)]
           and not f["signature"].startswith("c09:spec-selftest")}
    return [k in bad for k in range(len(sessions))]


def make_standalone(ctx, fails, batch, dist, ref=False, budget=6):
    """A reported failure must reproduce from its replay file alone.  Every case is printed in a NEW
    interpreter: alone; if that passes, after its recorded history (history scenarios) or after the
    earlier prints of the same pair in this run (batch), which is then minimised (for at most
    `budget` failures; the rest is marked unverified).  The failure records are rewritten."""
    fails = [f for f in fails if isinstance(f.get("input"), dict) and "style" in f["input"]]
    if not fails:
        return
    alone = fresh_verdicts(ctx, [[step_of(f["input"])] for f in fails], [f.get("kind") for f in fails], ref)
    for f, ok in zip(fails, alone):
        inp = f["input"]
        idx = inp.pop("batch_index", None)
        if ok:
            dist["failure reproduced in a fresh interpreter: alone"] += 1
            inp.pop("history", None)
            f["standalone"] = "alone"
            continue
        if budget <= 0:
            f["standalone"] = "unverified"
            inp.pop("history", None)
            continue
        budget -= 1
        case, kind = step_of(inp), f.get("kind")
        hist = [step_of(h) for h in inp.get("history") or []]
        if not hist and idx is not None:
            hist = [step_of(b) for b in batch[:idx] if b["v"] == case["v"] and b["e"] == case["e"]][-32:]
        if FIRST_STEP is not None and FIRST_STEP not in hist and FIRST_STEP != case:
            hist = [FIRST_STEP] + hist        # state fixed by the first print of the interpreter
        best = None
        try:
            if hist and fresh_verdicts(ctx, [hist + [case]], [kind], ref)[0]:
                # minimise: a single earlier print first, then greedy removal
                single = fresh_verdicts(ctx, [[h, case] for h in hist], [kind] * len(hist), ref)
                if any(single):
                    best = [hist[single.index(True)]]
                else:
                    best = list(hist)
                    for j in range(len(best) - 1, -1, -1):
                        trial = best[:j] + best[j + 1:]
                        if trial and fresh_verdicts(ctx, [trial + [case]], [kind], ref)[0]:
                            best = trial
        except Exception as ex:  # noqa: BLE001
            f["standalone_error"] = "{}: {}".format(type(ex).__name__, ex)
        if best:
            inp["history"] = best
            f["standalone"] = "with-history"
            f["signature"] += ":after-history"
            f["what"] += (" -- only after {} earlier print(s) in the same interpreter (the replay file "
                          "carries them as `history`); printed alone in a fresh interpreter the pair is "
                          "right".format(len(best)))
            f["clause"] = (f.get("clause") or "PrintedOK") + "; for every configuration (the text is a " \
                "function of the pair and the configuration in force)"
            dist["failure reproduced in a fresh interpreter: after a minimised history"] += 1
            continue
        inp.pop("history", None)
        f["standalone"] = "not-reproduced"
        f["what"] += (" -- seen in the session of this run; NOT reproduced in a fresh interpreter, neither "
                      "alone nor after the earlier prints of the same pair")
        dist["failure not reproduced in a fresh interpreter"] += 1


def correspond(ctx, ref=False, boost=1):
    dist = collections.Counter()
    cases = corpus() + make_cases(ctx, ctx.n(450, 24000) * boost, dist)
    for i, c in enumerate(cases):
        c["batch_index"] = i
    failures, nontriv, skipped, d2, samples = [], set(), 0, collections.Counter(), []
    # sessions about one pair first (in a clean interpreter when the corpus is empty)
    nh, f, nt, sk, d, sm = run_histories(ctx, ctx.n(120, 6000) * boost, dist, ref=ref)
    failures += f
    nontriv |= nt
    skipped += sk
    d2.update(d)
    samples += sm[:2]
    CH = 40000
    for i in range(0, len(cases), CH):
        f, nt, sk, d, sm = run(ctx, cases[i:i + CH], ref=ref)
        failures += f
        nontriv |= nt
        skipped += sk
        d2.update(d)
        samples += sm
    dist.update(d2)
    dist.update(FAULT_STATS)
    FAULT_STATS.clear()
    def size(f):
        inp = f.get("input")
        if not isinstance(inp, dict):
            return 0
        return (len(str(inp["v"])) + len(str(inp["e"])) + 40 * len(inp.get("history") or [])
                + 10 * len(inp.get("faults") or []))
    # per signature two representatives: the smallest case printed in the batch and the smallest step
    # of a history scenario (it knows what was printed before it)
    groups = collections.OrderedDict()
    for f in sorted(failures, key=size):
        g = groups.setdefault(f["signature"], {})
        k = "hist" if isinstance(f.get("input"), dict) and f["input"].get("history") else "plain"
        g.setdefault(k, f)
    reps = [f for g in groups.values() for f in g.values()]
    # every reported failure is re-run in a new interpreter (at most 40; violations first, those with a
    # recorded history first: their minimisation is short)
    reps.sort(key=lambda f: (0 if f.get("kind") == "violation" else 1,
                             0 if isinstance(f.get("input"), dict) and f["input"].get("history") else 1))
    make_standalone(ctx, reps[:40], cases, dist, ref=ref)
    for f in reps[40:]:
        f["standalone"] = "unverified"
    rank = {"alone": 0, "with-history": 1, "not-reproduced": 2, "unverified": 3}
    uniq = [min(g.values(), key=lambda f: rank.get(f.get("standalone"), 4)) for g in groups.values()]
    for f in uniq:
        if isinstance(f.get("input"), dict):
            f["input"].pop("batch_index", None)
    return {"evaluations": len(cases) + nh, "nontrivial": nontriv, "failures": uniq,
            "samples": samples[:5], "distribution": dict(dist), "skipped": skipped,
            "exhaustive": False}


def search(ctx, broken):
    """PrintedOK does not depend on the generated constants: it is the independent oracle.  A
    boosted run evaluates it on many more outputs of the implementation."""
    out = {"failures": [], "strategy": []}
    r = correspond(ctx, boost=4)
    ind = [f for f in r["failures"] if f.get("oracle") == "independent"]
    out["failures"] += ind
    out["strategy"].append("PrintedOK evaluated on {} implementation outputs ({} skipped as out of "
                           "domain; sessions about one pair under changing configurations included; "
                           "every failure re-run in a fresh interpreter): {} failing signatures".format(
                               r["evaluations"], r["skipped"], len(ind)))
    return out


def replay(ctx, rp):
    f = rp.get("failure", {})
    c = f.get("input")
    if not isinstance(c, dict) or "style" not in c:
        return {"fails": False, "note": "replay file carries no concrete input", "payload": rp}
    case = step_of(c)
    hist = [step_of(h) for h in c.get("history") or []]
    if hist:
        # the history and the judged print in a NEW interpreter: self-contained
        outs = fresh_session(hist + [case])
        fs = run(ctx, [dict(case, history=hist)], outs=[outs[-1]])[0]
        return {"fails": bool(fs), "impl": outs[-1], "history_outputs": outs[:-1], "failures": fs}
    import qexpy as q
    s = session(q, [case])[0]
    fs = run(ctx, [case], outs=[s])[0]
    if fs:
        # this interpreter may have printed before (corpus cases are replayed one after the other):
        # a case without history must fail on its own
        s2 = fresh_session([case])[0]
        fs2 = run(ctx, [case], outs=[s2])[0]
        if not fs2:
            return {"fails": False, "impl": s2, "note": "fails only after the earlier prints of this "
                    "interpreter ({!r}); alone in a fresh interpreter it prints {!r}".format(s, s2)}
        s, fs = s2, fs2
    return {"fails": bool(fs), "impl": s, "failures": fs}

"""C20 — global settings: validated, atomic, one default, restored after temporary use."""
import collections
import itertools
import json
import math
import os
import subprocess
import sys

import common as C
from common import canon_hash

ID = "C20"
SECTIONS = ["settings"]
LEAN_MODULES = ["QExPy.Props.C20"]
THEOREMS = ["QExPy.C20_valid_print_style",
            "QExPy.C20_valid_unit_style",
            "QExPy.C20_valid_error_method",
            "QExPy.C20_valid_int",
            "QExPy.C20_valid_plot",
            "QExPy.C20_atomic",
            "QExPy.C20_frame",
            "QExPy.C20_stored_int",
            "QExPy.C20_one_default",
            "QExPy.C20_reset_history",
            "QExPy.C20_wf_init",
            "QExPy.C20_wf_step",
            "QExPy.C20_wf_run",
            "QExPy.C20_temp_reject",
            "QExPy.C20_temp_restored",
            "QExPy.C20_temp_size_restored",
            "QExPy.C20_temp_nested"]
RULE = ("programs over the q.set_* functions (and the same setters through attributes of "
        "q.get_settings()), reset_default_configuration, reads and use_mc_sample_size wrappers "
        "(bodies that themselves issue requests, nest, and end by returning or by raising Boom / "
        "ValueError / KeyboardInterrupt / SystemExit / GeneratorExit / a direct subclass of "
        "BaseException; decorated right before the call or before the program starts), arguments "
        "from the alphabet enum member of each of the 4 enum classes / literal strings, their "
        "upper-case, capitalised, blank-padded and member-NAME variants and other strings / ints / "
        "floats incl. nan, inf and numpy.float64 / bools / tuples of length 0-3 incl. numeric "
        "strings / None / list, dict, object, numpy integer, float32 and array, Fraction, bytes; "
        "every option read after every call and compared with the Lean state machine and with "
        "direct property oracles (atomicity, documented-value acceptance, frame, reset = state of a "
        "NEW interpreter process, override restored after every outcome); FunctionOnPlot.yvalues / "
        "yerr with curve functions ending in each of these ways; quick = exhaustive single calls in "
        "3 contexts + random programs of 5-30 statements, thorough = all sequences up to length 4 "
        "over a per-length alphabet; non-trivial = the program contains a rejected call between two "
        "accepted ones, or a raising/nested override; distinct by hash of the program")
ASSUMPTIONS = ["the settings object is only reached through q.set_*, reset_default_configuration, "
               "attributes of q.get_settings() and use_mc_sample_size (no write to the private dict)",
               "bool arguments (True is the int 1 in Python), the AUTO member of ErrorMethod and numbers "
               "that are neither int nor float instances (numpy integers, numpy.float32, Fraction) are "
               "generated and followed by the model but their acceptance is not judged",
               "the wrapped computation is an ordinary call with positional arguments (generator "
               "functions and keyword arguments of the decorated function are outside the statement)",
               "single-threaded use"]
TRUSTED = ["modelled not verified: CPython isinstance / `in` on lists / Enum lookup by value, "
           "try/finally semantics",
           "argument alphabet of the model (Scalar/Arg) stands for all Python objects: anything "
           "that is not an enum member, str, int, float, bool, tuple or None behaves as `other`"]
LEVEL_TEXT = ("Lean 4 theorems about the settings state machine whose default/reset/literal tables "
              "and override structure are regenerated from settings.py on every run, plus a "
              "differential run of op sequences on the real singleton")
LEVEL_NOTE = ("validity, atomicity, frame, one-default and override restoration are proved of the "
              "model; the setters' validation code itself is hand-modelled and tied by the "
              "exhaustive correspondence over the argument alphabet")
TECHNIQUE = ("Lean 4 machine-checked proof over a state-machine model tied to the source by "
             "translator + differential correspondence run")

ENUMS = ["ErrorMethod", "PrintStyle", "UnitStyle", "SigFigMode"]
SET_OPS = ["set_error_method", "set_print_style", "set_unit_style", "sig_fig_value",
           "set_sig_figs_for_value", "set_sig_figs_for_error", "set_monte_carlo_sample_size",
           "set_plot_dimensions"]
# attribute of q.get_settings() that is the same setter (None: function only)
ATTR = {"set_error_method": "error_method", "set_print_style": "print_style",
        "set_unit_style": "unit_style", "sig_fig_value": "sig_fig_value",
        "set_monte_carlo_sample_size": "monte_carlo_sample_size",
        "set_plot_dimensions": "plot_dimensions"}
OWN_ENUM = {"set_error_method": "ErrorMethod", "set_print_style": "PrintStyle",
            "set_unit_style": "UnitStyle"}
FIELDS_OF = {"set_error_method": ["em"], "set_print_style": ["ps"], "set_unit_style": ["us"],
             "sig_fig_value": ["sv"], "set_sig_figs_for_value": ["sv", "sm"],
             "set_sig_figs_for_error": ["sv", "sm"], "set_monte_carlo_sample_size": ["mc"],
             "set_plot_dimensions": ["pw", "ph"]}


class Boom(Exception):
    """raised by wrapped bodies; must come out of the wrapper unchanged"""


class BaseBoom(BaseException):
    """a class derived directly from BaseException (like KeyboardInterrupt / SystemExit /
    GeneratorExit it is not seen by `except Exception:`)"""


# how a wrapped computation may end by raising: class name -> class.  The statement quantifies over
# "all wrapped computations including those that raise": classes derived from Exception (Boom, and
# ValueError = the class the setters themselves raise) and classes that are not (an interrupted
# curve evaluation raises KeyboardInterrupt).
RAISES = {"Boom": Boom, "ValueError": ValueError, "KeyboardInterrupt": KeyboardInterrupt,
          "SystemExit": SystemExit, "GeneratorExit": GeneratorExit, "BaseBoom": BaseBoom}
NON_EXCEPTION = [n for n, c in RAISES.items() if not issubclass(c, Exception)]


def raise_name(s):
    """the statement's "raise" key: absent / False = returns, True = Boom, or a name in RAISES"""
    r = s.get("raise")
    if not r:
        return None
    return "Boom" if r is True else str(r)


def outcome_label(name):
    return "raised:" + name if name else "ok"


# ------------------------------------------------------------------ argument alphabet
def A_enum(ty, m):
    return {"k": "enum", "ty": ty, "m": m}


def A_str(s):
    return {"k": "str", "v": s}


def A_int(n):
    return {"k": "int", "v": n}


def A_float(x, np=False):
    """a Python float; np=True: the same value as numpy.float64 (a subclass of float)"""
    if x != x:
        a = {"k": "float", "v": "nan"}
    elif math.isinf(x):
        a = {"k": "float", "v": "inf" if x > 0 else "-inf"}
    else:
        n, d = float(x).as_integer_ratio()
        a = {"k": "float", "v": [n, d]}
    if np:
        a["np"] = True
    return a


def A_bool(b):
    return {"k": "bool", "v": bool(b)}


def A_tuple(*xs):
    return {"k": "tuple", "v": list(xs)}


A_NONE = {"k": "none"}


def A_other(what):
    return {"k": "other", "what": what}


def enum_members(q):
    return {ty: [m.name for m in getattr(q, ty)] for ty in ENUMS}


# kinds of the extended alphabet: used for every single call in 3 contexts (both tiers) and by the
# random programs, but left out of the exhaustive length-2 enumeration of the thorough tier
EXT_KINDS = ("str:variant", "float:np", "tuple:ext", "other:ext")
# numbers that are neither `int` nor `float` instances: the statement ("positive integers", "positive
# numbers") is silent on them, the code refuses them, the model follows the code (`other`), and
# their acceptance is not judged
NOT_JUDGED_NUMBERS = ("np.int64", "np.float32", "Fraction")


def alphabet(q):
    """full argument alphabet, each with a coarse kind label for the distribution"""
    out = []
    mem = enum_members(q)
    for ty in ENUMS:
        for m in mem[ty]:
            out.append(("enum:" + ty, A_enum(ty, m)))
    lits = sorted({m.value for ty in ENUMS for m in getattr(q, ty)})
    for s in lits:
        out.append(("str:literal", A_str(s)))
    for s in ["", "Default", "DEFAULT", "DERIVATIVE", "bogus", "monte_carlo", "latex ", "5"]:
        out.append(("str:other", A_str(s)))
    # near misses of every literal: other case, surrounding blanks, the member NAME instead of its
    # value (a setter that normalises its argument accepts them)
    have = {a["v"] for k, a in out if a["k"] == "str"}
    names = sorted({m.name for ty in ENUMS for m in getattr(q, ty)})
    for v in [f(x) for x in lits for f in (str.upper, str.capitalize, " {}".format, "{} ".format,
                                            lambda t: t.replace("-", "_"))] + names:
        if v not in have:
            have.add(v)
            out.append(("str:variant", A_str(v)))
    for n in [-1, 0, 1, 2, 7, 10 ** 6, 10 ** 20, -10 ** 20]:
        out.append(("int", A_int(n)))
    for x in [1.0, 2.5, 0.0, -1.5, 1e-300, float("inf"), float("-inf"), float("nan")]:
        out.append(("float", A_float(x)))
    out += [("float:np", A_float(5.0, np=True)), ("float:np", A_float(2.5, np=True))]
    out += [("bool", A_bool(True)), ("bool", A_bool(False)), ("none", A_NONE)]
    tup = [A_tuple(A_float(6.4), A_float(4.8)), A_tuple(A_int(1), A_int(2)),
           A_tuple(A_float(1.5), A_int(3)), A_tuple(A_int(0), A_int(1)),
           A_tuple(A_int(1), A_float(-1.0)), A_tuple(A_int(1)), A_tuple(A_int(1), A_int(2), A_int(3)),
           A_tuple(), A_tuple(A_str("a"), A_int(1)), A_tuple(A_NONE, A_int(1)),
           A_tuple(A_bool(True), A_int(2)), A_tuple(A_float(float("nan")), A_float(1.0)),
           A_tuple(A_float(1.0), A_float(float("nan"))), A_tuple(A_float(float("inf")), A_float(2.0)),
           A_tuple(A_float(float("-inf")), A_float(2.0)),
           A_tuple(A_tuple(A_int(1), A_int(2)), A_int(3)), A_tuple(A_int(1), A_other("list")),
           A_tuple(A_float(0.0), A_float(1.0)), A_tuple(A_enum("UnitStyle", mem["UnitStyle"][0]), A_int(1))]
    for t in tup:
        out.append(("tuple", t))
    for t in [A_tuple(A_str("6.4"), A_float(4.8)), A_tuple(A_int(3), A_str("2")),
              A_tuple(A_float(6.4, np=True), A_float(4.8)), A_tuple(A_other("np.int64"), A_int(4)),
              A_tuple(A_other("np.float32"), A_int(1)), A_tuple(A_other("Fraction"), A_int(1)),
              A_tuple(A_float(2.0), A_float(3.0), A_float(-1.0)), A_tuple(A_other("bytes"), A_int(1))]:
        out.append(("tuple:ext", t))
    for w in ["list", "dict", "object", "np.int64", "np.array", "bytes"]:
        out.append(("other", A_other(w)))
    for w in ["np.float32", "Fraction", "list3", "str-list"]:
        out.append(("other:ext", A_other(w)))
    return out


def build(q, a):
    """JSON argument -> the Python object handed to the library"""
    import numpy as np
    k = a["k"]
    if k == "enum":
        return getattr(getattr(q, a["ty"]), a["m"])
    if k == "str":
        return a["v"]
    if k == "int":
        return int(a["v"])
    if k == "float":
        v = a["v"]
        x = float(v) if isinstance(v, str) else v[0] / v[1]
        return np.float64(x) if a.get("np") else x
    if k == "bool":
        return bool(a["v"])
    if k == "tuple":
        return tuple(build(q, x) for x in a["v"])
    if k == "none":
        return None
    import fractions
    w = a.get("what", "object")
    return {"list": [6.4, 4.8], "dict": {"a": 1}, "object": object(), "np.int64": np.int64(5),
            "np.array": np.array([1, 2]), "bytes": b"latex", "np.float32": np.float32(2.5),
            "Fraction": fractions.Fraction(5, 1), "list3": [1, 2, 3],
            "str-list": ["latex"]}.get(w, object())


def model_arg(a):
    """strip harness-only keys"""
    if a["k"] == "tuple":
        return {"k": "tuple", "v": [model_arg(x) for x in a["v"]]}
    if a["k"] == "other":
        return {"k": "other"}
    if a["k"] == "float":
        return {"k": "float", "v": a["v"]}
    return a


def model_prog(prog):
    out = []
    for s in prog:
        if s["op"] == "temp":
            name = raise_name(s)
            out.append({"op": "temp", "size": model_arg(s["size"]),
                        "raise": {"cls": name, "exc": issubclass(RAISES[name], Exception)}
                        if name else False,
                        "body": model_prog(s["body"])})
        elif "arg" in s:
            out.append({"op": s["op"], "arg": model_arg(s["arg"])})
        else:
            out.append({"op": s["op"]})
    return out


# ------------------------------------------------------------------ observing the real singleton
def canon_num(x):
    if isinstance(x, bool):
        x = int(x)
    if isinstance(x, int):
        return [x, 1]
    x = float(x)
    if x != x:
        return "nan"
    if math.isinf(x):
        return "inf" if x > 0 else "-inf"
    n, d = x.as_integer_ratio()
    return [n, d]


def state(q, s=None):
    s = s if s is not None else q.get_settings()
    pd = s.plot_dimensions
    try:
        pw, ph = canon_num(pd[0]), canon_num(pd[1])
    except Exception:  # noqa: BLE001
        pw = ph = "unreadable:" + repr(pd)

    def nm(v):
        return getattr(v, "name", None) if hasattr(v, "name") else "not-a-member:" + repr(v)

    def num(v):
        return int(v) if isinstance(v, (int, bool)) else "not-an-int:" + repr(v)
    return {"em": nm(s.error_method), "ps": nm(s.print_style), "us": nm(s.unit_style),
            "sm": nm(s.sig_fig_mode), "sv": num(s.sig_fig_value),
            "mc": num(s.monte_carlo_sample_size), "pw": pw, "ph": ph}


def new_session(q):
    """a new Settings object in this process (what `import qexpy` does once per session)"""
    import qexpy.settings.settings as S
    old = q.get_settings()
    setattr(S.Settings, "_Settings__instance", None)
    new = q.get_settings()
    if new is old:
        # the singleton is kept somewhere else than the harness knows: fall back to the public reset
        q.reset_default_configuration()
    return new


_FRESH = {}


def fresh_vs_reset_in_customised_session():
    """a NEW interpreter whose plotting defaults were customised before QExPy is first imported
    (matplotlibrc / style sheet / rcParams — the documented ways to configure matplotlib): the
    options right after import, and after a change followed by reset_default_configuration()"""
    code = ("import sys, json; sys.path.insert(0, {!r}); sys.path.insert(0, {!r}); "
            "import matplotlib; matplotlib.rcParams['figure.figsize'] = (9.0, 3.0); "
            "matplotlib.rcParams['figure.dpi'] = 50; "
            "import qexpy as q; from props import c20; a = c20.state(q); "
            "q.set_plot_dimensions((5, 5)); q.set_monte_carlo_sample_size(77); "
            "q.set_sig_figs_for_value(4); q.reset_default_configuration(); b = c20.state(q); "
            "print('STATE=' + json.dumps([a, b]))").format(
                C.REPO, os.path.dirname(os.path.dirname(os.path.abspath(__file__))))
    env = dict(os.environ, MPLBACKEND="Agg")
    p = subprocess.run([sys.executable, "-c", code], capture_output=True, text=True, env=env,
                       timeout=300)
    line = [l for l in p.stdout.splitlines() if l.startswith("STATE=")]
    if not line:
        raise RuntimeError("customised interpreter did not report its settings: " + p.stderr[-500:])
    a, b = json.loads(line[0][6:])
    if a != b:
        diff = [f for f in a if b.get(f) != a[f]]
        return [{"signature": "c20:reset-default:customised-session:" + ",".join(diff),
                 "oracle": "independent", "kind": "violation",
                 "what": "in a session whose matplotlib defaults were customised before qexpy was "
                         "imported (rcParams figure.figsize = (9, 3)), reset_default_configuration() "
                         "does not give the options of the freshly started session (" + ",".join(diff) + ")",
                 "clause": "reset = fresh session", "impl": b, "expected": a,
                 "input": [{"op": "customised-session"}], "subprocess": True}]
    return []


def fresh_process_state():
    """the options as a NEW interpreter process sees them right after `import qexpy`"""
    if "v" not in _FRESH:
        code = ("import sys, json; sys.path.insert(0, {!r}); sys.path.insert(0, {!r}); "
                "import qexpy as q; from props import c20; "
                "print('STATE=' + json.dumps(c20.state(q)))").format(
                    C.REPO, os.path.dirname(os.path.dirname(os.path.abspath(__file__))))
        env = dict(os.environ, MPLBACKEND="Agg")
        p = subprocess.run([sys.executable, "-c", code], capture_output=True, text=True, env=env,
                           timeout=300)
        line = [l for l in p.stdout.splitlines() if l.startswith("STATE=")]
        if not line:
            raise RuntimeError("fresh interpreter did not report its settings: " + p.stderr[-500:])
        _FRESH["v"] = json.loads(line[0][6:])
    return _FRESH["v"]


def execute(q, prog, via_attr=False):
    """run a program on the real singleton; returns the trace in the model's format.
    A temp statement marked "early" is decorated before the program starts (the way
    plotobjects.py decorates at import time), the others right before their call; temp statements
    with the same size share one `use_mc_sample_size(size)` decorator."""
    import qexpy.settings.settings as S
    trace = []
    decos = {}
    held = q.get_settings()       # a handle a user may keep for the whole session

    def snap(**kw):
        # the options as read now, and as read through the handle taken before the program
        return dict(kw, cfg=state(q), held=state(q, held))

    def prepare(s):
        token = object()
        name = raise_name(s)
        exc = RAISES[name](id(token)) if name else None

        def body():
            trace.append(snap(t="enter"))
            run(s["body"])
            if exc is not None:
                raise exc
            return token
        key = json.dumps(s["size"], sort_keys=True, default=str)
        try:
            if key not in decos:
                decos[key] = S.use_mc_sample_size(build(q, s["size"]))
            fn = decos[key](body)
        except Exception:  # noqa: BLE001  (a decorator that validates its size when it is applied)
            fn = None
        return token, name, exc, fn

    early = {}

    def pre(stmts):
        for s in stmts:
            if s["op"] == "temp":
                if s.get("early"):
                    early.setdefault(id(s), []).append(prepare(s))
                pre(s["body"])

    def run(stmts):
        for s in stmts:
            op = s["op"]
            if op == "temp":
                token, name, exc, fn = early[id(s)].pop(0) if early.get(id(s)) else prepare(s)
                res = None
                # BaseException: the body may end in KeyboardInterrupt / SystemExit / GeneratorExit,
                # which must neither kill the check nor be mistaken for a refused size
                try:
                    if fn is None:
                        raise ValueError("refused when the decorator was applied")
                    r = fn()
                    res = "ok" if r is token else "ok-but-result-changed"
                except BaseException as e:  # noqa: BLE001
                    if exc is not None and e is exc:
                        res = outcome_label(name)
                    elif isinstance(e, Exception):
                        # not the body's exception: the decorator's own request was refused (or the
                        # body's exception was replaced by another one)
                        res = "reject"
                    elif isinstance(e, KeyboardInterrupt) and e.args != (id(token),):
                        raise     # a real Ctrl-C, not one of ours
                    else:
                        res = "raised-other:" + type(e).__name__
                trace.append(snap(t="exit", r=res))
                continue
            try:
                if op == "reset":
                    q.reset_default_configuration()
                elif op == "read":
                    state(q)
                else:
                    arg = build(q, s["arg"])
                    if (via_attr or s.get("attr")) and op in ATTR:
                        setattr(q.get_settings(), ATTR[op], arg)
                    elif op == "sig_fig_value":
                        q.get_settings().sig_fig_value = arg
                    else:
                        getattr(q, op)(arg)
                res = "ok"
            except Exception:  # noqa: BLE001  (any exception raised for the request = reject)
                res = "reject"
            trace.append(snap(t="op", r=res))
    pre(prog)
    run(prog)
    return trace


# ------------------------------------------------------------------ direct property oracles
def documented(q, op, a):
    """True / False = the statement's 'documented values'; None = not judged"""
    k = a["k"]
    if op in OWN_ENUM:
        own = OWN_ENUM[op]
        if k == "enum":
            if a["ty"] == "ErrorMethod" and a["m"] == "AUTO":
                return None
            return a["ty"] == own
        if k == "str":
            if op == "set_error_method" and a["v"] == "auto":
                return None
            return a["v"] in [m.value for m in getattr(q, own)
                              if not (own == "ErrorMethod" and m.name == "AUTO")]
        return False
    if op in ("sig_fig_value", "set_sig_figs_for_value", "set_sig_figs_for_error",
              "set_monte_carlo_sample_size"):
        if k == "bool" or (k == "other" and a.get("what") in NOT_JUDGED_NUMBERS):
            return None
        return k == "int" and a["v"] > 0
    if op == "set_plot_dimensions":
        if k != "tuple" or len(a["v"]) != 2:
            return False
        ok = True
        for x in a["v"]:
            if x["k"] == "bool" or (x["k"] == "other" and x.get("what") in NOT_JUDGED_NUMBERS):
                return None
            if x["k"] == "int":
                ok = ok and x["v"] > 0
            elif x["k"] == "float":
                v = x["v"]
                ok = ok and (v == "inf" or (isinstance(v, list) and v[0] > 0))
            else:
                ok = False
        return ok
    return None


def requested(q, op, a):
    """the canonical field values an accepted request must produce (None where not judged)"""
    if op in OWN_ENUM:
        own = OWN_ENUM[op]
        if a["k"] == "enum":
            return {FIELDS_OF[op][0]: a["m"]}
        names = [m.name for m in getattr(q, own) if m.value == a["v"]]
        return {FIELDS_OF[op][0]: names[0] if names else None}
    if op == "set_plot_dimensions":
        try:
            return {"pw": canon_num(build(q, a["v"][0])), "ph": canon_num(build(q, a["v"][1]))}
        except Exception:  # noqa: BLE001
            return {}
    val = int(a["v"]) if a["k"] in ("int", "bool") else None
    out = {FIELDS_OF[op][0]: val}
    if op == "set_sig_figs_for_value":
        out["sm"] = "VALUE"
    if op == "set_sig_figs_for_error":
        out["sm"] = "ERROR"
    return out


def kind_of(a):
    return a["k"] + (":" + a["ty"] if a["k"] == "enum" else "")


def direct_oracles(q, prog, trace, start, fresh):
    """evaluate the property itself on an observed trace; independent of the generated tables"""
    fails = []
    pos = [0]

    def fail(sig, what, clause, **kw):
        fails.append(dict({"signature": sig, "what": what, "clause": clause, "oracle": "independent",
                           "kind": "violation", "input": prog}, **kw))

    def walk(stmts, cur):
        for s in stmts:
            op = s["op"]
            if op == "temp":
                before = cur
                ev = trace[pos[0]]
                if ev["t"] == "enter":
                    pos[0] += 1
                    inside = ev["cfg"]
                    ksize = s["size"]
                    if ksize["k"] == "int" and inside["mc"] != ksize["v"]:
                        fail("c20:temp-inside", "wrapped computation does not see the temporary "
                             "sample size", "temporary override in force", impl=inside["mc"],
                             expected=ksize["v"])
                    if documented(q, "set_monte_carlo_sample_size", ksize) is False:
                        fail("c20:temp-valid:" + kind_of(ksize) + ":accepted", "override with an "
                             "undocumented size was carried out", "accepts exactly the documented "
                             "values", impl=inside["mc"])
                    if any(inside[f] != before[f] for f in inside if f != "mc"):
                        fail("c20:temp-frame", "entering the override changed another option",
                             "override changes only the sample size", impl=inside, expected=before)
                    after_body = walk(s["body"], inside)
                    ex = trace[pos[0]]
                    pos[0] += 1
                    want = outcome_label(raise_name(s))
                    if ex["r"] != want:
                        fail("c20:temp-outcome:" + str(ex["r"]), "outcome of the wrapped computation "
                             "is not propagated unchanged", "outcome propagated", impl=ex["r"],
                             expected=want)
                    if ex["cfg"]["mc"] != before["mc"]:
                        # whatever the outcome: return, Exception, or a BaseException that is not an
                        # Exception (KeyboardInterrupt, SystemExit, GeneratorExit, custom)
                        fail("c20:temp-restore:" + want, "sample size not restored after the wrapped "
                             "computation " + ("raised " + raise_name(s) if raise_name(s)
                                               else "returned"),
                             "temporary override restored", impl=ex["cfg"]["mc"], expected=before["mc"])
                    if any(ex["cfg"][f] != after_body[f] for f in after_body if f != "mc"):
                        fail("c20:temp-frame-exit", "leaving the override changed another option",
                             "override changes only the sample size", impl=ex["cfg"],
                             expected=after_body)
                    cur = ex["cfg"]
                else:  # the decorator's own set call refused the size: body must not have run
                    pos[0] += 1
                    d = documented(q, "set_monte_carlo_sample_size", s["size"])
                    if ev["r"] != "reject" or d is True:
                        fail("c20:temp-valid:" + kind_of(s["size"]), "override with a valid size did "
                             "not run the computation", "valid request accepted", impl=ev["r"])
                    if ev["cfg"] != before:
                        fail("c20:temp-atomic", "refused override changed the options",
                             "rejected request leaves all options unchanged", impl=ev["cfg"],
                             expected=before)
                    cur = ev["cfg"]
                continue
            ev = trace[pos[0]]
            pos[0] += 1
            before, after = cur, ev["cfg"]
            if "held" in ev and ev["held"] != ev["cfg"]:
                diff = [f for f in ev["cfg"] if ev["held"].get(f) != ev["cfg"][f]]
                fail("c20:held-settings-object:" + op, "after this request the options read through "
                     "a settings object obtained earlier in the session differ from the options in "
                     "force (" + ",".join(diff) + ")", "the options are one global state",
                     impl=ev["held"], expected=ev["cfg"])
            if op == "read":
                if after != before or ev["r"] != "ok":
                    fail("c20:read", "reading the settings changed them", "read is pure",
                         impl=after, expected=before)
            elif op == "reset":
                if ev["r"] != "ok" or after != fresh:
                    diff = [f for f in fresh if after.get(f) != fresh[f]]
                    fail("c20:reset-default:" + ",".join(diff), "after reset_default_configuration "
                         "the options differ from a freshly started session",
                         "reset = fresh session", impl=after, expected=fresh)
            else:
                a = s["arg"]
                d = documented(q, op, a)
                if ev["r"] == "reject":
                    if after != before:
                        diff = [f for f in before if after.get(f) != before[f]]
                        fail("c20:atomic:{}:{}".format(op, kind_of(a)), "rejected request changed "
                             + ",".join(diff), "rejected request leaves all options unchanged",
                             impl=after, expected=before, arg=a)
                    if d is True:
                        fail("c20:valid:{}:{}:rejected".format(op, kind_of(a)), "documented value "
                             "rejected", "accepts exactly the documented values", arg=a)
                else:
                    if d is False:
                        fail("c20:valid:{}:{}:accepted".format(op, kind_of(a)), "undocumented value "
                             "accepted", "accepts exactly the documented values", arg=a, impl=after)
                    own = FIELDS_OF[op]
                    other = [f for f in before if f not in own and after.get(f) != before[f]]
                    if other:
                        fail("c20:frame:{}".format(op), "accepted request changed other options: "
                             + ",".join(other), "accepted request changes only its own option",
                             impl=after, expected=before, arg=a)
                    if d is True:
                        req = requested(q, op, a)
                        badf = [f for f, v in req.items() if v is not None and after.get(f) != v]
                        if badf:
                            fail("c20:stored:{}:{}".format(op, kind_of(a)), "accepted request did not "
                                 "store the requested value in " + ",".join(badf),
                                 "accepted request takes effect", impl=after, expected=req, arg=a)
            cur = after
        return cur
    try:
        walk(prog, start)
    except IndexError:
        fail("c20:trace-shape", "trace shorter than the program", "every request answers")
    return fails


def event_stmts(prog, trace):
    """the statement that produced each event of a trace (enter and exit -> the temp statement)"""
    out = {}
    pos = [0]

    def walk(stmts):
        for s in stmts:
            if pos[0] >= len(trace):
                return
            if s["op"] == "temp":
                out[pos[0]] = s
                entered = trace[pos[0]].get("t") == "enter"
                pos[0] += 1
                if entered:
                    walk(s["body"])
                    out[pos[0]] = s
                    pos[0] += 1
            else:
                out[pos[0]] = s
                pos[0] += 1
    walk(prog)
    return out


def judged(q, s):
    """(op, kind of the argument, is the acceptance of this request judged by the statement?)"""
    if s is None:
        return "len", "-", True
    if s["op"] == "temp":
        return "temp", kind_of(s["size"]), documented(q, "set_monte_carlo_sample_size", s["size"]) is not None
    if "arg" in s:
        return s["op"], kind_of(s["arg"]), documented(q, s["op"], s["arg"]) is not None
    return s["op"], "-", True


# ------------------------------------------------------------------ generators
def gen_stmt(rng, alpha, depth):
    r = rng.random()
    if r < 0.07:
        return {"op": "reset"}
    if r < 0.12:
        return {"op": "read"}
    if r < 0.24 and depth < 3:
        size = rng.choice([A_int(rng.choice([1, 5, 100, 777, 10000, 123456])), A_int(0), A_int(-3),
                           A_float(10.0), A_NONE, A_bool(True), A_str("100")]
                          if rng.random() < 0.3 else [A_int(rng.randint(1, 10 ** 6))])
        body = [gen_stmt(rng, alpha, depth + 1) for _ in range(rng.randint(0, 4))]
        r = rng.random()
        rz = False if r < 0.4 else True if r < 0.6 else rng.choice(sorted(RAISES))
        return {"op": "temp", "size": size, "raise": rz, "body": body, "early": rng.random() < 0.5}
    op = rng.choice(SET_OPS)
    if rng.random() < 0.55:
        arg = valid_arg(rng, op, alpha)
    else:
        arg = rng.choice(alpha)[1]
    s = {"op": op, "arg": arg}
    if op in ATTR and rng.random() < 0.3:
        s["attr"] = True
    return s


def valid_arg(rng, op, alpha):
    if op in OWN_ENUM:
        own = OWN_ENUM[op]
        c = [a for k, a in alpha if k == "enum:" + own and not (own == "ErrorMethod" and a["m"] == "AUTO")]
        return rng.choice(c) if rng.random() < 0.5 else rng.choice(
            [a for k, a in alpha if k == "str:literal"])
    if op == "set_plot_dimensions":
        def num():
            return A_int(rng.randint(1, 30)) if rng.random() < 0.4 else A_float(
                rng.choice([0.5, 1.25, 6.4, 4.8, 10.0, 3.3, 1e-3, 1e6]))
        return A_tuple(num(), num())
    return A_int(rng.choice([1, 2, 3, 4, 5, 6, 10, 100, 5000, 10000, 100000, 10 ** 9]))


def nontrivial(trace, prog):
    rs = [e.get("r") for e in trace if e["t"] == "op"]
    for i in range(1, len(rs) - 1):
        if rs[i] == "reject" and "ok" in rs[:i] and "ok" in rs[i + 1:]:
            return True

    def has_temp(stmts):
        return any(s["op"] == "temp" and (s.get("raise") or has_temp(s["body"])) for s in stmts)
    return has_temp(prog)


def single_call_programs(q, alpha):
    """every op x every argument, in three contexts: fresh, after valid changes, through attributes"""
    progs = []
    pre = [{"op": "set_print_style", "arg": A_str("latex")},
           {"op": "set_sig_figs_for_value", "arg": A_int(4)},
           {"op": "set_monte_carlo_sample_size", "arg": A_int(777)},
           {"op": "set_plot_dimensions", "arg": A_tuple(A_int(3), A_float(2.5))},
           {"op": "set_unit_style", "arg": A_str("fraction")},
           {"op": "set_error_method", "arg": A_str("monte-carlo")}]
    for op in SET_OPS:
        for _, a in alpha:
            progs.append([{"op": op, "arg": a}, {"op": "read"}])
            progs.append(pre + [{"op": op, "arg": a}, {"op": "read"}, {"op": "reset"}])
            if op in ATTR:
                progs.append(pre[:3] + [{"op": op, "arg": a, "attr": True},
                                        {"op": "set_sig_figs_for_error", "arg": A_int(2)}])
    # the override with every argument as its size, with every way the body can end: returning,
    # raising an Exception, raising a BaseException that is not an Exception; decorated right
    # before the call / before the program starts
    ends = [False] + sorted(RAISES)
    for i, (_, a) in enumerate(alpha):
        for j, rz in enumerate(ends):
            progs.append(pre[2:3] + [{"op": "temp", "size": a, "raise": rz, "early": (i + j) % 2 == 1,
                                      "body": [{"op": "read"}]}, {"op": "read"}])
    # ... and with a body that changes options (the size itself included) before it ends, nested
    for rz in ends:
        for rz2 in ends:
            for early in (False, True):
                inner = {"op": "temp", "size": A_int(31), "raise": rz2, "early": early,
                         "body": [{"op": "set_monte_carlo_sample_size", "arg": A_int(9)},
                                  {"op": "set_print_style", "arg": A_str("scientific")}]}
                progs.append(pre[2:3] + [{"op": "temp", "size": A_int(55), "raise": rz, "early": early,
                                          "body": [{"op": "set_unit_style", "arg": A_str("fraction")},
                                                   inner, {"op": "read"}]}, {"op": "read"}])
    # ... in a session that still has the default size, with the default / the current size as the
    # temporary one, and with a body that changes the size while the temporary size equals the saved
    for rz in ends:
        for k in (55, 10000):
            progs.append([{"op": "temp", "size": A_int(k), "raise": rz,
                           "body": [{"op": "set_monte_carlo_sample_size", "arg": A_int(9)}]},
                          {"op": "read"}])
            progs.append(pre[2:3] + [{"op": "temp", "size": A_int(k), "raise": rz,
                                      "body": [{"op": "read"}]}, {"op": "read"}])
        progs.append(pre[2:3] + [{"op": "temp", "size": A_int(777), "raise": rz,
                                  "body": [{"op": "set_monte_carlo_sample_size", "arg": A_int(9)}]},
                                 {"op": "read"}])
        # the same decorated statement twice (one decorator, two wrapped bodies)
        t = {"op": "temp", "size": A_int(55), "raise": rz, "body": [{"op": "read"}]}
        progs.append([t, {"op": "set_monte_carlo_sample_size", "arg": A_int(4321)}, t, {"op": "read"}])
    return progs


def thorough_alphabet(q, alpha, level):
    """statement alphabet for the exhaustive sequence enumeration; smaller for longer sequences"""
    mem = enum_members(q)

    def pick(kinds_vals):
        return kinds_vals
    if level == "full":      # length <= 2
        args = [a for k, a in alpha if k not in EXT_KINDS]
    elif level == "medium":  # length 3
        args = [A_enum("ErrorMethod", "MONTE_CARLO"), A_enum("PrintStyle", "LATEX"),
                A_enum("UnitStyle", "FRACTION"), A_str("latex"), A_str("monte-carlo"),
                A_str("bogus"), A_int(3), A_int(0), A_bool(True),
                A_tuple(A_int(2), A_float(3.5)), A_tuple(A_int(1), A_float(float("nan"))),
                A_other("list")]
    else:                    # length 4
        args = [A_enum("PrintStyle", "LATEX"), A_str("fraction"), A_str("monte-carlo"), A_int(3),
                A_int(-1), A_tuple(A_int(2), A_float(3.5)), A_other("object")]
    stmts = [{"op": "reset"}]
    if level != "small":
        stmts.append({"op": "read"})
    for op in SET_OPS:
        for a in args:
            # drop statements that are rejected for the same reason as a kept one of the same op
            stmts.append({"op": op, "arg": a})
    if level == "small":
        # keep per op: its valid arguments + two invalid ones
        keep = []
        for op in SET_OPS:
            mine = [s for s in stmts if s.get("op") == op]
            val = [s for s in mine if documented(q, op, s["arg"]) is True]
            inv = [s for s in mine if documented(q, op, s["arg"]) is False]
            keep += val[:2] + inv[:1]
        stmts = [{"op": "reset"}] + keep
    # length-4 sequences: the raising override ends in a KeyboardInterrupt (not an Exception); the
    # longer alphabets carry both an Exception and a non-Exception ending
    stmts.append({"op": "temp", "size": A_int(55), "raise": "KeyboardInterrupt" if level == "small" else True,
                  "body": [{"op": "set_monte_carlo_sample_size", "arg": A_int(9)}]})
    if level != "small":
        stmts.append({"op": "temp", "size": A_int(77), "raise": "SystemExit" if level == "full" else "BaseBoom",
                      "body": [{"op": "set_monte_carlo_sample_size", "arg": A_int(8)}]})
    stmts.append({"op": "temp", "size": A_int(66), "raise": False, "early": True,
                  "body": [{"op": "set_print_style", "arg": A_str("scientific")}]})
    if level != "small":
        stmts.append({"op": "temp", "size": A_int(0), "raise": False, "body": [{"op": "reset"}]})
    return stmts


# ------------------------------------------------------------------ the run
def compare(q, progs, ctx, ref=False, fresh=None, dist=None):
    """run programs on the real singleton and the model; returns (failures, traces)"""
    failures, traces = [], []
    for p in progs:
        new_session(q)
        start = state(q)
        tr = execute(q, p)
        traces.append((start, tr))
    new_session(q)
    replies = ctx.model([{"cmd": "settings", "start": "init", "prog": model_prog(p)} for p in progs],
                        ref=ref)
    for p, (start, tr), m in zip(progs, traces, replies):
        df = direct_oracles(q, p, tr, start, fresh)
        failures += df
        if "fail" in m:
            failures.append({"signature": "c20:model-error", "kind": "disagreement",
                             "what": "model driver: " + m["fail"], "input": p})
            continue
        if m["init"] != start:
            diff = [f for f in start if m["init"].get(f) != start[f]]
            failures.append({"signature": "c20:init:" + ",".join(diff), "kind": "disagreement",
                             "what": "a new Settings object differs from the generated initCfg",
                             "input": p, "impl": start, "expected": m["init"]})
            continue
        mt = m["trace"]
        bad = None
        for i, (a, b) in enumerate(zip(tr, mt)):
            if a.get("t") != b.get("t") or a.get("r") != b.get("r") or a["cfg"] != b["cfg"]:
                bad = (i, a, b)
                break
        if bad is None and len(tr) != len(mt):
            bad = (min(len(tr), len(mt)), None, None)
        if bad and not df:
            i, a, b = bad
            op, kind, is_judged = judged(q, event_stmts(p, tr).get(i))
            if not is_judged and a is not None and a.get("r") != b.get("r"):
                # model and implementation differ on whether an argument is accepted about which
                # the statement is silent (bool where an int is expected, the AUTO member, numbers
                # that are neither int nor float): the model follows the unchanged code there, and a
                # difference is not a failure of the property (the translator reports the changed
                # setter; without a failing input the run ends in no-failing-input-found)
                if dist is not None:
                    dist["trace difference on a not-judged argument (ignored)"] += 1
                continue
            failures.append({"signature": "c20:trace:{}:{}:{}".format(
                (a or {}).get("t", "len"), op, kind), "kind": "disagreement",
                "what": "implementation and model traces differ at event {}".format(i),
                "input": p, "impl": a, "expected": b})
        elif bad and df and not ref:
            # the model was proved against the statement: a direct-oracle failure that the model
            # reproduces would mean oracle and model disagree; here they agree that impl is wrong
            pass
    return failures, traces


def plotting_cases(q, fresh, only=None):
    """the library's own use of the override: FunctionOnPlot.yvalues / yerr with a curve function
    that returns and one that raises — every class of RAISES, i.e. also KeyboardInterrupt (Ctrl-C
    while an error band is computed), SystemExit, GeneratorExit and a direct BaseException subclass.
    `only` = one stored input (replay)."""
    from qexpy.plotting.plotobjects import FunctionOnPlot
    fails, n = [], 0
    cases = [{"plot": attr, "raises": rz, "size_before": before,
              "history": ["q.set_monte_carlo_sample_size({})".format(before),
                          "q.set_print_style('latex')",
                          "FunctionOnPlot(f, xrange=(0.0, 1.0)).{}   # f(x) {}".format(
                              attr, "raises " + rz if rz else "returns 2*x"),
                          "read q.get_settings()"]}
             for attr in ("yvalues", "yerr") for rz in [False] + sorted(RAISES)
             for before in (777, 123456)]
    if only is not None:
        rz = only.get("raises")
        cases = [{"plot": only.get("plot", "yvalues"), "raises": "Boom" if rz is True else rz,
                  "size_before": only.get("size_before", 777)}]
    try:
        for inp in cases:
            attr, name, before = inp["plot"], inp["raises"] or None, inp["size_before"]
            new_session(q)
            q.set_monte_carlo_sample_size(before)
            q.set_print_style("latex")
            s0 = state(q)
            seen = []
            exc = RAISES[name]("plot") if name else None

            def make(exc, seen):       # (one parameter only: FunctionOnPlot inspects the signature)
                def f(x):
                    seen.append(state(q))
                    if exc is not None:
                        raise exc
                    return x * 2
                return f
            f = make(exc, seen)
            out = None
            try:
                fp = FunctionOnPlot(f, xrange=(0.0, 1.0))
                getattr(fp, attr)
                out = "ok"
            except BaseException as e:  # noqa: BLE001  (SystemExit etc. must not end the check)
                if exc is not None and e is exc:
                    out = outcome_label(name)
                elif isinstance(e, KeyboardInterrupt):
                    raise      # a real Ctrl-C
                else:
                    out = "other:" + type(e).__name__
            n += 1
            s1 = state(q)
            want = outcome_label(name)
            if out != want:
                fails.append({"signature": "c20:plot-outcome:" + out, "kind": "violation",
                              "oracle": "independent", "what": "outcome of the curve function "
                              "not propagated through FunctionOnPlot." + attr, "input": inp,
                              "impl": out, "expected": want, "clause": "outcome propagated"})
            if s1 != s0:
                fails.append({"signature": "c20:temp-restore:plot:" + want,
                              "kind": "violation", "oracle": "independent",
                              "what": "options not restored after FunctionOnPlot.{} ({})".format(
                                  attr, "function raised " + name if name else "function returned"),
                              "input": inp, "impl": s1, "expected": s0,
                              "clause": "temporary override restored"})
            if not seen:
                fails.append({"signature": "c20:plot-not-run", "kind": "violation",
                              "oracle": "independent", "what": "curve function was not called",
                              "input": inp, "clause": "wrapped computation runs"})
            if seen and any(seen[0][k] != s0[k] for k in s0 if k != "mc"):
                fails.append({"signature": "c20:temp-frame:plot", "kind": "violation",
                              "oracle": "independent", "what": "override changed another option",
                              "input": inp, "impl": seen[0], "expected": s0,
                              "clause": "override changes only the sample size"})
    finally:
        new_session(q)
    return fails, n


def fresh_checks(q, ctx, ref=False):
    """fresh process vs new object in this process vs generated initCfg vs reset"""
    fails = []
    fresh = fresh_process_state()
    new_session(q)
    here = state(q)
    if here != fresh:
        fails.append({"signature": "c20:fresh-process-vs-new-object", "kind": "disagreement",
                      "what": "new Settings object in the harness differs from a new interpreter",
                      "input": [], "impl": here, "expected": fresh})
    m = ctx.model([{"cmd": "settings", "start": "init", "prog": [{"op": "reset"}]}], ref=ref)[0]
    if "fail" not in m and m["init"] != fresh:
        diff = [f for f in fresh if m["init"].get(f) != fresh[f]]
        fails.append({"signature": "c20:init:" + ",".join(diff), "kind": "disagreement",
                      "what": "generated initCfg differs from the state of a new interpreter",
                      "input": [], "impl": fresh, "expected": m["init"]})
    return fails, fresh


def correspond(ctx, ref=False, boost=1):
    import qexpy as q
    alpha = alphabet(q)
    dist = collections.Counter()
    failures, fresh = fresh_checks(q, ctx, ref=ref)
    failures += fresh_vs_reset_in_customised_session()
    dist["customised-session:fresh-vs-reset"] = 1
    progs = single_call_programs(q, alpha)
    n_single = len(progs)
    exhaustive = False
    if ctx.quick:
        for _ in range(300 * boost):
            progs.append([gen_stmt(ctx.rng, alpha, 0) for _ in range(ctx.rng.randint(5, 30))])
    else:
        budget = {"full": 2, "medium": 3, "small": 4}
        for level, L in budget.items():
            st = thorough_alphabet(q, alpha, level)
            dist["alphabet:{}".format(level)] = len(st)
            for n in range(1, L + 1):
                if level == "medium" and n < 3 or level == "small" and n < 4:
                    continue
                for seq in itertools.product(st, repeat=n):
                    progs.append(list(seq))
        exhaustive = True
        for _ in range(3000):
            progs.append([gen_stmt(ctx.rng, alpha, 0) for _ in range(ctx.rng.randint(5, 40))])
    # in chunks, to bound memory
    nontriv = set()
    samples = []
    evals = 0
    CH = 20000
    for i in range(0, len(progs), CH):
        chunk = progs[i:i + CH]
        fs, traces = compare(q, chunk, ctx, ref=ref, fresh=fresh, dist=dist)
        failures += fs
        for p, (start, tr) in zip(chunk, traces):
            evals += 1
            for e in tr:
                dist["event:{}:{}".format(e["t"], e.get("r", "-"))] += 1
            for s in p:
                dist["stmt:" + s["op"]] += 1
                if "arg" in s:
                    dist["arg:" + kind_of(s["arg"])] += 1
            dist["len:{}".format(min(len(p), 31) if len(p) < 5 else "5+")] += 1
            if nontrivial(tr, p):
                nontriv.add(canon_hash(p))
            if len(samples) < 3 and i + len(samples) >= n_single and len(p) >= 3:
                samples.append({"program": p, "trace": [[e["t"], e.get("r"), e["cfg"]["mc"],
                                                         e["cfg"]["ps"], e["cfg"]["sm"]] for e in tr]})
        if len(failures) > 200:
            break
    pf, pn = plotting_cases(q, fresh)
    failures += pf
    dist["plotting override cases"] = pn
    evals += pn
    new_session(q)
    q.reset_default_configuration()
    # one failure per signature is enough for the report
    seen, uniq = set(), []
    for f in sorted(failures, key=lambda f: len(json.dumps(f.get("input", ""), default=str))):
        if f["signature"] not in seen:
            seen.add(f["signature"])
            uniq.append(f)
    return {"evaluations": evals, "nontrivial": nontriv, "failures": uniq, "samples": samples,
            "distribution": dict(dist), "skipped": 0, "exhaustive": exhaustive,
            "fresh_process_state": fresh}


def search(ctx, broken):
    """a proof / the translator / the correspondence is broken: look for a concrete failing input
    with oracles that do not depend on the regenerated tables (direct property oracles evaluated on
    the implementation's own traces; reference driver as a second opinion)"""
    out = {"failures": [], "strategy": []}
    r = correspond(ctx, boost=4)
    ind = [f for f in r["failures"] if f.get("oracle") == "independent"]
    out["failures"] += ind
    out["strategy"].append("direct property oracles on {} programs: {} failing signatures".format(
        r["evaluations"], len(ind)))
    try:
        r2 = correspond(ctx, ref=True)
        extra = [f for f in r2["failures"] if f.get("oracle") != "independent"
                 and f["signature"].startswith(("c20:trace", "c20:init"))]
        if ind:   # the property's own oracles already produced a failing input: prefer those
            extra = []
        for f in extra:
            f["oracle"] = "independent"
            f["kind"] = "violation"
            f["what"] += " (reference model = the tables the theorems were last proved for)"
        out["failures"] += extra
        out["strategy"].append("reference-model run: {} programs, {} differing".format(
            r2["evaluations"], len(extra)))
    except Exception as e:  # noqa: BLE001
        out["strategy"].append("reference driver unavailable: {}".format(e))
    return out


def refresh_model():
    """regenerate the settings tables from the CURRENT tree and rebuild the model driver (the replay
    path of vf/check.py does not translate: without this a replay would compare with the driver of
    whatever tree was checked last).  Returns the translator's reasons for a broken tie, or None when
    the driver could not be rebuilt."""
    try:
        import translate
        broken = []
        for sec in SECTIONS:
            fname, text, br = translate.SECTIONS[sec]()
            translate.write_if_changed(os.path.join(translate.GEN, fname), text)
            broken += br
        rc, _, _ = C.lake_build(["driver"])
        return broken if rc == 0 else None
    except Exception:  # noqa: BLE001
        return None


def replay(ctx, rp):
    import qexpy as q
    f = rp.get("failure", {})
    p = f.get("input")
    if isinstance(p, dict) and "plot" in p:
        fs, _ = plotting_cases(q, fresh_process_state(), only=p)
        return {"fails": bool(fs), "failures": fs}
    if not isinstance(p, list):
        return {"fails": False, "note": "replay file carries no concrete input", "payload": rp}
    if p and isinstance(p[0], dict) and p[0].get("op") == "customised-session":
        fs = fresh_vs_reset_in_customised_session()
        return {"fails": bool(fs), "failures": fs}
    fresh = fresh_process_state()
    tie = refresh_model()
    fs, traces = compare(q, [p], ctx, fresh=fresh)
    ff, _ = fresh_checks(q, ctx)
    note = None
    if tie is None or tie:
        # no proved model for this tree: only the property's own oracles (independent of the
        # generated tables) can say that the stored input fails
        note = ("model driver not rebuilt" if tie is None else "translator tie broken: " + "; ".join(tie)) + \
            " - judged by the direct property oracles only"
        fs = [x for x in fs if x.get("oracle") == "independent"]
        ff = []
    out = {"fails": bool(fs or ff), "trace": traces[0][1], "failures": fs + ff}
    if note:
        out["note"] = note
    return out

"""C13 — every unit string the library prints is accepted back with the same meaning."""
import collections
import itertools
import warnings
from fractions import Fraction as F

import common as C
from props import _units as X
from props.c12 import shape

ID = "C13"
SECTIONS = ["units"]
LEAN_MODULES = ["QExPy.Props.C13"]
LEMMA_MODULES = ["QExPy.Lemmas.UnitParse", "QExPy.Lemmas.ParseSpec", "QExPy.Lemmas.PrintNum", "QExPy.Lemmas.PrintAst", "QExPy.Lemmas.DefReqs"]
THEOREMS = ["QExPy.C13_separator_tie", "QExPy.C13_roundtrip", "QExPy.C13_roundtrip_after_history",
            "QExPy.C13_assign_twice",
            "QExPy.C13_roundtrip_partial", "QExPy.C13_printed_forms_accepted"]
RULE = ("exponent maps over 1-4 symbols (every order), integer exponents in [-4,4] without 0 and "
        "the rational exponents that sqrt and the constant powers 1/2, 1/3, 2/3, 3/2 produce, in "
        "both unit styles; the quantity carrying the map is built through real arithmetic (unit "
        "string, product of powers, quotient of products, square root of the squared product, "
        "or a chain of two constant float powers such as (x**0.2)**5.0 whose exact product is an "
        "integer or p/q with q <= 10 while the binary64 product is not), "
        "the constant powers handed over as Python float / int, Fraction and numpy scalars of every "
        "floating width (float16, float32, float64, longdouble) and int32 / int64, on arrays also "
        "element-wise as an ndarray of that dtype; "
        "its `.unit` is read (a read that RAISES on a quantity that was built is a failure of the "
        "property: no unit string exists for that map), assigned to a fresh quantity, used in Measurement(unit=..) and parsed "
        "back, and MeasurementArray.append / insert / item assignment are exercised on arrays "
        "built the same way; the printed string is also fed to the Lean parser model and the Lean "
        "printer's string to the real parser.  Non-trivial = no positive exponent, or a "
        "non-integer exponent; quick: all single-symbol maps + 500 sampled; thorough: exhaustive.  Settings that are not about units (print style latex / scientific by every route, significant figures, MC sample size, plot size) stay in force at the judged print in a third of all cases; some cases start a new process (also run in a fork of a fresh interpreter)")
ASSUMPTIONS = ["exponents with denominator <= 10 (Fraction.limit_denominator(10) is the identity "
               "there); binary64 exponents p/q are read back as exact fractions",
               "no compound-unit definitions active AT THE TIME of the judged print (definitions that "
               "were active earlier in the session and have been cleared are part of the histories; "
               "results under active definitions are C18)"]
TRUSTED = ["modelled not verified: str.format, Fraction.limit_denominator, numpy object arrays"]
LEVEL_TEXT = ('Lean 4 theorem C13_roundtrip: for every exponent map (any number of well-formed symbols, any non-zero rational exponents) and both styles, the string the model printer writes (incl. the 1/ numerator, bracketed denominators and ^(p/q) powers) is accepted by the model parser and means the same exponents; built on the C12 theorems. Tied to the code by the translator pins and a differential run (exhaustive 111 392 maps x 2 styles in the thorough tier, float power chains, assignment and array edits); C13_roundtrip_after_history: the same after any define / print / clear history that ends with no definition active (such histories run before the judged print).')
LEVEL_NOTE = ("round trip proved for the Lean printer/parser for all exponent maps (any size, any "
              "non-zero rational exponents, both styles); tied to the code by the differential run")
TECHNIQUE = "Lean 4 theorems over an exact model of printer and parser"
CLEANROOM = True    # the reported input is confirmed stand-alone in a new process (vf/check.py)

RATS = [F(1, 2), F(3, 2), F(-1, 2), F(-3, 2), F(1, 3), F(2, 3), F(-1, 3), F(4, 3), F(5, 2), F(-2, 3)]
INTS = [F(e) for e in range(-4, 5) if e != 0]
BASE = ["m", "s", "kg", "A"]


def num(e):
    return e.numerator if e.denominator == 1 else e.numerator / e.denominator


CHAIN_POWERS = [F(1, 5), F(2, 5), F(3, 5), F(1, 3), F(2, 3), F(1, 2), F(3, 2), F(5, 2), F(5, 3),
                F(1, 10), F(3, 10), F(2), F(3), F(5), F(10)]


def chain_value(e0, p1, p2):
    """the binary64 exponent the library computes for (x**p1)**p2 when x has exponent e0"""
    return (e0 * float(p1)) * float(p2)


def chain_cases(rng, n_random):
    """(u, route) with route 'chain:p1:p2': the unit u is reached from an integer map u0 by two
    constant *float* powers, u = u0 * p1 * p2 exactly (denominators <= 10).  First a fixed list
    of the chains whose binary64 product differs from the exact exponent (an integer that is
    computed as 3.0000000000000004, a fraction that is not the nearest double), then random
    ones over several symbols."""
    pairs = [(a, b) for a in CHAIN_POWERS for b in CHAIN_POWERS
             if a.denominator != 1 or b.denominator != 1]
    fixed, seen = [], set()
    for a, b in pairs:
        for e0 in (1, 2, 3, 4, -1, -2, -3, -4):
            e = e0 * a * b
            if e.denominator > 10 or (-1 * a * b).denominator > 10:
                continue
            inexact = chain_value(e0, a, b) != float(e)
            if not inexact:
                continue
            key = (e, e.denominator == 1, a * b)
            if key in seen:
                continue
            seen.add(key)
            fixed.append(([("m", e), ("s", -1 * a * b)], "chain:{}:{}".format(a, b)))
    rng.shuffle(fixed)
    out = fixed[:60]
    tries = 0
    while len(out) < 60 + n_random and tries < 50 * n_random:
        tries += 1
        a, b = rng.choice(pairs)
        syms = rng.sample(X.SYMS, rng.randint(1, 3))
        u = [(k, rng.choice(INTS) * a * b) for k in syms]
        if any(e.denominator > 10 for _, e in u):
            continue
        out.append((u, "chain:{}:{}".format(a, b)))
    return out


# every floating width numpy has (binary16, binary32, binary64, extended): a numpy float that is
# no subclass of Python's float (all but float64) reaches the printer as it is
PTYPES = ["Fraction", "np.float64", "np.float32", "np.float16", "np.longdouble", "np.int64",
          "np.int32", "float"]


def ptypes_for(u, route):
    """numeric types in which every constant power of the route can be written"""
    es = [2 * e if route == "sqrt" else e for _, e in u]
    ints = all(e.denominator == 1 for e in es)
    # binary32 thirds are fine here: the printer rounds every exponent to a denominator <= 10
    return [t for t in PTYPES if ints or t not in ("np.int64", "np.int32")]


def build(q, u, route, mk):
    """a quantity (or array) whose unit is u, built through arithmetic; mk(sym_unit_string).
    route 'powers|T', 'quotient|T', 'sqrt|T': the constant powers are handed over as objects of
    the numeric type T (Fraction, numpy scalars, float) instead of int / binary64 quotient;
    'powers|T[]': as T, and when the base is an array the exponent is an ndarray of dtype T
    (element-wise power)"""
    route, _, ptype = route.partition("|")
    if route == "string":
        return mk(X.unit_string(u))
    if route.startswith("chain:"):
        _, a, b = route.split(":")
        p1, p2 = F(a), F(b)
        u0 = [(k, e / (p1 * p2)) for k, e in u]
        return (mk(X.unit_string(u0)) ** float(p1)) ** float(p2)

    elementwise = ptype.endswith("[]")      # T[]: on an array the exponent is an ndarray of dtype T
    ptype = ptype[:-2] if elementwise else ptype

    def powr(k, e):
        x = mk(k)
        if e == 1:
            return x
        p = X.num_obj(e, ptype) if ptype else num(e)
        if elementwise and hasattr(x, "__len__"):
            import numpy as np
            p = np.full(len(x), p, dtype=type(p))
        return x ** p
    if route == "powers":
        r = None
        for k, e in u:
            f = powr(k, e)
            r = f if r is None else r * f
        return r
    if route == "sqrt":
        r = None
        for k, e in u:
            f = powr(k, 2 * e)
            r = f if r is None else r * f
        return q.sqrt(r)
    # quotient of the positive part by the negative part (order of first appearance differs!)
    pos = [(k, e) for k, e in u if e > 0]
    neg = [(k, -e) for k, e in u if e < 0]
    n = d = None
    for k, e in pos:
        n = powr(k, e) if n is None else n * powr(k, e)
    for k, e in neg:
        d = powr(k, e) if d is None else d * powr(k, e)
    if d is None:
        return n
    return (1 / d) if n is None else n / d


# ------------------------------------------------------------------ histories before the judged print
# C13's domain is "no compound-unit definitions active" at the moment a unit is printed.  A session
# has a past: names were defined, quantities were printed under them, in either style, the
# definitions were cleared again.  A history (`pre`) runs after the reset and before the judged
# quantity is built; it always ENDS in the domain (its last definition request is a clear or a
# rejected definition) and the judged style is set after it.  Steps:
#   ["define", name, string]      a definition that must be accepted
#   ["define-bad", name, string]  a definition that must be rejected (caught)
#   ["style", frac]               q.set_unit_style
#   ["print", units_json, how]    a throw-away quantity with that exponent map is created and
#                                 shown: how = "unit" | "str" | "array" | "derived" (product of
#                                 powers instead of a unit string)
#   ["clear"]                     q.clear_unit_definitions()
#   ["setting", what, value]      a setting that is NOT about units (how VALUES are printed, how
#                                 errors are computed, plot size): a free configuration of the
#                                 quantifier "in both unit styles" - it is NOT put back before the
#                                 judged print, the printed unit must not depend on it
NAMES = ["N", "J", "Pa", "Wb", "Oh", "Vv"]          # none is a symbol of X.SYMS
# every route to the print style (enum member, its lower-case name; other spellings are rejected) and the other
# settings; the error method is left out: with Monte Carlo str() of a derived quantity simulates
# the VALUE (C09 / C16), which says nothing about units
SETTINGS = ([["print_style", v] for v in ("latex", "enum:LATEX", "latex", "enum:LATEX", "scientific",
                                           "enum:SCIENTIFIC", "enum:DEFAULT", "default")]
            + [["sig_figs_error", n] for n in (1, 2, 4)] + [["sig_figs_value", n] for n in (1, 3, 5)]
            + [["mc_sample_size", 1000], ["plot_dimensions", [4.0, 3.0]]])


def gen_settings(rng):
    """1-2 settings unrelated to units; the print style (latex / scientific) most often"""
    out = [["setting"] + rng.choice(SETTINGS[:6] if rng.random() < 0.7 else SETTINGS)]
    if rng.random() < 0.3:
        out.append(["setting"] + rng.choice(SETTINGS))
    return out


def with_settings(rng, pre, style_only=False):
    """put settings steps somewhere into a history (start, end, or in between)"""
    pre = [list(st) for st in pre]
    for st in gen_settings(rng):
        if style_only and st[1] != "print_style":
            continue
        pre.insert(rng.choice([0, len(pre), rng.randint(0, len(pre))]), st)
    return pre


def apply_setting(q, what, value):
    if what == "print_style":
        q.set_print_style(getattr(q.PrintStyle, value[5:]) if value.startswith("enum:") else value)
    elif what == "sig_figs_error":
        q.set_sig_figs_for_error(value)
    elif what == "sig_figs_value":
        q.set_sig_figs_for_value(value)
    elif what == "mc_sample_size":
        q.set_monte_carlo_sample_size(value)
    elif what == "plot_dimensions":
        q.set_plot_dimensions(tuple(value))
    else:
        raise ValueError(what)
HISTORY_KINDS = ["named:exact", "named:power", "named:reordered", "named:part", "named:unrelated",
                 "redefined", "style-flip", "printed-before", "neighbour-before",
                 "defined-never-printed", "rejected-definitions"]


def text_of(u, sep="*"):
    """a unit string for any exponent map (fractions as ^(p/q)), written by the harness"""
    return sep.join(k if e == 1 else ("{}^{}".format(k, e.numerator) if e.denominator == 1
                                      else "{}^({}/{})".format(k, e.numerator, e.denominator))
                    for k, e in u)


def history(rng, kind, u, frac):
    """a history of class `kind` for the judged map u and style; None when it does not apply"""
    uj = X.units_json(u)
    name, name2 = rng.sample(NAMES, 2)
    how = rng.choice(["unit", "unit", "str", "array", "derived"])
    show = [["print", uj, how]] + ([["print", uj, "unit"]] if rng.random() < 0.3 else [])
    both = [["style", frac]] + show + ([["style", not frac]] + show if rng.random() < 0.4 else [])

    def scaled(c):
        v = [(k, e * c) for k, e in u]
        return v if all(e.denominator <= 10 for _, e in v) else None
    if kind == "named:exact":
        return [["define", name, text_of(u)]] + both + [["clear"]]
    if kind == "named:power":
        v = scaled(rng.choice([F(1, 2), F(2), F(-1), F(1, 3), F(-2)]))
        return None if v is None else [["define", name, text_of(v)]] + both + [["clear"]]
    if kind == "named:reordered":
        if len(u) < 2:
            return None
        v = list(u)
        rng.shuffle(v)
        return [["define", name, text_of(v, rng.choice(["*", X.DOT]))]] + both + [["clear"]]
    if kind == "named:part":
        if len(u) < 2:
            return None
        return [["define", name, text_of(u[:-1])]] + both + [["clear"]]
    if kind == "named:unrelated":
        return [["define", "N", "kg*m/s^2"], ["define", "J", "N*m"]] + both + [
            ["print", X.units_json([("kg", F(1)), ("m", F(1)), ("s", F(-2))]), "unit"], ["clear"]]
    if kind == "redefined":
        return [["define", name, text_of(u)]] + show + [
            ["define", name, "kg*m/s^2"]] + show + [["define", name2, text_of(u)]] + show + [["clear"]]
    if kind == "style-flip":
        return [["style", not frac]] + show + [["style", frac]] + show + [["style", not frac]]
    if kind == "printed-before":
        return [["style", frac]] + show + show
    if kind == "neighbour-before":
        c = rng.choice(["negated", "plus-one", "doubled", "first-only", "plus-half", "minus-half",
                        "minus-third", "one-plus-half"])
        shift = {"plus-half": F(1, 2), "minus-half": F(-1, 2), "minus-third": F(-1, 3)}
        if c in shift:
            v = [(k, e + shift[c]) for k, e in u]
        elif c == "one-plus-half":
            v = [(k, e + (F(1, 2) if i == 0 else 0)) for i, (k, e) in enumerate(u)]
        else:
            v = {"negated": [(k, -e) for k, e in u], "plus-one": [(k, e + 1) for k, e in u],
                 "doubled": [(k, 2 * e) for k, e in u], "first-only": u[:1]}[c]
        v = [(k, e) for k, e in v if e != 0]
        if not v or any(e.denominator > 10 for _, e in v):
            return None
        return [["style", frac], ["print", X.units_json(v), how]] + show + [
            ["print", X.units_json(v), "unit"]]
    if kind == "defined-never-printed":
        return [["define", name, text_of(u)], ["clear"], ["define", name2, text_of(u)], ["clear"]]
    if kind == "rejected-definitions":
        return [["define-bad", name, text_of(u) + ")"], ["define", name, text_of(u)]] + show + [
            ["clear"], ["define-bad", name, text_of(u) + "^"], ["define-bad", "N 1", text_of(u)]]
    raise ValueError(kind)


def run_pre(q, pre, log):
    """execute a history on the real library; unexpected outcomes go to `log`"""
    for st in pre:
        try:
            if st[0] == "define":
                q.define_unit(st[1], st[2])
            elif st[0] == "define-bad":
                try:
                    q.define_unit(st[1], st[2])
                    log.append([st, "accepted"])
                except Exception:  # noqa: BLE001  the rejection the caller catches
                    pass
            elif st[0] == "style":
                q.set_unit_style(q.UnitStyle.FRACTION if st[1] else q.UnitStyle.EXPONENTS)
            elif st[0] == "clear":
                q.clear_unit_definitions()
            elif st[0] == "setting":
                apply_setting(q, st[1], st[2])
            elif st[0] == "fresh":
                pass
            else:
                v = X.units_from_json(st[1])
                if st[2] == "derived":
                    x = build(q, v, "powers", lambda s_: q.Measurement(2.0, 0.1, unit=s_))
                elif st[2] == "array":
                    x = q.MeasurementArray([1.0, 2.0], 0.1, unit=text_of(v))
                else:
                    x = q.Measurement(2.0, 0.1, unit=text_of(v))
                _ = str(x) if st[2] == "str" else x.unit
        except Exception as e:  # noqa: BLE001
            log.append([st, "{}: {}".format(type(e).__name__, e)])


def pre_reqs(pre):
    """the define / clear requests of a history as the Lean model reads them"""
    return [["define", st[1], st[2]] if st[0] in ("define", "define-bad") else ["clear"]
            for st in pre if st[0] in ("define", "define-bad", "clear")]


def pre_in_domain(pre):
    """does the history end with no definition active (harness's own bookkeeping)?"""
    active = False
    for st in pre:
        if st[0] == "define":
            active = True
        elif st[0] == "clear":
            active = False
    return not active


def base_value(route):
    """value of the quantities the judged unit is built from.  2.0 — except when the constant
    powers are binary16 numbers: numpy then computes the VALUES in binary16 as well (a Python float
    is a weak operand), and 2.0 ** -8 four times over underflows to 0 (3.0 ** 8 overflows), after
    which str() of the quantity raises a math domain error.  C13 is about units, so binary16
    powers are applied to the value 1.0"""
    return 1.0 if "np.float16" in route else 2.0


def observe(q, u, frac, route, arrays, faults=True, pre=()):
    out = {"route": route}
    if pre and list(pre[0]) == ["fresh"] and X.PROCESS["virgin"]:
        X.PROCESS["virgin"] = False     # the case starts a process: nothing is requested before it
    else:
        X.reset(q)
    if pre:
        assert pre_in_domain(pre)
        out["pre_log"] = []
        with warnings.catch_warnings():
            warnings.simplefilter("ignore")
            run_pre(q, pre, out["pre_log"])
    q.set_unit_style(q.UnitStyle.FRACTION if frac else q.UnitStyle.EXPONENTS)
    with warnings.catch_warnings():
        warnings.simplefilter("ignore")
        try:
            x = build(q, u, route, lambda s: q.Measurement(base_value(route), 0.1, unit=s))
        except Exception as e:  # noqa: BLE001  the ARITHMETIC raised: not a statement of C13
            out["build_exception"] = "{}: {}".format(type(e).__name__, e)
            return out
        # the quantity exists; its exponent map is u (the harness built it so).  From here on the
        # library PRINTS: a read that raises means there is no unit string for this map at all
        try:
            s = x.unit
            out["s"] = s
        except Exception as e:  # noqa: BLE001
            out["read_exception"] = "{}: {}".format(type(e).__name__, e)
            for where, f in (("str(a)", lambda: str(x)), ("a.unit again", lambda: x.unit)):
                try:
                    f()
                    out.setdefault("other_reads", {})[where] = "ok"
                except Exception as e2:  # noqa: BLE001
                    out.setdefault("other_reads", {})[where] = type(e2).__name__
            X.reset(q)
            return out
        try:
            # the other places in which the library prints the unit of this quantity
            out["shown"] = {"str(a)": str(x).endswith(" [{}]".format(s)) if s else True,
                            "a.unit again": x.unit == s}
        except Exception as e:  # noqa: BLE001  str() also formats the value: not C13's statement
            out["build_exception"] = "{}: {} (in str(a) after a.unit had been read)".format(
                type(e).__name__, e)
            return out
        out["parsed"] = X.impl_parse(s) if s else ("ok", ())
        # FAULTS: requests that are rejected (caught) must leave style, quantity and array alone
        flog = out["faults"] = []

        def fault(what, f):
            try:
                f()
                flog.append([what, "accepted"])
            except Exception as e:  # noqa: BLE001
                flog.append([what, type(e).__name__])
        if faults:
            fault("set_unit_style('garbage')", lambda: q.set_unit_style("garbage"))
            fault("a.unit = a.unit + ')'", lambda: setattr(x, "unit", s + ")"))
            fault("a.unit = 5", lambda: setattr(x, "unit", 5))
            out["s_after_faults"] = x.unit
        try:
            b = q.Measurement(1.0, 0.1, unit="Q^2/x")
            shown_before = (str(b), b.unit)          # b is shown, THEN it gets the new unit
            b.unit = s
            out["shown"]["str(b) after b.unit = a.unit"] = str(b).endswith(" [{}]".format(s)) \
                if s else True
            if faults:
                fault("b.unit = 'm2'", lambda: setattr(b, "unit", "m2"))
                fault("b.unit = a.unit + '^'", lambda: setattr(b, "unit", s + "^"))
            out["assign"] = ("ok", b.unit)
        except Exception as e:  # noqa: BLE001
            out["assign"] = ("reject", type(e).__name__)
        try:
            c = q.Measurement(1.0, 0.1, unit=s)
            out["ctor"] = ("ok", c.unit)
        except Exception as e:  # noqa: BLE001
            out["ctor"] = ("reject", type(e).__name__)
        if arrays:
            arr = None
            try:
                arr = build(q, u, route, lambda s: q.MeasurementArray(
                    [1.0, 1.0, 1.0] if base_value(route) == 1.0 else [1.0, 2.0, 3.0], 0.1, unit=s))
            except Exception as e:  # noqa: BLE001
                out["arr_build_exception"] = "{}: {}".format(type(e).__name__, e)
            try:
                if arr is not None:
                    out["arr_unit"] = arr.unit
            except Exception as e:  # noqa: BLE001  the array exists, its unit cannot be read
                out["arr_read_exception"] = "{}: {}".format(type(e).__name__, e)
                arr = None
            try:
                if arr is None:
                    raise LookupError
                out["shown"]["str(array)"] = str(arr).endswith(" ({})".format(arr.unit)) if arr.unit \
                    else True
                out["shown"]["XYDataSet.xunit"] = q.XYDataSet(arr, [1.0, 2.0, 3.0]).xunit == arr.unit
            except LookupError:
                pass
            except Exception as e:  # noqa: BLE001  str() / XYDataSet do more than print the unit
                out["arr_build_exception"] = "{}: {} (showing the array)".format(type(e).__name__, e)
                arr = None
            if arr is not None:
                if faults:
                    fault("array.unit = 'kg*m/s^2)'", lambda: setattr(arr, "unit", "kg*m/s^2)"))
                    fault("array.append('abc')", lambda: arr.append("abc"))
                    fault("array[0] = (1, -1)", lambda: arr.__setitem__(0, (1.0, -1.0)))
                    out["arr_unit_after_faults"] = (arr.unit, len({el.unit for el in arr}))
                for opname, fn in (("append", lambda a: a.append((4.0, 0.1))),
                                   ("insert", lambda a: a.insert(1, 2.5)),
                                   ("setitem", lambda a: (a.__setitem__(0, (5.0, 0.5)), a)[1])):
                    try:
                        r = fn(arr)
                        us = {el.unit for el in r}
                        out[opname] = ("ok", r.unit, len(us))
                    except Exception as e:  # noqa: BLE001
                        out[opname] = ("reject", type(e).__name__)
    X.reset(q)
    return out


def pre_text(pre):
    out = []
    for st in pre:
        if st[0] in ("define", "define-bad"):
            out.append("{}define_unit({!r}, {!r})".format("rejected " if st[0] == "define-bad" else "",
                                                        st[1], st[2]))
        elif st[0] == "style":
            out.append("set_unit_style({})".format("FRACTION" if st[1] else "EXPONENTS"))
        elif st[0] == "clear":
            out.append("clear_unit_definitions()")
        elif st[0] == "fresh":
            out.append("(new process)")
        elif st[0] == "setting":
            out.append("set_{}({})".format(st[1], "PrintStyle." + st[2][5:] if str(st[2]).startswith(
                "enum:") else repr(st[2])))
        else:
            out.append("show({}) of a quantity with unit {}".format(
                st[2], text_of(X.units_from_json(st[1]))))
    return out


def judge(u, frac, o, m_print, m_parse, pre=()):
    fails = []
    style = "fraction" if frac else "exponents"
    want = X.sem(u)
    base = {"input": {"units": [[k, str(e)] for k, e in u], "style": style, "route": o["route"]},
            "case": {"u": X.units_json(u), "frac": frac, "route": o["route"]}}
    if pre:
        base["input"]["earlier in the session"] = pre_text(pre)
        base["case"]["pre"] = [list(st) for st in pre]
        base["carries_history"] = True
        if o.get("pre_log"):
            return [dict(base, signature="c13:history-step:" + str(o["pre_log"][0][0][0]),
                         kind="disagreement", what="a step of the history before the judged print "
                         "did not go as the harness expects: {}".format(o["pre_log"][0]))]
    if "build_exception" in o:
        return [dict(base, signature="c13:build:" + o["build_exception"].split(":")[0],
                     kind="disagreement", what="building the quantity raised " + o["build_exception"])]
    if "read_exception" in o:
        # "every unit string the library produces, for any exponent map ... including the units of
        # quotients, powers and roots" / "a unit read from one quantity can always be assigned to
        # another": the quantity was built, its map is in the domain, and reading its unit raises
        return [dict(base, signature="c13:unit-unreadable:{}:{}".format(
                         style, o["read_exception"].split(":")[0]),
                     oracle="independent", what="the quantity exists (exponents {}) but reading its "
                     ".unit raises {}; other reads: {}".format(X.show(want), o["read_exception"],
                                                              o.get("other_reads")),
                     impl="raises " + o["read_exception"], expected="a unit string for " + X.show(want),
                     clause="every exponent map has a printed unit that can be read")]
    s = o["s"]
    sh = shape(s)
    st, val = o["parsed"]
    if st != "ok":
        fails.append(dict(base, signature="c13:printed-rejected:{}:{}".format(style, sh),
                          oracle="independent", what="the printed unit {!r} is rejected by the "
                          "parser ({})".format(s, val), impl="reject:" + val,
                          expected=X.show(want), clause="accepted back"))
    elif val != want:
        fails.append(dict(base, signature="c13:roundtrip-meaning:{}:{}".format(style, sh),
                          oracle="independent", what="the printed unit {!r} parses to other "
                          "exponents".format(s), impl=X.show(val), expected=X.show(want),
                          clause="same exponents"))
    for where, same in sorted(o.get("shown", {}).items()):
        if not same:
            fails.append(dict(base, signature="c13:shown-differs:{}:{}".format(where, style),
                              oracle="independent", what="{} does not show the unit string {!r} that "
                              "a.unit returns".format(where, s), impl=where, expected=s,
                              clause="every unit string the library prints"))
    if any(x[1] == "accepted" for x in o.get("faults", [])):
        pass    # a request meant to be rejected was accepted (C12 / C20 statement): not judged here
    else:
        if "s_after_faults" in o and o["s_after_faults"] != s:
            fails.append(dict(base, signature="c13:fault-changed-unit:{}:{}".format(style, sh),
                              oracle="independent", what="after rejected requests ({}) the unit "
                              "reads {!r}, was {!r}".format(", ".join(x[0] for x in o["faults"][:3]),
                                                           o["s_after_faults"], s),
                              impl=o["s_after_faults"], expected=s, clause="a rejected request changes nothing"))
        if "arr_unit_after_faults" in o and o["arr_unit_after_faults"] != (o.get("arr_unit"), 1):
            fails.append(dict(base, signature="c13:fault-changed-array-unit:{}:{}".format(style, sh),
                              oracle="independent", what="after rejected requests the array's unit "
                              "reads {!r} (distinct element units: {}), was {!r}".format(
                                  o["arr_unit_after_faults"][0], o["arr_unit_after_faults"][1], o.get("arr_unit")),
                              impl=o["arr_unit_after_faults"], expected=o.get("arr_unit"),
                              clause="a rejected request changes nothing"))
    for key, what in (("assign", "b.unit = a.unit"), ("ctor", "Measurement(unit=a.unit)")):
        r = o.get(key)
        if r and r[0] != "ok":
            fails.append(dict(base, signature="c13:{}-rejected:{}:{}".format(key, style, sh),
                              oracle="independent", what="{} raises {} for {!r}".format(what, r[1], s),
                              impl="reject:" + r[1], expected="accepted", clause="assignable"))
        elif r and r[1] != s:
            fails.append(dict(base, signature="c13:{}-changes-unit:{}:{}".format(key, style, sh),
                              oracle="independent", what="{}: unit reads {!r} afterwards, was "
                              "{!r}".format(what, r[1], s), impl=r[1], expected=s,
                              clause="a.unit == b.unit"))
    if "arr_build_exception" in o:
        fails.append(dict(base, signature="c13:array-build", kind="disagreement",
                          what="building the array raised " + o["arr_build_exception"]))
    if "arr_read_exception" in o:
        fails.append(dict(base, signature="c13:array-unit-unreadable:{}:{}".format(
                              style, o["arr_read_exception"].split(":")[0]),
                          oracle="independent", what="the array exists (exponents {}) but reading / "
                          "showing its unit raises {}".format(X.show(want), o["arr_read_exception"]),
                          impl="raises " + o["arr_read_exception"],
                          expected="a unit string for " + X.show(want), clause="array editing"))
    for opname in ("append", "insert", "setitem"):
        r = o.get(opname)
        if not r:
            continue
        if r[0] != "ok":
            fails.append(dict(base, signature="c13:array-{}:{}:{}".format(opname, style, sh),
                              oracle="independent", what="MeasurementArray.{} raises {} on an "
                              "array with unit {!r}".format(opname, r[1], o.get("arr_unit")),
                              impl="reject:" + r[1], expected="works", clause="array editing"))
        else:
            pst, pval = X.impl_parse(r[1]) if r[1] else ("ok", ())
            if pst != "ok" or pval != want or r[2] != 1:
                fails.append(dict(base, signature="c13:array-{}-unit:{}:{}".format(opname, style, sh),
                                  oracle="independent", what="after {} the array's unit is {!r} "
                                  "({} distinct element units)".format(opname, r[1], r[2]),
                                  impl=r[1], expected=X.show(want), clause="array editing"))
    if not fails and m_print is not None:
        if "fail" in m_print:
            return [dict(base, signature="model-error", kind="disagreement",
                         what="model driver: " + m_print["fail"])]
        back = X.sem_json(m_print["back"]["units"]) if m_print["back"]["ok"] else None
        if back != want:
            fails.append(dict(base, signature="c13:model-roundtrip:{}".format(style),
                              kind="disagreement", what="Lean parse(construct u) differs from u",
                              impl=str(back), expected=X.show(want)))
        ms = m_print["s"]
        pst, pval = X.impl_parse(ms) if ms else ("ok", ())
        if pst != "ok" or pval != want:
            fails.append(dict(base, signature="c13:model-string-rejected:{}:{}".format(style, shape(ms)),
                              kind="disagreement", what="the string of the Lean printer {!r} is not "
                              "read back by the implementation".format(ms), impl=str((pst, pval)),
                              expected=X.show(want)))
        if m_parse is not None:
            mp = X.sem_json(m_parse["model"]["units"]) if m_parse["model"]["ok"] else None
            if s and mp != want:
                fails.append(dict(base, signature="c13:model-rejects-printed:{}:{}".format(style, sh),
                                  kind="disagreement", what="the Lean parser does not read the "
                                  "implementation's string {!r} as u".format(s), impl=str(mp),
                                  expected=X.show(want)))
    return fails


def sample_maps(rng, n):
    maps = []
    for k in BASE[:2] + ["Hz"]:
        for e in INTS + RATS:
            maps.append([(k, e)])
    while len(maps) < n:
        syms = rng.sample(X.SYMS, rng.randint(1, 4))
        r = rng.random()
        u = []
        for k in syms:
            if r < 0.6:
                e = rng.choice(INTS)
            elif r < 0.8:
                e = rng.choice(INTS + RATS)
            else:
                e = -abs(rng.choice(INTS + RATS))
            u.append((k, e))
        maps.append(u)
    return maps


def exhaustive_maps():
    exps = INTS
    for k in range(1, 5):
        for syms in itertools.permutations(BASE, k):
            for es in itertools.product(exps, repeat=k):
                yield list(zip(syms, es))


def nontrivial(u):
    return all(e < 0 for _, e in u) or any(e.denominator != 1 for _, e in u)


def routes_for(u):
    ints = all(e.denominator == 1 for _, e in u)
    return (["string"] if ints else []) + ["powers", "quotient", "sqrt"]


def run(ctx, cases, ref=False, use_model=True):
    """cases: list of (u, frac, route, arrays)"""
    import qexpy as q
    cases = [tuple(c) + ((),) * (5 - len(c)) for c in cases]
    obs = [observe(q, u, frac, route, arrays, pre=pre) for (u, frac, route, arrays, pre) in cases]
    mp = [None] * len(cases)
    ms = [None] * len(cases)
    if use_model:
        # the model prints under the definitions the define / clear history leaves (`runReqs`)
        mp = ctx.model([dict({"cmd": "uprint", "units": X.units_json(u), "frac": frac},
                             **({"reqs": pre_reqs(pre)} if pre else {}))
                        for (u, frac, _, _, pre) in cases], ref=ref)
        ms = ctx.model([{"cmd": "uparse", "s": o.get("s", "")} for o in obs], ref=ref)
    failures, nontriv, samples = [], set(), []
    dist = collections.Counter()
    same = 0
    room = None
    for (u, frac, route, arrays, pre), o, a, b in zip(cases, obs, mp, ms):
        if pre:
            dist["after a history"] += 1
            for st in pre:
                dist["history step:" + st[0] + (":" + st[2] if st[0] == "print" else "")
                     + (":{}={}".format(st[1], str(st[2]).replace("enum:", "").upper()
                                        if st[1] == "print_style" else "*")
                        if st[0] == "setting" else "")] += 1
            if any(st[0] == "setting" and st[1] == "print_style" and "LATEX" in st[2].upper()
                   for st in pre):
                multi = sum(1 for _, e in u if e > 0) > 1 or sum(1 for _, e in u if e < 0) > 1
                dist["judged under the LATEX print style" + (", unit with a dot" if multi else "")] += 1
        dist["style:" + ("fraction" if frac else "exponents")] += 1
        dist["route:" + route.split(":")[0].split("|")[0]] += 1
        if "|" in route:
            dist["powertype:" + route.split("|")[1] + (" (array base)" if arrays else "")] += 1
        for x in o.get("faults", []):
            dist["fault:{}:{}".format(x[0], x[1])] += 1
        if route.startswith("chain:"):
            p1, p2 = (F(x) for x in route.split(":")[1:])
            if any(chain_value(float(e / (p1 * p2)), p1, p2) != float(e) for _, e in u):
                dist["chain with inexact binary64 product"] += 1
        dist["symbols:{}".format(len(u))] += 1
        dist["arrays" if arrays else "scalars-only"] += 1
        if nontrivial(u):
            nontriv.add(X.case_hash([X.units_json(u), frac]))
            dist["nontrivial"] += 1
        if a and "s" in a and a["s"] == o.get("s"):
            same += 1
        fs = judge(u, frac, o, a, b, pre)
        if not fs and pre and list(pre[0]) == ["fresh"]:
            # the same case where it belongs: in a process in which nothing happened before it
            room = room or C.CleanRoom("props.c13")
            ans = room.replay({"case": {"u": X.units_json(u), "frac": frac, "route": route,
                                        "pre": [list(st) for st in pre]}})
            dist["cases executed in a new process (no reset before them)"] += 1
            if ans.get("fails") and ans.get("failures"):
                fs = [dict(ans["failures"][0], reproduces_alone=True, carries_history=True)]
        failures += fs
        if len(samples) < 5 and len(u) > 1 and "s" in o:
            samples.append({"units": X.show(tuple(u)), "style": "fraction" if frac else "exponents",
                            "route": route, "printed": o["s"], "assign": o.get("assign"),
                            "model_string": a["s"] if a and "s" in a else None})
    dist["model string identical to implementation string"] = same
    if room:
        room.close()
    return {"evaluations": len(cases), "nontrivial": nontriv, "failures": failures,
            "samples": samples, "distribution": dict(dist)}


def gen_cases(rng, n, arrays_every=4, tags=None):
    cases = []
    tags = tags if tags is not None else collections.Counter()
    for i, u in enumerate(sample_maps(rng, n)):
        for frac in (True, False):
            route = rng.choice(routes_for(u))
            ts = ptypes_for(u, route) if route != "string" else []
            if ts and rng.random() < 0.5:
                route += "|" + rng.choice(ts)      # ARGUMENT TYPES of the constant powers
            cases.append((u, frac, route, i % arrays_every == 0))
    # ARGUMENT TYPES of the constant powers (deliberate: every type x every arithmetic route x both
    # styles, an integer map and a fractional one, scalars and arrays, and element-wise on arrays)
    tpool = [u for u in sample_maps(rng, 60)[45:] if len(u) <= 3]
    for t in PTYPES:
        for route in ("powers", "quotient", "sqrt"):
            for frac in (True, False):
                picked = 0
                for _ in range(40):
                    u = rng.choice(tpool)
                    if t not in ptypes_for(u, route):
                        continue
                    ew = t.startswith("np.") and picked == 1
                    cases.append((u, frac, route + "|" + t + ("[]" if ew else ""), picked == 1 or ew))
                    tags["powertype-deliberate:" + t + ("[] element-wise" if ew else "")] += 1
                    picked += 1
                    if picked == 2:
                        break
    # HISTORIES before the judged print (deliberate: every class several times per run, both
    # styles, integer and rational maps, string and arithmetic routes)
    pool = sample_maps(rng, 0) + [u for u, _, _, _ in cases[::7]]
    per_kind = max(6, n // 40)
    for kind in HISTORY_KINDS:
        made = tries = 0
        while made < per_kind and tries < 20 * per_kind:
            tries += 1
            u = rng.choice(pool)
            if len({k for k, _ in u} & set(NAMES)):
                continue
            frac = rng.random() < 0.5
            pre = history(rng, kind, u, frac)
            if pre is None:
                continue
            route = rng.choice(routes_for(u))
            cases.append((u, frac, route, made % 3 == 0, pre))
            tags["history:" + kind] += 1
            made += 1
    # chains of two constant float powers (both styles; every 3rd also on arrays)
    for i, (u, route) in enumerate(chain_cases(rng, max(20, n // 10))):
        for frac in (True, False):
            cases.append((u, frac, route, i % 3 == 0))
    # FEATURE INTERACTION: settings that are not about units (print style of values, significant
    # figures, ...) are in force at the judged print in a third of ALL cases above, whatever
    # their route / type / history; and deliberately for multi-factor units with arrays
    out = []
    for c in cases:
        c = tuple(c) + ((),) * (5 - len(c))
        if rng.random() < 0.33:
            # binary16 powers compute the VALUES in binary16 (see base_value): with other numbers of
            # significant figures str() of such a value raises OverflowError in the unchanged
            # library - value formatting, C09's statement, not a unit: print style only there
            pre = with_settings(rng, c[4], style_only="np.float16" in c[2])
            if len(pre) == len(c[4]):
                out.append(c)
                continue
            c = c[:4] + (pre,)
            tags["settings unrelated to units in force at the judged print"] += 1
        if rng.random() < 0.05 and tags["case starts a new process"] < max(100, n // 10):
            # the case starts a NEW PROCESS (no reset of the harness before it): run in a fork of a
            # fresh interpreter as well (state the library sets up at import time)
            c = c[:4] + ([["fresh"]] + [list(st) for st in c[4]],)
            tags["case starts a new process"] += 1
        out.append(c)
    multi = [c for c in out if len(c[0]) >= 3 and not c[4]]
    for k in range(min(len(multi), max(12, n // 40))):
        u, frac, route, _, _ = multi[k]
        value = ["enum:LATEX", "latex", "enum:LATEX", "enum:SCIENTIFIC"][k % 4]
        out.append((u, frac, route, True, [["setting", "print_style", value]]))
        tags["print style {} x multi-factor unit x arrays (deliberate)".format(
            value.replace("enum:", "").upper())] += 1
    return out


def correspond(ctx):
    tags = collections.Counter()
    cases = gen_cases(ctx.rng, ctx.n(560, 6000), tags=tags)
    exhaustive = False
    if not ctx.quick:
        allmaps = list(exhaustive_maps())
        # the full enumeration through the string route, both styles (scalars only)
        cases += [(u, frac, "string", False) for u in allmaps for frac in (True, False)]
        exhaustive = True
    r = run(ctx, cases)
    r["distribution"].update(tags)
    r["exhaustive"] = exhaustive
    if exhaustive:
        r["distribution"]["exhaustive: every ordered map over <=4 of {m,s,kg,A}, exponents "
                          "[-4,4] without 0, both styles"] = 2 * len(allmaps)
    return r


def search(ctx, broken):
    out = {"failures": [], "strategy": []}
    cases = gen_cases(ctx.rng, ctx.n(1500, 10000), arrays_every=6)
    r = run(ctx, cases, use_model=False)
    out["failures"] += [f for f in r["failures"] if f.get("oracle") == "independent"]
    out["strategy"].append("round trip through the implementation's own printer and parser: "
                           "{} (map, style, route) cases".format(len(cases)))
    try:
        r = run(ctx, cases[:600], ref=True)
        for f in r["failures"]:
            if f["signature"].startswith("c13:model-"):
                f["oracle"], f["kind"] = "independent", "violation"
                out["failures"].append(f)
        out["strategy"].append("reference-model run: {} cases".format(r["evaluations"]))
    except Exception as e:  # noqa: BLE001
        out["strategy"].append("reference driver unavailable: {}".format(str(e)[:200]))
    return out


def replay(ctx, rp):
    import qexpy as q
    f = rp.get("failure", {})
    c = f.get("case")
    if not c:
        return {"fails": False, "note": "replay file carries no concrete input", "payload": rp}
    u = X.units_from_json(c["u"])
    pre = c.get("pre") or ()
    o = observe(q, u, c["frac"], c["route"], True, pre=pre)
    fs = [x for x in judge(u, c["frac"], o, None, None, pre) if x.get("oracle") == "independent"]
    return {"fails": bool(fs), "input": f.get("input"), "impl": o, "failures": fs}

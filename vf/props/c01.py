"""C01 — derivative-method results obey the first-order propagation law."""
from props import _exprcheck as X

ID = "C01"
SECTIONS = ["ops"]
LEAN_MODULES = ["QExPy.Props.C01"]
LEMMA_MODULES = ["QExPy.Lemmas.Rules", "QExPy.Props.C03"]
THEOREMS = ["QExPy.rule1", "QExPy.rule2", "QExPy.rule_pow_const", "QExPy.C03_diff_correct",
            "QExPy.C01_value", "QExPy.C01_statement_form", "QExPy.C01_quadratic_form", "QExPy.C01_error",
            "QExPy.C01_partials_exact", "QExPy.C01_perm_invariant", "QExPy.C01_self_cancel_sub",
            "QExPy.C01_self_cancel_div", "QExPy.C01_sums_nonneg"]
RULE = ("seeded formula DAGs as in C03 with correlations set through q.set_correlation "
        "(PSD by construction, incl. 0 and +-1 on single pairs), sigma in {0} U [1e-6,0.2]*|x|; "
        "value/error of the object returned by the real operators vs Expr.propagate in Float, "
        "tolerance = FB running error bound; non-trivial = >= 2 operators and >= 1 non-zero "
        "sigma; distinct by hash of the case")
ASSUMPTIONS = ["theorems over the reals; rounding compared under the conditioned tolerance",
               "derivative method selected globally, as the statement says (method interaction is C05/C15)"]
TRUSTED = ["modelled not verified: numpy element-wise functions, CPython float arithmetic, "
           "hash-set iteration order of source ids (proved irrelevant: C01_perm_invariant)"]


LEVEL_TEXT = ("Lean 4 theorems over the formula model whose operator table, derivative table and evaluator fragments are regenerated from operations.py on every run: the value is the formula at the central values, the radicand is exactly the statement's quadratic form over the distinct sources with the exact partial derivatives (C03_diff_correct), independent of the order of the sources; x-x and x/x cancel. Tied to the code by the translator and a differential run over seeded formula DAGs (all operand forms, repeated readings, revised uncertainties); a broken obligation triggers a failing-input search with the proved reference tables.")


def correspond(ctx):
    r = X.run(ctx, "c01", ctx.n(400, 100000), gen_kwargs={"allow_repeated": True, "allow_cast": True})
    # the law is about the CURRENT values, uncertainties and correlations: histories of edits,
    # method switches and recalculations (the session state machine of C05/C15), whose
    # derivative-method reads are judged against the model and the formula built afresh
    from props import _worldcheck as W
    h = W.run(ctx, "c05", ctx.n(60, 1500), 30)
    for f in h["failures"]:
        f["signature"] = "c01:history:" + f["signature"].split(":", 1)[-1]
    r["failures"] += h["failures"]
    r["evaluations"] += h["evaluations"]
    r["skipped"] += h["skipped"]
    r["nontrivial"] |= h["nontrivial"]
    r["distribution"]["histories"] = h["evaluations"]
    for k, v in h["distribution"].items():
        r["distribution"]["history-" + k] = v
    return r


def search(ctx, broken):
    out = {"failures": [], "strategy": []}
    try:
        r = X.run(ctx, "c01", ctx.n(1500, 20000), ref=True,
                  gen_kwargs={"allow_repeated": True, "allow_cast": True})
        for f in r["failures"]:
            f["oracle"] = "independent"
            f["kind"] = "violation"
        out["failures"] += r["failures"]
        out["strategy"].append("reference-model run: {} cases".format(r["evaluations"]))
    except Exception as e:  # noqa: BLE001
        out["strategy"].append("reference driver unavailable: {}".format(e))
    # histories (values / uncertainties / correlations changed, recalculated, read): the law must
    # hold with the CURRENT values and uncertainties; oracle = the formula built afresh
    try:
        from props import _worldcheck as W
        r = W.run(ctx, "c05", ctx.n(300, 3000), 30)
        for f in r["failures"]:
            if f.get("oracle") == "independent":
                f = dict(f, signature="c01:" + f["signature"].split(":", 1)[1])
                out["failures"].append(f)
        out["strategy"].append("edit/recalculate histories with afresh-built oracle: {}".format(
            r["evaluations"]))
    except Exception as e:  # noqa: BLE001
        out["strategy"].append("history search failed: {}".format(e))
    fs, tried = X.finite_difference_search(ctx, ctx.n(200, 2000))
    out["failures"] += [f for f in fs if f["signature"].startswith("c01")]
    out["strategy"].append("math-module value oracle: {} cases".format(tried))
    return out


def replay(ctx, rp):
    c = rp.get("failure", {}).get("case")
    if not c:
        return {"fails": False, "note": "replay file carries no concrete input", "payload": rp}
    if "ops_hist" in c:      # a history case found by the search
        from props import _worldcheck as W
        r = W.run(ctx, "c05", 1, 1, cases=[c])
    else:
        r = X.run(ctx, "c01", 1, cases=[c], ref=ctx.tables_changed(SECTIONS))
    return {"fails": bool(r["failures"]), "failures": r["failures"]}

"""C12 — unit strings are parsed with conventional precedence or rejected."""
import collections
import itertools
import re
from fractions import Fraction as F

import common as C
from props import _units as X

ID = "C12"
SECTIONS = ["units"]
LEAN_MODULES = ["QExPy.Props.C12"]
LEMMA_MODULES = ["QExPy.Lemmas.UnitParse", "QExPy.Lemmas.ParseEquiv", "QExPy.Lemmas.ParseAst", "QExPy.Lemmas.Lex", "QExPy.Lemmas.LexRound", "QExPy.Lemmas.ParseSpec", "QExPy.Lemmas.ParseSession"]
THEOREMS = ["QExPy.C12_scanner_pins_patterns", "QExPy.C12_precedence_table",
            "QExPy.C12_tokens_equiv", "QExPy.C12_parse_eq_ref", "QExPy.C12_lex_total",
            "QExPy.C12_lex_roundtrip", "QExPy.C12_sound", "QExPy.C12_complete",
            "QExPy.C12_tokens_sound_complete", "QExPy.C12_tokens_equiv_partial",
            "QExPy.C12_session_parse_pure", "QExPy.C12_session_frame", "QExPy.C12_session_edit"]
RULE = ("sentences generated from the grammar expr := term (('*'|'/'|dot) term)*, term := factor+, "
        "factor := SYMBOL | SYMBOL^INT | SYMBOL^(p/q) | '(' expr-without-parentheses ')', optional "
        "bare numerator '1/' (the two printed forms of C13 are part of the accepted language), up "
        "to 12 factors, juxtaposition only where it is lexically a separate token; expected "
        "exponents are the denotation of the generated syntax tree (not a parse).  Plus single-"
        "character corruptions (insert/delete/replace with digits, space, operators, brackets, "
        "'^', '+', '-', '.', '1', dot): expected = an independent recursive-descent parser written "
        "from the grammar (reject unless the corrupted string is again a sentence).  The same "
        "strings go to the Lean model (`parse`) and the Lean reference grammar (`refParse`).  "
        "Non-trivial = contains '/' together with juxtaposition or brackets; thorough: all strings "
        "up to length 6 over an 11-character alphabet and all token strings up to length 6.  "
        "HISTORIES of calls (sessions): the same string again through every entry point, "
        "near-identical strings (letter case, dot, blank, sign), rejected calls in between, and the "
        "caller editing the mappings parse_unit_string handed out (item assignment, pop, clear); "
        "every reply is judged by the reference parser on the string of that call alone, every "
        "mapping / quantity / array / definition obtained earlier is looked at again; the same "
        "history goes to the Lean session model (`runS`).  Exponents also at the boundary values of "
        "an unbounded integer (around 2^15 .. 2^100, long decimals; never next to a '^(p/q)' power).  "
        "Sessions in which define_unit NAMES a symbol the history's strings use (define-as), "
        "clear_unit_definitions() in between, and histories that start a new process (also run in a "
        "fork of a fresh interpreter)")
ASSUMPTIONS = ["the scanner in Model/UnitParse.lean mirrors what re.fullmatch + finditer do for the "
               "pinned pattern texts; that is validated by this run (exhaustively over short "
               "strings in the thorough tier), not proved",
               "the empty string is 'no unit' at the API level (Measurement(unit=''), x.unit = '') "
               "and is not passed to the parser",
               "the grammar of the statement is extended by the two forms the printer produces "
               "('1/' numerator, '^(p/q)' powers), which C13 requires to be accepted"]
TRUSTED = ["modelled not verified: Python's re engine (fullmatch/finditer), int(), Fraction()"]
LEVEL_TEXT = ('Lean 4 theorems over an exact model of tokeniser, implicit-multiplication grouping, two-stack precedence parser and evaluator: the pipeline equals a reference recursive-descent parser for ALL token lists incl. nested groups (acceptance and rejection), for all strings (C12_parse_eq_ref), the lexer accounts for every character, and parsing is sound and complete against a syntax-tree denotation; the regex texts and the precedence table are pinned from the source by the translator; differential run on grammar sentences, single-character corruptions and (thorough) all strings up to 6 characters; histories of calls (the same string again through every entry point, caller edits of the mappings handed out) against a Lean session model whose replies are proved to depend on the string alone (C12_session_parse_pure, _frame, _edit).')
LEVEL_NOTE = ("parser pipeline = reference grammar proved for all token lists and all strings (induction); "
              "scanner vs. Python's re engine tied by the differential run")
TECHNIQUE = "Lean 4 theorems over an exact model of tokeniser, grouping, two-stack parser, evaluator"
CLEANROOM = True    # the reported input is confirmed stand-alone in a new process (vf/check.py)


# ------------------------------------------------------------------ independent reference parser
def _letters(s, i):
    j = i
    while j < len(s) and (("a" <= s[j] <= "z") or ("A" <= s[j] <= "Z")):
        j += 1
    return j


def _digits(s, i):
    j = i
    while j < len(s) and "0" <= s[j] <= "9":
        j += 1
    return j


def _power(s, i):
    """after '^': INT or (INT/NAT) -> (Fraction or 'zerodiv', next index) or None"""
    j = i + 1 if i < len(s) and s[i] == "-" else i
    k = _digits(s, j)
    if k > j:
        return F(int(s[i:k])), k
    if i < len(s) and s[i] == "(":
        j = i + 1
        j2 = j + 1 if j < len(s) and s[j] == "-" else j
        k = _digits(s, j2)
        if k == j2 or k >= len(s) or s[k] != "/":
            return None
        k2 = _digits(s, k + 1)
        if k2 == k + 1 or k2 >= len(s) or s[k2] != ")":
            return None
        den = int(s[k + 1:k2])
        if den == 0:
            return "zerodiv", k2 + 1
        return F(int(s[j:k]), den), k2 + 1
    return None


def _tokens(s, brackets):
    """-> list of ('f', dict) factors and ('o', +1|-1) operators, or None"""
    s = s.replace(X.DOT, "*")
    toks = []
    i = 0
    if s.startswith("1/"):
        toks.append(("f", {}))
        i = 1
    if i >= len(s):
        return None
    while i < len(s):
        c = s[i]
        if c == "*" or c == "/":
            toks.append(("o", 1 if c == "*" else -1))
            i += 1
        elif ("a" <= c <= "z") or ("A" <= c <= "Z"):
            j = _letters(s, i)
            sym = s[i:j]
            if j < len(s) and s[j] == "^":
                p = _power(s, j + 1)
                if p is None:
                    return None
                if p[0] == "zerodiv":
                    return None
                toks.append(("f", {sym: p[0]}))
                i = p[1]
            else:
                toks.append(("f", {sym: F(1)}))
                i = j
        elif c == "(" and brackets:
            # the matching bracket: first ')' that is not the end of a '^(p/q)' power
            j = i + 1
            depth_ok = True
            while j < len(s):
                if s[j] == ")":
                    break
                if s[j] == "(":
                    if s[j - 1] == "^" and j - 1 > i:
                        p = _power(s, j)
                        if p is None:
                            depth_ok = False
                            break
                        j = p[1]
                        continue
                    depth_ok = False
                    break
                j += 1
            if not depth_ok or j >= len(s):
                return None
            inner = _expr(s[i + 1:j], False)
            if inner is None:
                return None
            toks.append(("f", inner))
            i = j + 1
        else:
            return None
    return toks


def _expr(s, brackets):
    toks = _tokens(s, brackets)
    if not toks:
        return None
    # expr := term (op term)*, term := factor+
    total = collections.OrderedDict()
    sign = 1
    expect_factor = True
    seen_factor_in_term = False
    for kind, v in toks:
        if kind == "f":
            for k, e in v.items():
                total[k] = total.get(k, F(0)) + sign * e
            seen_factor_in_term = True
            expect_factor = False
        else:
            if not seen_factor_in_term:
                return None
            sign = v
            seen_factor_in_term = False
            expect_factor = True
    if expect_factor or not seen_factor_in_term:
        return None
    return total


def ref_parse(s):
    """-> sem map or None (not a sentence)"""
    r = _expr(s, True)
    return None if r is None else X.sem(r)


# ------------------------------------------------------------------ sentence generator
# boundary values of an INT (the grammar says "signed integers": no upper bound): around the powers
# of two where machine integers / binary floating point stop holding every integer, and long
# decimal numbers; the harness reads them with Python's exact int
BIG_EXPONENTS = ([sg * (2 ** k + d) for k in (15, 24, 31, 32, 52, 53, 54, 63, 64, 100) for d in (-1, 0, 1)
                  for sg in (1, -1)] + [10 ** 15 + 1, 10 ** 16 + 1, 10 ** 20 + 7, -(10 ** 20 + 7),
                                        9007199254740993, -9007199254740993, 10 ** 40 + 1])


def gen_power(rng):
    r = rng.random()
    if r < 0.06:
        n = rng.choice(BIG_EXPONENTS)
        return str(n), F(n)
    if r < 0.70:
        n = rng.choice([-9, -4, -3, -2, -1, 1, 2, 3, 4, 7, 12, 0])
        s = str(n)
        if rng.random() < 0.05:
            s = ("-0" if n < 0 else "0") + str(abs(n))
        return s, F(n)
    p, q = rng.choice([-5, -3, -1, 1, 2, 3, 5]), rng.choice([2, 3, 4])
    return "({}/{})".format(p, q), F(p, q)


def gen_factor(rng, syms, allow_par):
    r = rng.random()
    if allow_par and r < 0.22:
        e = gen_expr(rng, syms, False, rng.randint(1, 4))
        return ("par", e)
    if r < 0.6:
        return ("sym", rng.choice(syms))
    s, v = gen_power(rng)
    return ("pw", rng.choice(syms), s, v)


def gen_expr(rng, syms, allow_par, nfac):
    """list of (op, [factors]); op of the first term is None"""
    terms = []
    left = nfac
    while left > 0:
        k = min(left, rng.choice([1, 1, 1, 2, 2, 3]))
        fs = []
        for _ in range(k):
            f = gen_factor(rng, syms, allow_par)
            if fs and fs[-1][0] == "sym" and f[0] in ("sym", "pw"):
                # a bare symbol followed by a letter would lex as one symbol: separate them
                if allow_par and rng.random() < 0.5:
                    f = ("par", [(None, [f])])
                else:
                    s, v = gen_power(rng)
                    fs[-1] = ("pw", fs[-1][1], s, v)
            fs.append(f)
        terms.append((rng.choice(["*", "/", "/", X.DOT]) if terms else None, fs))
        left -= k
    return terms


def render(e):
    out = []
    for op, fs in e:
        if op:
            out.append(op)
        for f in fs:
            if f[0] == "sym":
                out.append(f[1])
            elif f[0] == "pw":
                out.append(f[1] + "^" + f[2])
            else:
                out.append("(" + render(f[1]) + ")")
    return "".join(out)


def den(e, acc=None, sign=1):
    acc = acc if acc is not None else {}
    for op, fs in e:
        sg = sign * (-1 if op == "/" else 1)
        for f in fs:
            if f[0] == "sym":
                acc[f[1]] = acc.get(f[1], F(0)) + sg
            elif f[0] == "pw":
                acc[f[1]] = acc.get(f[1], F(0)) + sg * f[3]
            else:
                den(f[1], acc, sg)
    return acc


def nontrivial(s):
    if "/" not in s:
        return False
    return "(" in s or re.search(r"[0-9)][a-zA-Z(]|[a-zA-Z)]\(", s) is not None


CORRUPT = (list("0123456789") + list(" ^*/()+-.1") + [X.DOT, "a", "^2", "**", "//", "((", "))"]
           # characters no clause of the grammar mentions: other white space, control characters,
           # letters and digits outside ASCII, the underscore (none may be taken for a symbol)
           + ["\n", "\t", "\r", "\x0b", "\x00", "_", "\u00b5", "\u03a9", "\u00e9", "\u00b2", "\u0663",
              "\u2009", "\u00a0", "\n*", "\n/"])


def corrupt(rng, s):
    kind = rng.choice(["ins", "ins", "del", "rep"])
    i = rng.randrange(len(s) + (1 if kind == "ins" else 0)) if s else 0
    c = rng.choice(CORRUPT)
    if kind == "ins" or not s:
        return s[:i] + c + s[i:]
    if kind == "del":
        return s[:i] + s[i + 1:]
    return s[:i] + c + s[i + 1:]


def shape(s):
    return re.sub(r"[0-9]+", "9", re.sub(r"[a-zA-Z]+", "a", s))


def gen_strings(rng, n):
    """-> list of (string, expected sem-map-or-None, origin)"""
    out = [(s, ref_parse(s), "corpus") for s in [
        "(a))", "(a)b)", "base", "base*m", "kg*m^2/s^2A^2", "a/b(c/d)e", "(a/b)(c)", "1/s",
        "m^(1/2)", "1/(s" + X.DOT + "m^(1/2))", "a^2^3", "a b", "a2", "()", "(a)^2", "a//b", "a/",
        "*a", "((a))", "(a(b))", "m^(1/0)", "1", "m1", "a/1", "a^+2", "a^-", "a^(1/2", "a^-2b",
        "a" * 30 + "!", "kilogram*meter*second^-2*ampere^-1 ", "a" + X.DOT + "b", "a/b/c", "a/b*c", "a/bc", "a/b^2c", "a/(b*c)d", "kg⋅m^2⋅s^-2",
        "(a\n*b)", "kg*(m\n/s)", "(a\n)", "a\nb", "a\n", "\na", "(\n)", "m^(1/2\n)", "a(b\tc)",
        "m^9007199254740993", "kg/m^-18446744073709551617s^2", "a^2147483648b",
        "(a\rb)", "a_b", "\u00b5m", "m\u00b2", "(\u03a9)", "a^\u0663"]]
    while len(out) < n:
        syms = rng.sample(X.SYMS, rng.randint(1, 4))
        e = gen_expr(rng, syms, True, rng.choice([1, 2, 2, 3, 4, 5, 6, 8, 10, 12]))
        s = render(e)
        if "^(" in s and re.search(r"[0-9]{5,}", s):
            # a boundary integer next to a '^(p/q)' power: the library keeps fractional powers (the
            # printer's form, not an INT of the statement's grammar) as floats by design, and
            # float + 2^64 is not what C12 judges; boundary integers meet integers only
            continue
        if rng.random() < 0.08:
            s = "1/" + s
            e = [(None, [])] + [("/" if i == 0 else op, fs) for i, (op, fs) in enumerate(e)]
        exp = X.sem(den(e))
        out.append((s, exp, "sentence"))
        for _ in range(rng.choice([0, 1, 1, 2])):
            c = corrupt(rng, s)
            if c:
                out.append((c, ref_parse(c), "corruption"))
    return out


# ------------------------------------------------------------------ run
def judge(strings, replies):
    failures, nontriv, samples = [], set(), []
    dist = collections.Counter()
    for (s, exp, origin), m in zip(strings, replies):
        st, val = X.impl_parse(s)
        dist[origin] += 1
        dist["expected:" + ("accept" if exp is not None else "reject")] += 1
        if exp is not None and any(abs(v) > 2 ** 53 for _, v in exp):
            dist["exponent of magnitude above 2^53 (boundary integers)"] += 1
        elif exp is not None and any(abs(v) >= 2 ** 15 - 1 for _, v in exp):
            dist["exponent of magnitude 2^15 .. 2^53 (boundary integers)"] += 1
        if st == "reject":
            dist["impl-reject:" + val] += 1
        if exp is not None and origin == "sentence" and nontrivial(s):
            nontriv.add(s)
        base = {"input": s, "origin": origin}
        if st == "timeout":
            failures.append(dict(base, signature="c12:timeout:" + shape(s)[:40], oracle="independent",
                                 what="the parser neither accepts nor rejects the string within "
                                      "{} s of CPU time".format(val), impl="no answer",
                                 expected=X.show(exp) if exp is not None else "rejection",
                                 clause="rejected with an error"))
            continue
        # the property itself, against the independent oracle
        if exp is None and st == "ok":
            failures.append(dict(base, signature="c12:accept:" + shape(s), oracle="independent",
                                 what="a string outside the grammar is accepted",
                                 impl=X.show(val), expected="rejection", clause="rejection"))
        elif exp is not None and st == "reject":
            failures.append(dict(base, signature="c12:reject:" + shape(s), oracle="independent",
                                 what="a sentence of the grammar is rejected ({})".format(val),
                                 impl="reject:" + val, expected=X.show(exp), clause="acceptance"))
        elif exp is not None and val != exp:
            failures.append(dict(base, signature="c12:meaning:" + shape(s), oracle="independent",
                                 what="exponents differ from the conventional reading",
                                 impl=X.show(val), expected=X.show(exp), clause="precedence"))
        elif m is not None:
            if "fail" in m:
                failures.append(dict(base, signature="model-error", kind="disagreement",
                                     what="model driver: " + m["fail"]))
                continue
            mm = X.sem_json(m["model"]["units"]) if m["model"]["ok"] else None
            mr = X.sem_json(m["ref"]["units"]) if m["ref"]["ok"] else None
            iv = val if st == "ok" else None
            if mr != exp:
                failures.append(dict(base, signature="c12:spec-differs:" + shape(s),
                                     kind="disagreement",
                                     what="Lean refParse and the harness's reference parser differ",
                                     impl=str(mr), expected=str(exp)))
            if mm != iv:
                failures.append(dict(base, signature="c12:model-differs:" + shape(s),
                                     kind="disagreement",
                                     what="Lean model of the parser and the implementation differ",
                                     impl=str(iv), expected=str(mm)))
        if len(samples) < 5 and origin != "corpus":
            samples.append({"string": s, "impl": X.show(val) if st == "ok" else "reject:" + val,
                            "expected": X.show(exp) if exp is not None else "reject"})
    return failures, nontriv, samples, dist


def shrink(s, still_fails):
    changed = True
    while changed:
        changed = False
        for i in range(len(s)):
            t = s[:i] + s[i + 1:]
            if t and still_fails(t):
                s, changed = t, True
                break
    return s


def fails_independent(s):
    exp = ref_parse(s)
    st, val = X.impl_parse(s, limit=1.0)
    if st == "timeout":
        return True
    return (exp is None) != (st == "reject") or (exp is not None and val != exp)


def api_check(strings):
    """every entry point that takes a unit string — Measurement(unit=s), x.unit = s,
    MeasurementArray(unit=s), array.unit = s, define_unit(name, s) — accepts exactly what
    parse_unit_string accepts and gives it the same meaning; a REJECTED request (the exception is
    caught: a fault) leaves the quantity / the array / the definitions as they were, and a valid
    assignment afterwards still works"""
    import warnings
    import qexpy as q
    failures = []
    dist = collections.Counter()

    def unit_sem(x):
        # the stored exponent map (the state C12 anchors), not the printed string: the printer
        # rounds exponents to denominators <= 10 (C13's domain)
        return ("ok", X.sem({k: X.fr(v) for k, v in x._unit.items()}))

    def attempt(f):
        try:
            with warnings.catch_warnings():
                warnings.simplefilter("ignore")
                return True, f()
        except Exception as e:  # noqa: BLE001
            return False, type(e).__name__

    for s, exp, origin in strings:
        if not s:
            continue
        st, val = X.impl_parse(s)
        X.reset(q)
        prev = "Q^3/x"
        x = q.Measurement(1.0, 0.1, unit=prev)
        arr = q.MeasurementArray([1.0, 2.0], 0.1, unit=prev)
        xy = q.XYDataSet(xdata=[1.0, 2.0], ydata=[3.0, 4.0], xunit=prev, yunit=prev)
        q.define_unit("Zz", "kg*m")

        def state():
            return (unit_sem(x), [unit_sem(e) for e in arr], [unit_sem(e) for e in xy.xdata],
                    [unit_sem(e) for e in xy.ydata])

        def all_same(elems):
            us = {unit_sem(e) for e in elems}
            return us.pop() if len(us) == 1 else ("elements differ", sorted(us))
        before = state()
        entries = {
            "ctor": lambda: unit_sem(q.Measurement(1.0, 0.1, unit=s)),
            "setter": lambda: (setattr(x, "unit", s), unit_sem(x))[1],
            "array-ctor": lambda: all_same(q.MeasurementArray([1.0, 2.0], 0.1, unit=s)),
            "array-setter": lambda: (setattr(arr, "unit", s), all_same(arr))[1],
            "define": lambda: (q.define_unit("Zz", s), ("ok", ()))[1],
            # the other call forms that take a unit string
            "repeated-ctor": lambda: unit_sem(q.Measurement([1.0, 1.5, 2.0], unit=s)),
            "wrap-ctor": lambda: all_same(q.MeasurementArray(
                [q.Measurement(1.0, 0.1), q.Measurement(2.0, 0.1, unit=prev)], unit=s)),
            "xy-ctor-x": lambda: all_same(q.XYDataSet([1.0, 2.0], [3.0, 4.0], xunit=s).xdata),
            "xy-ctor-y": lambda: all_same(q.XYDataSet(xdata=[1.0, 2.0], ydata=[3.0, 4.0], yunit=s).ydata),
            "xy-xunit": lambda: (setattr(xy, "xunit", s), all_same(xy.xdata))[1],
            "xy-yunit": lambda: (setattr(xy, "yunit", s), all_same(xy.ydata))[1],
        }
        for name, f in entries.items():
            acc, res = attempt(f)
            dist["api:{}:{}".format(name, "accepted" if acc else "rejected")] += 1
            bad = None
            if acc != (st == "ok"):
                bad = "{} {} the string, parse_unit_string {}".format(
                    name, "accepts" if acc else "rejects ({})".format(res),
                    "accepts it" if st == "ok" else "rejects it")
            elif acc and name != "define" and res != ("ok", val):
                bad = "{} gives the string another meaning than parse_unit_string".format(name)
            elif not acc:
                # the fault: nothing may have changed, and the next valid request must work
                after = state()
                z = attempt(lambda: unit_sem(q.Measurement(1.0, 0.1, unit="Zz") /
                                             q.Measurement(1.0, 0.1, unit="kg")))
                if after != before:
                    bad = "a rejected {} changed the unit of the quantity / array: {} -> {}".format(
                        name, before, after)
                elif z != (True, X.impl_parse("m")):
                    bad = "a rejected {} changed the unit definitions (Zz = kg*m reads {})".format(name, z)
                else:
                    ok2 = attempt(lambda: (setattr(x, "unit", prev), setattr(arr, "unit", prev),
                                           setattr(xy, "xunit", prev), setattr(xy, "yunit", prev))) if \
                        name in ("setter", "array-setter", "xy-xunit", "xy-yunit") else (True, None)
                    if not ok2[0]:
                        bad = "after a rejected {} a valid assignment raises {}".format(name, ok2[1])
            if bad:
                failures.append({"signature": "c12:api:{}:{}".format(name, shape(s)), "input": s,
                                 "oracle": "independent", "what": bad, "impl": [acc, str(res)],
                                 "expected": st, "entry": name})
            if acc and name in ("setter", "array-setter", "xy-xunit", "xy-yunit"):
                x.unit = prev
                arr.unit = prev
                xy.xunit = prev
                xy.yunit = prev
            if acc and name == "define":
                q.define_unit("Zz", "kg*m")
    X.reset(q)
    return failures, dict(dist)


# ------------------------------------------------------------------ sessions (histories of calls)
# C12 speaks about one call; a program makes many.  A session is a history of calls of every
# entry point, with REPEATED strings, near-identical strings (other letter case, dot for '*',
# added blank), rejected strings in between, and with the caller EDITING the mappings that
# parse_unit_string handed out (they are the caller's own dicts).  Whatever happened before, every
# reply must be the reading of the string of THAT call (independent oracle: ref_parse), a mapping
# handed out earlier must hold what its caller made of it, and the unit a quantity / an array / a
# definition got earlier must still be the one its own string says.
#
# steps (handles are step indices):
#   [entry, s]                    entry in ENTRIES: a call with the unit string s
#   ["edit", h, "set", key, p, q] d[key] = p/q on the mapping handed out by the "parse" step h
#   ["edit", h, "pop", key]       d.pop(key)
#   ["edit", h, "clear"]          d.clear()
#   ["read", h]                   look at the mapping / quantity / array / definition of step h
#   ["define-as", s, name]       define_unit(name, s) where name is a SYMBOL that strings of the
#                                 same history use: session state of another feature (the
#                                 definitions) next to the parser; a string still reads as written
#   ["undefine"]                  clear_unit_definitions(): afterwards every name is a plain symbol
#                                 again (not a request of the Lean parse-session model, whose
#                                 replies depend on the string alone: it is shown a no-op read)
#   ["fresh"]  (first step only)  the history starts a NEW PROCESS: no reset / clear of the harness
#                                 before it (run in a fork of a fresh interpreter; in a used
#                                 process the harness resets: same meaning)
ENTRIES = ["parse", "ctor", "setter", "array-ctor", "array-setter", "define", "repeated-ctor",
           "wrap-ctor", "xy-ctor-x", "xy-ctor-y", "xy-xunit", "xy-yunit", "define-as"]
DEFINES = ("define", "define-as")
PROBE_SYM = "Zq"        # a symbol no generated string and no definition contains


def _def_name(i):
    return "Zz" + "".join(chr(ord("a") + int(c)) for c in str(i))


def variants(s):
    """strings that differ from s by what a sloppy cache key would ignore"""
    out = [s.swapcase(), s.lower(), s.upper(), s.replace("*", X.DOT), s.replace(X.DOT, "*"),
           s + " ", " " + s, s.replace("/", "*", 1), s.replace("^-", "^", 1), s.replace("^", "^-", 1)]
    return [t for t in dict.fromkeys(out) if t and t != s]


def session_expect(hist):
    """independent oracle: per step ('ok', sem) | ('reject',) | ('skip',); entry steps by
    ref_parse of their own string, handles by the harness's own dict operations"""
    held = {}
    out = []
    defs = {}       # the harness's own table of definitions: name -> [(sym, Fraction)]

    def seen_through_defs(i):
        # a definition is looked at through a product (see session_run.look): the name of step i
        # expanded by the definitions in force at that moment (names defined in terms of others)
        name = hist[i][2] if hist[i][0] == "define-as" else _def_name(i)
        return X.sem(X.expand([(name, F(1))], defs))

    for i, st in enumerate(hist):
        if st[0] in ENTRIES:
            r = ref_parse(st[1])
            held[i] = None if r is None else dict(r)
            if st[0] in DEFINES and r is not None:
                defs[st[2] if st[0] == "define-as" else _def_name(i)] = list(r)
                out.append(("ok", seen_through_defs(i)))
                continue
            out.append(("reject",) if r is None else ("ok", X.sem(held[i])))
        elif st[0] == "fresh":
            out.append(("skip",))
        elif st[0] == "undefine":
            defs.clear()
            out.append(("skip",))
        elif st[0] == "read" and hist[st[1]][0] in DEFINES:
            out.append(("skip",) if held.get(st[1]) is None else ("ok", seen_through_defs(st[1])))
        elif st[0] == "edit":
            d = held.get(st[1])
            if d is None or hist[st[1]][0] != "parse":
                out.append(("skip",))
                continue
            if st[2] == "set":
                d[st[3]] = F(st[4], st[5])
            elif st[2] == "pop":
                if st[3] not in d:
                    out.append(("skip",))
                    continue
                d.pop(st[3])
            else:
                d.clear()
            out.append(("ok", X.sem(d)))
        else:
            d = held.get(st[1])
            out.append(("skip",) if d is None else ("ok", X.sem(d)))
    return out


def session_run(q, hist):
    """the history on the real library -> per step ('ok', sem) | ('reject', class) | ('skip',)"""
    import warnings
    from qexpy.utils import units as U
    if hist and list(hist[0]) == ["fresh"] and X.PROCESS["virgin"]:
        X.PROCESS["virgin"] = False      # nothing is requested before the first step
    else:
        X.reset(q)
    held = {}
    out = []

    def stored(x):
        return X.sem({k: X.fr(v) for k, v in x._unit.items()})

    def look(i):
        kind, obj = held[i]
        if kind == "parse":
            return X.sem({k: X.fr(v) for k, v in obj.items()})
        if kind in ("ctor", "setter"):
            return stored(obj)
        if kind in ("repeated-ctor",):
            return stored(obj)
        if kind in ("array-ctor", "array-setter", "wrap-ctor", "xy-ctor-x", "xy-ctor-y", "xy-xunit",
                    "xy-yunit"):
            us = {stored(e) for e in obj}
            return us.pop() if len(us) == 1 else ("elements differ", sorted(us))
        # a definition: seen through a product with a symbol that no definition contains (the
        # result cannot be packed, so its stored map is the expansion of the name times Zq)
        r = q.Measurement(2.0, 0.1, unit=obj) * q.Measurement(3.0, 0.1, unit=PROBE_SYM)
        return tuple(x for x in stored(r) if x[0] != PROBE_SYM)

    with warnings.catch_warnings():
        warnings.simplefilter("ignore")
        for i, st in enumerate(hist):
            try:
                if st[0] in ENTRIES:
                    s = st[1]
                    if st[0] == "parse":
                        held[i] = ("parse", U.parse_unit_string(s))
                    elif st[0] == "ctor":
                        held[i] = ("ctor", q.Measurement(1.0, 0.1, unit=s))
                    elif st[0] == "setter":
                        x = q.Measurement(1.0, 0.1, unit="Q^3/x")
                        x.unit = s
                        held[i] = ("setter", x)
                    elif st[0] == "array-ctor":
                        held[i] = ("array-ctor", q.MeasurementArray([1.0, 2.0], 0.1, unit=s))
                    elif st[0] == "array-setter":
                        a = q.MeasurementArray([1.0, 2.0], 0.1, unit="Q^3/x")
                        a.unit = s
                        held[i] = ("array-setter", a)
                    elif st[0] == "repeated-ctor":
                        held[i] = (st[0], q.Measurement([1.0, 1.5, 2.0], unit=s))
                    elif st[0] == "wrap-ctor":
                        held[i] = (st[0], q.MeasurementArray(
                            [q.Measurement(1.0, 0.1), q.Measurement(2.0, 0.1, unit="Q^3/x")], unit=s))
                    elif st[0] in ("xy-ctor-x", "xy-ctor-y"):
                        d = q.XYDataSet(xdata=[1.0, 2.0], ydata=[3.0, 4.0],
                                        **{"xunit" if st[0][-1] == "x" else "yunit": s})
                        held[i] = (st[0], list(d.xdata if st[0][-1] == "x" else d.ydata))
                    elif st[0] in ("xy-xunit", "xy-yunit"):
                        d = q.XYDataSet(xdata=[1.0, 2.0], ydata=[3.0, 4.0], xunit="Q^3/x", yunit="mol")
                        setattr(d, st[0][3:], s)
                        held[i] = (st[0], list(d.xdata if st[0] == "xy-xunit" else d.ydata))
                    elif st[0] == "define-as":
                        q.define_unit(st[2], s)
                        held[i] = ("define", st[2])
                    else:
                        q.define_unit(_def_name(i), s)
                        held[i] = ("define", _def_name(i))
                    out.append(("ok", look(i)))
                elif st[0] == "fresh":
                    out.append(("skip",))
                elif st[0] == "undefine":
                    q.clear_unit_definitions()
                    out.append(("skip",))
                elif st[0] == "edit":
                    if st[1] not in held or held[st[1]][0] != "parse":
                        out.append(("skip",))
                        continue
                    d = held[st[1]][1]
                    if st[2] == "set":
                        v = F(st[4], st[5])
                        d[st[3]] = int(v) if v.denominator == 1 else float(v)
                    elif st[2] == "pop":
                        if st[3] not in d:
                            out.append(("skip",))
                            continue
                        d.pop(st[3])
                    else:
                        d.clear()
                    out.append(("ok", look(st[1])))
                else:
                    out.append(("ok", look(st[1])) if st[1] in held else ("skip",))
            except Exception as e:  # noqa: BLE001  a rejection (entry) or a broken read
                out.append(("reject", type(e).__name__))
    X.reset(q)
    return out


def session_judge(hist, obs, model=None):
    """failures of one executed history (independent oracle first, then the model tie)"""
    fails = []
    exp = session_expect(hist)
    for i, (st, o, e) in enumerate(zip(hist, obs, exp)):
        if e[0] == "skip" or o[0] == "skip":
            continue        # nothing to look at (the failing entry step itself is reported)
        s = st[1] if st[0] in ENTRIES else hist[st[1]][1]
        src = st[0] if st[0] in ENTRIES else hist[st[1]][0]
        base = {"input": {"history": [_step_text(x) for x in hist], "step": i}, "session": hist,
                "oracle": "independent", "entry": src, "carries_history": True}
        before = "; ".join(_step_text(x) for x in hist[:i]) or "nothing"
        if st[0] in ENTRIES:
            if e[0] == "reject" and o[0] == "ok":
                fails.append(dict(base, signature="c12:session:accept:{}:{}".format(src, shape(s)),
                                  what="{} is accepted (outside the grammar) after: {}".format(
                                      _step_text(st), before),
                                  impl=str(o[1]), expected="rejection", clause="rejection"))
            elif e[0] == "ok" and o[0] != "ok":
                fails.append(dict(base, signature="c12:session:reject:{}:{}".format(src, shape(s)),
                                  what="{} raises {} for a sentence of the grammar after: {}".format(
                                      _step_text(st), o[-1], before),
                                  impl=str(o), expected=X.show(e[1]), clause="acceptance"))
            elif e[0] == "ok" and o[1] != e[1]:
                fails.append(dict(base, signature="c12:session:meaning:{}:{}".format(src, shape(s)),
                                  what="{} does not give the exponents written in the string; "
                                       "before it: {}".format(_step_text(st), before),
                                  impl=X.show(o[1]) if _is_sem(o[1]) else str(o[1]),
                                  expected=X.show(e[1]), clause="precedence"))
        elif o[0] != "ok" or o[1] != e[1]:
            what = ("the mapping handed out by step {} does not hold what its caller made of it"
                    if src == "parse" else
                    "the unit stored by step {} is no longer the one its string says").format(st[1])
            fails.append(dict(base, signature="c12:session:handle:{}:{}".format(src, shape(s)),
                              what=what + "; history: " + "; ".join(_step_text(x) for x in hist[:i + 1]),
                              impl=(X.show(o[1]) if _is_sem(o[1]) else str(o[1])) if o[0] == "ok" else str(o),
                              expected=X.show(e[1]),
                              clause="the reading of a string does not depend on other calls"))
    if model is not None and not fails:
        if "fail" in model:
            return [{"signature": "model-error", "kind": "disagreement", "input": {"history": hist},
                     "what": "model driver: " + model["fail"]}]
        for i, (st, o, m) in enumerate(zip(hist, obs, model["replies"])):
            mm = ("ok", X.sem_json(m["units"])) if m["ok"] else None
            oo = o[:2] if o[0] == "ok" else None
            if exp[i][0] == "skip" or (o[0] == "skip"):
                continue
            src = st[0] if st[0] in ENTRIES else hist[st[1]][0]
            if src in DEFINES and st[0] != "edit":
                # the model's reply is the reading of the string; the harness looks at a definition
                # through the names in force (expansion is C18's model, not this one)
                plain = ref_parse(st[1] if st[0] in ENTRIES else hist[st[1]][1])
                if plain is None or exp[i] != ("ok", plain):
                    continue
            if mm != oo:
                fails.append({"signature": "c12:session-model-differs:{}".format(st[0]),
                              "kind": "disagreement", "input": {"history": hist, "step": i},
                              "what": "Lean session model and the implementation differ at step "
                                      "{} ({})".format(i, _step_text(st)),
                              "impl": str(oo), "expected": str(mm)})
    return fails


def _is_sem(v):
    return isinstance(v, tuple) and all(isinstance(x, tuple) and len(x) == 2 and isinstance(x[0], str)
                                        for x in v)


def _step_text(st):
    if st[0] in ENTRIES:
        return {"parse": "parse_unit_string({!r})", "ctor": "Measurement(unit={!r})",
                "setter": "x.unit = {!r}", "array-ctor": "MeasurementArray(unit={!r})",
                "array-setter": "array.unit = {!r}", "repeated-ctor": "Measurement([..], unit={!r})",
                "wrap-ctor": "MeasurementArray([<measurements>], unit={!r})",
                "xy-ctor-x": "XYDataSet(.., xunit={!r})", "xy-ctor-y": "XYDataSet(.., yunit={!r})",
                "xy-xunit": "xy.xunit = {!r}", "xy-yunit": "xy.yunit = {!r}",
                "define": "define_unit(name, {!r})",
                "define-as": "define_unit({!r}, {{!r}})".format(st[2] if len(st) > 2 else "?")
                }[st[0]].format(st[1])
    if st[0] == "fresh":
        return "(new process)"
    if st[0] == "undefine":
        return "clear_unit_definitions()"
    if st[0] == "edit":
        if st[2] == "set":
            return "result_of_step_{}[{!r}] = {}".format(st[1], st[3], F(st[4], st[5]))
        if st[2] == "pop":
            return "result_of_step_{}.pop({!r})".format(st[1], st[3])
        return "result_of_step_{}.clear()".format(st[1])
    return "look at the result of step {}".format(st[1])


def session_model_steps(hist):
    return [["parse", st[1]] if st[0] in ENTRIES else (["read", 0] if st[0] in ("undefine", "fresh") else st)
            for st in hist]


def session_classes(hist):
    """which deliberate scenario classes a history contains"""
    cl = set()
    seen, edited, rejected_since = {}, set(), {}
    named = set()
    for i, st in enumerate(hist):
        if st[0] in ENTRIES:
            s = st[1]
            r = ref_parse(s)
            if r is not None and named & {k for k, _ in r}:
                cl.add("string that uses a symbol named by define_unit earlier ({})".format(
                    "parse" if st[0] == "parse" else "other entry"))
            if st[0] == "define-as" and r is not None:
                named.add(st[2])
                cl.add("define_unit names a symbol of the history's strings" +
                       (" (first step)" if i == 0 else ""))
            if s in seen:
                cl.add("same string again")
                if seen[s] != st[0]:
                    cl.add("same string, other entry point")
                if s in edited:
                    cl.add("same string again after its result was edited")
                if rejected_since.get(s):
                    cl.add("same string again after a rejected call")
            if any(t != s and s in variants(t) for t in seen):
                cl.add("near-identical string (case, dot, blank, sign) after another")
            seen.setdefault(s, st[0])
            if ref_parse(s) is None:
                for t in seen:
                    rejected_since[t] = True
                cl.add("rejected call")
        elif st[0] == "fresh":
            cl.add("history starts a new process (no reset before it)")
        elif st[0] == "undefine":
            if named:
                cl.add("clear_unit_definitions() after a symbol was named, strings parsed again")
            named = set()
        elif st[0] == "edit":
            edited.add(hist[st[1]][1])
            cl.add("edit:" + st[2])
        elif hist[st[1]][0] != "parse":
            cl.add("read:" + hist[st[1]][0])
    return cl


_POOLS = {}


def _written_syms(s):
    return set(re.findall(r"[a-zA-Z]+", s))


def gen_session(rng, pool):
    """one history over 1-3 accepted strings of the pool, their near-identical variants and a
    rejected string; every accepted string is handed out, the result is edited, and the string is
    used again through several entry points; at the end every string is parsed once more and
    every handle is looked at"""
    key = (id(pool), len(pool))
    if _POOLS.get("key") != key:        # the three views of the pool are made once per pool
        _POOLS.update(key=key,
                      good=[s for s, e, _ in pool if e is not None and e != () and len(s) <= 24],
                      bad=[s for s, e, _ in pool if e is None and 0 < len(s) <= 24])
        _POOLS["small"] = [s for s in _POOLS["good"] if not re.search(r"[0-9]{5,}", s)] or ["m/s"]
    good, bad = _POOLS["good"], _POOLS["bad"]
    # some histories NAME compound units with symbols that their strings use (define_unit is
    # session state of another feature; a string must still read as written, C12-12 class).
    # Such histories use no boundary exponents: a definition is looked at through a product, in
    # which the library's float arithmetic on (1/2)*2^64 would be judged, not the parser.
    with_names = rng.random() < 0.5
    if with_names:
        good = _POOLS["small"]
    base = rng.sample(good, min(len(good), rng.randint(1, 3)))
    words = list(base)
    for s in base:
        vs = variants(s)
        if vs and rng.random() < 0.6:
            words.append(rng.choice(vs))
    if bad and rng.random() < 0.7:
        words.append(rng.choice(bad))
    # a quarter of the histories start a process (executed in a fork of a fresh interpreter too)
    hist = [["fresh"]] if rng.random() < 0.25 else []
    content = {}          # "parse" step with an accepted string -> what its caller holds now

    used = set()          # symbols in the expressions of the definitions made so far

    def entry(kind, s, name=None):
        hist.append([kind, s] + ([name] if name else []))
        r = ref_parse(s)
        if kind == "parse" and r is not None:
            content[len(hist) - 1] = dict(r)
        if kind in DEFINES and r is not None:
            used.update(_written_syms(s))

    def name_a_symbol():
        """define_unit(<a symbol of the history's strings>, <another string>): never a cycle (the
        name is neither in its own expression nor in any expression defined so far)"""
        syms = sorted({k for w in words for k, _ in (ref_parse(w) or ())} - used)
        if not syms:
            return
        name = rng.choice(syms)
        # symbols as WRITTEN (K^0 and K/K mention K although its exponent is 0: still a cycle)
        cands = [t for t in (rng.choice(good) for _ in range(12)) if name not in _written_syms(t)][:3]
        cands += [t for t in ["kg*m/s^2", "kg*m^2/s^2", "s^-1", "kg/(m*s^2)", "A*s", "m^2"]
                  if name not in _written_syms(t)]
        entry("define-as", rng.choice(cands), name)

    def edit(h):
        d = content[h]
        r = rng.random()
        if d and r < 0.45:
            k = rng.choice(sorted(d))
            v = d[k] + rng.choice([-3, -2, -1, 1, 2, 5])
            hist.append(["edit", h, "set", k, v.numerator, v.denominator])
            d[k] = v
        elif d and r < 0.7:
            k = rng.choice(sorted(d))
            hist.append(["edit", h, "pop", k])
            d.pop(k)
        elif r < 0.85:
            k, v = rng.choice(["Q", "x", "mol", "kg"]), rng.choice([F(1), F(-2), F(7), F(1, 2)])
            hist.append(["edit", h, "set", k, v.numerator, v.denominator])
            d[k] = v
        else:
            hist.append(["edit", h, "clear"])
            d.clear()

    if with_names and rng.random() < 0.6:
        name_a_symbol()          # first thing in the session, as a script does
    for s in base:
        entry(rng.choice(["parse", "parse", "ctor", "define", "array-setter"]), s)
        if with_names and rng.random() < 0.3:
            name_a_symbol()
        entry("parse", s)
        h = len(hist) - 1
        for _ in range(rng.randint(1, 3)):
            edit(h)
        for kind in rng.sample([e for e in ENTRIES if e != "define-as"], rng.randint(2, 4)) + ["parse"]:
            entry(kind, s)
    if with_names:
        for _ in range(rng.randint(1, 2)):
            name_a_symbol()
    plain_entries = [e for e in ENTRIES if e != "define-as"]
    for _ in range(rng.randint(2, 8)):
        r = rng.random()
        if r < 0.65 or not content:
            entry(rng.choice(plain_entries), rng.choice(words))
        elif r < 0.9:
            edit(rng.choice(sorted(content)))
        else:
            hist.append(["read", rng.choice([i for i, st in enumerate(hist) if st[0] in ENTRIES])])
    if with_names and rng.random() < 0.35:
        hist.append(["undefine"])        # the names are plain symbols again
        used.clear()
        if rng.random() < 0.5:
            name_a_symbol()              # ... and a symbol is named anew
    n = len(hist)
    for s in dict.fromkeys(words):
        entry("parse", s)
    for i in range(n):
        if hist[i][0] in ENTRIES:
            hist.append(["read", i])
    return hist


FIXED_SESSIONS = [
    [["define-as", "kg*m/s^2", "N"], ["parse", "N/m"], ["ctor", "N/m"], ["parse", "N*m"],
     ["define-as", "N*m", "J"], ["parse", "J/(kg*K)"], ["read", 0], ["read", 4], ["parse", "N/m"]],
    [["fresh"], ["define-as", "kg*m/s^2", "N"], ["parse", "N/m"], ["undefine"], ["parse", "N/m"],
     ["ctor", "kg*m/s^2"], ["read", 1], ["read", 5]],
    [["define-as", "kg*m/s^2", "N"], ["ctor", "N/m"], ["undefine"], ["parse", "N/m"], ["read", 0],
     ["read", 1], ["define-as", "kg*m^2/s^2", "N"], ["parse", "N/m"], ["read", 0], ["read", 1]],
    [["parse", "m/s"], ["edit", 0, "set", "s", -2, 1], ["parse", "m/s"], ["ctor", "m/s"],
     ["read", 0]],
    [["ctor", "kg*m/s^2"], ["parse", "kg*m/s^2"], ["edit", 1, "pop", "kg"], ["read", 0],
     ["setter", "kg*m/s^2"], ["define", "kg*m/s^2"], ["read", 5]],
    [["define", "kg/(m*s^2)"], ["parse", "kg/(m*s^2)"], ["edit", 1, "clear"], ["read", 0],
     ["array-ctor", "kg/(m*s^2)"], ["parse", "kg/(m*s^2)"]],
    [["parse", "m/s"], ["parse", "M/S"], ["parse", "m/s "], ["parse", "m/s"], ["parse", "m" + X.DOT + "s"],
     ["parse", "m*s"]],
    [["parse", "a(b"], ["parse", "a(b)"], ["parse", "a(b"], ["array-setter", "a(b)"],
     ["parse", "a(b)"], ["edit", 4, "set", "b", 3, 1], ["read", 3], ["parse", "a(b)"]],
]


def shrink_session(hist, fails):
    """delete steps (with the steps that refer to them) while `fails(history)` still holds"""
    def without(h, j):
        out = []
        gone = {j}
        for i, st in enumerate(h):
            if i == j or (st[0] in ("edit", "read") and st[1] in gone):
                gone.add(i)
                continue
            out.append(list(st))
        ren = {}
        k = 0
        for i in range(len(h)):
            if i not in gone:
                ren[i] = k
                k += 1
        for st in out:
            if st[0] in ("edit", "read"):
                st[1] = ren[st[1]]
        return out
    changed = True
    while changed and len(hist) > 1:
        changed = False
        for j in range(len(hist) - 1, -1, -1):
            t = without(hist, j)
            if t and fails(t):
                hist, changed = t, True
                break
    return hist


def run_sessions(ctx, hists, ref=False, use_model=True):
    import qexpy as q
    replies = [None] * len(hists)
    if use_model and hists:
        replies = ctx.model([{"cmd": "usession", "steps": session_model_steps(h)} for h in hists],
                            ref=ref)
    failures = []
    dist = collections.Counter()
    steps = 0
    room, confirmed, tried = None, 0, 0
    fresh_room = None
    for h, m in zip(hists, replies):
        obs = session_run(q, h)
        steps += len(h)
        dist["session histories"] += 1
        for c in session_classes(h):
            dist["session: " + c] += 1
        for st in h:
            dist["session step: " + (st[0] if st[0] not in ENTRIES else "entry " + st[0])] += 1
        fs = session_judge(h, obs, m)
        if not fs and h and list(h[0]) == ["fresh"]:
            # the same history where it belongs: in a process in which nothing happened before
            fresh_room = fresh_room or C.CleanRoom("props.c12")
            ans = fresh_room.replay({"session": h})
            dist["session histories executed in a new process"] += 1
            if ans.get("fails") and ans.get("failures"):
                failures.append(dict(ans["failures"][0], session=h, carries_history=True,
                                     reproduces_alone=True))
                continue
        for f in fs[:1]:
            if f.get("oracle") == "independent":
                # confirm and shorten the history in a CLEAN ROOM (a new process per attempt):
                # inside this run a changed library may carry state from earlier histories
                if confirmed < 3 and tried < 12:
                    tried += 1
                    room = room or C.CleanRoom("props.c12")
                    alone = lambda t: room.replay({"session": t}).get("fails")   # noqa: E731
                    if alone(h):
                        confirmed += 1
                        sh = shrink_session(h, alone)
                        g = room.replay({"session": sh}).get("failures") or []
                        if g:
                            f = dict(g[0], found_in=h, reproduces_alone=True, session=sh)
                    else:
                        f = dict(f, kind="not-reproducible-alone",
                                 note="fails after the earlier histories of this run, not alone")
                        dist["session histories failing only after earlier histories"] += 1
            failures.append(f)
    if room:
        room.close()
    if fresh_room:
        fresh_room.close()
    return failures, dict(dist), steps


def exhaustive_strings(max_chars, max_toks):
    alpha = ["a", "b", "^", "2", "-", "*", "/", "(", ")", "1", X.DOT]
    for n in range(1, max_chars + 1):
        for t in itertools.product(alpha, repeat=n):
            yield "".join(t)
    toks = ["a", "b^2", "c^-1", "*", "/", "(", ")", "d^(1/2)"]
    for n in range(2, max_toks + 1):
        for t in itertools.product(toks, repeat=n):
            yield "".join(t)


def run(ctx, strings, ref=False, use_model=True):
    replies = [None] * len(strings)
    if use_model:
        replies = []
        for i in range(0, len(strings), 100000):
            replies += ctx.model([{"cmd": "uparse", "s": s} for s, _, _ in strings[i:i + 100000]],
                                 ref=ref)
    failures, nontriv, samples, dist = judge(strings, replies)
    for f in failures[:20]:
        if f.get("oracle") == "independent":
            f["shrunk"] = shrink(f["input"], fails_independent)
    return {"evaluations": len(strings), "nontrivial": nontriv, "failures": failures,
            "samples": samples, "distribution": dict(dist)}


def correspond(ctx):
    strings = gen_strings(ctx.rng, ctx.n(3000, 60000))
    r = run(ctx, strings)
    fs, d = api_check(strings[:ctx.n(400, 5000)])
    r["failures"] += fs
    r["distribution"].update(d)
    # histories of calls: repeated strings, edited results, every entry point (see "sessions")
    hists = FIXED_SESSIONS + [gen_session(ctx.rng, strings) for _ in range(ctx.n(150, 3000))]
    fs, d, steps = run_sessions(ctx, hists)
    r["failures"] += fs
    r["distribution"].update(d)
    r["evaluations"] += steps
    if not ctx.quick:
        seen = {s for s, _, _ in strings}
        ex = [(s, ref_parse(s), "exhaustive") for s in exhaustive_strings(6, 6) if s not in seen]
        r2 = run(ctx, ex)
        r["evaluations"] += r2["evaluations"]
        r["failures"] += r2["failures"]
        for k, v in r2["distribution"].items():
            r["distribution"][k] = r["distribution"].get(k, 0) + v
        r["exhaustive"] = True
        r["distribution"]["exhaustive: all strings of length<=6 over 'ab^2-*/()1.dot' and all "
                          "token strings of length<=6 over {a,b^2,c^-1,*,/,(,),d^(1/2)}"] = len(ex)
    return r


def search(ctx, broken):
    out = {"failures": [], "strategy": []}
    strings = gen_strings(ctx.rng, ctx.n(12000, 100000))
    strings += [(s, ref_parse(s), "exhaustive") for s in exhaustive_strings(4, 4)]
    r = run(ctx, strings, use_model=False)
    out["failures"] += [f for f in r["failures"] if f.get("oracle") == "independent"]
    out["strategy"].append("independent recursive-descent parser / syntax-tree denotation as "
                           "oracle: {} strings (incl. all strings of length <= 4)".format(len(strings)))
    hists = FIXED_SESSIONS + [gen_session(ctx.rng, strings) for _ in range(ctx.n(400, 3000))]
    fs, _, steps = run_sessions(ctx, hists, use_model=False)
    out["failures"] += [f for f in fs if f.get("oracle") == "independent"]
    out["strategy"].append("histories of calls (repeated strings, edited results, all entry points) "
                           "against the same oracle: {} histories, {} steps".format(len(hists), steps))
    try:
        r = run(ctx, strings[:20000], ref=True)
        for f in r["failures"]:
            if f["signature"].startswith("c12:model-differs"):
                f["oracle"], f["kind"] = "independent", "violation"
                out["failures"].append(f)
        out["strategy"].append("reference-model run: {} strings".format(r["evaluations"]))
    except Exception as e:  # noqa: BLE001
        out["strategy"].append("reference driver unavailable: {}".format(str(e)[:200]))
    return out


def replay(ctx, rp):
    f = rp.get("failure", {})
    if f.get("session"):
        import qexpy as q
        hist = f["session"]
        obs = session_run(q, hist)
        fs = session_judge(hist, obs)
        return {"fails": bool(fs), "input": [_step_text(x) for x in hist], "failures": fs,
                "impl": [str(o) for o in obs]}
    s = f.get("shrunk") if isinstance(f.get("shrunk"), str) else f.get("input")
    if not isinstance(s, str):
        return {"fails": False, "note": "replay file carries no concrete input", "payload": rp}
    exp = ref_parse(s)
    st, val = X.impl_parse(s)
    api = api_check([(s, exp, "replay")])[0]
    return {"fails": fails_independent(s) or bool(api), "input": s, "failures": api,
            "impl": X.show(val) if st == "ok" else "reject:" + val,
            "expected": X.show(exp) if exp is not None else "reject"}

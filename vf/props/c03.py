"""C03 — derivative() returns the true partial derivative of the composed formula."""
from props import _exprcheck as X

ID = "C03"
SECTIONS = ["ops"]
LEAN_MODULES = ["QExPy.Props.C03"]
LEMMA_MODULES = ["QExPy.Lemmas.Rules"]
THEOREMS = ["QExPy.rule1", "QExPy.rule2", "QExPy.rule_pow_const", "QExPy.C03_diff_correct",
            "QExPy.C03_not_mem", "QExPy.C03_self", "QExPy.C03_pow_const_base",
            "QExPy.C03_log_base", "QExPy.C03_deg_eval", "QExPy.C03_deg_arg",
            "QExPy.C03_sind", "QExPy.C03_sind_value"]
RULE = ("seeded formula DAGs (1-5 measurements, 1-8 operators incl. degree variants, both log "
        "arities, number / (value,error)-pair operands on either side, shared sub-expressions); "
        "r.derivative(m) for every source, one unrelated measurement and r itself vs Expr.diff in "
        "Float with the FB running error bound as tolerance; non-trivial = the path from the root "
        "to some measurement crosses a non-linear operator; distinct by hash of the case")
ASSUMPTIONS = ["theorems are over the reals; binary64 rounding and numpy/libm accuracy are compared "
               "under the conditioned tolerance, not proved",
               "points where the real function is not differentiable (base<=0 of a non-integer "
               "power, |x|=1 for asin/acos, poles) are excluded by InDom and by the generator"]
TRUSTED = ["modelled not verified: numpy element-wise functions, CPython float arithmetic"]


LEVEL_TEXT = ("Lean 4 theorem C03_diff_correct: for every formula tree, every point of the operators' domains and every measurement, the number derivative() computes is the HasDerivAt-derivative of the whole composed formula (per-operator rule lemmas over the tables regenerated from operations.py, lifted by induction); 0 for unrelated measurements, both operand positions of ** and two-argument log, degree variants. Tied to the code by the translator (tables + identity/dispatch structure) and a differential run incl. value changes, equal readings and injected faults.")


def correspond(ctx):
    return X.run(ctx, "c03", ctx.n(300, 100000), gen_kwargs={"allow_repeated": True, "allow_revalue": True, "allow_cast": True, "allow_routes": True})


def search(ctx, broken):
    out = {"failures": [], "strategy": []}
    # (a) the reference tables the theorems were last proved for, as oracle
    try:
        r = X.run(ctx, "c03", ctx.n(1500, 20000), ref=True,
                  gen_kwargs={"allow_repeated": True, "allow_revalue": True, "allow_cast": True, "allow_routes": True})
        for f in r["failures"]:
            f["oracle"] = "independent"
            f["kind"] = "violation"
        out["failures"] += [f for f in r["failures"] if f["signature"].startswith("c03")]
        out["strategy"].append("reference-model run: {} cases".format(r["evaluations"]))
    except Exception as e:  # noqa: BLE001
        out["strategy"].append("reference driver unavailable: {}".format(e))
    # (b) finite differences of the implementation's own value
    fs, tried = X.finite_difference_search(ctx, ctx.n(300, 3000))
    out["failures"] += [f for f in fs if f["signature"].startswith("c03")]
    out["strategy"].append("finite-difference oracle: {} cases".format(tried))
    return out


def replay(ctx, rp):
    import qexpy as q
    f = rp.get("failure", {})
    c = f.get("case")
    if not c:
        return {"fails": False, "note": "replay file carries no concrete input", "payload": rp}
    o = X.observe(q, c)
    if "ops_hist" in c:      # a history case found by the search
        from props import _worldcheck as W
        r = W.run(ctx, "c05", 1, 1, cases=[c])
    else:
        r = X.run(ctx, "c03", 1, cases=[c], ref=ctx.tables_changed(SECTIONS))
    fs, _ = [], 0
    return {"fails": bool(r["failures"]), "impl": o, "failures": r["failures"]}

"""C17 — MeasurementArray edits and aggregates match a list-of-pairs model."""
import collections
import math

from props import _dhelp as H
from common import bits, unbits, fb, close, canon_hash

ID = "C17"
SECTIONS = ["stats", "arrays"]
LEAN_MODULES = ["QExPy.Props.C17"]
THEOREMS = ["QExPy.ArrayEdit.C17_pyIndex_iff",
            "QExPy.ArrayEdit.C17_pyInsertPos_iff",
            "QExPy.ArrayEdit.C17_pyIndex_lt",
            "QExPy.ArrayEdit.C17_pyInsertPos_le",
            "QExPy.ArrayEdit.C17_pyIndex_zero",
            "QExPy.ArrayEdit.C17_listEdit_set_number",
            "QExPy.ArrayEdit.C17_insert_single",
            "QExPy.ArrayEdit.C17_pos_spec",
            "QExPy.ArrayEdit.C17_coerceItem_spec",
            "QExPy.ArrayEdit.C17_coerce_spec",
            "QExPy.ArrayEdit.C17_refines_list_eq",
            "QExPy.ArrayEdit.C17_refines_list",
            "QExPy.ArrayEdit.C17_refines_list_conv",
            "QExPy.ArrayEdit.C17_run_refines",
            "QExPy.ArrayEdit.C17_reject_unchanged",
            "QExPy.ArrayEdit.C17_accept_step",
            "QExPy.ArrayEdit.C17_name_unit_fixed",
            "QExPy.ArrayEdit.C17_names_mk",
            "QExPy.ArrayEdit.C17_names_reindexed",
            "QExPy.ArrayEdit.C17_names_edit",
            "QExPy.ArrayEdit.C17_run_name_unit",
            "QExPy.ArrayEdit.C17_names_run",
            "QExPy.ArrayEdit.C17_units_mk",
            "QExPy.ArrayEdit.C17_units_relabelled",
            "QExPy.ArrayEdit.C17_units_edit",
            "QExPy.ArrayEdit.C17_units_run",
            "QExPy.ArrayEdit.C17_mk_run",
            "QExPy.ArrayEdit.C17_setitem_number_keeps_uncertainty",
            "QExPy.ArrayEdit.C17_length",
            "QExPy.ArrayEdit.C17_sum",
            "QExPy.ArrayEdit.C17_mean",
            "QExPy.ArrayEdit.C17_std",
            "QExPy.ArrayEdit.C17_values_errors_run"]
RULE = ("seeded edit histories (1-15 edits) on initial arrays with no / common / per-element / "
        "relative uncertainties, with or without name and unit: append / insert / delete / item "
        "assignment with a number, a (value, error) pair, a measurement (own name and unit; also one "
        "recorded from repeated readings), a list of those (also empty) or another MeasurementArray, "
        "at every valid index incl. negative ones; every array an edit started from is read again "
        "after every later step; plus a "
        "malformed stream (out-of-range indices, negative uncertainties in pairs, non-numeric "
        "operands); after each edit values, uncertainties, unit, array name, element names and "
        "units and the length of the result and of the array the edit started from are read and "
        "compared exactly with Model/ArrayEdit.lean, sum()/mean()/std() under the FB bound; "
        "non-trivial = at least 3 accepted edits of at least 2 kinds; distinct by hash")
ASSUMPTIONS = ["default unit style; units from a fixed table whose printed form is known",
               "operands are fresh objects (an array sharing element objects with its descendants "
               "is outside the statement: the source array is read immediately after each "
               "append/insert/delete)",
               "arrays are never emptied (name and unit of an empty array are undefined in the code)"]
TRUSTED = ["modelled not verified: numpy.append / insert / delete on object arrays, numpy.sum/mean/std"]
LEVEL_TEXT = ("Lean 4 theorems about Model/ArrayEdit.lean (each edit is the Python-list edit on the "
              "pairs, names by position, one unit, over all edit sequences; aggregate definitions) + "
              "differential run on edit histories")
TECHNIQUE = "Lean 4 machine-checked proof over a model tied to the source by a differential correspondence run"

UNITS = {"": "", "m": "m", "kg*m^2/s^2": "kg⋅m^2⋅s^-2", "s": "s"}


# ---------------------------------------------------------------- generation
def gval(rng):
    return rng.choice([float(rng.randint(-20, 20)), round(rng.uniform(-50, 50), 2), H.rand_value(rng)])


def gerr(rng):
    return rng.choice([0.0, 0.5, 0.1, round(rng.uniform(0.01, 3), 3)])


# ARGUMENT TYPES: the same number handed over as another kind of Python object.  Every one of them
# is a numbers.Real; bools are not generated (not judged).
NUM_TYPES = ["int", "float", "np.float64", "np.float32", "np.int64", "np.int32", "np.int8",
             "np.arange", "Fraction"]
INT_TYPES = ("int", "np.int64", "np.int32", "np.int8", "np.arange")


def typed(rng, typ, nonneg=False):
    """a value that the named type represents exactly (so the model sees the same number)"""
    if typ in INT_TYPES:
        v = float(rng.randint(0 if nonneg else -20, 20))
    elif typ == "np.float32":
        v = rng.randint(0 if nonneg else -400, 400) / 8            # dyadic: exact in binary32
    elif typ == "Fraction":
        v = rng.randint(0 if nonneg else -60, 60) / rng.choice([1, 2, 3, 4, 5, 7, 8])
    else:
        v = gerr(rng) if nonneg else gval(rng)
    return v


def pick_type(rng, p=0.55):
    """None = the plain Python float the first version of this check always passed"""
    return rng.choice(NUM_TYPES) if rng.random() < p else None


def mk_num(b, typ):
    from fractions import Fraction
    import numpy as np
    v = unbits(b)
    if typ in (None, "float"):
        return v
    if typ == "int":
        return int(v)
    if typ == "Fraction":
        return Fraction(v).limit_denominator(1000)
    if typ == "np.float64":
        return np.float64(v)
    if typ == "np.float32":
        return np.float32(v)
    if typ == "np.int64":
        return np.int64(int(v))
    if typ == "np.int32":
        return np.int32(int(v))
    if typ == "np.int8":
        return np.int8(int(v))
    if typ == "np.arange":
        return np.arange(int(v), int(v) + 1)[0]       # an element of an integer array
    raise ValueError(typ)


def mk_index(i, typ):
    import numpy as np
    return {"np.int64": np.int64, "np.int32": np.int32, "np.intp": np.intp}.get(typ, int)(i)


def gen_item(rng, malformed):
    r = rng.random()
    if malformed and r < 0.12:
        return ["bad"]
    if r < 0.35:
        t = pick_type(rng, 0.7)
        return ["num", bits(typed(rng, t) if t else gval(rng))] + ([t] if t else [])
    if r >= 0.9:
        # a measurement recorded from REPEATED READINGS (q.Measurement([...])): its std (scatter of the
        # readings) and its error (standard error of the mean) differ, and it is another class of
        # element object; the pair of the list model is (mean, std/sqrt(n)) by the harness's arithmetic
        return gen_rep(rng)
    tv, te = pick_type(rng), pick_type(rng)
    v = typed(rng, tv) if tv else gval(rng)
    e = typed(rng, te, nonneg=True) if te else gerr(rng)
    if r < 0.7:
        if malformed and rng.random() < 0.25:
            e, te = -abs(gerr(rng)) - 0.1, None
        return ["pair", bits(v), bits(e)] + ([[tv, te]] if tv or te else [])
    return ["meas", bits(v), bits(e)] + ([[tv, te]] if tv or te else [])


def gen_rep(rng):
    n = rng.randint(2, 5)
    base, step = gval(rng), rng.choice([1.0, 0.5, 0.25, 0.1, round(rng.uniform(0.01, 2), 2)])
    rs = [base + step * rng.randint(-3, 3) for _ in range(n)]
    if len(set(rs)) == 1:
        rs[0] += step
    return ["rep", [bits(float(x)) for x in rs]] + ([rng.choice(["ints", "ndarray"])] if
                                                     rng.random() < 0.3 else [])


def rep_pair(it):
    """(mean, standard error of the mean) of the readings: math.fsum, two-pass"""
    xs = rep_readings(it)
    n = len(xs)
    mu = math.fsum(xs) / n
    sd = math.sqrt(math.fsum((x - mu) ** 2 for x in xs) / (n - 1))
    return mu, sd / math.sqrt(n)


def rep_readings(it):
    xs = [unbits(b) for b in it[1]]
    if len(it) > 2 and it[2] == "ints":
        xs = [float(int(x)) for x in xs]
    return xs


def has_rep(c):
    def items(x):
        return [x[1]] if x[0] == "one" else x[1] if x[0] == "many" and len(x) < 3 else []
    for e in c["edits"]:
        its = [e[2]] if e[0] == "set" else items(e[1]) if e[0] == "append" else items(e[2]) if \
            e[0] == "insert" else []
        if any(i[0] == "rep" for i in its):
            return True
    return False


def model_item(it):
    """the model's vocabulary has no repeated readings: the element is the pair the statement names"""
    if it[0] == "rep":
        mu, se = rep_pair(it)
        return ["meas", bits(mu), bits(se)]
    return it


def model_edit(e):
    def op(x):
        if x[0] == "one":
            return ["one", model_item(x[1])]
        if x[0] == "many" and len(x) < 3:
            return ["many", [model_item(i) for i in x[1]]]
        return x
    if e[0] == "append":
        return ["append", op(e[1])]
    if e[0] == "insert":
        return ["insert", e[1], op(e[2])] + e[3:]
    if e[0] == "set":
        return ["set", e[1], model_item(e[2])] + e[3:]
    return e


def gen_operand(rng, malformed):
    r = rng.random()
    if rng.random() < 0.06:
        # DEGENERATE operand: nothing to add (an empty batch of readings) as a list, a tuple-free
        # ndarray or an empty list again -- the edit is the identity on the elements but must still
        # give a NEW array (judged by the later history: `earlier`)
        return rng.choice([["many", []], ["many", []], ["many", [], "ndarray:float64"]])
    if r < 0.55:
        return ["one", gen_item(rng, malformed)]
    if r < 0.8:
        if rng.random() < 0.3:
            # a numpy array of bare numbers (ARRAY_TYPES): its elements are numpy scalars
            dt = rng.choice(["int64", "int32", "float32", "float64"])
            t = {"int64": "np.int64", "int32": "np.int32", "float32": "np.float32", "float64": "float"}[dt]
            return ["many", [["num", bits(typed(rng, t))] for _ in range(rng.randint(1, 3))], "ndarray:" + dt]
        return ["many", [gen_item(rng, malformed) for _ in range(rng.randint(0 if malformed else 1, 3))]]
    if rng.random() < 0.4:
        dt = rng.choice(["int64", "int32", "float32"])
        t = "np." + dt
        return ["arr", [[bits(typed(rng, t)), bits(typed(rng, t, nonneg=True))] for _ in range(rng.randint(1, 3))], dt]
    return ["arr", [[bits(gval(rng)), bits(gerr(rng))] for _ in range(rng.randint(1, 3))]]


def operand_len(x):
    """number of elements an operand contributes, None if it is rejected"""
    def ok(it):
        return it[0] != "bad" and not (it[0] == "pair" and unbits(it[2]) < 0)
    if x[0] == "one":
        return 1 if ok(x[1]) else None
    if x[0] == "many":
        return len(x[1]) if all(ok(i) for i in x[1]) else None
    return len(x[1])


def gen_case(rng, malformed=False, long=False):
    n = rng.randint(1, 6)
    xs = [gval(rng) for _ in range(n)]
    if rng.random() < 0.2:
        # large offset, small spread (timestamps, counters): the aggregates must not lose the
        # spread to cancellation
        off = rng.choice([1.0e6, 1.0e8, 1.6e9, -3.0e7])
        sp = rng.choice([0.5, 1e-2, 3.0])
        xs = [off + round(rng.uniform(-1, 1) * sp, 4) for _ in range(n)]
    r = rng.random()
    if r < 0.25:
        spec, es = None, [0.0] * n
    elif r < 0.5:
        e = gerr(rng)
        spec, es = ["common", bits(e)], [e] * n
    elif r < 0.8:
        es = [gerr(rng) for _ in range(n)]
        spec = ["each", [bits(e) for e in es]]
    else:
        rr = rng.choice([0.1, 0.05, 0.25])
        spec, es = ["rel", bits(rr)], [float(rr) * abs(x) for x in xs]
    c = {"name": rng.choice(["", "", "len", "x", "t1"]), "unit": rng.choice(["", "m", "m", "kg*m^2/s^2"]),
         "xs": [bits(x) for x in xs], "spec": spec, "init": [[bits(x), bits(e)] for x, e in zip(xs, es)],
         "edits": [], "malformed": malformed}
    if rng.random() < 0.2 and all(float(x).is_integer() and abs(x) < 1e6 for x in xs):
        c["data"] = rng.choice(["ndarray:int64", "ndarray:int32", "ints"])
    elif rng.random() < 0.15:
        c["data"] = "ndarray:float64"
    ln = n
    for _ in range(rng.randint(1, 40 if long else 15)):
        k = rng.choice(["append", "insert", "delete", "set", "set"])
        bad_index = malformed and rng.random() < 0.2
        if k == "append":
            x = gen_operand(rng, malformed)
            c["edits"].append(["append", x])
            ln += operand_len(x) or 0
        elif k == "insert":
            i = rng.randint(-ln, ln)
            if bad_index:
                i = rng.choice([ln + 1, ln + 3, -ln - 1, -ln - 4])
            x = gen_operand(rng, malformed)
            c["edits"].append(["insert", i, x] + index_type(rng))
            if not bad_index:
                ln += operand_len(x) or 0
        elif k == "delete":
            if ln <= 1:
                continue
            i = rng.randint(-ln, ln - 1)
            if bad_index:
                i = rng.choice([ln, ln + 2, -ln - 1])
            c["edits"].append(["delete", i] + index_type(rng))
            if not bad_index:
                ln -= 1
        else:
            i = rng.randint(-ln, ln - 1)
            if bad_index:
                i = rng.choice([ln, ln + 2, -ln - 1])
            c["edits"].append(["set", i, gen_item(rng, malformed)] + index_type(rng))
    if rng.random() < 0.35:
        # FAULTS: requests that the library must reject, sent to the array or to one of its
        # elements before an edit; the exception is caught; nothing may have changed
        c["faults"] = {}
        for k in rng.sample(range(1, len(c["edits"]) + 1), min(len(c["edits"]), rng.choice([1, 1, 2]))):
            c["faults"][str(k)] = [gen_fault(rng) for _ in range(rng.choice([1, 1, 2]))]
    return c


BAD_UNITS = ["m2", "kg*m/s^2)", "m per s", "m^", "(m", "2", " ", "m**2", "kg m"]
FAULT_KINDS = ["unit", "unit", "unit-type", "name-type", "elem-unit", "elem-value", "elem-error",
               "ctor-negative", "ctor-data", "append-bad", "set-bad"]


def gen_fault(rng):
    k = rng.choice(FAULT_KINDS)
    if k == "elem-unit":
        return [k, rng.randint(-3, 2), rng.choice(BAD_UNITS)]
    arg = rng.choice(BAD_UNITS) if k == "unit" else rng.randint(-3, 2)
    return [k, arg]


def send_fault(q, a, f):
    """one request that must be rejected; -> exception class or 'accepted'"""
    k, arg = f[0], f[1]
    n = len(a)

    def go():
        if k == "unit":
            a.unit = arg
        elif k == "unit-type":
            a.unit = 5
        elif k == "name-type":
            a.name = 5
        elif k == "elem-unit":
            a[arg % n].unit = f[2]
        elif k == "elem-value":
            a[arg % n].value = "abc"
        elif k == "elem-error":
            a[arg % n].error = -0.5
        elif k == "ctor-negative":
            q.MeasurementArray([1.0, 2.0], -0.5)
        elif k == "ctor-data":
            q.MeasurementArray("abc")
        elif k == "append-bad":
            a.append([(1.0, 0.1), "abc"])
        elif k == "set-bad":
            a[arg % n] = (1.0, -0.5)
        else:
            raise ValueError(k)
    st, v = H.call(go)
    return "accepted" if st == "ok" else v


def index_type(rng):
    """indices that come out of numpy (argmax, arange, len of an array) are numpy integers"""
    return [rng.choice(["np.int64", "np.int32", "np.intp"])] if rng.random() < 0.25 else []


def set_probes(rng):
    """deliberate: item assignment of a bare number of every numeric type to an element with a
    non-zero uncertainty, then the aggregates (the uncertainty must be kept)"""
    out = []
    for t in NUM_TYPES:
        n = rng.randint(2, 4)
        xs = [gval(rng) for _ in range(n)]
        es = [rng.choice([0.5, 0.1, 0.25]) for _ in range(n)]
        c = {"name": rng.choice(["", "len"]), "unit": rng.choice(["", "m"]), "xs": [bits(x) for x in xs],
             "spec": ["each", [bits(e) for e in es]], "init": [[bits(x), bits(e)] for x, e in zip(xs, es)],
             "edits": [["set", rng.randint(-n, n - 1), ["num", bits(typed(rng, t)), t]],
                       ["append", ["one", ["num", bits(typed(rng, t)), t]]],
                       ["insert", rng.randint(-n, n), ["one", ["pair", bits(typed(rng, t)),
                                                               bits(typed(rng, t, nonneg=True)), [t, t]]]],
                       ["set", rng.randint(-n, n - 1), ["num", bits(typed(rng, t)), t]]],
             "malformed": False}
        out.append(c)
    return out


def fmt_num(b, typ):
    v = unbits(b)
    if typ in (None, "float"):
        return repr(v)
    if typ == "int":
        return repr(int(v))
    if typ == "Fraction":
        return repr(mk_num(b, typ))
    if typ == "np.arange":
        return "np.arange({0}, {0} + 1)[0]".format(int(v))
    return "{}({!r})".format(typ, int(v) if typ in INT_TYPES else v)


def item_types(it):
    if it[0] == "num":
        return [it[2] if len(it) > 2 else None]
    if it[0] in ("pair", "meas"):
        return list(it[3]) if len(it) > 3 else [None, None]
    return []


def fmt_item(it):
    ts = item_types(it)
    if it[0] == "num":
        return fmt_num(it[1], ts[0])
    if it[0] == "pair":
        return "({}, {})".format(fmt_num(it[1], ts[0]), fmt_num(it[2], ts[1]))
    if it[0] == "meas":
        return "Measurement({}, {}, name='own', unit='s')".format(fmt_num(it[1], ts[0]), fmt_num(it[2], ts[1]))
    if it[0] == "rep":
        xs = rep_readings(it)
        data = repr([int(x) for x in xs]) if "ints" in it[2:] else repr(xs)
        return "Measurement({}, name='own', unit='s')".format("np.array(" + data + ")" if "ndarray" in it[2:] else data)
    return "'abc'"


def fmt_operand(x):
    if x[0] == "one":
        return fmt_item(x[1])
    if x[0] == "many":
        inner = "[" + ", ".join(fmt_item(i) for i in x[1]) + "]"
        return "np.array({}, dtype=np.{})".format(inner, x[2].split(":")[1]) if len(x) > 2 else inner
    dt = ", dtype=np.{}".format(x[2]) if len(x) > 2 else ""
    return "MeasurementArray(np.array({!r}{}), np.array({!r}{}), name='other', unit='s')".format(
        [unbits(p[0]) for p in x[1]], dt, [unbits(p[1]) for p in x[1]], dt) if dt else \
        "MeasurementArray({!r}, {!r}, name='other', unit='s')".format(
            [unbits(p[0]) for p in x[1]], [unbits(p[1]) for p in x[1]])


def fmt_index(e, k):
    return "{}({})".format(e[k], e[1]) if len(e) > k else str(e[1])


def fmt_fault(f):
    k = f[0]
    return {"unit": "a.unit = {!r}".format(f[1]), "unit-type": "a.unit = 5", "name-type": "a.name = 5",
            "elem-unit": "a[{} % len(a)].unit = {!r}".format(f[1], f[2] if len(f) > 2 else ""),
            "elem-value": "a[{} % len(a)].value = 'abc'".format(f[1]),
            "elem-error": "a[{} % len(a)].error = -0.5".format(f[1]),
            "ctor-negative": "MeasurementArray([1.0, 2.0], -0.5)", "ctor-data": "MeasurementArray('abc')",
            "append-bad": "a.append([(1.0, 0.1), 'abc'])",
            "set-bad": "a[{} % len(a)] = (1.0, -0.5)".format(f[1])}[k]


def describe(c):
    kw = ""
    if c["spec"]:
        k, v = c["spec"]
        kw = {"common": ", {!r}", "each": ", {!r}", "rel": ", relative_error={!r}"}[k].format(
            [unbits(e) for e in v] if k == "each" else unbits(v))
    data = repr([unbits(x) for x in c["xs"]])
    if c.get("data", "").startswith("ndarray"):
        data = "np.array({!r}, dtype=np.{})".format([unbits(x) for x in c["xs"]], c["data"].split(":")[1])
    elif c.get("data") == "ints":
        data = repr([int(unbits(x)) for x in c["xs"]])
    s = "a = MeasurementArray({}{}{}{})".format(
        data, kw, ", name={!r}".format(c["name"]) if c["name"] else "",
        ", unit={!r}".format(c["unit"]) if c["unit"] else "")
    for k, e in enumerate(c["edits"], 1):
        for f in c.get("faults", {}).get(str(k), []):
            s += "; <rejected, caught: {}>".format(fmt_fault(f))
        if e[0] == "append":
            s += "; a = a.append({})".format(fmt_operand(e[1]))
        elif e[0] == "insert":
            s += "; a = a.insert({}, {})".format(fmt_index(e, 3), fmt_operand(e[2]))
        elif e[0] == "delete":
            s += "; a = a.delete({})".format(fmt_index(e, 2))
        else:
            s += "; a[{}] = {}".format(fmt_index(e, 3), fmt_item(e[2]))
    return s


# ---------------------------------------------------------------- the real library
def mk_item(q, it):
    ts = item_types(it)
    if it[0] == "num":
        return mk_num(it[1], ts[0])
    if it[0] == "pair":
        return (mk_num(it[1], ts[0]), mk_num(it[2], ts[1]))
    if it[0] == "meas":
        return q.Measurement(mk_num(it[1], ts[0]), mk_num(it[2], ts[1]), name="own", unit="s")
    if it[0] == "rep":
        import numpy as np
        xs = rep_readings(it)
        data = [int(x) for x in xs] if "ints" in it[2:] else np.array(xs) if "ndarray" in it[2:] else xs
        return q.Measurement(data, name="own", unit="s")
    return "abc"


def mk_operand(q, x):
    import numpy as np
    if x[0] == "one":
        return mk_item(q, x[1])
    if x[0] == "many":
        if len(x) > 2:
            return np.array([unbits(i[1]) for i in x[1]], dtype=getattr(np, x[2].split(":")[1]))
        return [mk_item(q, i) for i in x[1]]
    vals, errs = [unbits(p[0]) for p in x[1]], [unbits(p[1]) for p in x[1]]
    if len(x) > 2:
        vals, errs = np.array(vals, dtype=getattr(np, x[2])), np.array(errs, dtype=getattr(np, x[2]))
    return q.MeasurementArray(vals, errs, name="other", unit="s")


def fl(v):
    """a stored number as a float; anything else (a fault wrote garbage) as a marked string"""
    try:
        return float(v)
    except Exception:  # noqa: BLE001
        return "not-a-number:" + repr(v)[:40]


def read(a):
    import warnings
    with warnings.catch_warnings():
        warnings.simplefilter("ignore")
        r = {"len": len(a), "values": [fl(v) for v in a.values], "errors": [fl(x) for x in a.errors],
             "names": [x.name for x in a], "units": [x.unit for x in a], "name": a.name, "unit": a.unit}
        for agg in ("sum", "mean"):
            s, v = H.call(getattr(a, agg))
            r[agg] = [float(v.value), float(v.error), v.unit] if s == "ok" else "exc:" + v
        s, v = H.call(a.std)
        r["std"] = float(v) if s == "ok" else "exc:" + v
    return r


def observe(q, c):
    H.reset(q)
    kw = {}
    if c["spec"]:
        k, v = c["spec"]
        if k == "common":
            kw["error"] = unbits(v)
        elif k == "each":
            kw["error"] = [unbits(e) for e in v]
        else:
            kw["relative_error"] = unbits(v)
    if c["name"]:
        kw["name"] = c["name"]
    if c["unit"]:
        kw["unit"] = c["unit"]
    data = [unbits(x) for x in c["xs"]]
    if c.get("data", "").startswith("ndarray"):
        import numpy as np
        data = np.array(data, dtype=getattr(np, c["data"].split(":")[1]))
    elif c.get("data") == "ints":
        data = [int(x) for x in data]
    st, a = H.call(lambda: q.MeasurementArray(data, **kw))
    if st != "ok":
        return {"steps": [{"out": "reject", "exc": a}]}
    steps = [{"out": "ok", "arr": read(a)}]
    excs = collections.Counter()
    flog = []

    def snap(x):
        return {"len": len(x), "values": [repr(fl(v)) for v in x.values], "errors": [repr(fl(v)) for v in x.errors]}
    # EARLIER ARRAYS: every array an append / insert / delete started from is kept and read again after
    # every later step of the history (in the list model they are other lists: nothing done to a
    # descendant reaches them)
    versions = []
    for k, e in enumerate(c["edits"], 1):
        for f in c.get("faults", {}).get(str(k), []):
            flog.append([k, f, send_fault(q, a, f)])
        before = {"len": len(a), "values": [fl(v) for v in a.values], "errors": [fl(x) for x in a.errors]}
        if e[0] == "append":
            st, b = H.call(lambda: a.append(mk_operand(q, e[1])))
        elif e[0] == "insert":
            st, b = H.call(lambda: a.insert(mk_index(e[1], e[3] if len(e) > 3 else None),
                                             mk_operand(q, e[2])))
        elif e[0] == "delete":
            st, b = H.call(lambda: a.delete(mk_index(e[1], e[2] if len(e) > 2 else None)))
        else:
            def f():
                a[mk_index(e[1], e[3] if len(e) > 3 else None)] = mk_item(q, e[2])
                return a
            st, b = H.call(f)
        step = {"out": st}
        after = {"len": len(a), "values": [fl(v) for v in a.values], "errors": [fl(x) for x in a.errors]}
        if e[0] != "set" or st != "ok":
            step["source_before"], step["source_after"] = before, after
        if st == "ok":
            if e[0] != "set":
                versions.append([len(steps) - 1, a, snap(a)])
            a = b
        else:
            step["exc"] = b
            excs[b] += 1
        bare_set = e[0] == "set" and st == "ok" and e[2][0] == "num"
        for ver in versions[-6:]:      # the six most recent ones (keeps long histories linear)
            now = snap(ver[1])
            if now != ver[2]:
                if bare_set:
                    # documented scope (DESIGN C17 scope note): `b[i] = number` writes the value into the
                    # element OBJECT, which the arrays derived from one another share; not judged, counted
                    step["earlier_shared_element"] = True
                elif "earlier_changed" not in step:
                    step["earlier_changed"] = {"made_before_step": ver[0] + 1, "before": ver[2], "after": now}
                ver[2] = now
        step["arr"] = read(a)
        steps.append(step)
    return {"steps": steps, "exceptions": dict(excs), "faults": flog}


def model_line(c):
    return {"cmd": "c17", "name": c["name"], "unit": UNITS[c["unit"]], "init": c["init"],
            "edits": [model_edit(e) for e in c["edits"]]}


# ---------------------------------------------------------------- comparison
def same_f(a, b):
    return a == b or (isinstance(a, float) and isinstance(b, float) and math.isnan(a) and math.isnan(b))


def near_f(a, b):
    """for histories with a repeated-readings operand: the mean / standard error of the readings are
    the harness's own (fsum) and agree with a correct library to rounding, not bit for bit"""
    return same_f(a, b) or (isinstance(a, float) and isinstance(b, float) and
                            abs(a - b) <= 1e-12 * max(abs(a), abs(b)) + 1e-13 * REP_SCALE[0])


REP_SCALE = [0.0]     # largest |reading| of the repeated-readings operands of the case being judged: a
# mean of readings that cancel (0.0 by numpy's pairwise sum, 2e-17 by fsum) agrees to rounding OF THE READINGS


def rep_scale(c):
    m = 0.0

    def items(x):
        return [x[1]] if x[0] == "one" else x[1] if x[0] == "many" and len(x) < 3 else []
    for e in c["edits"]:
        its = [e[2]] if e[0] == "set" else items(e[1]) if e[0] == "append" else items(e[2]) if \
            e[0] == "insert" else []
        for i in its:
            if i[0] == "rep":
                m = max([m] + [abs(x) for x in rep_readings(i)])
    return m


def fault_accepted(o):
    """a request meant to be rejected was accepted: the history is not judged by C17 (whether an
    invalid unit string / a negative uncertainty is rejected is C12's / C14's statement)"""
    return any(out == "accepted" for _, _, out in o.get("faults", []))


def compare(c, o, m):
    inp = describe(c)
    if fault_accepted(o):
        return []
    same_f = near_f if has_rep(c) else globals()["same_f"]
    REP_SCALE[0] = rep_scale(c)
    rs = REP_SCALE[0]
    if "fail" in m:
        return [{"signature": "c17:model-error", "kind": "disagreement", "what": "model driver: " +
                 m["fail"], "input": inp, "case": c}]
    if o["steps"][0]["out"] != "ok":
        return [{"signature": "c17:ctor", "what": "valid constructor call raised " +
                 str(o["steps"][0].get("exc")), "input": inp, "case": c}]
    for i, (si, sm) in enumerate(zip(o["steps"], m["steps"])):
        kind = "init" if i == 0 else c["edits"][i - 1][0]
        opk = ""
        if i:
            e = c["edits"][i - 1]
            x = (e[1] if kind == "append" else e[2]) if kind != "delete" else None
            opk = ":" + (x[0] + ("-" + x[1][0] if x[0] == "one" else "") if kind in ("append", "insert")
                         else x[0] if kind == "set" else "")
            idx = e[1] if kind in ("insert", "delete", "set") else None
            if idx is not None and idx < 0:
                opk += ":negative-index"

        def fail(sig, what, **kw):
            d = {"signature": "c17:{}:{}{}".format(sig, kind, opk), "what": what + " (edit {}: {})".format(
                i, kind), "input": inp, "case": c, "step": i}
            d.update(kw)
            return [d]
        if si["out"] != sm["out"]:
            return fail("outcome:impl-" + si["out"], "edit answered {}{} but the list model answers {}"
                        .format(si["out"], " (" + str(si.get("exc")) + ")" if si["out"] != "ok" else "",
                                sm["out"]), impl=si["out"], expected=sm["out"])
        if "source_before" in si and si["source_before"] != si["source_after"] and not \
                all(same_f(x, y) for k in ("values", "errors") for x, y in
                    zip(si["source_before"][k], si["source_after"][k])) or \
                ("source_before" in si and si["source_before"]["len"] != si["source_after"]["len"]):
            return fail("source-changed", "the array the edit started from changed",
                        impl=si["source_after"], expected=si["source_before"],
                        clause="source array unchanged")
        if "earlier_changed" in si:
            return fail("earlier-array-changed", "an array that an earlier append/insert/delete started from "
                        "changed when its descendant was edited", impl=si["earlier_changed"]["after"],
                        expected=si["earlier_changed"]["before"], clause="source array unchanged",
                        oracle="independent", kind="violation")
        ai, am = si["arr"], sm["arr"]
        els = am["elems"]
        if ai["len"] != len(els):
            return fail("length", "length differs", impl=ai["len"], expected=len(els))
        mv = [unbits(x[0]) for x in els]
        me = [unbits(x[1]) for x in els]
        if not all(same_f(x, y) for x, y in zip(ai["values"], mv)):
            return fail("values", "values differ from the list model", impl=ai["values"], expected=mv,
                        clause="elements in order")
        if not all(same_f(x, y) for x, y in zip(ai["errors"], me)):
            return fail("errors", "uncertainties differ from the list model", impl=ai["errors"],
                        expected=me, clause="elements in order")
        if ai["names"] != [x[2] for x in els]:
            return fail("names", "element names differ", impl=ai["names"], expected=[x[2] for x in els],
                        clause="named name_index by position")
        if ai["units"] != [x[3] for x in els] or ai["unit"] != am["unit"]:
            return fail("units", "units differ", impl=[ai["unit"], ai["units"]],
                        expected=[am["unit"], [x[3] for x in els]], clause="every element carries the unit")
        if ai["name"] != am["name"]:
            return fail("array-name", "array name differs", impl=ai["name"], expected=am["name"])
        # the statement itself, on the implementation's reads
        if c["name"] and ai["names"] != ["{}_{}".format(c["name"], k) for k in range(ai["len"])]:
            return fail("spec:names", "elements of a named array are not named name_index",
                        impl=ai["names"], oracle="independent")
        if ai["units"] != [UNITS[c["unit"]]] * ai["len"]:
            return fail("spec:units", "an element does not carry the array's unit", impl=ai["units"],
                        oracle="independent")
        for agg in ("sum", "mean"):
            if isinstance(ai[agg], str):
                return fail("aggregate:" + agg + ":exception", agg + "() raised " + ai[agg])
            for k, field in ((0, "value"), (1, "uncertainty")):
                v, b = fb(am[agg][k])
                if not close(ai[agg][k], v, b, slack=256.0) and not (
                        rs and abs(ai[agg][k] - v) <= 1e-12 * rs * max(ai["len"], 1)):
                    return fail("aggregate:{}:{}".format(agg, field), "{}() {} differs from its "
                                "definition".format(agg, field), impl=ai[agg][k], expected=v, bound=b)
            if ai[agg][2] != am["unit"]:
                return fail("aggregate:{}:unit".format(agg), agg + "() unit differs", impl=ai[agg][2],
                            expected=am["unit"])
        v, b = fb(am["std"])
        if isinstance(ai["std"], str) or (not close(ai["std"], v, b, slack=256.0) and not (
                rs and abs(ai["std"] - v) <= 1e-12 * rs * max(ai["len"], 1))):
            return fail("aggregate:std", "std() differs from the sample standard deviation",
                        impl=ai["std"], expected=v, bound=b)
    return []


def list_reference(c, o):
    """independent oracle: the same edits on a Python list of (value, error) pairs"""
    if o["steps"][0]["out"] != "ok" or fault_accepted(o):
        return []
    cur = [(unbits(p[0]), unbits(p[1])) for p in c["init"]]
    inp = describe(c)
    same_f = near_f if has_rep(c) else globals()["same_f"]
    REP_SCALE[0] = rep_scale(c)
    rs = REP_SCALE[0]

    def pairs_of(x):
        def one(it):
            if it[0] == "num":
                return (unbits(it[1]), 0.0)
            if it[0] == "bad" or (it[0] == "pair" and unbits(it[2]) < 0):
                raise ValueError
            if it[0] == "rep":
                return rep_pair(it)
            return (unbits(it[1]), unbits(it[2]))
        if x[0] == "one":
            return [one(x[1])]
        if x[0] == "many":
            return [one(i) for i in x[1]]
        return [(unbits(p[0]), unbits(p[1])) for p in x[1]]
    for i, (e, st) in enumerate(zip(c["edits"], o["steps"][1:]), 1):
        new = list(cur)
        try:
            if e[0] == "append":
                new = new + pairs_of(e[1])
            elif e[0] == "insert":
                if not -len(new) <= e[1] <= len(new):
                    raise IndexError
                ps = pairs_of(e[2])
                new[e[1]:e[1]] = ps
                if e[1] < 0 and False:
                    pass
            elif e[0] == "delete":
                if not -len(new) <= e[1] < len(new):
                    raise IndexError
                del new[e[1]]
            else:
                if not -len(new) <= e[1] < len(new):
                    raise IndexError
                it = e[2]
                if it[0] == "num":
                    new[e[1]] = (unbits(it[1]), new[e[1]][1])
                else:
                    new[e[1]] = pairs_of(["one", it])[0]
            exp_out = "ok"
        except (ValueError, IndexError):
            new, exp_out = cur, "reject"
        got = list(zip(st["arr"]["values"], st["arr"]["errors"]))
        if st["out"] != exp_out or len(got) != len(new) or not all(
                same_f(a, b) for p, r in zip(got, new) for a, b in zip(p, r)):
            return [{"signature": "c17:list:{}".format(e[0]), "what": "edit {} ({}) does not behave like "
                     "the edit on a Python list of pairs".format(i, e[0]), "input": inp, "case": c,
                     "step": i, "impl": [st["out"], got], "expected": [exp_out, new],
                     "oracle": "independent", "kind": "violation"}]
        if "source_before" in st and st["source_before"] != st["source_after"] and \
                [repr(x) for x in st["source_before"]["values"] + st["source_before"]["errors"]] != \
                [repr(x) for x in st["source_after"]["values"] + st["source_after"]["errors"]]:
            return [{"signature": "c17:list:source-changed:{}".format(e[0]), "what": "source array "
                     "changed by edit {}".format(i), "input": inp, "case": c, "step": i,
                     "oracle": "independent", "kind": "violation"}]
        if "earlier_changed" in st:
            return [{"signature": "c17:list:earlier-array-changed:{}".format(e[0]), "what": "an array that an "
                     "earlier append/insert/delete (step {}) started from changed at edit {}: in the list "
                     "model it is another list".format(st["earlier_changed"]["made_before_step"], i),
                     "input": inp, "case": c, "step": i, "impl": st["earlier_changed"]["after"],
                     "expected": st["earlier_changed"]["before"], "oracle": "independent", "kind": "violation"}]
        a = st["arr"]
        if c["name"] and a["names"] != ["{}_{}".format(c["name"], k) for k in range(a["len"])]:
            return [{"signature": "c17:list:names:{}".format(e[0]), "what": "elements of a named array "
                     "not named name_index after edit {}".format(i), "input": inp, "case": c, "step": i,
                     "impl": a["names"], "oracle": "independent", "kind": "violation"}]
        if a["units"] != [UNITS[c["unit"]]] * a["len"]:
            return [{"signature": "c17:list:units:{}".format(e[0]), "what": "an element does not carry "
                     "the array's unit after edit {}".format(i), "input": inp, "case": c, "step": i,
                     "impl": a["units"], "oracle": "independent", "kind": "violation"}]
        vals, errs = [p[0] for p in new], [p[1] for p in new]
        n = len(vals)
        s_exp = (math.fsum(vals), math.sqrt(math.fsum(x * x for x in errs)))
        scale = sum(abs(x) for x in vals) + 1e-300 + rs * len(vals)
        if not isinstance(a["sum"], str) and (abs(a["sum"][0] - s_exp[0]) > 1e-12 * scale or
                                              abs(a["sum"][1] - s_exp[1]) > 1e-12 * (s_exp[1] + 1e-300)):
            return [{"signature": "c17:list:sum", "what": "sum() is not sum(x) +/- sqrt(sum(s^2))",
                     "input": inp, "case": c, "step": i, "impl": a["sum"], "expected": s_exp,
                     "oracle": "independent", "kind": "violation"}]
        if n >= 2:
            mu = math.fsum(vals) / n
            sd = math.sqrt(math.fsum((x - mu) ** 2 for x in vals) / (n - 1))
            tol = 1e-9 * (scale / n) + 1e-12
            if not isinstance(a["mean"], str) and (abs(a["mean"][0] - mu) > tol or
                                                   abs(a["mean"][1] - sd / math.sqrt(n)) > tol or
                                                   isinstance(a["std"], str) or abs(a["std"] - sd) > tol):
                return [{"signature": "c17:list:mean-std", "what": "mean()/std() differ from mean +/- "
                         "std/sqrt(n) and the sample standard deviation", "input": inp, "case": c,
                         "step": i, "impl": [a["mean"], a["std"]], "expected": [mu, sd / math.sqrt(n), sd],
                         "oracle": "independent", "kind": "violation"}]
        cur = new
    return []


def run_cases(ctx, cases, ref=False, with_model=True):
    import qexpy as q
    obs = [observe(q, c) for c in cases]
    H.reset(q)
    mod = ctx.model([model_line(c) for c in cases], ref=ref) if with_model else [None] * len(cases)
    res = {"evaluations": len(cases), "nontrivial": set(), "failures": [], "samples": [],
           "distribution": collections.Counter(), "skipped": 0}
    d = res["distribution"]
    for c, o, m in zip(cases, obs, mod):
        if with_model:
            res["failures"] += compare(c, o, m)
        else:
            res["failures"] += list_reference(c, o)
        d["stream:" + ("malformed" if c["malformed"] else "valid")] += 1
        d["named" if c["name"] else "unnamed"] += 1
        d["unit" if c["unit"] else "no-unit"] += 1
        d["init-errors:" + (c["spec"][0] if c["spec"] else "none")] += 1
        if c.get("data"):
            d["init-data:" + c["data"]] += 1
        kinds = collections.Counter()
        for e, st in zip(c["edits"], o["steps"][1:]):
            tag = e[0]
            x = (e[1] if e[0] == "append" else e[2]) if e[0] != "delete" else None
            if e[0] in ("append", "insert"):
                tag += ":" + (x[0] + ("-" + x[1][0] if x[0] == "one" else ""))
            elif e[0] == "set":
                tag += ":" + x[0]
            if e[0] != "append" and e[1] < 0:
                tag += ":neg-index"
            d["edit:{}:{}".format(tag, st["out"])] += 1
            its = [] if x is None else [x] if e[0] == "set" else [x[1]] if x[0] == "one" else \
                x[1] if x[0] == "many" and len(x) < 3 else []
            for it in its:
                for t in item_types(it):
                    if t:
                        d["argtype:{}:{}:{}".format(e[0], it[0], t)] += 1
            if x is not None and x[0] in ("many", "arr") and len(x) > 2:
                d["argtype:{}:{}:{}".format(e[0], x[0], x[2])] += 1
            ityp = e[3] if e[0] in ("set", "insert") and len(e) > 3 else e[2] if e[0] == "delete" and len(e) > 2 else None
            if ityp:
                d["indextype:{}:{}".format(e[0], ityp)] += 1
            if x is not None and e[0] != "set" and x[0] == "many" and not x[1]:
                d["operand:empty:{}:{}".format(e[0], "ndarray" if len(x) > 2 else "list")] += 1
            for it in its:
                if it[0] == "rep":
                    d["operand:repeated-readings:{}:{}".format(e[0], (it[2:] or ["floats"])[0])] += 1
            if st.get("earlier_shared_element"):
                d["not-judged:earlier-array:shared-element-after-bare-number-set"] += 1
            if st["out"] == "ok":
                kinds[e[0]] += 1
        d["earlier-arrays-re-read"] += sum(1 for e, st in zip(c["edits"], o["steps"][1:])
                                           if e[0] != "set" and st["out"] == "ok")
        for k, v in o.get("exceptions", {}).items():
            d["exception:" + k] += v
        for _, f, out in o.get("faults", []):
            d["fault:{}:{}".format(f[0], out)] += 1
        if fault_accepted(o):
            d["not-judged:fault-accepted"] += 1
        if sum(kinds.values()) >= 3 and len(kinds) >= 2:
            res["nontrivial"].add(canon_hash(c))
        if len(res["samples"]) < 5 and len(c["edits"]) <= 4 and o["steps"][0]["out"] == "ok":
            res["samples"].append({"history": describe(c), "impl_final": {k: o["steps"][-1]["arr"][k] for k in
                                                                            ("values", "errors", "names")}})
    return res


def chunk(sub, n):
    return run_cases(sub, set_probes(sub.rng) + [
        gen_case(sub.rng, malformed=(i % 4 == 3), long=not sub.quick and i % 2 == 0) for i in range(n)])


def correspond(ctx):
    return H.run_chunks(ctx, chunk, ctx.n(500, 120000), chunk=250 if ctx.quick else 1250)


def search_chunk(sub, n):
    return run_cases(sub, set_probes(sub.rng) + [gen_case(sub.rng, malformed=(i % 3 == 2)) for i in range(n)],
                     with_model=False)


def search(ctx, broken):
    r = H.run_chunks(ctx, search_chunk, ctx.n(1500, 15000), chunk=500)
    for f in r["failures"]:
        f["oracle"], f["kind"] = "independent", "violation"
    return {"failures": r["failures"],
            "strategy": ["the same edits on a Python list of (value, error) pairs, names/units by the "
                         "statement, aggregates with math.fsum: {} histories".format(r["evaluations"])]}


def replay(ctx, rp):
    c = rp.get("failure", {}).get("case")
    if not c:
        return {"fails": False, "note": "replay file carries no concrete input", "payload": rp}
    import qexpy as q
    r = run_cases(ctx, [c])
    ind = list_reference(c, observe(q, c))
    return {"fails": bool(r["failures"] or ind), "history": describe(c), "failures": r["failures"] + ind}

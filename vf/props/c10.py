"""C10 — repeated-measurement statistics equal their textbook definitions."""
import collections
import math
from fractions import Fraction as F

from props import _dhelp as H
from common import bits, unbits, fb, close, canon_hash

ID = "C10"
SECTIONS = ["ops", "stats"]   # downstream formula k*a+c: generated operator tables; statistics: Generated/Stats.lean
LEAN_MODULES = ["QExPy.Props.C10"]
THEOREMS = ["QExPy.C10_mean_def",
            "QExPy.C10_var_def",
            "QExPy.C10_std_def",
            "QExPy.C10_sem_def",
            "QExPy.C10_meanPair",
            "QExPy.C10_sum_dev_zero",
            "QExPy.C10_var_nonneg",
            "QExPy.C10_std_sq",
            "QExPy.C10_var_alt",
            "QExPy.C10_var_ne_zero_length",
            "QExPy.C10_var_shift",
            "QExPy.C10_var_scale",
            "QExPy.C10_std_affine",
            "QExPy.C10_mean_affine",
            "QExPy.C10_cov_self",
            "QExPy.C10_cauchy_schwarz",
            "QExPy.C10_cov_bounded",
            "QExPy.C10_corr_bounded",
            "QExPy.C10_collinear",
            "QExPy.C10_collinear'",
            "QExPy.C10_inferred_accepted",
            "QExPy.C10_wmean_decomp",
            "QExPy.C10_wmean_optimal_ne",
            "QExPy.C10_wmean_optimal",
            "QExPy.C10_wmean_unique",
            "QExPy.C10_perr_is_var",
            "QExPy.C10_wmean_def",
            "QExPy.C10_lastValSel_iff",
            "QExPy.C10_lastErrSel_snoc",
            "QExPy.C10_lastErrSel_isErr",
            "QExPy.C10_selectors_data",
            "QExPy.C10_selectors_from",
            "QExPy.C10_selectors",
            "QExPy.C10_hasZero_iff",
            "QExPy.C10_selectors_zero_from",
            "QExPy.C10_selectors_zero",
            "QExPy.C10_used_downstream",
            "QExPy.C10_selected_used_downstream",
            "QExPy.C10_used_downstream_via_intermediate",
            "QExPy.C10_used_downstream_sq",
            "QExPy.C10_via_intermediate_eq_direct",
            "QExPy.C10_selected_used_downstream_via_intermediate",
            "QExPy.C10_used_downstream_pair",
            "QExPy.C10_used_downstream_sub",
            "QExPy.C10_used_downstream_prod",
            "QExPy.C10_selected_used_downstream_pair"]
RULE = ("seeded reading arrays (n 2..40, lists and ndarrays, offsets up to 1e6, spreads down to "
        "1e-3, no / common / per-element uncertainties, occasionally a zero uncertainty), selector "
        "sequences of length 0-8, a downstream formula k*a+c read after every selector by the "
        "derivative method AND by the Monte Carlo method (recorded draws: samples = "
        "k*(value in use + uncertainty in use*z)+c), a second "
        "array for the inferred covariance (random, exactly collinear, n=2, constant, unequal "
        "length) through set_covariance or set_correlation; every statistic compared with "
        "Model/Stats.lean run at FB (Float + rounding bound); TWO repeated measurements in one later "
        "calculation (k1*a+k2*b+c, a-b, a*b, a/b by the derivative method) with selector steps on either, "
        "their correlation inferred from the arrays or given as a factor and recorded before / between / "
        "after the steps, every read judged by own first-order arithmetic on exact-rational statistics "
        "AND by Model/Downstream.lean (downstream2); non-trivial = spread > 0 and "
        "individual uncertainties not all equal; distinct by hash of the case")
ASSUMPTIONS = ["theorems are over the reals; binary64 rounding is compared under the FB bound",
               "arrays whose model error bound exceeds 1e-6 of the statistic are skipped and counted"]
TRUSTED = ["modelled not verified: numpy.mean/std/sum, math.sqrt, CPython float arithmetic"]
LEVEL_TEXT = ("Lean 4 theorems about Model/Stats.lean (textbook identities, optimality of the "
              "weighted mean, Cauchy-Schwarz, collinear arrays, selector state machine) + "
              "differential run of the same definitions against the real library")
TECHNIQUE = "Lean 4 machine-checked proof over a model tied to the source by a differential correspondence run"

SELS = ["use_std", "use_sem", "use_wmean", "use_perr"]
SEL_METHOD = {"use_std": "use_std_for_uncertainty", "use_sem": "use_error_on_mean_for_uncertainty",
              "use_wmean": "use_error_weighted_mean_as_value",
              "use_perr": "use_propagated_error_for_uncertainty"}


# ---------------------------------------------------------------- generation
def gen_array(rng, n):
    off = rng.choice([0.0, 0.0, 10.0, 1e3, 1e6, -250.0])
    spread = rng.choice([1e-3, 0.1, 1.0, 1.0, 100.0])
    kind = rng.random()
    if kind < 0.15:
        return [off + H.dyadic(rng) for _ in range(n)]
    if kind < 0.25:
        return [float(rng.randint(-9, 9)) for _ in range(n)]
    return [off + spread * rng.gauss(0, 1) for _ in range(n)]


SPECIALS = ["wmean0", "wmean0", "wmean0", "mean0", "mean0-weighted", "const", "negzero", "wmean-int",
            "equal-pair", "wmean0-mean0", "wmean0-inexact-weights", "wmean0-inexact-weights"]


def gen_special(rng):
    """readings and uncertainties built from dyadic numbers so that binary64 arithmetic is EXACT and
    a statistic takes an exact special value: error-weighted mean exactly 0 (arithmetic mean not),
    arithmetic mean exactly 0, zero spread, negative zeros, all readings equal.
    Returns (tag, xs, es-or-None)."""
    tag = rng.choice(SPECIALS)
    n = rng.choice([2, 2, 3, 3, 4, 5, 8])
    small = lambda: rng.randint(-24, 24) / rng.choice([1, 2, 4])   # noqa: E731
    if tag == "wmean0-inexact-weights":
        # readings that sum to exactly 0 with EQUAL uncertainties that are not dyadic: the weighted
        # mean is exactly 0 over the rationals, but 1/sigma^2 is not representable and binary64
        # leaves a residue of a few 1e-16 * |x| (a statistic is judged relative to the size of its
        # terms, not to its own -- here vanishing -- value)
        while True:
            xs = [small() for _ in range(n - 1)]
            xs.append(-sum(xs))
            if len(set(xs)) >= 2:
                break
        e = rng.choice([2.781264053559593, 0.3, 1.1, round(rng.uniform(0.05, 5), rng.randint(2, 15))])
        return tag, xs, [e] * n
    if tag in ("wmean0", "wmean-int", "wmean0-mean0"):
        while True:
            es = [2.0 ** rng.randint(-2, 2) for _ in range(n)]
            if tag == "wmean0-mean0":
                es = [es[0]] * n              # equal weights: both means are exactly 0
            w = [1 / (e * e) for e in es]     # powers of two: exact
            xs = [small() for _ in range(n - 1)]
            target = 0.0 if tag != "wmean-int" else float(rng.randint(-3, 3))
            # sum(w_i x_i) = target * sum(w)  ->  last reading (exact: everything is dyadic)
            last = (target * sum(w) - sum(wi * x for wi, x in zip(w, xs))) / w[-1]
            xs.append(last)
            from fractions import Fraction as Fr
            exact = sum(Fr(wi) * Fr(x) for wi, x in zip(w, xs)) / sum(Fr(wi) for wi in w)
            if exact != Fr(target) or abs(last) > 1e6 or len(set(xs)) < 2:
                continue
            if tag == "wmean0" and sum(Fr(x) for x in xs) == 0:
                continue                      # the arithmetic mean must differ from the weighted one
            return tag, xs, es
    if tag in ("mean0", "mean0-weighted"):
        while True:
            xs = [small() for _ in range(n - 1)]
            xs.append(-sum(xs))
            if len(set(xs)) >= 2:
                break
        es = [2.0 ** rng.randint(-2, 2) for _ in range(n)] if tag == "mean0-weighted" else None
        return tag, xs, es
    if tag == "const":
        v = small()
        return tag, [v] * n, (None if rng.random() < 0.5 else [2.0 ** rng.randint(-2, 2) for _ in range(n)])
    if tag == "negzero":
        xs = [rng.choice([-0.0, 0.0, -0.0, small()]) for _ in range(n)]
        if len(set(xs)) < 2 and rng.random() < 0.7:
            xs[0] = 1.0
        return tag, xs, (None if rng.random() < 0.4 else [2.0 ** rng.randint(-1, 1) for _ in range(n)])
    # equal-pair: two equal readings (n = 2, spread exactly 0) with different uncertainties
    v = small()
    return tag, [v, v], [0.5, 2.0]


MIDREADS = ["both", "both", "value", "error", "str", "none"]


def gen_same_mean(rng, n):
    """two DIFFERENT reading arrays whose means are EXACTLY equal (dyadic readings: every sum is exact
    in binary64, so the two reported means are the same float): a permutation of the readings,
    usually with two of them moved by +d / -d.  Two quantities that happen to have the same central
    value are still two quantities."""
    while True:
        xs = [rng.choice([0.0, 16.0, -4.0]) + H.dyadic(rng, -200, 200) for _ in range(n)]
        if len(set(xs)) < 2:
            continue
        ys = list(xs)
        rng.shuffle(ys)
        if n == 2:
            ys = [xs[1], xs[0]]
        if rng.random() < 0.6:
            d = rng.choice([0.5, 1.0, 2.25, -3.0, 0.125])
            i, j = (0, 1) if n == 2 else rng.sample(range(n), 2)
            ys[i] += d
            ys[j] -= d
        if ys != xs and len(set(ys)) >= 2 and sum(F(x) for x in xs) == sum(F(y) for y in ys):
            return xs, ys


def gen_case(rng, malformed=False):
    n = rng.choice([2, 2, 3, 3, 4, 5, 5, 8, 10, 17, 40]) if rng.random() < 0.6 else rng.randint(2, 40)
    xs = gen_array(rng, n)
    c = {"xs": [bits(x) for x in xs], "nd": rng.random() < 0.4, "es": None, "common": None,
         "sels": [rng.choice(SELS) for _ in range(rng.choice([0, 1, 2, 3, 4, 6, 8]))],
         "k": bits(rng.choice([2.0, -3.0, 0.5, 1.0, -1.25])), "c": bits(rng.choice([0.0, 1.0, -7.5])),
         "pair": None, "bad": None, "mcvia": rng.choice(["value", "value", "global"]),
         "mcn": rng.choice([8, 16, 33]),
         # the intermediate result k*a is made BEFORE the selector steps and looked at in this way
         # (later calculations are then also built from it); Monte Carlo read built from it or afresh
         "midread": rng.choice(MIDREADS), "mckept": rng.random() < 0.4}
    if not malformed and rng.random() < 0.2:
        tag, xs, es = gen_special(rng)
        c["special"] = tag
        c["xs"] = [bits(x) for x in xs]
        c["es"] = [bits(e) for e in es] if es else None
        if es and "use_wmean" not in c["sels"]:
            c["sels"].insert(rng.randint(0, len(c["sels"])), "use_wmean")
        if es and rng.random() < 0.5:
            c["sels"].append(rng.choice(SELS))
        return c
    k = rng.random()
    if k < 0.3:
        c["common"] = bits(H.rand_pos(rng))
    elif k < 0.75:
        es = [H.rand_pos(rng) for _ in range(n)]
        if rng.random() < 0.12:
            es[rng.randrange(n)] = 0.0
        if rng.random() < 0.1:
            es = [es[0]] * n
        c["es"] = [bits(e) for e in es]
    # second array for the inferred covariance (plain arrays only: property quantifier)
    if c["es"] is None and c["common"] is None and rng.random() < 0.8:
        mode = rng.choice(["random", "random", "collinear", "collinear", "anti", "const", "unequal",
                           "same-mean", "same-mean"])
        if mode == "same-mean":
            xs, ys = gen_same_mean(rng, n)
            c["xs"] = [bits(x) for x in xs]
            c["pair"] = {"ys": [bits(y) for y in ys], "mode": mode}
        elif mode in ("collinear", "anti"):
            xs = [rng.choice([0.0, 16.0, 1024.0]) + H.dyadic(rng) for _ in range(n)]
            if len(set(xs)) < 2:
                xs[0] += 1.0
            kk = rng.choice([1.5, 2.0, 0.25, 3.0, 1.125, 0.75]) * (1 if mode == "collinear" else -1)
            cc = rng.choice([0.0, 1.0, -3.5, 100.0])
            ys = [kk * x + cc for x in xs]
            assert all(F(y) == F(kk) * F(x) + F(cc) for x, y in zip(xs, ys))
            c["xs"] = [bits(x) for x in xs]
            c["pair"] = {"ys": [bits(y) for y in ys], "mode": mode, "sign": 1 if kk > 0 else -1}
        elif mode == "const":
            c["pair"] = {"ys": [bits(3.25)] * n, "mode": mode}
        elif mode == "unequal":
            c["pair"] = {"ys": [bits(y) for y in gen_array(rng, n + rng.choice([1, 2]))], "mode": mode}
        else:
            ys = gen_array(rng, n)
            if rng.random() < 0.5:   # correlated
                ys = [y + rng.choice([0.5, -2.0, 10.0]) * x for x, y in zip(xs, ys)]
            c["pair"] = {"ys": [bits(y) for y in ys], "mode": mode}
        c["pair"]["via"] = rng.choice(["cov", "corr"])
        c["pair"]["form"] = rng.choice(["fn", "meth"])
    if malformed:
        kind = rng.choice(["neg-common", "neg-each", "len-each", "one-reading"])
        c["bad"] = kind
        c["pair"] = None
        if kind == "neg-common":
            c["common"], c["es"] = bits(-abs(H.rand_pos(rng))), None
        elif kind == "neg-each":
            es = [H.rand_pos(rng) for _ in range(n)]
            es[rng.randrange(n)] *= -1
            c["es"], c["common"] = [bits(e) for e in es], None
        elif kind == "len-each":
            c["es"], c["common"] = [bits(H.rand_pos(rng)) for _ in range(n + 1)], None
        else:
            c["bad"] = None   # a single reading is outside the quantifier; keep the case valid
    return c


def gen_collinear_case(rng):
    """plain reading arrays that are EXACTLY collinear (small integers / dyadic numbers, slope and
    offset exact): the inferred covariance sits on the Cauchy-Schwarz bound, the correlation is
    exactly +-1 — the clamps of set_covariance / set_correlation and the quotient of the parent
    class must work together on every rounding pattern of std_x * std_y (a few percent of such
    pairs round unfavourably)"""
    n = rng.choice([2, 2, 2, 3, 3, 4, 5, 8])
    while True:
        if rng.random() < 0.6:
            xs = [float(rng.randint(-20, 20)) for _ in range(n)]
        else:
            xs = [rng.choice([0.0, 16.0, 1024.0]) + H.dyadic(rng) for _ in range(n)]
        if len(set(xs)) >= 2:
            break
    kk = rng.choice([3.0, -3.0, 5.0, 7.0, -1.5, 1.25, 6.0, -7.0, 1.5, 2.0, 0.25, 1.125, 0.75, -0.75])
    cc = rng.choice([0.0, 1.0, -3.5, 100.0, float(rng.randint(-5, 5))])
    ys = [kk * x + cc for x in xs]
    assert all(F(y) == F(kk) * F(x) + F(cc) for x, y in zip(xs, ys))
    return {"xs": [bits(x) for x in xs], "nd": rng.random() < 0.4, "es": None, "common": None,
            "sels": [rng.choice(SELS) for _ in range(rng.choice([0, 0, 1, 2]))],
            "k": bits(rng.choice([2.0, -3.0, 0.5])), "c": bits(rng.choice([0.0, 1.0])),
            "pair": {"ys": [bits(y) for y in ys], "mode": "collinear" if kk > 0 else "anti",
                     "sign": 1 if kk > 0 else -1, "via": "cov" if rng.random() < 0.85 else "corr",
                     "form": rng.choice(["fn", "meth"])},
            "bad": None, "special": "collinear-targeted", "mcvia": rng.choice(["value", "global"]),
            "mcn": 8, "midread": rng.choice(MIDREADS), "mckept": rng.random() < 0.4}


def describe(c):
    xs = [unbits(x) for x in c["xs"]]
    d = "Measurement({}{})".format(("np.array(%r)" if c["nd"] else "%r") % (xs,),
                                   ", %r" % ([unbits(e) for e in c["es"]],) if c["es"] else
                                   (", %r" % unbits(c["common"]) if c["common"] is not None else ""))
    if c["sels"]:
        d += " ; " + ", ".join(c["sels"])
    if "midread" in c:
        d += " ; k={!r}, c={!r}, mid=k*a and mid+c made at the start (read: {}), after every step k*a+c, " \
             "mid+c, 1.0*(mid+c), mid*mid read".format(unbits(c["k"]), unbits(c["c"]), c["midread"])
    if c["pair"]:
        d += " ; infer {} ({} form) with {} array {!r}".format(
            c["pair"]["via"], c["pair"]["form"], c["pair"]["mode"], [unbits(y) for y in c["pair"]["ys"]])
    return d


# ---------------------------------------------------------------- the real library
def observe(q, c):
    import numpy as np
    H.reset(q)
    xs = [unbits(x) for x in c["xs"]]
    data = np.array(xs) if c["nd"] else list(xs)
    if c["es"] is not None:
        es = [unbits(e) for e in c["es"]]
        err = np.array(es) if c["nd"] else es
    elif c["common"] is not None:
        err = unbits(c["common"])
    else:
        err = None
    out = {}
    st, a = H.call(lambda: q.Measurement(data, err) if err is not None else q.Measurement(data))
    out["ctor"] = st if st == "ok" else "reject"
    if st != "ok":
        out["exc"] = a
        return out
    out["class"] = type(a).__name__
    rd = lambda name: H.call(lambda: float(getattr(a, name)))  # noqa: E731
    for name in ("mean", "std", "error_on_mean", "error_weighted_mean", "propagated_error"):
        s, v = rd(name)
        out[name] = v if s == "ok" else "exc:" + v
    kk, cc = unbits(c["k"]), unbits(c["c"])
    # INTERMEDIATE RESULTS made and looked at BEFORE any selector step: mid = k*a and, one level up,
    # mid2 = mid + c.  "Used in all later propagation" includes a later calculation that is written in
    # terms of such an intermediate result (a result that was already evaluated is not a source)
    mid = kk * a
    mid2 = mid + cc
    how = c.get("midread", "both")
    for x in (mid, mid2):
        if how in ("both", "value"):
            H.call(lambda: float(x.value))
        if how in ("both", "error"):
            H.call(lambda: float(x.error))
        if how == "str":
            H.call(lambda: str(x))

    def state():
        d = kk * a + cc
        d1 = mid + cc           # a NEW calculation from the intermediate result kept from the start
        d2 = 1.0 * mid2         # ... and from the one built on top of it
        d3 = mid * mid          # not linear in the intermediate: the product rule needs ITS central value
        return [float(a.value), float(a.error), float(d.value), float(d.error),
                float(d1.value), float(d1.error), float(d2.value), float(d2.error),
                float(d3.value), float(d3.error)]

    def mc_state():
        """the SAME downstream formula under the Monte Carlo method: the draws are recorded, so the
        samples must be k*(value in use + uncertainty in use * z) + c for the recorded z"""
        from props import _mc as MC
        n = c.get("mcn", 16)
        via = c.get("mcvia", "value")
        val, err = float(a.value), float(a.error)
        d = (mid + cc) if c.get("mckept") else (kk * a + cc)
        try:
            if via == "global":
                q.set_error_method(q.ErrorMethod.MONTE_CARLO)
                q.set_monte_carlo_sample_size(n)
            else:
                d.error_method = q.ErrorMethod.MONTE_CARLO
                d.mc.sample_size = n
            with MC.Capture() as cap:
                smp = np.array(d.mc.samples(), dtype=float)
                dv, de = float(d.value), float(d.error)
        finally:
            if via == "global":
                q.set_error_method(q.ErrorMethod.DERIVATIVE)
                q.set_monte_carlo_sample_size(10000)
        r = {"draw_calls": len(cap.calls), "n": int(len(smp)), "value": val, "error": err}
        if len(cap.calls) == 1 and len(cap.calls[0][1]) == n == len(smp):
            z = cap.calls[0][1]
            exp = kk * (val + err * z) + cc
            scale = abs(kk) * (abs(val) + abs(err) * np.abs(z)) + abs(cc)
            dev = np.abs(smp - exp) / (scale + 1e-300)
            j = int(np.argmax(dev))
            r.update({"maxdev": float(dev[j]), "at": j, "z": float(z[j]), "sample": float(smp[j]),
                      "expected": float(exp[j]),
                      # the selected uncertainty as the samples show it: spread / (|k| spread of z)
                      "sigma_seen": float(np.std(smp, ddof=1) / (abs(kk) * np.std(z, ddof=1)))
                      if n >= 2 and np.std(z) > 0 else None,
                      "mean_ok": bool(abs(dv - np.mean(smp)) <= 1e-12 * float(np.max(scale))),
                      "std_ok": bool(n < 2 or abs(de - np.std(smp, ddof=1)) <= 1e-9 * float(
                          np.max(scale)))})
        return r
    s, v = H.call(state)
    out["trace"] = [v if s == "ok" else "exc:" + v]
    s, v = H.call(mc_state)
    out["mctrace"] = [v if s == "ok" else "exc:" + str(v)]
    for sel in c["sels"]:
        s, v = H.call(lambda: getattr(a, SEL_METHOD[sel])())
        s2, v2 = H.call(state)
        out["trace"].append(v2 if (s == "ok" and s2 == "ok") else "exc:{}/{}".format(v, v2))
        s3, v3 = H.call(mc_state)
        out["mctrace"].append(v3 if s3 == "ok" else "exc:" + str(v3))
    if c["pair"]:
        ys = [unbits(y) for y in c["pair"]["ys"]]
        s, b = H.call(lambda: q.Measurement(np.array(ys) if c["nd"] else ys))
        if s != "ok":
            out["pair"] = {"set": "ctor-reject:" + b}
        else:
            via, form = c["pair"]["via"], c["pair"]["form"]
            if form == "fn":
                f = (lambda: q.set_covariance(a, b)) if via == "cov" else (lambda: q.set_correlation(a, b))
            else:
                f = (lambda: a.set_covariance(b)) if via == "cov" else (lambda: a.set_correlation(b))
            s, v = H.call(f)
            p = {"set": s, "exc": v if s != "ok" else None}
            p["cov"] = float(q.get_covariance(a, b))
            p["corr"] = float(q.get_correlation(b, a))
            # the same record through the other argument order and the method forms
            p["more"] = {"q.get_covariance(b, a)": H.call(lambda: float(q.get_covariance(b, a)))[1],
                         "a.get_covariance(b)": H.call(lambda: float(a.get_covariance(b)))[1],
                         "b.get_covariance(a)": H.call(lambda: float(b.get_covariance(a)))[1],
                         "q.get_correlation(a, b)": H.call(lambda: float(q.get_correlation(a, b)))[1],
                         "a.get_correlation(b)": H.call(lambda: float(a.get_correlation(b)))[1],
                         "b.get_correlation(a)": H.call(lambda: float(b.get_correlation(a)))[1]}
            p["stdx"], p["stdy"] = float(a.std), float(b.std)
            out["pair"] = p
    return out


def model_line(c):
    n = len(c["xs"])
    es = c["es"] if c["es"] is not None else ([c["common"]] * n if c["common"] is not None else None)
    line = {"cmd": "c10", "xs": c["xs"], "es": es, "sels": c["sels"], "k": c["k"], "c": c["c"]}
    if c["pair"] and len(c["pair"]["ys"]) == n:
        line["ys"] = c["pair"]["ys"]
    return line


# ---------------------------------------------------------------- two sources downstream
SHAPES = ["lin", "sub", "prod", "quot"]
# the same formulas as NEW calculations from intermediate results (k1*a, k2*b, a*b) that were made and
# read before any selector step / before the correlation was recorded
KEPT = {"klin": "lin", "kprod": "prod", "ksq": "sq"}
ALL_SHAPES = SHAPES + list(KEPT)
SHAPE_TEXT = {"lin": "k1*a + k2*b + c", "sub": "a - b", "prod": "a * b", "quot": "a / b",
              "klin": "ma + mb + c (ma = k1*a, mb = k2*b made and read at the start)",
              "kprod": "1.0 * mp (mp = a*b made and read at the start)",
              "ksq": "mp * mp (mp = a*b made and read at the start)"}
RHO_MODES = ["inferred-cov", "inferred-corr", "explicit-corr", "none"]


def gen_pair2(rng):
    """TWO repeated measurements a, b in one later calculation (k1*a + k2*b + c, a - b, a*b, a/b,
    derivative method): selector steps on either of them, a correlation between them that is inferred
    from the reading arrays (set_covariance / set_correlation without a number; plain arrays only: the
    statement's quantifier) or given as a correlation factor, recorded before, between or after the
    selector steps.  Every term of the propagation -- the two quadrature terms and the covariance term
    rho*sigma_a*sigma_b -- must use the uncertainties IN USE.  An explicit covariance NUMBER is not
    generated: which standard deviations normalise it for a repeated measurement is not fixed by the
    statement."""
    n = rng.choice([2, 2, 3, 4, 5, 5, 8, 12, 20])
    while True:
        xs = gen_array(rng, n)
        if len(set(xs)) >= 2:
            break
    mode = rng.choice(RHO_MODES)
    rel = rng.choice(["random", "correlated", "correlated", "anti", "collinear", "same-mean"])
    while True:
        if rel == "same-mean":
            xs, ys = gen_same_mean(rng, n)      # two quantities with exactly the same central value
            break
        ys = [rng.choice([5.0, 40.0, -30.0]) + y for y in gen_array(rng, n)]
        if rel == "correlated":
            ys = [y + rng.choice([0.5, 2.0, 10.0]) * x for x, y in zip(xs, ys)]
        elif rel == "anti":
            ys = [y - rng.choice([0.5, 2.0, 10.0]) * x for x, y in zip(xs, ys)]
        elif rel == "collinear":
            xs = [rng.choice([0.0, 16.0]) + H.dyadic(rng) for _ in range(n)]
            if len(set(xs)) < 2:
                xs[0] += 1.0
            kk = rng.choice([1.5, 2.0, 0.25, -0.75, -3.0])
            ys = [kk * x + rng.choice([1.0, -3.5, 100.0]) for x in xs]
        if len(set(ys)) >= 2:
            break

    def errs():
        k = rng.random()
        if k < 0.35:
            return None, None
        if k < 0.55:
            return None, bits(H.rand_pos(rng))
        es = [H.rand_pos(rng) for _ in range(n)]
        if rng.random() < 0.08:
            es[rng.randrange(n)] = 0.0
        return [bits(e) for e in es], None
    if mode.startswith("inferred"):
        ea, ca, eb, cb = None, None, None, None      # plain reading arrays
    else:
        (ea, ca), (eb, cb) = errs(), errs()
    steps = [[rng.choice("ab"), rng.choice(SELS)] for _ in range(rng.choice([0, 1, 2, 3, 4, 6]))]
    c = {"kind": "pair2", "xs": [bits(x) for x in xs], "ys": [bits(y) for y in ys], "nd": rng.random() < 0.4,
         "es": ea, "common": ca, "fs": eb, "fcommon": cb, "steps": steps,
         "rho_mode": mode, "rel": rel, "rho": None,
         "rho_from": rng.randint(0, len(steps)), "form": rng.choice(["fn", "meth"]),
         "order": rng.choice(["ab", "ba"]),
         "k1": bits(rng.choice([2.0, -3.0, 0.5, 1.0, -1.25])), "k2": bits(rng.choice([1.0, -1.0, 4.0, -0.5])),
         "c": bits(rng.choice([0.0, 1.0, -7.5])), "bad": None, "sels": [], "pair": None,
         "mcn": rng.choice([8, 16, 33])}
    if mode == "explicit-corr":
        c["rho"] = bits(rng.choice([0.5, -0.5, 0.9, -0.9, 1.0, -1.0, 0.25, round(rng.uniform(-1, 1), 3)]))
    return c


def describe_pair2(c):
    def one(xk, ek, ck):
        xs = [unbits(x) for x in c[xk]]
        return "Measurement({}{})".format(
            ("np.array(%r)" if c["nd"] else "%r") % (xs,),
            ", %r" % ([unbits(e) for e in c[ek]],) if c[ek] else
            (", %r" % unbits(c[ck]) if c[ck] is not None else ""))
    how = {"inferred-cov": "set_covariance({})", "inferred-corr": "set_correlation({})",
           "explicit-corr": "set_correlation({}, %r)" % (unbits(c["rho"]) if c["rho"] is not None else None),
           "none": "no correlation"}[c["rho_mode"]]
    how = how.format("a, b" if c["order"] == "ab" else "b, a")
    return "a = {} ; b = {} ; steps {} ; {} ({} form) before state {} ; read {}*a + {}*b + {}, a-b, a*b, a/b " \
           "after every step".format(one("xs", "es", "common"), one("ys", "fs", "fcommon"),
                                     ["{}.{}".format(w, sname) for w, sname in c["steps"]], how, c["form"],
                                     c["rho_from"], unbits(c["k1"]), unbits(c["k2"]), unbits(c["c"]))


def observe_pair2(q, c):
    import numpy as np
    H.reset(q)

    def build(xk, ek, ck):
        xs = [unbits(x) for x in c[xk]]
        data = np.array(xs) if c["nd"] else list(xs)
        if c[ek] is not None:
            es = [unbits(e) for e in c[ek]]
            return q.Measurement(data, np.array(es) if c["nd"] else es)
        if c[ck] is not None:
            return q.Measurement(data, unbits(c[ck]))
        return q.Measurement(data)
    out = {}
    st, a = H.call(lambda: build("xs", "es", "common"))
    st2, b = H.call(lambda: build("ys", "fs", "fcommon"))
    out["ctor"] = "ok" if st == st2 == "ok" else "reject"
    if out["ctor"] != "ok":
        out["exc"] = [a if st != "ok" else None, b if st2 != "ok" else None]
        return out
    k1, k2, cc = unbits(c["k1"]), unbits(c["k2"]), unbits(c["c"])
    ma, mb, mp = k1 * a, k2 * b, a * b       # intermediate results, read now
    for x in (ma, mb, mp):
        H.call(lambda: (float(x.value), float(x.error)))
    forms = {"lin": lambda: k1 * a + k2 * b + cc, "sub": lambda: a - b, "prod": lambda: a * b,
             "quot": lambda: a / b, "klin": lambda: ma + mb + cc, "kprod": lambda: 1.0 * mp,
             "ksq": lambda: mp * mp}

    def read():
        r = {"pairs": [float(a.value), float(a.error), float(b.value), float(b.error)]}
        for sh in ALL_SHAPES:
            s, d = H.call(forms[sh])
            if s != "ok":
                r[sh] = "exc:" + str(d)
                continue
            s1, v = H.call(lambda: float(d.value))
            s2, e = H.call(lambda: float(d.error))
            r[sh] = [v if s1 == "ok" else "exc:" + str(v), e if s2 == "ok" else "exc:" + str(e)]
        return r

    def record():
        x, y = (a, b) if c["order"] == "ab" else (b, a)
        m = c["rho_mode"]
        if m == "none":
            return "ok", None
        if m == "explicit-corr":
            r = unbits(c["rho"])
            return H.call((lambda: q.set_correlation(x, y, r)) if c["form"] == "fn" else
                          (lambda: x.set_correlation(y, r)))
        if m == "inferred-cov":
            return H.call((lambda: q.set_covariance(x, y)) if c["form"] == "fn" else
                          (lambda: x.set_covariance(y)))
        return H.call((lambda: q.set_correlation(x, y)) if c["form"] == "fn" else
                      (lambda: x.set_correlation(y)))
    def mc_read():
        """k1*a + k2*b + c under the Monte Carlo method while NO correlation is recorded: one array of
        standard-normal offsets per source is drawn (recorded); the samples must be
        k1*(va + sa*z) + k2*(vb + sb*z') + c with the pairs in use, for one of the two assignments of
        the recorded arrays to the sources"""
        from props import _mc as MC
        n = c.get("mcn", 16)
        d = k1 * a + k2 * b + cc
        d.error_method = q.ErrorMethod.MONTE_CARLO
        d.mc.sample_size = n
        va, ea, vb, eb = float(a.value), float(a.error), float(b.value), float(b.error)
        with MC.Capture() as cap:
            smp = np.array(d.mc.samples(), dtype=float)
        r = {"draw_calls": len(cap.calls), "n": int(len(smp))}
        if len(cap.calls) == 2 and all(len(x[1]) == n for x in cap.calls) and len(smp) == n:
            best = None
            for z1, z2 in ((cap.calls[0][1], cap.calls[1][1]), (cap.calls[1][1], cap.calls[0][1])):
                exp = k1 * (va + ea * z1) + k2 * (vb + eb * z2) + cc
                scale = abs(k1) * (abs(va) + ea * np.abs(z1)) + abs(k2) * (abs(vb) + eb * np.abs(z2)) + abs(cc)
                dev = np.abs(smp - exp) / (scale + 1e-300)
                j = int(np.argmax(dev))
                if best is None or dev[j] < best["maxdev"]:
                    best = {"maxdev": float(dev[j]), "at": j, "sample": float(smp[j]),
                            "expected": float(exp[j]), "z": [float(z1[j]), float(z2[j])]}
            r.update(best)
        return r
    out["states"] = []
    for i in range(len(c["steps"]) + 1):
        if i == c["rho_from"]:
            s, v = record()
            out["record"] = s if s == "ok" else "reject:" + str(v)
        s, r = H.call(read)
        if s == "ok" and (c["rho_mode"] == "none" or i < c["rho_from"]):
            s3, v3 = H.call(mc_read)
            r["mc"] = v3 if s3 == "ok" else "exc:" + str(v3)
        out["states"].append(r if s == "ok" else "exc:" + str(r))
        if i < len(c["steps"]):
            who, sel = c["steps"][i]
            s, v = H.call(lambda: getattr(a if who == "a" else b, SEL_METHOD[sel])())
            if s != "ok":
                out["states"].append("exc:selector " + str(v))
                break
    s, v = H.call(lambda: float(q.get_correlation(a, b)))
    out["rho_seen"] = v if s == "ok" else "exc:" + str(v)
    return out


def model_line_pair2(c):
    n = len(c["xs"])
    es = c["es"] if c["es"] is not None else ([c["common"]] * n if c["common"] is not None else None)
    fs = c["fs"] if c["fs"] is not None else ([c["fcommon"]] * n if c["fcommon"] is not None else None)
    line = {"cmd": "c10pair", "xs": c["xs"], "ys": c["ys"], "es": es, "fs": fs, "steps": c["steps"],
            "k1": c["k1"], "k2": c["k2"], "c": c["c"], "rho_from": c["rho_from"],
            "rho_mode": {"inferred-cov": "inferred", "inferred-corr": "inferred",
                         "explicit-corr": "explicit", "none": "none"}[c["rho_mode"]]}
    if c["rho"] is not None:
        line["rho"] = c["rho"]
    return line


def radicand_terms(sh, k1, k2, va, ea, vb, eb, rho):
    """(value, [terms of the radicand]) of the shape by the first-order law, own arithmetic:
    sum_i (d_i sigma_i)^2 + 2 rho sigma_a sigma_b d_a d_b"""
    if sh == "lin":
        da, db = k1, k2
    elif sh == "sub":
        da, db = 1.0, -1.0
    elif sh == "prod":
        da, db = vb, va
    elif sh == "sq":            # (a*b)^2
        da, db = 2.0 * va * vb * vb, 2.0 * va * va * vb
    else:
        da, db = 1.0 / vb, -va / (vb * vb)
    return [(da * ea) ** 2, (db * eb) ** 2, 2.0 * rho * ea * eb * da * db]


def pair2_expectation(c):
    """exact-rational statistics of both arrays, the selector machine replayed on them, the
    correlation factor: -> per state (va, ea, vb, eb, rho), tolerance of the statistics, or None when a
    statistic is too ill-conditioned to serve as a reference"""
    ra = exact_reference({"xs": c["xs"], "es": c["es"], "common": c["common"],
                          "pair": {"ys": c["ys"]}})
    rb = exact_reference({"xs": c["ys"], "es": c["fs"], "common": c["fcommon"], "pair": None})
    if ra["var"] == 0 or rb["var"] == 0:
        return None
    kap = max(1 + float(F(ra["mean"]) ** 2 / ra["var"]), 1 + float(F(rb["mean"]) ** 2 / rb["var"]))
    if kap > 1e14:
        return None
    n = len(c["xs"])
    tol = 1e-14 * n * (1 + math.sqrt(kap)) + 1e-12
    rho = 0.0
    if c["rho_mode"].startswith("inferred"):
        rho = ra["corr"]
    elif c["rho_mode"] == "explicit-corr":
        rho = unbits(c["rho"])
    cur = {"a": [ra["mean"], ra["sem"]], "b": [rb["mean"], rb["sem"]]}
    stats = {"a": ra, "b": rb}
    states = []
    for i in range(len(c["steps"]) + 1):
        states.append((cur["a"][0], cur["a"][1], cur["b"][0], cur["b"][1],
                       rho if i >= c["rho_from"] else 0.0))
        if i < len(c["steps"]):
            who, s = c["steps"][i]
            r = stats[who]
            if s == "use_std":
                cur[who][1] = r["std"]
            elif s == "use_sem":
                cur[who][1] = r["sem"]
            elif s == "use_wmean" and "wmean" in r:
                cur[who][0] = r["wmean"]
            elif s == "use_perr" and "perr" in r:
                cur[who][1] = r["perr"]
    return states, tol, rho


def exact_check_pair2(c, o, dist=None):
    """independent oracle: textbook statistics in exact rational arithmetic, the first-order law with
    the covariance term rho*sigma_a*sigma_b in own float arithmetic; radicands that cancel to less
    than 1e-6 of their terms are skipped (counted)"""
    fails = []
    inp = describe_pair2(c)

    def fail(sig, what, impl, exp, **kw):
        fails.append(dict({"signature": "c10:" + sig, "what": what + " (exact rational reference, own "
                           "first-order law)", "input": inp, "case": c, "impl": impl, "expected": exp,
                           "oracle": "independent", "kind": "violation"}, **kw))
    if o.get("ctor") != "ok":
        fail("pair2:ctor", "constructor raised on valid readings", o.get("exc"), "ok")
        return fails
    exp = pair2_expectation(c)
    if exp is None:
        return fails
    states, tol, rho = exp
    if c["rho_mode"] != "none":
        if o.get("record") != "ok":
            fail("pair2:record:rejected:" + c["rho_mode"], "recording the correlation of two equal-length "
                 "reading arrays with non-zero spread was rejected", o.get("record"), "ok",
                 clause="inferred covariance")
            return fails
        if not (isinstance(o["rho_seen"], float) and abs(o["rho_seen"] - rho) <= 1e-9 + 50 * tol):
            fail("pair2:correlation:" + c["rho_mode"], "recorded correlation factor differs from the "
                 "normalised sample covariance / the number given", o["rho_seen"], rho,
                 clause="inferred covariance, correlation")
            return fails
    k1, k2, cc = unbits(c["k1"]), unbits(c["k2"]), unbits(c["c"])
    mag_a = sum(abs(unbits(x)) for x in c["xs"]) / len(c["xs"]) + 1e-300
    mag_b = sum(abs(unbits(y)) for y in c["ys"]) / len(c["ys"]) + 1e-300
    for i, (st, ex) in enumerate(zip(o["states"], states)):
        step = "init" if i == 0 else "{}.{}".format(*c["steps"][i - 1])
        if not isinstance(st, dict):
            fail("pair2:exception", "selector / read raised", st, None, step=i)
            break
        va, ea, vb, eb, r = ex
        # a value is judged relative to the size of the readings it is formed from, never to itself:
        # a weighted mean that is exactly 0 is reproduced only up to the rounding of its terms
        mags = [mag_a, ea, mag_b, eb]
        tl = [1e-11, 10 * tol, 1e-11, 10 * tol]
        if not all(isinstance(x, float) and abs(x - y) <= t * max(g, abs(y)) + 1e-300
                   for x, y, t, g in zip(st["pairs"], ex[:4], tl, mags)):
            fail("pair2:selector:" + step.split(".")[-1], "value/uncertainty in use is not the selected "
                 "statistic", st["pairs"], list(ex[:4]), step=i, clause="selectors")
            break
        bad = False
        mc = st.get("mc")
        if mc is not None:
            if dist is not None:
                dist["pair-downstream:monte-carlo-read (no correlation in force)"] += 1
            if not isinstance(mc, dict) or mc["draw_calls"] != 2 or "maxdev" not in mc:
                fail("pair2:monte-carlo:draws", "Monte Carlo read of k1*a+k2*b+c after {} raised or did not "
                     "draw one array of standard-normal offsets per source".format(step), mc, None, step=i,
                     clause="used in all later propagation, Monte Carlo")
                break
            if not mc["maxdev"] <= 1e-12:
                fail("pair2:monte-carlo-downstream", "after {} the Monte Carlo samples of k1*a+k2*b+c are not "
                     "k1*(va + sa*z) + k2*(vb + sb*z') + c with the values and uncertainties in use "
                     "{!r}".format(step, st["pairs"]), mc["sample"], mc["expected"], step=i, z=mc["z"],
                     clause="used in all later propagation, Monte Carlo")
                break
        for shape in ALL_SHAPES:
            sh = KEPT.get(shape, shape)         # the formula the shape stands for
            if sh == "quot" and abs(vb) < 1e-3 * mag_b:
                continue
            if shape not in st:
                continue
            got = st[shape]
            wantv, vmag = {"lin": (k1 * va + k2 * vb + cc, abs(k1) * mag_a + abs(k2) * mag_b + abs(cc)),
                           "sub": (va - vb, mag_a + mag_b), "prod": (va * vb, mag_a * mag_b),
                           "sq": ((va * vb) ** 2, (mag_a * mag_b) ** 2),
                           "quot": (va / vb if vb else 0.0, mag_a / abs(vb) if vb else 1.0)}[sh]
            if isinstance(got, list) and isinstance(got[0], float) and \
                    not abs(got[0] - wantv) <= 1e-10 * max(vmag, abs(wantv)) + 1e-300:
                fail("pair2:downstream:{}:value".format(shape), "after {} the value of {} is not the formula "
                     "at the values in use".format(step, SHAPE_TEXT[shape]), got[0], wantv, step=i, shape=shape,
                     clause="used in all later propagation")
                bad = True
                break
            terms = radicand_terms(sh, k1, k2, va, ea, vb, eb, r)
            T = sum(abs(t) for t in terms)
            R = sum(terms)
            if T == 0 or R < 1e-6 * T:
                if dist is not None:
                    dist["pair-downstream:skipped:radicand cancels (" + shape + ")"] += 1
                continue
            if dist is not None:
                dist["pair-downstream:judged-read:" + shape + (":correlated" if r != 0 else ":uncorrelated")] += 1
            want = math.sqrt(R)
            if not isinstance(got, list) or not isinstance(got[1], float):
                fail("pair2:downstream:{}:exception".format(shape), "reading {} of the two repeated "
                     "measurements raised after {}".format(SHAPE_TEXT[shape], step), got, want, step=i, shape=shape,
                     clause="used in all later propagation")
                bad = True
                break
            # an uncertainty, too, is judged relative to the size of what it is formed from: with a
            # value in use that is exactly 0 (a cancelling weighted mean) the derivative terms are 0
            # exactly and pure rounding of the value (1e-15 of the readings) in the library
            T_mag = sum(abs(t) for t in radicand_terms(sh, k1, k2, mag_a, ea, mag_b, eb, r))
            if not abs(got[1] - want) <= (1e-9 + 1e4 * tol) * math.sqrt(T) + 1e-11 * math.sqrt(T_mag):
                fail("pair2:downstream:{}:error".format(shape),
                     "after {} the uncertainty of {} is not sqrt(sum (d_i sigma_i)^2 + 2 rho sigma_a sigma_b "
                     "d_a d_b) with the uncertainties in use sigma_a = {!r}, sigma_b = {!r} and rho = {!r}".format(
                         step, SHAPE_TEXT[shape],
                         ea, eb, r), got[1], want, step=i, shape=shape, radicand_terms=terms,
                     clause="used in all later propagation (quadrature and covariance terms)")
                bad = True
                break
        if bad:
            break
    return fails


def compare_pair2(c, o, m, dist):
    """-> (failures, nontrivial?, skipped?)"""
    fails = []
    inp = describe_pair2(c)

    def fail(sig, what, **kw):
        d = {"signature": "c10:" + sig, "what": what, "input": inp, "case": c}
        d.update(kw)
        fails.append(d)
    if "fail" in m:
        fail("model-error", "model driver: " + m["fail"], kind="disagreement")
        return fails, False, False
    ex = exact_check_pair2(c, o, dist)        # the statement itself, independent of the model
    if ex:
        return ex, False, False
    if o.get("ctor") != "ok":
        return fails, False, False
    sx, sxb = fb(m["stdx"])
    sy, syb = fb(m["stdy"])
    if not (math.isfinite(sxb) and sxb <= 1e-6 * abs(sx) + 1e-300 and math.isfinite(syb)
            and syb <= 1e-6 * abs(sy) + 1e-300):
        return fails, False, True
    corr_on = False
    for i, (st, ms, md) in enumerate(zip(o["states"], m["states"], m["down"])):
        step = "init" if i == 0 else "{}.{}".format(*c["steps"][i - 1])
        if not isinstance(st, dict):
            fail("pair2:exception", "selector / read raised " + str(st), impl=st, step=i)
            break
        for (mv, mb), ov, field in zip([fb(x) for x in ms], st["pairs"],
                                       ("a.value", "a.error", "b.value", "b.error")):
            if not close(ov, mv, mb, slack=256.0):
                fail("pair2:selector:{}:{}".format(step.split(".")[-1], field), "after {} {} is not the "
                     "selected statistic".format(step, field), impl=ov, expected=mv, bound=mb, step=i,
                     clause="selectors")
                return fails, False, False
        corr_on = corr_on or i >= c["rho_from"] and c["rho_mode"] != "none"
        for sh in ALL_SHAPES:
            if sh not in st:
                continue
            if KEPT.get(sh, sh) not in md:
                continue        # (a*b)^2: judged by the own first-order arithmetic only
            got = st[sh]
            (mv, mvb), (me, meb) = fb(md[KEPT.get(sh, sh)][0]), fb(md[KEPT.get(sh, sh)][1])
            if not (math.isfinite(me) and math.isfinite(meb) and meb <= 1e-6 * abs(me)):
                continue                                  # the model's own bound: ill-conditioned
            if not isinstance(got, list) or not isinstance(got[0], float) or not isinstance(got[1], float):
                fail("pair2:downstream:{}:exception".format(sh), "reading {} raised after {}".format(sh, step),
                     impl=got, expected=[mv, me], step=i, shape=sh)
                return fails, False, False
            if not close(got[0], mv, mvb, slack=256.0) or not close(got[1], me, meb, slack=256.0):
                fail("pair2:downstream:{}".format(sh), "after {} value/uncertainty of {} differ from the "
                     "propagation of the pairs in use".format(step, sh), impl=got, expected=[mv, me],
                     bound=[mvb, meb], step=i, shape=sh, clause="used in all later propagation")
                return fails, False, False
    return fails, corr_on and len(c["steps"]) > 0, False


# ---------------------------------------------------------------- comparison
FIELDS = ("value", "error", "downstream-value", "downstream-error",
          "downstream-value:via-kept-intermediate", "downstream-error:via-kept-intermediate",
          "downstream-value:via-kept-intermediate-2-levels", "downstream-error:via-kept-intermediate-2-levels",
          "downstream-value:square-of-kept-intermediate", "downstream-error:square-of-kept-intermediate")


def zero_spread_exact(c):
    xs = [unbits(x) for x in c["xs"]]
    x = xs[0]
    return (len(set(xs)) == 1 and math.isfinite(x) and abs(x) < 2.0 ** 20
            and (x * 64.0).is_integer() and len(xs) <= 64)


def const_check(c, o, fail):
    """readings all equal to a dyadic x: mean = x, std = error on the mean = 0 exactly; weighted
    mean x (to 4 ulp), propagated error by definition; selector trace and downstream use"""
    xs = [unbits(x) for x in c["xs"]]
    x, n = xs[0], len(xs)
    if not (o["mean"] == x):
        fail("stat:mean", "mean of equal readings differs from the reading", impl=o["mean"], expected=x)
    for attr in ("std", "error_on_mean"):
        if not (o[attr] == 0.0):
            fail("stat:" + attr, "{} of equal (dyadic) readings is not exactly 0".format(attr),
                 impl=o[attr], expected=0.0)
    es = [unbits(e) for e in c["es"]] if c["es"] is not None else (
        [unbits(c["common"])] * n if c["common"] is not None else [0.0] * n)
    haszero = any(e == 0 for e in es)
    if haszero:
        wm = pe = None
        for attr in ("error_weighted_mean", "propagated_error"):
            if not (isinstance(o[attr], float) and math.isnan(o[attr])):
                fail("stat:" + attr + ":zero", attr + " with a zero individual uncertainty should be nan",
                     impl=o[attr], expected="nan")
    else:
        wm, pe = x, 1 / math.sqrt(sum(1 / (e * e) for e in es))
        if not (isinstance(o["error_weighted_mean"], float) and H.ulps(o["error_weighted_mean"], x) <= 4
                if x != 0 else o["error_weighted_mean"] == 0):
            fail("stat:error_weighted_mean", "weighted mean of equal readings differs from the reading",
                 impl=o["error_weighted_mean"], expected=x)
        if not (isinstance(o["propagated_error"], float) and H.ulps(o["propagated_error"], pe) <= 8):
            fail("stat:propagated_error", "propagated error differs from 1/sqrt(sum 1/e^2)",
                 impl=o["propagated_error"], expected=pe)
    val, err = x, 0.0
    kk, cc = unbits(c["k"]), unbits(c["c"])
    for i, ot in enumerate(o["trace"]):
        sel = c["sels"][i - 1] if i else "init"
        if sel in ("use_std", "use_sem"):
            err = 0.0
        elif sel == "use_wmean" and wm is not None:
            val = o["error_weighted_mean"]      # already checked against x above
        elif sel == "use_perr" and pe is not None:
            err = o["propagated_error"]
        if not isinstance(ot, list):
            fail("selector:{}:exception".format(sel), "selector / read raised " + str(ot), impl=ot)
            break
        sq = [(kk * val) * (kk * val), abs(2 * (kk * val) * kk) * abs(err)]
        exp = [val, err] + [kk * val + cc, abs(kk) * err] * 3 + sq
        # relative to the size of the TERMS (k*value and c may cancel), never to the result
        mags = [abs(val), abs(err)] + [abs(kk * val) + abs(cc), abs(kk) * abs(err)] * 3 + sq
        bad = [f for f, a, b, g in zip(FIELDS, ot, exp, mags)
               if not (a == b or abs(a - b) <= 1e-12 * g)]
        if bad:
            fail("selector:{}:{}".format(sel, bad[0]), "after {} the {} is not the selected statistic "
                 "(equal readings)".format(sel, bad[0]), impl=ot, expected=exp, step=i, clause="selectors")
            break


def mc_downstream_check(c, o, fail):
    """'the one used in all later propagation' under the Monte Carlo method: after every selector
    step the samples of k*a + c are k*(value in use + uncertainty in use * z) + c for the recorded
    standard-normal draws z (exactly, up to rounding)"""
    for i, r in enumerate(o.get("mctrace", [])):
        sel = c["sels"][i - 1] if i else "init"
        if not isinstance(o["trace"][i] if i < len(o["trace"]) else None, list):
            break           # the derivative-method read of this step already raised (reported there)
        if not isinstance(r, dict):
            fail("selector:{}:monte-carlo:exception".format(sel), "Monte Carlo read of k*a+c after "
                 "{} raised {}".format(sel, r), impl=r, step=i, clause="selectors, Monte Carlo propagation")
            break
        n = c.get("mcn", 16)
        if r["draw_calls"] != 1 or r["n"] != n or "maxdev" not in r:
            fail("selector:{}:monte-carlo:draws".format(sel), "Monte Carlo read of k*a+c did not draw "
                 "one array of {} standard-normal offsets for the one source".format(n), impl=r,
                 step=i, clause="selectors, Monte Carlo propagation")
            break
        if not r["maxdev"] <= 1e-12:
            fail("selector:{}:monte-carlo-downstream".format(sel),
                 "after {} the Monte Carlo samples of k*a+c are not k*(value + uncertainty*z)+c with "
                 "the value {!r} and uncertainty {!r} in use: for z = {!r} the sample is {!r}, expected "
                 "{!r}; the spread of the samples corresponds to an uncertainty of {!r}".format(
                     sel, r["value"], r["error"], r["z"], r["sample"], r["expected"], r["sigma_seen"]),
                 impl=r["sample"], expected=r["expected"], step=i, sigma_in_use=r["error"],
                 sigma_seen=r["sigma_seen"], clause="selectors, Monte Carlo propagation")
            break
        if not (r["mean_ok"] and r["std_ok"]):
            fail("selector:{}:monte-carlo-moments".format(sel), "Monte Carlo value/uncertainty of k*a+c "
                 "are not the mean and n-1 standard deviation of its samples", impl=r, step=i,
                 clause="selectors, Monte Carlo propagation")
            break


def compare(c, o, m):
    """-> (failures, nontrivial?, skipped?)"""
    fails = []
    inp = describe(c)

    def fail(sig, what, **kw):
        d = {"signature": "c10:" + sig, "what": what, "input": inp, "case": c}
        d.update(kw)
        fails.append(d)

    if c["bad"]:
        if o["ctor"] == "ok":
            fail("ctor:accepted:" + c["bad"], "constructor accepted malformed individual "
                 "uncertainties ({})".format(c["bad"]), impl="ok", expected="reject",
                 clause="positive individual-uncertainty arrays")
        return fails, False, False
    if o["ctor"] != "ok":
        fail("ctor:rejected:" + str(o.get("exc")), "constructor raised on valid readings", impl=o,
             expected="ok")
        return fails, False, False
    if "fail" in m:
        fail("model-error", "model driver: " + m["fail"], kind="disagreement")
        return fails, False, False
    if o["class"] != "RepeatedlyMeasuredValue":
        fail("class", "not recorded as a repeated measurement", impl=o["class"])
    std, stdb = fb(m["std"])
    const = zero_spread_exact(c)
    if const:
        # all readings equal and dyadic: every sum is exact, so mean = x, std = sem = 0 EXACTLY and
        # the selectors must hand on exactly those numbers (the FB bound of sqrt at 0 is useless)
        const_check(c, o, fail)
        std = 0.0
    elif not (math.isfinite(stdb) and stdb <= 1e-6 * abs(std) + 1e-300):
        return fails, False, True      # ill-conditioned by the model's own bound (or zero spread)
    names = {"mean": "mean", "std": "std", "error_on_mean": "sem"}
    for attr, key in ({} if const else names).items():
        mv, mb = fb(m[key])
        if not isinstance(o[attr], float) or not close(o[attr], mv, mb):
            fail("stat:" + attr, "{} differs from its definition".format(attr), impl=o[attr],
                 expected=mv, bound=mb, clause=attr)
    for attr, key in (() if const else (("error_weighted_mean", "wmean"), ("propagated_error", "perr"))):
        if m["haszero"]:
            if not (isinstance(o[attr], float) and math.isnan(o[attr])):
                fail("stat:" + attr + ":zero", "{} with a zero individual uncertainty should be "
                     "undefined (nan)".format(attr), impl=o[attr], expected="nan")
        else:
            mv, mb = fb(m[key])
            if not isinstance(o[attr], float) or not close(o[attr], mv, mb):
                fail("stat:" + attr, "{} differs from its definition".format(attr), impl=o[attr],
                     expected=mv, bound=mb, clause=attr)
    # selector trace + downstream use
    for i, (ot, mt, md, mv_, msq) in enumerate(() if const else zip(
            o["trace"], m["trace"], m["down"], m.get("downvia") or m["down"],
            m.get("downsq") or [None] * len(m["down"]))):
        sel = c["sels"][i - 1] if i else "init"
        if not isinstance(ot, list):
            fail("selector:{}:exception".format(sel), "selector / read raised " + str(ot), impl=ot)
            break
        # mid + c is the tree of k*a + c; 1.0*(mid + c) is Model/Downstream.lean `downstreamVia`
        exp = [fb(mt[0]), fb(mt[1])] + [fb(md[0]), fb(md[1])] * 2 + [fb(mv_[0]), fb(mv_[1])]
        if msq is not None:     # mid*mid: Model/Downstream.lean `downstreamSq`
            exp += [fb(msq[0]), fb(msq[1])]
        for (mv, mb), ov, field in zip(exp, ot, FIELDS):
            if not close(ov, mv, mb, slack=256.0):
                fail("selector:{}:{}".format(sel, field),
                     "after {} the {} is not the selected statistic".format(sel, field),
                     impl=ov, expected=mv, bound=mb, step=i, clause="selectors")
                break
        else:
            continue
        break
    mc_downstream_check(c, o, fail)
    # inferred covariance
    p = o.get("pair")
    if p:
        mode = c["pair"]["mode"]
        if p["set"].startswith("ctor-reject"):
            fail("pair:ctor", "second array rejected", impl=p["set"])
        elif mode == "unequal":
            if p["set"] == "ok":
                fail("infer:accepted:unequal", "covariance inferred from arrays of different "
                     "lengths", impl="ok", expected="reject")
        elif mode == "const" or std == 0 or fb(m["stdy"])[0] == 0:
            # zero spread in either array (also when a "random" array happens to be constant)
            if p["set"] == "ok":
                fail("infer:accepted:zero-spread", "covariance recorded with a zero-spread "
                     "array", impl="ok", expected="reject")
        else:
            cv, cb = fb(m["cov"])
            rv, rb = fb(m["corr"])
            if p["set"] != "ok":
                fail("infer:rejected:" + mode, "inferred {} of two equal-length reading arrays "
                     "with non-zero spread was rejected ({}); by Cauchy-Schwarz it is never "
                     "non-physical".format(c["pair"]["via"], p["exc"]),
                     impl="reject:" + str(p["exc"]), expected="ok", model_corr=rv,
                     clause="inferred covariance")
            else:
                if not close(p["cov"], cv, cb, slack=256.0):
                    fail("infer:cov", "recorded covariance is not the sample covariance",
                         impl=p["cov"], expected=cv, bound=cb)
                if not close(p["corr"], rv, rb, slack=256.0):
                    fail("infer:corr", "recorded correlation is not the normalised sample "
                         "covariance", impl=p["corr"], expected=rv, bound=rb)
                for how, got in sorted((p.get("more") or {}).items()):
                    mv_, mb_ = (cv, cb) if "covariance" in how else (rv, rb)
                    if not isinstance(got, float) or not close(got, mv_, mb_, slack=256.0):
                        fail("infer:{}:other-form".format("cov" if "covariance" in how else "corr"),
                             "{} does not read the sample covariance / its normalised form that "
                             "q.get_covariance(a, b) reads".format(how), impl=got, expected=mv_, bound=mb_,
                             form=how, clause="inferred covariance")
                        break
                if abs(p["corr"]) > 1.0:
                    fail("infer:bound", "recorded correlation outside [-1, 1]", impl=p["corr"])
                if mode in ("collinear", "anti"):
                    sgn = c["pair"]["sign"]
                    if not close(p["corr"], float(sgn), rb, slack=256.0):
                        fail("infer:collinear", "exactly collinear arrays must have correlation "
                             "{:+d}".format(sgn), impl=p["corr"], expected=float(sgn), bound=rb)
    es = c["es"]
    nontrivial = std > 0 and es is not None and len(set(es)) > 1
    return fails, nontrivial, False


def run_cases(ctx, cases, ref=False):
    import qexpy as q
    obs = [observe_pair2(q, c) if c.get("kind") == "pair2" else observe(q, c) for c in cases]
    H.reset(q)
    mod = ctx.model([model_line_pair2(c) if c.get("kind") == "pair2" else model_line(c)
                     for c in cases], ref=ref)
    res = {"evaluations": len(cases), "nontrivial": set(), "failures": [], "samples": [],
           "distribution": collections.Counter(), "skipped": 0}
    d = res["distribution"]
    for c, o, m in zip(cases, obs, mod):
        if c.get("kind") == "pair2":
            fails, nt, sk = compare_pair2(c, o, m, d)
            res["failures"] += fails
            d["pair-downstream:cases"] += 1
            d["pair-downstream:correlation:" + c["rho_mode"]] += 1
            d["pair-downstream:arrays:" + c["rel"]] += 1
            d["pair-downstream:correlation recorded after {} of {} selector steps".format(
                min(c["rho_from"], 3), min(len(c["steps"]), 3)) + ("+" if len(c["steps"]) > 3 else "")] += 1
            for who, sel in c["steps"]:
                d["pair-downstream:step:{}.{}".format(who, sel)] += 1
            if sk:
                res["skipped"] += 1
            if nt:
                res["nontrivial"].add(canon_hash(c))
            continue
        fails, nt, sk = compare(c, o, m)
        res["failures"] += fails
        n = len(c["xs"])
        d["n:" + ("2" if n == 2 else "3-5" if n <= 5 else "6-15" if n <= 15 else "16-40")] += 1
        d["errors:" + ("each" if c["es"] else "common" if c["common"] is not None else "none")] += 1
        d["container:" + ("ndarray" if c["nd"] else "list")] += 1
        d["selectors:%d" % len(c["sels"])] += 1
        if o.get("ctor") == "ok" and not c["bad"]:
            d["kept-intermediate k*a read before the selector steps:" + c.get("midread", "both")] += 1
            d["downstream reads of a NEW calculation from the kept intermediate (after every selector step)"] += \
                sum(1 for t in o.get("trace", []) if isinstance(t, list) and len(t) >= 8)
            d["monte-carlo-downstream-read:built " + ("from the kept intermediate" if c.get("mckept")
                                                       else "afresh from the source")] += 1
        for i, r in enumerate(o.get("mctrace", [])):
            if isinstance(r, dict):
                d["monte-carlo-downstream-read:after-" + (c["sels"][i - 1] if i else "construction")] += 1
                d["monte-carlo-downstream-read:method-set-" + (
                    "globally" if c.get("mcvia") == "global" else "on-the-result")] += 1
        if c.get("special"):
            d["special:" + c["special"]] += 1
        for s in c["sels"]:
            d["sel:" + s] += 1
        if c["bad"]:
            d["malformed:" + c["bad"]] += 1
            d["ctor-outcome:" + o["ctor"]] += 1
        if c["pair"]:
            d["pair:{}:{}:{}".format(c["pair"]["mode"], c["pair"]["via"], c["pair"]["form"])] += 1
            if "pair" in o:
                d["infer-outcome:{}:{}".format(c["pair"]["mode"], o["pair"]["set"])] += 1
        if sk:
            res["skipped"] += 1
        if nt:
            res["nontrivial"].add(canon_hash(c))
        if len(res["samples"]) < 5 and not c["bad"] and o.get("ctor") == "ok":
            res["samples"].append({"input": describe(c), "impl": {k: o[k] for k in
                                   ("mean", "std", "error_on_mean")},
                                   "model": {k: fb(m[k])[0] for k in ("mean", "std", "sem")}
                                   if "fail" not in m else m})
    return res


def chunk(sub, n):
    cases = [gen_collinear_case(sub.rng) if i % 4 == 1 else gen_case(sub.rng, malformed=(i % 10 == 9))
             for i in range(n)]
    cases += [gen_pair2(sub.rng) for _ in range(max(1, n // 4))]   # two sources in one later calculation
    return run_cases(sub, cases)


def correspond(ctx):
    return H.run_chunks(ctx, chunk, ctx.n(600, 300000), chunk=300 if ctx.quick else 1500)


# ---------------------------------------------------------------- independent oracle
def exact_reference(c):
    """textbook definitions in exact rational arithmetic (square roots at the very end)"""
    xs = [F(unbits(x)) for x in c["xs"]]
    n = len(xs)
    mean = sum(xs) / n
    var = sum((x - mean) ** 2 for x in xs) / (n - 1)
    r = {"mean": float(mean), "var": var, "std": math.sqrt(var), "sem": math.sqrt(var / n)}
    es = c["es"] if c["es"] is not None else ([c["common"]] * n if c["common"] is not None else None)
    if es and all(unbits(e) != 0 for e in es):
        w = [1 / F(unbits(e)) ** 2 for e in es]
        r["wmean"] = float(sum(wi * x for wi, x in zip(w, xs)) / sum(w))
        r["perr"] = math.sqrt(1 / sum(w))
    if c["pair"] and len(c["pair"]["ys"]) == n:
        ys = [F(unbits(y)) for y in c["pair"]["ys"]]
        my = sum(ys) / n
        cov = sum((x - mean) * (y - my) for x, y in zip(xs, ys)) / (n - 1)
        vy = sum((y - my) ** 2 for y in ys) / (n - 1)
        r["cov"] = float(cov)
        r["vy"] = vy
        if var > 0 and vy > 0:
            r["corr"] = float(cov) / math.sqrt(var * vy) if cov * cov != var * vy else \
                (1.0 if cov > 0 else -1.0)
    return r


def exact_check(c, o):
    fails = []
    if c["bad"] or o.get("ctor") != "ok":
        if c["bad"] and o.get("ctor") == "ok":
            fails.append({"signature": "c10:ctor:accepted:" + c["bad"], "what": "malformed "
                          "uncertainties accepted", "input": describe(c), "case": c})
        return fails
    r = exact_reference(c)
    if r["var"] == 0:
        return fails
    kappa = 1 + float(F(r["mean"]) ** 2 / r["var"])
    if kappa > 1e16:
        return fails
    # The two-pass algorithms (deviations from the mean) lose n*eps*sqrt(kappa) relative to the
    # spread, NOT eps*kappa: a tolerance proportional to kappa is exactly the error of the
    # cancellation-prone one-pass formulas (sum x^2 - n mean^2) and would let them pass.
    n_ = len(c["xs"])
    tol = 1e-14 * n_ * (1 + math.sqrt(kappa)) + 1e-12
    # Natural magnitudes.  The reference is exact; the implementation computes in binary64 from
    # inputs (1/sigma^2, x/n) that are NOT exactly representable, so a statistic whose exact value is
    # 0 (or tiny by cancellation) is only reproduced up to rounding of its TERMS: every comparison
    # below is relative to the size of the terms that are summed, never to the (possibly zero) result.
    xsf = [abs(unbits(x)) for x in c["xs"]]
    n = len(xsf)
    mag_mean = sum(xsf) / n                      # sum |x_i| / n
    std_f = r["std"]
    mag_w = None
    if "wmean" in r:
        es_ = c["es"] if c["es"] is not None else [c["common"]] * n
        w_ = [1.0 / unbits(e) ** 2 for e in es_]
        mag_w = sum(wi * xi for wi, xi in zip(w_, xsf)) / sum(w_)     # sum |w_i x_i| / sum w_i

    def near(a, b, t, mag):
        """|a - b| <= t * mag, mag being the natural magnitude of the quantity (>= |b|)"""
        return isinstance(a, float) and abs(a - b) <= t * max(mag, abs(b)) + 1e-300

    def fail(sig, what, impl, exp, **kw):
        fails.append(dict({"signature": "c10:" + sig, "what": what + " (exact rational reference)",
                           "input": describe(c), "case": c, "impl": impl, "expected": exp,
                           "oracle": "independent", "kind": "violation"}, **kw))
    if not near(o["mean"], r["mean"], 1e-13, mag_mean):
        fail("stat:mean", "mean differs from sum/n", o["mean"], r["mean"])
    # the spread: deviations x_i - mean carry the rounding of x_i and of the mean (eps*|x|), hence
    # the conditioning factor kappa = 1 + mean^2/var on a tolerance relative to the std itself
    if not near(o["std"], r["std"], tol, std_f):
        fail("stat:std", "std differs from the n-1 sample standard deviation", o["std"], r["std"])
    if not near(o["error_on_mean"], r["sem"], tol, r["sem"]):
        fail("stat:error_on_mean", "error on the mean differs from std/sqrt(n)",
             o["error_on_mean"], r["sem"])
    if "wmean" in r:
        if not near(o["error_weighted_mean"], r["wmean"], 1e-12, mag_w):
            fail("stat:error_weighted_mean", "weighted mean differs", o["error_weighted_mean"], r["wmean"])
        if not near(o["propagated_error"], r["perr"], 1e-12, r["perr"]):
            fail("stat:propagated_error", "propagated error differs", o["propagated_error"], r["perr"])
    # selector machine, replayed on the exact statistics
    val, err, vmag = r["mean"], r["sem"], mag_mean
    kk, cc = unbits(c["k"]), unbits(c["c"])
    for i, ot in enumerate(o["trace"]):
        if i:
            s = c["sels"][i - 1]
            if s == "use_std":
                err = r["std"]
            elif s == "use_sem":
                err = r["sem"]
            elif s == "use_wmean" and "wmean" in r:
                val, vmag = r["wmean"], mag_w
            elif s == "use_perr" and "perr" in r:
                err = r["perr"]
        if not isinstance(ot, list):
            fail("selector:exception", "selector raised", ot, None)
            break
        exp = [val, err] + [kk * val + cc, abs(kk) * err] * 3 + [
            (kk * val) ** 2, 2 * abs(kk * val) * abs(kk) * err]
        mags = [vmag, err] + [abs(kk) * vmag + abs(cc), abs(kk) * err] * 3 + [
            (kk * vmag) ** 2, 2 * abs(kk) * vmag * abs(kk) * err]
        tols = [1e-12, tol] + [1e-12, tol] * 3 + [4e-12, 2 * tol]
        bad = [f for f, a, b, t, g in zip(FIELDS, ot, exp, tols, mags) if not near(a, b, t, g)]
        if bad:
            fail("selector:{}:{}".format(c["sels"][i - 1] if i else "init", bad[0]),
                 "value/uncertainty in use (or used downstream{}) is not the selected statistic".format(
                     ", in a NEW calculation built from an intermediate result k*a that was made and "
                     "read ({}) before the selector steps".format(c.get("midread", "both"))
                     if "kept" in bad[0] else ""),
                 ot, exp, clause="selecting a statistic makes it the number used in all later propagation")
            break
    mc_downstream_check(c, o, lambda sig, what, **kw: fail(
        sig, what, kw.pop("impl", None), kw.pop("expected", None), **kw))
    p = o.get("pair")
    if p and "cov" in r and r.get("vy", 0) > 0:
        ky = 1 + float((sum(F(unbits(y)) for y in c["pair"]["ys"]) / len(c["xs"])) ** 2 / r["vy"])
        t2 = 1e-13 * n_ * (1 + math.sqrt(max(kappa, ky))) + 1e-12
        if p["set"] != "ok":
            fail("infer:rejected:" + c["pair"]["mode"], "inferred covariance rejected although "
                 "|corr| <= 1 exactly", "reject:" + str(p["exc"]), r.get("corr"))
        else:
            scale = math.sqrt(float(r["var"] * r["vy"]))
            if abs(p["cov"] - r["cov"]) > t2 * scale + 1e-300:
                fail("infer:cov", "recorded covariance differs from the sample covariance",
                     p["cov"], r["cov"])
            if "corr" in r and abs(p["corr"] - r["corr"]) > t2 + 1e-12:
                fail("infer:corr", "recorded correlation differs", p["corr"], r["corr"])
            for how, got in sorted((p.get("more") or {}).items()):
                want = r["cov"] if "covariance" in how else r.get("corr")
                if want is None:
                    continue
                lim = t2 * scale + 1e-300 if "covariance" in how else t2 + 1e-12
                if not isinstance(got, float) or abs(got - want) > lim:
                    fail("infer:{}:other-form".format("cov" if "covariance" in how else "corr"),
                         "{} differs from the sample covariance / its normalised form".format(how),
                         got, want, form=how, clause="inferred covariance")
                    break
            if abs(p["corr"]) > 1:
                fail("infer:bound", "recorded correlation outside [-1,1]", p["corr"], None)
    return fails


def search_chunk(sub, n):
    import qexpy as q
    res = {"evaluations": n, "failures": []}
    for i in range(n):
        c = gen_collinear_case(sub.rng) if i % 4 == 1 else gen_case(sub.rng, malformed=(i % 10 == 9))
        res["failures"] += exact_check(c, observe(q, c))
        if i % 4 == 0:
            c = gen_pair2(sub.rng)
            res["failures"] += exact_check_pair2(c, observe_pair2(q, c))
    H.reset(q)
    return res


def search(ctx, broken):
    r = H.run_chunks(ctx, search_chunk, ctx.n(1500, 20000), chunk=500)
    for f in r["failures"]:
        f["oracle"], f["kind"] = "independent", "violation"
    return {"failures": r["failures"],
            "strategy": ["exact rational reference (fractions) for every statistic, selector "
                         "machine replayed in Python: {} cases".format(r["evaluations"])]}


def replay(ctx, rp):
    import qexpy as q
    c = rp.get("failure", {}).get("case")
    if not c:
        return {"fails": False, "note": "replay file carries no concrete input", "payload": rp}
    if c.get("kind") == "pair2":
        o = observe_pair2(q, c)
        r = run_cases(ctx, [c])
        return {"fails": bool(r["failures"]), "impl": o, "failures": r["failures"]}
    o = observe(q, c)
    r = run_cases(ctx, [c])
    ex = exact_check(c, o)
    return {"fails": bool(r["failures"] or ex), "impl": o, "failures": r["failures"] + ex}

"""C19 — what is drawn equals the data: points, error bars, curves, residuals, labels."""
import collections
import math
import os

import plotgen as G
from common import fb, close, canon_hash

ID = "C19"
SECTIONS = ["ops", "fitters", "plot"]
LEAN_MODULES = ["QExPy.Props.C19"]
THEOREMS = ["QExPy.Plot.C19_mask", "QExPy.Plot.C19_mask_none", "QExPy.Plot.C19_dataset_draw",
            "QExPy.Plot.C19_linspace", "QExPy.Plot.C19_band", "QExPy.Plot.C19_function_range",
            "QExPy.Plot.C19_curve_value", "QExPy.Plot.C19_domain", "QExPy.Plot.C19_order_independent",
            "QExPy.Plot.C19_residual_panel", "QExPy.Plot.C19_hist", "QExPy.Plot.C19_hist_weights",
            "QExPy.Plot.C19_hist_unit_weights", "QExPy.Plot.C19_hist_density", "QExPy.Plot.C19_label"]
RULE = ("seeded plot HISTORIES: 1-9 objects added in random order to one Plot, which is rendered, "
        "then (85 % of the cases) further objects are added and/or the plot's x-range, the error-bar / "
        "residual / legend switches and the label overrides are changed and it is rendered again "
        "(2 to 4 renders; a step may also be a plain re-render); between the renders matplotlib's own "
        "state follows one of five policies -- the figures of the earlier renders stay open and "
        "current (the default of a user who calls savefig again), all figures closed, only the "
        "plot's own figure closed, a figure the user drew with pyplot is open and current, another "
        "qexpy Plot with a residual panel was rendered and is still open -- and the last two may "
        "also hold before the first render; every switch is flipped forth and back between "
        "renders of one plot under every policy deliberately in every run; every render is "
        "compared with the model's render of the plot state at that point, and the figure that "
        "savefig wrote must consist of exactly the plot's panels (main; residuals iff the switch "
        "is on). Objects: data sets (x/y uncertainties none / common / per point; names, units; "
        "passed as arrays, XYDataSet or MeasurementArrays; x-ranges with bounds exactly on points, "
        "between points, outside), functions (8 formula families, plain-number and measured "
        "parameters, own range or the plot domain), fit results of every pre-set model and a custom "
        "model (through Plot.fit and plot(result), with and without a fit range, a second Plot.fit "
        "on the same data, Plot.fit on a histogram), histograms (integer bins, bins+range, uniform "
        "and non-uniform explicit edges, named rules auto/sturges/sqrt/fd/doane/scott/rice/stone, "
        "density=True, weights=[...], combinations; samples exactly on edges; MeasurementArray or "
        "list input; two histograms on one plot). Each render goes through savefig on Agg and the "
        "artists (Line2D data, error-bar segments, fill_between polygon, bar rectangles, axis labels, "
        "legend texts and which artist carries which) are read back, canonicalised and diffed with "
        "the model's draw commands; histogram bars are also compared with the values returned to "
        "the caller and with numpy.histogram / numpy.histogram_bin_edges on the same arguments. "
        "Non-trivial = at least two object kinds on the plot and an x-range that removes at least "
        "one point; distinct by hash of the history")
ASSUMPTIONS = ["matplotlib draws what its artists hold (Agg rasterisation is not inspected)",
               "numpy.histogram / numpy.linspace are exercised, not modelled beyond their contracts",
               "the Monte-Carlo fit curve is compared statistically (6 sigma of the sampling error "
               "of a 10000-sample mean, fixed seeds, second-order bias allowance): a test, not a proof",
               "theorems over the reals; binary64 rounding compared under the FB bound / 1e-9 relative"]
TRUSTED = ["exercised not modelled: matplotlib artists API, numpy.histogram, numpy.linspace",
           "the fit formulas of the pre-set models are the generated Gen.fitRule (translator "
           "section fitters); curve length, x-range mask test and axis-label format are generated "
           "(section plot)"]
LEVEL_TEXT = ("Lean 4 theorems about an executable render model (mask, linspace, domain, band, "
              "histogram totals incl. weights and density, labels, order independence); "
              "correspondence-led: the model's draw commands are diffed with the matplotlib artists "
              "of the real plot after every render of a history, on every run")
LEVEL_NOTE = ("partial: matplotlib and numpy.histogram are exercised, not modelled; the Monte-Carlo "
              "curve of a fit is checked statistically")
TECHNIQUE = ("Lean 4 machine-checked proof over an executable model + differential correspondence "
             "run against the artists read from the Agg backend")

REL = 1e-9


def _fbl(l):
    return [fb(x) for x in l]


def _near(a, b, scale=0.0, rel=1e-12):
    return a == b or abs(a - b) <= rel * max(abs(a), abs(b), scale) + 1e-300


def _det(impl, mb, scale):
    """deterministic number: FB bound or 1e-9 relative (to the magnitude of the curve)"""
    mv, bound = mb
    if not math.isfinite(mv):
        return (not math.isfinite(impl)) or None
    return close(impl, mv, bound) or abs(impl - mv) <= REL * max(abs(mv), abs(impl), scale)


def _nonlin(model, params, x):
    """relative first-order change of a non-linear pre-set model at x under the parameter
    uncertainties (exponential c*exp(-a x): sigma_a |x|; gaussian: |z| sigma_mean/std +
    |z^2-1| sigma_std/std with z = (x-mean)/std)"""
    if model == "exponential":
        return params[1][1] * abs(x)
    if model == "gaussian":
        (m, sm), (sd, ss) = params[1], params[2]
        if sd == 0:
            return float("inf")
        z = (x - m) / sd
        return (abs(z) * sm + abs(z * z - 1) * ss) / abs(sd)
    return 0.0


def split_model(cmds):
    out = {"main": [], "res": [], "bands": [], "bars": [], "labels": {}, "legend": None}
    for c in cmds:
        k = c["c"]
        if k in ("points", "errorbars"):
            out[c["ax"]].append(c)
        elif k == "curve":
            out["main"].append(c)
        elif k == "band":
            out["bands"].append(c)
        elif k == "bars":
            out["bars"].append(c)
        elif k == "label":
            out["labels"][c["which"]] = c["text"]
        elif k == "legend":
            out["legend"] = sorted(c["texts"])
    return out


def sources(case):
    """which object produces which artist, in drawing order"""
    main, res, bands, bars = [], [], [], []
    for i, o in enumerate(case["objs"]):
        t = o["t"]
        if t == "dataset":
            main.append(i)
        elif t == "function":
            main.append(i)
            if case["errorBars"]:
                bands.append(i)
        elif t == "fit":
            main.append(i)
            if case["errorBars"]:
                bands.append(i)
            if case["residuals"]:
                res.append(i)
        else:
            bars.append(i)
    return main, res, bands, bars


def judge(case, o, m):
    """compare artists with the model; returns (failures, skipped, stats)"""
    fails = []
    desc = G.describe(case)

    def fail(sig, what, indep=False, **kw):
        d = {"signature": "c19:" + sig, "what": what, "input": desc, "case": case}
        if indep:
            d.update({"oracle": "independent", "kind": "violation"})
        d.update(kw)
        fails.append(d)

    if "skip" in o:
        return [], True
    if "exception" in o:
        fail("exception:{}:{}".format(o["exception"].split(":")[0], o["where"]),
             "building / rendering a valid plot raised " + o["exception"], indep=True,
             impl=o["exception"], expected="the plot is rendered", clause="rendering")
        return fails, False
    if "fail" in m:
        fail("model-error", "model driver: " + m["fail"], kind="disagreement")
        return fails, False
    M = split_model(m["cmds"])
    main_src, res_src, band_src, bar_src = sources(case)
    A, R = o["main"], o["res"]
    # ---------------- the figure that was written is this plot's figure: the main panel, and the
    # residual panel exactly when the switch is on (whatever was rendered or left open before)
    F = o.get("figure")
    if F is not None and (not F["own"] or F["n_axes"] != (2 if case["residuals"] else 1)):
        fail("saved-figure", "the figure written by savefig has {} axes{}; the plot has a main panel "
             "{} a residual panel (residuals switch = {})".format(
                 F["n_axes"], "" if F["own"] else " which are not the plot's main_ax / res_ax",
                 "and" if case["residuals"] else "and no", case["residuals"]),
             impl=F, expected={"n_axes": 2 if case["residuals"] else 1, "own": True},
             clause="residuals switch / rendering through savefig")
        return fails, False
    # ---------------- structure
    got = (len(A["lines"]), len(A["bands"]), len(A["bars"]), len(R["lines"]) if R else 0)
    exp = (len(M["main"]), len(M["bands"]), len(M["bars"]), len(M["res"]))
    if got != exp or exp != (len(main_src), len(band_src), len(bar_src), len(res_src)):
        fail("structure", "artists on the axes (lines, bands, bar groups, residual lines) = {} but "
             "the plot has objects for {}".format(got, exp), impl=got, expected=exp, clause="objects")
        return fails, False
    if (R is not None) != case["residuals"]:
        fail("residual-axes", "residual axes present = {} but residuals switch = {}".format(
            R is not None, case["residuals"]), clause="residuals switch")
        return fails, False

    def cmp_points(tag, a, mc, oi):
        """data set drawn at its (masked) central values with its uncertainties"""
        if a["c"] != mc["c"]:
            fail(tag + ":kind", "object {} drawn as {} but should be {}".format(oi, a["c"], mc["c"]),
                 impl=a["c"], expected=mc["c"], clause="error-bar switch")
            return False
        mx, my = _fbl(mc["xs"]), _fbl(mc["ys"])
        if len(a["xs"]) != len(mx):
            fail(tag + ":count", "object {}: {} points drawn, {} points are inside the x-range".format(
                oi, len(a["xs"]), len(mx)), impl=a["xs"], expected=[v for v, _ in mx],
                clause="low <= x < high")
            return False
        sc = max([abs(v) for v, _ in my] + [1e-300])
        for i, (x, y) in enumerate(zip(a["xs"], a["ys"])):
            if not _near(x, mx[i][0]) or not (_near(y, my[i][0]) or _det(y, my[i], sc)):
                fail(tag + ":point", "object {}: point {} drawn at ({!r}, {!r}) but the data are "
                     "({!r}, {!r})".format(oi, i, x, y, mx[i][0], my[i][0]), impl=[x, y],
                     expected=[mx[i][0], my[i][0]], clause="central values")
                return False
        if a["c"] == "errorbars":
            for nm, key in (("x", "xerr"), ("y", "yerr")):
                segs = a[nm + "seg"]
                me = _fbl(mc[key])
                if segs is None or len(segs) != len(me):
                    fail(tag + ":errbar-count", "object {}: {} error bars missing or of wrong "
                         "number".format(oi, nm), impl=None if segs is None else len(segs),
                         expected=len(me), clause="error bars")
                    return False
                for i, s in enumerate(segs):
                    c0, c1 = (s[0][0], s[1][0]) if nm == "x" else (s[0][1], s[1][1])
                    o0, o1 = (s[0][1], s[1][1]) if nm == "x" else (s[0][0], s[1][0])
                    centre = a["xs"][i] if nm == "x" else a["ys"][i]
                    other = a["ys"][i] if nm == "x" else a["xs"][i]
                    e = me[i][0]
                    tol = 1e-9 * (abs(centre) + abs(e)) + 64 * me[i][1] + 1e-300
                    if abs((c1 - c0) / 2 - e) > tol or abs((c1 + c0) / 2 - centre) > tol or \
                            abs(o0 - other) > 1e-9 * abs(other) + 64 * my[i][1] + 1e-300 or \
                            abs(o1 - other) > 1e-9 * abs(other) + 64 * my[i][1] + 1e-300:
                        fail(tag + ":errbar", "object {}: {} error bar of point {} spans {!r}..{!r}, "
                             "the uncertainty is {!r} around {!r}".format(oi, nm, i, c0, c1, e, centre),
                             impl=s, expected=[centre - e, centre + e], clause="error bars")
                        return False
        return True

    # ---------------- main axes lines
    stats = collections.Counter()
    for a, mc, oi in zip(A["lines"], M["main"], main_src):
        ob = case["objs"][oi]
        if ob["t"] == "dataset":
            if ob.get("range"):
                # independent of the model and of every generated table: the property's own
                # `low <= x < high`, evaluated in Python on the input
                lo_, hi_ = ob["range"]
                inside = [x for x in ob["xs"] if lo_ <= x < hi_]
                if len(a["xs"]) != len(inside) or any(
                        not _near(p_, q_) for p_, q_ in zip(a["xs"], inside)):
                    fail("dataset:xrange", "object {}: the points drawn are not the points with "
                         "{!r} <= x < {!r}".format(oi, lo_, hi_), indep=True, impl=a["xs"],
                         expected=inside, clause="low <= x < high")
                    return fails, False
            if not cmp_points("dataset", a, mc, oi):
                return fails, False
            stats["points_compared"] += len(a["xs"])
            continue
        if a["c"] != "curve":
            fail("curve:kind", "object {} ({}) drawn as {}".format(oi, ob["t"], a["c"]), impl=a["c"],
                 expected="curve", clause="function drawn as a curve")
            return fails, False
        mx, my = _fbl(mc["xs"]), _fbl(mc["ys"])
        if len(a["xs"]) != 100 or len(mx) != 100:
            fail("curve:samples", "object {}: curve has {} points, should have 100".format(
                oi, len(a["xs"])), impl=len(a["xs"]), expected=100, clause="sampling")
            return fails, False
        xsc = max(abs(mx[0][0]), abs(mx[-1][0]))
        for i in range(100):
            if not _det(a["xs"][i], mx[i], xsc):
                fail("curve:abscissa", "object {} ({}): sample {} at x={!r}, should be {!r} "
                     "(range {!r}..{!r})".format(oi, ob["t"], i, a["xs"][i], mx[i][0], mx[0][0],
                                               mx[-1][0]),
                     impl=[a["xs"][0], a["xs"][-1]], expected=[mx[0][0], mx[-1][0]],
                     clause="own x-range, else the plot's x-domain")
                return fails, False
        ysc = max([abs(v) for v, _ in my if math.isfinite(v)] + [1e-300])
        if ob["t"] == "function":
            for i in range(100):
                ok = _det(a["ys"][i], my[i], ysc)
                if ok is None:
                    continue
                if not ok:
                    fail("curve:value", "object {}: curve at x={!r} is {!r}, f(x) is {!r}".format(
                        oi, a["xs"][i], a["ys"][i], my[i][0]), impl=a["ys"][i], expected=my[i][0],
                        bound=my[i][1], clause="f evaluated on the range")
                    return fails, False
            stats["curve_points_deterministic"] += 100
        else:
            # Monte-Carlo mean of the fit function: statistical comparison (a test)
            api = o["api"][oi]
            band_on = case["errorBars"]
            for i in range(100):
                x = a["xs"][i]
                err = api["ff"]["errors"][i]
                tol = 6 * err / math.sqrt(10000) + REL * ysc
                ffv = api["ff"]["values"][i]
                if abs(a["ys"][i] - ffv) > tol:
                    fail("fitcurve:vs-fit_function", "fit ({}) drawn at x={!r} as {!r}, "
                         "result.fit_function(x) = {!r} +/- {!r} (allowed {!r})".format(
                             ob["model"], x, a["ys"][i], ffv, err, tol), indep=True,
                         impl=a["ys"][i], expected=ffv, tolerance=tol,
                         clause="fit drawn as its fit function within Monte Carlo sampling error")
                    return fails, False
                ok = _det(ffv, my[i], ysc)
                if ok is False:
                    fail("fitcurve:model", "model of the fit function disagrees with "
                         "result.fit_function at x={!r}: {!r} vs {!r}".format(x, my[i][0], ffv),
                         kind="disagreement", impl=ffv, expected=my[i][0])
                    return fails, False
            stats["curve_points_statistical"] += 100
    # ---------------- bands
    for bnd, mc, oi in zip(A["bands"], M["bands"], band_src):
        ob = case["objs"][oi]
        line = A["lines"][main_src.index(oi)]
        if bnd.get("empty"):
            # no finite uncertainty anywhere on the curve: there is no band to judge (the statement
            # fixes the curve; non-finite band points are skipped below in the same way)
            stats["band_without_any_finite_point"] = stats.get("band_without_any_finite_point", 0) + 1
            continue
        mlo, mhi = _fbl(mc["lo"]), _fbl(mc["hi"])
        if len(bnd["xs"]) != 100 or bnd["xs"] != bnd["xs_upper"] or \
                any(not _near(x, lx, rel=1e-9) for x, lx in zip(bnd["xs"], line["xs"])):
            fail("band:abscissa", "object {}: band is not drawn on the curve's abscissae".format(oi),
                 impl=bnd["xs"][:3], expected=line["xs"][:3], clause="band")
            return fails, False
        sc = max([abs(v) for v in line["ys"] if math.isfinite(v)] + [1e-300])
        for i in range(100):
            lo, hi, y = bnd["lo"][i], bnd["hi"][i], line["ys"][i]
            if not all(math.isfinite(v) for v in (lo, hi, y)):
                continue
            half = (hi - lo) / 2
            if abs((hi + lo) / 2 - y) > REL * max(sc, abs(half)):
                fail("band:centre", "object {}: band at x={!r} is [{!r}, {!r}], not centred on the "
                     "curve value {!r}".format(oi, bnd["xs"][i], lo, hi, y), impl=[lo, hi],
                     expected=y, clause="band = y +/- err")
                return fails, False
            if ob["t"] == "function":
                if _det(lo, mlo[i], sc) is False or _det(hi, mhi[i], sc) is False:
                    fail("band:value", "object {}: band at x={!r} is [{!r}, {!r}], y -/+ err is "
                         "[{!r}, {!r}]".format(oi, bnd["xs"][i], lo, hi, mlo[i][0], mhi[i][0]),
                         impl=[lo, hi], expected=[mlo[i][0], mhi[i][0]], clause="band = y +/- err")
                    return fails, False
            else:
                api = o["api"][oi]
                err = api["ff"]["errors"][i]
                # The band is the Monte-Carlo standard deviation; it equals the first-order
                # uncertainty of fit_function(x) up to O(eps^2 |f|), eps = the relative change of f
                # under the parameter uncertainties (0 for models linear in the parameters; where
                # the first-order terms nearly cancel the second-order term is all there is).
                # Sample std of 10000 draws: 6/sqrt(2N) = 4.3 %.
                eps = _nonlin(ob["model"], api["params"], bnd["xs"][i])
                # The statement fixes the CURVE, not the width of the band; for models that are
                # non-linear in their parameters the Monte Carlo standard deviation legitimately
                # differs from the first-order uncertainty (a thorough-tier run met a Gaussian tail
                # point with 40 % although eps was small: the first-order terms nearly cancel
                # there), so only a gross mismatch is judged for them.
                nonlinear = ob["model"] in ("exponential", "gaussian", "custom")
                if nonlinear:
                    # (a second thorough-tier run met a factor 17 at a Gaussian tail point with a small
                    # eps: where the first-order terms cancel the Monte Carlo width is all second order)
                    # -> the width of the band of a model non-linear in its parameters is not judged
                    bad = False
                    stats["band_width_not_judged_nonlinear_model"] = \
                        stats.get("band_width_not_judged_nonlinear_model", 0) + 1
                else:
                    bad = abs(half - err) > 0.10 * err + REL * sc
                if bad:
                    fail("fitband:width", "fit band half-width at x={!r} is {!r}, "
                         "fit_function(x).error is {!r}".format(bnd["xs"][i], half, err), indep=True,
                         impl=half, expected=err, clause="band = y +/- err (statistical)")
                    return fails, False
        stats["band_points"] += 100
    # ---------------- residual axes
    if R is not None:
        for a, mc, oi in zip(R["lines"], M["res"], res_src):
            api = o["api"][oi]
            if not cmp_points("residuals", a, mc, oi):
                return fails, False
            # exactly the fit's residuals (API level)
            rv = api["residuals"]["values"]
            if len(a["ys"]) != len(rv) or any(not _near(y, r) for y, r in zip(a["ys"], rv)) or \
                    any(not _near(x, r) for x, r in zip(a["xs"], api["data"]["xs"])):
                fail("residuals:vs-result", "residual panel shows {!r}, result.residuals is {!r}".format(
                    a["ys"][:4], rv[:4]), indep=True, impl=a["ys"], expected=rv,
                    clause="residuals panel shows exactly the fit's residuals")
                return fails, False
            stats["residual_points"] += len(rv)
    # ---------------- histograms
    skipped = False
    hi_ = 0
    for b, mc, oi in zip(A["bars"], M["bars"], bar_src):
        ob = case["objs"][oi]
        api = o["api"][oi]
        mh = m["hists"][hi_]
        hi_ += 1
        rn, re_ = api["returned"]
        wts = ob.get("weights")
        plain = not ob.get("density") and wts is None
        how = "hist({})".format(", ".join(
            ["bins={}".format(ob["bins"] if not isinstance(ob["bins"], list) else "edges")] +
            (["range"] if ob["range"] else []) + (["density=True"] if ob.get("density") else []) +
            (["weights"] if wts is not None else [])))
        hsc = max([abs(v) for v in rn] + [1e-300])
        esc = max(abs(re_[0]), abs(re_[-1])) if re_ else 0.0
        if len(b["heights"]) != len(rn) or any(not _near(h, n, scale=hsc) for h, n in zip(b["heights"], rn)) or \
                len(b["edges"]) != len(re_) or any(not _near(x, e, rel=1e-9, scale=esc)
                                                   for x, e in zip(b["edges"], re_)):
            fail("hist:returned-vs-drawn", "object {} {}: bars {} on edges {} but hist() returned {} on "
                 "{}".format(oi, how, b["heights"], b["edges"], rn, re_), indep=True,
                 impl=[b["heights"], b["edges"]], expected=[rn, re_],
                 clause="bars are the values returned to the caller")
            return fails, False
        # numpy.histogram on the same samples and the same arguments (independent of the model)
        nn, ne = api["numpy"]
        nsc = max([abs(v) for v in nn] + [1e-300])
        if len(nn) != len(rn) or any(not _near(a_, n_, scale=nsc) for a_, n_ in zip(rn, nn)) or \
                len(ne) != len(re_) or any(not _near(a_, n_, rel=1e-12, scale=esc) for a_, n_ in zip(re_, ne)):
            fail("hist:returned-vs-numpy", "object {} {}: hist() returned {} on {} but numpy.histogram "
                 "with the same arguments gives {} on {}".format(oi, how, rn, re_, nn, ne), indep=True,
                 impl=[rn, re_], expected=[nn, ne], clause="bars are the bin counts of its samples")
            return fails, False
        if "numpy_edges" in api:
            nb = api["numpy_edges"]
            if len(nb) != len(re_) or any(not _near(a_, n_, rel=1e-12, scale=esc) for a_, n_ in zip(re_, nb)):
                fail("hist:edges-vs-numpy-rule", "object {} {}: bin edges {} but numpy.histogram_bin_edges"
                     " gives {}".format(oi, how, re_, nb), indep=True, impl=re_, expected=nb,
                     clause="histograms with any binning")
                return fails, False
        me = _fbl(mc["edges"])
        if len(me) != len(re_) or any(_det(e, x, abs(re_[-1]) + abs(re_[0])) is False
                                      for e, x in zip(re_, me)):
            fail("hist:edges", "object {} {}: bin edges {} but the binning gives {}".format(
                oi, how, re_, [v for v, _ in me]), impl=re_, expected=[v for v, _ in me],
                clause="bin edges")
            return fails, False
        if mh["ambiguous"]:
            skipped = True      # a sample within rounding of a computed edge: not judged
            continue
        if plain:
            if [int(h) for h in b["heights"]] != list(mh["counts"]) or any(h != int(h) for h in b["heights"]):
                fail("hist:counts", "object {} {}: bars {} but the bin counts of the samples are {}".format(
                    oi, how, b["heights"], mh["counts"]), impl=b["heights"], expected=mh["counts"],
                    clause="bars are the bin counts of the samples")
                return fails, False
        else:
            mhs = _fbl(mc["heights"])
            if len(mhs) != len(b["heights"]) or any(
                    _det(h, x, hsc) is False for h, x in zip(b["heights"], mhs)):
                fail("hist:values", "object {} {}: bars {} but the {} of the samples are {}".format(
                    oi, how, b["heights"], "densities" if ob.get("density") else "weighted counts",
                    [v for v, _ in mhs]), impl=b["heights"], expected=[v for v, _ in mhs],
                    clause="bars are the bin counts of the samples (weights / density)")
                return fails, False
        # brute-force totals
        lo, hi = re_[0], re_[-1]
        ww = wts if wts is not None else [1.0] * len(ob["samples"])
        inside = math.fsum(w_ for s_, w_ in zip(ob["samples"], ww) if lo <= s_ <= hi)
        wsc = math.fsum(abs(w_) for w_ in ww)
        if ob.get("density"):
            area = math.fsum(h * (re_[k + 1] - re_[k]) for k, h in enumerate(b["heights"]))
            if inside > 0 and abs(area - 1.0) > 1e-9:
                fail("hist:density-area", "object {} {}: bars times widths sum to {!r}, a normalised "
                     "histogram integrates to 1".format(oi, how, area), indep=True, impl=area,
                     expected=1.0, clause="density")
                return fails, False
        elif abs(math.fsum(b["heights"]) - inside) > (0 if plain else 1e-9 * wsc):
            fail("hist:total", "object {} {}: bars sum to {} but the samples inside [{}, {}] weigh {}".format(
                oi, how, math.fsum(b["heights"]), lo, hi, inside), indep=True, impl=math.fsum(b["heights"]),
                expected=inside, clause="bin counts of its samples")
            return fails, False
        stats["hist_bins"] += len(rn)
    # ---------------- Plot.fit applied to a histogram: the curve belongs to the bars that are drawn
    for oi, ob in enumerate(case["objs"]):
        if ob["t"] == "fit" and ob.get("on") == "hist" and ob.get("target") is not None:
            rn, re_ = o["api"][ob["target"]]["returned"]
            d = o["api"][oi]["data"]
            cx = [(re_[k] + re_[k + 1]) / 2 for k in range(len(re_) - 1)]
            hsc = max([abs(v) for v in rn] + [1e-300])
            if len(d["xs"]) != len(cx) or any(not _near(a_, b_, rel=1e-12, scale=abs(re_[-1]))
                                              for a_, b_ in zip(d["xs"], cx)) or \
                    any(not _near(a_, b_, scale=hsc) for a_, b_ in zip(d["ys"], rn)):
                fail("fit-on-hist:data", "object {}: Plot.fit on the histogram (object {}) fitted {} at {} "
                     "but the bars are {} at the bin centres {}".format(
                         oi, ob["target"], d["ys"], d["xs"], rn, cx), impl=[d["xs"], d["ys"]],
                     expected=[cx, rn], clause="a fit of a histogram is a fit of its bars")
                return fails, False
    # ---------------- labels, legend
    labs = {"x": A["xlabel"], "y": A["ylabel"], "title": A["title"]}
    if R is not None:
        labs["resx"], labs["resy"] = R["xlabel"], R["ylabel"]
    for ax_ in ("x", "y"):
        # independent of the model: an overridden unit must appear as `[unit]` after the name
        n_, u_ = case["over"].get(ax_ + "name"), case["over"].get(ax_ + "unit")
        lab = labs[ax_] or ""
        if u_ and (not lab.endswith("[" + u_ + "]") or (n_ and lab != n_ + "[" + u_ + "]")):
            fail("label:format:" + ax_, "{} label is {!r}; the unit {!r} (name {!r}) must follow the "
                 "name in brackets".format(ax_, lab, u_, n_ or "<from the data>"), indep=True, impl=lab,
                 expected=(n_ or "<name>") + "[" + u_ + "]", clause="axis labels = name[unit]")
            return fails, False
    for k, v in M["labels"].items():
        if labs.get(k) != v:
            fail("label:" + k, "{} label is {!r}, should be {!r}".format(k, labs.get(k), v),
                 impl=labs.get(k), expected=v, clause="axis labels = name[unit] unless overridden")
            return fails, False
    if A["legend"] != M["legend"]:
        fail("legend", "legend texts {!r}, should be {!r}".format(A["legend"], M["legend"]),
             impl=A["legend"], expected=M["legend"], clause="legend switch")
        return fails, False
    if case["legend"]:
        # which artist carries which legend text
        arts = [(oi, a["label"]) for a, oi in zip(A["lines"], main_src)] + \
               [(oi, b["label"]) for b, oi in zip(A["bars"], bar_src)]
        for oi, lab in arts:
            lab = "" if lab.startswith("_") else lab
            want = G.legend_label(case["objs"][oi])
            if lab != want:
                fail("legend:artist-label", "object {} ({}) appears in the legend as {!r}, its label is "
                     "{!r}".format(oi, case["objs"][oi]["t"], lab, want), impl=lab, expected=want,
                     clause="legend")
                return fails, False
    # ---------------- domain (reported by the model; used by the ranged-less functions above)
    return fails, skipped, stats


def _nontrivial(case):
    kinds = {o["t"] for o in case["objs"]}
    removes = False
    for o in case["objs"]:
        if o["t"] == "dataset" and o["range"] is not None:
            lo, hi = o["range"]
            if any(not (lo <= x < hi) for x in o["xs"]):
                removes = True
    return len(kinds) >= 2 and removes


def _observe_chunk(chunk):
    import numpy as np
    import qexpy as q
    return [G.observe(q, np, c) for c in chunk]


def _observe_parallel(cases, workers=None):
    """the real plots are built and rendered in worker processes (each case seeds numpy itself
    before every render, so the result does not depend on the scheduling)"""
    import concurrent.futures as cf
    import multiprocessing as mp
    workers = workers or max(1, min(16, (os.cpu_count() or 2)))
    size = max(1, min(25, len(cases) // (workers * 2) or 1))
    chunks = [cases[i:i + size] for i in range(0, len(cases), size)]
    with cf.ProcessPoolExecutor(max_workers=workers, mp_context=mp.get_context("fork")) as ex:
        out = []
        for r in ex.map(_observe_chunk, chunks):
            out += r
    return out


def _renders(case, o):
    """[(render number, plot state at that render, what was observed at that render)]: the first
    render and one more per step of the history"""
    sts = G.states(case)
    out = [(1, sts[0], o)]
    if "api" in o:
        for k, r in enumerate(o.get("renders", [])):
            ok = dict(r)
            if "main" in r:
                ok["api"] = o["api"]
            out.append((k + 2, sts[k + 1], ok))
    return out


def run_cases(ctx, cases):
    import numpy as np
    import qexpy as q
    if not G.self_test_parse_band(np):
        raise RuntimeError("fill_between polygon layout is not the one the artist reader expects")
    failures, nontrivial, skipped = [], set(), 0
    if len(cases) > 8:
        obs = _observe_parallel(cases)
    else:
        obs = [G.observe(q, np, c) for c in cases]
    rend = [_renders(c, o) for c, o in zip(cases, obs)]
    idx = [(i, k) for i, rs in enumerate(rend) for k, (_, _, ok_) in enumerate(rs) if "api" in ok_]
    mod = ctx.model([G.model_line(rend[i][k][1], rend[i][k][2]) for i, k in idx]) if idx else []
    mods = dict(zip(idx, mod))
    dist = collections.Counter()
    samples = []
    for i, (c, o) in enumerate(zip(cases, obs)):
        for ob in c["objs"]:
            dist["obj:" + ob["t"]] += 1
            if ob["t"] == "fit":
                dist["fit:" + ob["model"]] += 1
                dist["fit-via:" + ob["via"]] += 1
                dist["fit-range" if ob["range"] else "fit-norange"] += 1
                if ob.get("on") == "hist":
                    dist["fit-on-histogram"] += 1
            if ob["t"] == "hist":
                dist["hist:" + ("edges" if isinstance(ob["bins"], list) else
                                "rule" if isinstance(ob["bins"], str) else
                                "bins+range" if ob["range"] else "bins")] += 1
                dist["hist:density"] += 1 if ob.get("density") else 0
                dist["hist:default-bins"] += 1 if ob.get("default_bins") else 0
                dist["hist:weights"] += 1 if ob.get("weights") is not None else 0
            if ob["t"] == "dataset":
                dist["dataset:" + ("range" if ob["range"] else "norange")] += 1
            if ob["t"] == "function":
                dist["function:" + ("own-range" if ob["range"] else "plot-domain")] += 1
        dist["nobj:{}".format(len(c["objs"]))] += 1
        dist["history:renders={}".format(1 + len(c.get("steps", [])))] += 1
        if c.get("pre"):
            dist["before-first-render:" + c["pre"]] += 1
        if c.get("deliberate"):
            dist["deliberate:" + c["deliberate"]] += 1
        prev_res = c["residuals"]
        for st in c.get("steps", []):
            dist["step:adds-objects"] += 1 if st.get("add") else 0
            for k_ in st.get("set", {}):
                dist["step:sets-" + k_] += 1
            pol = st.get("mpl", "close-all")
            dist["between-renders:" + pol] += 1
            if not st.get("add") and not st.get("set"):
                dist["step:plain-re-render"] += 1
            if "residuals" in st.get("set", {}) and pol != "close-all":
                dist["residual-switch-flipped-while-earlier-figure-open:{}->{}".format(
                    prev_res, st["set"]["residuals"])] += 1
            prev_res = st.get("set", {}).get("residuals", prev_res)
        case_failed = False
        for k, (rno, state, ok_) in enumerate(rend[i]):
            dist["renders"] += 1
            for sw in ("errorBars", "residuals", "legend"):
                dist["{}={}".format(sw, state[sw])] += 1
            r = judge(state, ok_, mods.get((i, k), {}))
            fs, sk = r[0], r[1]
            if fs:
                hist_ = G.describe_history(c)
                for f in fs:
                    # the replay carries the whole history and says which render differed
                    f["case"] = c
                    f["render"] = rno
                    f["history"] = hist_
                    f["what"] = "render {} of the history: {}".format(rno, f["what"])
                    f["input"] = "render {} of {} | {}".format(rno, len(rend[i]), " || ".join(hist_))
                    if rno > 1:
                        f["signature"] += "@render{}".format(rno)
            failures += fs
            if sk:
                skipped += 1
                if "skip" in ok_:
                    dist["skipped:" + ok_["skip"].split(" (")[0].split(":")[0]] += 1
            if len(r) > 2:
                for kk, v in r[2].items():
                    dist[kk] += v
            if fs or "skip" in ok_ or "exception" in ok_:
                case_failed = case_failed or bool(fs)
                break
        if not case_failed and not ("skip" in o) and _nontrivial(c):
            nontrivial.add(canon_hash(c))
        if len(samples) < 5 and "main" in o:
            samples.append({"plot": " || ".join(G.describe_history(c)),
                            "artists": {"lines": [(l["c"], len(l["xs"])) for l in o["main"]["lines"]],
                                        "bands": len(o["main"]["bands"]),
                                        "bars": [b["heights"] for b in o["main"]["bars"]],
                                        "xlabel": o["main"]["xlabel"], "ylabel": o["main"]["ylabel"],
                                        "legend": o["main"]["legend"]}})
    return {"evaluations": len(cases), "nontrivial": nontrivial, "failures": failures,
            "samples": samples, "distribution": dict(dist), "skipped": skipped}


def gen_cases(ctx, n):
    cases = [G.gen_history(ctx.rng) for _ in range(n)]
    # scenario classes generated deliberately in every run (counted in the evidence): every switch
    # flipped forth and back between renders of ONE plot under every policy for the figures of
    # the earlier renders; plain re-renders
    cases += G.deliberate_histories(ctx.rng, ctx.n(2, 12))
    return cases


def correspond(ctx):
    return run_cases(ctx, gen_cases(ctx, ctx.n(96, 3000)))


def search(ctx, broken):
    """independent oracles only: result.fit_function / result.residuals / the values returned by
    hist() / numpy.histogram on the same arguments / brute-force sample totals, all read from
    the real API"""
    r = run_cases(ctx, gen_cases(ctx, ctx.n(96, 600)))
    return {"failures": [f for f in r["failures"] if f.get("oracle") == "independent"],
            "strategy": ["API-level oracles (fit_function, residuals, returned histogram, "
                         "numpy.histogram, sample totals, rendering must not raise) on {} plot "
                         "histories".format(r["evaluations"])]}


def replay(ctx, rp):
    c = rp.get("failure", {}).get("case")
    if not c:
        return {"fails": False, "note": "replay file carries no concrete input", "payload": rp}
    r = run_cases(ctx, [c])
    return {"fails": bool(r["failures"]), "input": G.describe_history(c),
            "failures": [{k: v for k, v in f.items() if k != "case"} for f in r["failures"]]}

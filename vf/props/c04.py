"""C04 — correlation/covariance records: symmetric, consistent, bounded, isolated."""
import collections
import math

from props import _dhelp as H
from common import bits, unbits, fb, close, canon_hash

ID = "C04"
SECTIONS = ["stats", "corr"]
LEAN_MODULES = ["QExPy.Props.C04"]
THEOREMS = ["QExPy.C04_key_unordered",
            "QExPy.C04_inv_init",
            "QExPy.C04_inv_step",
            "QExPy.C04_inv_run",
            "QExPy.C04_inv_all",
            "QExPy.C04_reject_unchanged",
            "QExPy.C04_get_pure",
            "QExPy.C04_symmetric_get",
            "QExPy.C04_symmetric_get_meth",
            "QExPy.C04_symmetric_set",
            "QExPy.C04_symmetric_set_api",
            "QExPy.C04_refines_write",
            "QExPy.C04_refines_reset",
            "QExPy.C04_isolated",
            "QExPy.C04_isolated_api",
            "QExPy.C04_refines_get",
            "QExPy.C04_unrecorded_zero",
            "QExPy.C04_after_reset_zero",
            "QExPy.C04_self",
            "QExPy.C04_set_records",
            "QExPy.C04_reject_zero_sigma",
            "QExPy.C04_reject_corr_out_of_range",
            "QExPy.C04_reject_cov_out_of_range",
            "QExPy.C04_reject_non_measurement",
            "QExPy.C04_reject_no_number",
            "QExPy.C04_inferred_never_rejected",
            "QExPy.C04_inferred_is_sample_cov"]
RULE = ("seeded histories (5-60 requests) over 2-6 operands of all kinds (single measurements incl. "
        "zero uncertainty, plain reading arrays incl. equal length / collinear / zero spread / a large "
        "mean with a small scatter (an accepted inference is judged against the exact rational "
        "sample covariance of the readings), "
        "reading arrays with individual uncertainties, derived values, constants, plain numbers and "
        "strings): set_correlation / set_covariance in function and method form, either argument "
        "order, numbers from {0, tiny, mid, +-(1-ulp), +-1, +-(1+ulp), +-1.5, sigma_a*sigma_b in "
        "floats, None}, uncertainty changes between requests, resets; after every request all "
        "pairs are read in both orders and compared with Model/Corr.lean run at FB, and the "
        "property's clauses are evaluated directly on the reads; non-trivial = at least two "
        "distinct pairs written with a rejected request between them; distinct by hash")
ASSUMPTIONS = ["theorems are over the reals; an explicit number whose quotient is within 8 ulp of "
               "+-1 may be accepted or rejected (indifference band); inferred covariances are never "
               "in the band: Cauchy-Schwarz bounds them exactly",
               "inference from reading arrays that carry individual uncertainties is outside the "
               "property's quantifier (plain reading arrays) and is not generated"]
TRUSTED = ["modelled not verified: CPython float arithmetic, uuid ordering of the pair key "
           "(modelled as ordering of creation indices)"]
LEVEL_TEXT = ("Lean 4 theorems about the store state machine Model/Corr.lean (invariant over all "
              "histories, atomic reject, symmetry, isolation, refinement to a map keyed by unordered "
              "pairs, reject cases, inferred never rejected) + differential run on histories")
TECHNIQUE = "Lean 4 machine-checked proof over a model tied to the source by a differential correspondence run"

MEASURED = ("single", "repeated")


# ---------------------------------------------------------------- generation
def sample_std(xs):
    """the float the library itself uses as the standard deviation of a reading array (only to
    *generate* requests that sit exactly on the boundary sigma_a*sigma_b)"""
    import numpy as np
    return float(np.std(np.asarray(xs, dtype=float), ddof=1))


def exact_sample_cov(xs, ys):
    """(covariance, correlation) of two reading arrays with n-1 in the denominator, by Fractions"""
    from fractions import Fraction as F
    fx, fy = [F(x) for x in xs], [F(y) for y in ys]
    n = len(fx)
    mx, my = sum(fx) / n, sum(fy) / n
    cov = sum((x - mx) * (y - my) for x, y in zip(fx, fy)) / (n - 1)
    vx = sum((x - mx) ** 2 for x in fx) / (n - 1)
    vy = sum((y - my) ** 2 for y in fy) / (n - 1)
    rho = float(cov) / math.sqrt(float(vx) * float(vy)) if vx > 0 and vy > 0 else float("nan")
    return float(cov), rho


def gen_quantities(rng, malformed):
    nq = rng.randint(2, 6)
    qs = []
    n_common = rng.choice([2, 3, 4, 5, 8])
    base = None
    # LARGE MEAN, SMALL SCATTER (frequency-counter readings, time stamps, a balance with a tare): the
    # inferred covariance is a sum of products of DEVIATIONS, and must not lose them to cancellation.
    # In an "offset" history every reading array is of that kind (so that they meet in an inference)
    offset_case = rng.random() < 0.12
    for i in range(nq):
        r = rng.random()
        if r < 0.45:
            s = rng.choice([0.5, 0.3, 0.1, 2.0, H.rand_pos(rng), H.rand_pos(rng)])
            if rng.random() < (0.2 if malformed else 0.06):
                s = 0.0
            qs.append({"kind": "single", "std": bits(s)})
        elif r < 0.8:
            n = n_common if rng.random() < 0.8 else rng.randint(2, 8)
            mode = rng.random()
            if base is not None and len(base) == n and mode < 0.35:
                k = rng.choice([1.5, -2.0, 0.25, -0.75, 3.0])
                c = rng.choice([0.0, 1.0, -3.5])
                raw = [k * x + c for x in base]          # exactly collinear (dyadic)
            elif mode < 0.45 and malformed:
                raw = [2.5] * n                           # zero spread
            elif mode < 0.7:
                raw = [rng.choice([0.0, 16.0]) + H.dyadic(rng) for _ in range(n)]
                if len(set(raw)) < 2:
                    raw[0] += 1.0
                if base is None:
                    base = raw
            else:
                raw = [rng.gauss(rng.choice([0, 10, 1000]), rng.choice([0.1, 1, 5])) for _ in range(n)]
            off = None
            if (offset_case and not (mode < 0.35 and base is not None and len(base) == n)) or \
                    (mode >= 0.7 and rng.random() < 0.2):
                off = rng.choice([1.0e6, 1.0e6, 1.0e8, 1.6e9, -3.0e7, 5.0e4])
                sc = rng.choice([0.1, 0.5, 1e-2, 3.0])
                raw = [off + round(rng.gauss(0, 1) * sc, 4) for _ in range(n)]
                if len(set(raw)) < 2:
                    raw[0] += sc
                if base is None and rng.random() < 0.5:
                    base = raw
            plain = not (rng.random() < (0.04 if off is not None else 0.12))
            qd = {"kind": "repeated", "raw": [bits(x) for x in raw], "plain": plain}
            if off is not None:
                qd["offset"] = off
            if not plain:
                qd["errs"] = [bits(H.rand_pos(rng)) for _ in range(n)]
            qs.append(qd)
        else:
            k = rng.choice(["derived", "constant", "foreign"]) if malformed or rng.random() < 0.5 \
                else "single"
            if k == "single":
                qs.append({"kind": "single", "std": bits(H.rand_pos(rng))})
            else:
                qs.append({"kind": k, "what": rng.choice(["float", "str"]) if k == "foreign" else None})
    if sum(1 for x in qs if x["kind"] in MEASURED) < 2:
        qs[0] = {"kind": "single", "std": bits(0.5)}
        qs[1] = {"kind": "single", "std": bits(0.3)}
    return qs


def cur_std(qd):
    if qd["kind"] == "single":
        return unbits(qd["std"])
    if qd["kind"] == "repeated":
        return sample_std([unbits(x) for x in qd["raw"]])
    return 0.0


def gen_number(rng, which, sa, sb, malformed):
    one = 1.0
    rhos = [0.0, 1e-300, -1e-12, 0.3, -0.65, 0.9, H.next_down(one), -H.next_down(one), 1.0, -1.0,
            round(rng.uniform(-1, 1), 3), rng.uniform(-1, 1)]
    edge = [H.next_up(one), -H.next_up(one), 1.5, -1.5, H.next_up(one, 3), 1.0 + 1e-9, -7.0]
    r = rng.random()
    if r < 0.12:
        return None
    rho = rng.choice(edge) if r < (0.5 if malformed else 0.27) else rng.choice(rhos)
    if which == "corr":
        return rho
    prod = sa * sb
    if rng.random() < 0.15:
        return math.copysign(prod, rho) if rho != 0 else prod     # sigma_a*sigma_b computed in floats
    return rho * prod


def num_type(rng, v):
    """ARGUMENT TYPES: the numeric type in which the number is handed over ([] = Python float);
    only types that represent the binary64 value exactly, so the model sees the same number"""
    if v is None or rng.random() < 0.5 or not math.isfinite(v):
        return []
    ts = ["np.float64", "Fraction"]
    if float(v).is_integer() and abs(v) < 2 ** 31:
        ts += ["int", "np.int64", "np.int32", "int", "np.int64"]
    # np.float32 is deliberately absent: by numpy's promotion rules (a Python float is "weak")
    # `np.float32(rho) * (sigma_a * sigma_b)` is evaluated in binary32, so the record is consistent
    # only to single precision (relative 6e-8) - numpy semantics, not a statement about the store
    return [rng.choice(ts)]


def mk_num(b, typ):
    v = unbits(b)
    if not typ:
        return v
    if typ == "int":
        return int(v)
    if typ == "Fraction":
        from fractions import Fraction
        return Fraction(v)
    import numpy as np
    return {"np.float64": np.float64, "np.float32": np.float32,
            "np.int64": lambda x: np.int64(int(x)), "np.int32": lambda x: np.int32(int(x))}[typ](v)


def fmt_num(b, typ):
    v = unbits(b)
    if not typ:
        return repr(v)
    return "{}({!r})".format(typ, int(v) if typ in ("int", "np.int64", "np.int32") else v) \
        if typ != "Fraction" else "Fraction({!r})".format(v)


SEEDS = [12345, 0, 1, 20240, 4242]


def gen_case(rng, malformed=False, long=False, scenario=None):
    """`scenario` (None = drawn): "plain" = every quantity exists from the start (as before);
    "late" = some quantities are created in the middle of the history; "reseed" = as "late", and the
    global random generators (Python's `random`, numpy's) are re-seeded WITH THE SEED THEY HAD WHEN
    THE FIRST BATCH WAS MADE right before the second batch is made (what a script does for a
    reproducible shuffle / bootstrap, what a test framework does per case): a record is keyed by the
    identity of the two objects, and identity must not depend on the state of any random generator.
    A late quantity is often the TWIN of an earlier one (same description, hence equal central value
    and uncertainty): a distinct object is a distinct quantity however equal its numbers are."""
    qs = gen_quantities(rng, malformed)
    if scenario is None:
        r = rng.random()
        scenario = "reseed" if r < 0.22 else "late" if r < 0.34 else "plain"
    nq0 = len(qs)
    # equal central values among the single measurements (model: identity is the creation index)
    for i, x in enumerate(qs):
        if x["kind"] == "single" and rng.random() < 0.3:
            x["val"] = bits(5.0)
    late = []
    if scenario in ("late", "reseed"):
        for _ in range(rng.choice([1, 2, 2, 3, nq0])):
            src = rng.randrange(nq0)
            if qs[src]["kind"] in MEASURED and rng.random() < 0.6:
                twin = dict(qs[src])
                if twin["kind"] == "single":
                    twin.setdefault("val", bits(5.0 + src))
                twin["twin_of"] = src
                qs.append(twin)
            else:
                qs.append(gen_quantities(rng, malformed)[0])
            late.append(len(qs) - 1)
    std = [cur_std(x) for x in qs]
    nq = len(qs)
    alive = [i for i in range(nq) if i not in late]
    meas = [i for i in alive if qs[i]["kind"] in MEASURED]
    ops = []
    seed0 = rng.choice(SEEDS)
    n_ops = (rng.randint(60, 150) if long else
             rng.choice([5, 8, 12, 20, 30, 60]) if rng.random() < 0.7 else rng.randint(5, 60))
    t_new = rng.randrange(n_ops) if late else None
    for t in range(n_ops):
        if t == t_new:
            # the second batch of quantities
            if scenario == "reseed":
                which = rng.choice(["py", "py", "both", "np"])
                ops += [["reseed", which, seed0 if rng.random() < 0.85 else rng.choice(SEEDS)], ["snap"]]
            for i in late:
                ops += [["new", i], ["snap"]]
            alive = list(range(nq))
            meas = [i for i in alive if qs[i]["kind"] in MEASURED]
            # reads / requests about the new quantities come first (then the ordinary stream goes on)
            for i in late:
                if qs[i]["kind"] in MEASURED and rng.random() < 0.5:
                    b = rng.choice(meas)
                    which = rng.choice(["corr", "cov"])
                    v = 0.5 * (std[i] * std[b] if which == "cov" else 1.0)
                    a, b = (i, b) if rng.random() < 0.5 else (b, i)
                    ops += [["set", which, rng.choice(["fn", "meth"]), a, b, bits(v)], ["snap"]]
        r = rng.random()
        if r < 0.62:
            if rng.random() < (0.3 if malformed else 0.08):
                a, b = rng.choice(alive), rng.choice(alive)
            else:
                a, b = rng.choice(meas), rng.choice(meas)
                if a == b and rng.random() < 0.9:
                    b = rng.choice(meas)
            which = rng.choice(["corr", "cov"])
            v = gen_number(rng, which, std[a], std[b], malformed)
            reps = [i for i in meas if qs[i]["kind"] == "repeated" and qs[i]["plain"]]
            offs = [i for i in reps if qs[i].get("offset") is not None]
            if len(reps) >= 2 and rng.random() < (0.4 if len(offs) >= 2 else 0.15):     # inference between reading arrays
                a, b = rng.sample(offs if len(offs) >= 2 and rng.random() < 0.7 else reps, 2)
                v = None
            # inference from arrays with individual uncertainties is outside the quantifier
            if v is None and qs[a]["kind"] == "repeated" and qs[b]["kind"] == "repeated" and \
                    not (qs[a]["plain"] and qs[b]["plain"]) and len(qs[a]["raw"]) == len(qs[b]["raw"]):
                v = 0.25 * (std[a] * std[b] if which == "cov" else 1.0)
            ops.append(["set", which, rng.choice(["fn", "meth"]), a, b, None if v is None else bits(v)]
                       + num_type(rng, v))
        elif r < 0.72:
            a, b = rng.choice(alive), rng.choice(alive)
            ops.append(["get", rng.choice(["corr", "cov"]), rng.choice(["fn", "meth"]), a, b])
            continue
        elif r < 0.88:
            singles = [i for i in meas if qs[i]["kind"] == "single"]
            if not singles:
                continue
            i = rng.choice(singles)
            s = rng.choice([0.5, 0.25, 1.0, H.rand_pos(rng), 0.0 if rng.random() < 0.3 else 0.7])
            if rng.random() < (0.3 if malformed else 0.1):
                s = -abs(s) - 0.1
            # (no Fraction here: a Fraction uncertainty makes sigma_a*sigma_b exact rational
            # arithmetic, and decisions at |rho| = 1 are then not the binary64 ones of the model)
            ops.append(["setstd", i, bits(s)] + [t_ for t_ in num_type(rng, s) if t_ != "Fraction"])
            if s >= 0:
                std[i] = s
        elif r < 0.91 and scenario == "reseed":
            # re-seeding alone (no object made afterwards) changes nothing either
            ops.append(["reseed", rng.choice(["py", "np", "both"]), rng.choice([seed0, seed0, 7])])
        else:
            ops.append(["reset"])
        ops.append(["snap"])
    c = {"qs": qs, "ops": ops, "malformed": malformed}
    if late or scenario != "plain":
        c.update({"late": late, "seed0": seed0, "scenario": scenario})
    return c


def describe_qty(i, x):
    if x["kind"] == "single":
        return "q{}=Measurement({!r}, {!r})".format(i, unbits(x["val"]) if "val" in x else 5.0 + i,
                                                    unbits(x["std"]))
    if x["kind"] == "repeated":
        return "q{}=Measurement({!r}{})".format(i, [unbits(v) for v in x["raw"]],
                                                "" if x["plain"] else ", {!r}".format([unbits(e) for e in x["errs"]]))
    return "q{}=<{}>".format(i, x["kind"])


def describe(c):
    late = set(c.get("late") or [])
    qs = [describe_qty(i, x) for i, x in enumerate(c["qs"]) if i not in late]
    if "seed0" in c:
        qs.insert(0, "random.seed({0}); np.random.seed({0})".format(c["seed0"]))
    ops = []
    for o in c["ops"]:
        if o[0] == "set":
            v = "" if o[5] is None else ", " + fmt_num(o[5], o[6] if len(o) > 6 else None)
            ops.append(("q.set_{w}(q{a}, q{b}{v})" if o[2] == "fn" else "q{a}.set_{w}(q{b}{v})").format(
                w={"corr": "correlation", "cov": "covariance"}[o[1]], a=o[3], b=o[4], v=v))
        elif o[0] == "get":
            ops.append(("q.get_{w}(q{a}, q{b})" if o[2] == "fn" else "q{a}.get_{w}(q{b})").format(
                w={"corr": "correlation", "cov": "covariance"}[o[1]], a=o[3], b=o[4]))
        elif o[0] == "setstd":
            ops.append("q{}.error = {}".format(o[1], fmt_num(o[2], o[3] if len(o) > 3 else None)))
        elif o[0] == "reset":
            ops.append("q.reset_correlations()")
        elif o[0] == "reseed":
            ops.append({"py": "random.seed({0})", "np": "np.random.seed({0})",
                        "both": "random.seed({0}); np.random.seed({0})"}[o[1]].format(o[2]))
        elif o[0] == "new":
            ops.append("[new quantity] " + describe_qty(o[1], c["qs"][o[1]]))
    return "; ".join(qs) + " :: " + "; ".join(ops)


# ---------------------------------------------------------------- the real library
def build(q, qd, i):
    from qexpy.data.data import Constant
    k = qd["kind"]
    if k == "single":
        return q.Measurement(unbits(qd["val"]) if "val" in qd else 5.0 + i, unbits(qd["std"]))
    if k == "repeated":
        raw = [unbits(x) for x in qd["raw"]]
        if qd["plain"]:
            return q.Measurement(raw)
        return q.Measurement(raw, [unbits(e) for e in qd["errs"]])
    if k == "derived":
        return q.Measurement(2.0, 0.1) * q.Measurement(3.0, 0.2)
    if k == "constant":
        return Constant(3.0)
    return 3.0 if qd.get("what") == "float" else "x"


def num_or_reject(f):
    s, v = H.call(f)
    if s != "ok":
        return "reject"
    return float(v)


def reseed(which, seed):
    """re-seed the global random generators (nothing the library reports may depend on them)"""
    import random as _pyrandom
    import numpy as np
    if which in ("py", "both"):
        _pyrandom.seed(seed)
    if which in ("np", "both"):
        np.random.seed(seed % 2 ** 32)


def observe(q, c):
    import warnings
    H.reset(q)
    # the state of the global generators when the first batch of quantities is made is part of the
    # case (a replay re-creates it): results must not depend on it
    reseed("both", c.get("seed0", 12345))
    late = set(c.get("late") or [])
    with warnings.catch_warnings():
        warnings.simplefilter("ignore")
        objs = [None if i in late else build(q, qd, i) for i, qd in enumerate(c["qs"])]
    n = len(objs)
    outs, excs = [], collections.Counter()
    for o in c["ops"]:
        if o[0] == "snap":
            outs.append([[None if objs[i] is None or objs[j] is None else
                          [num_or_reject(lambda: q.get_correlation(objs[i], objs[j])),
                           num_or_reject(lambda: q.get_covariance(objs[i], objs[j]))]
                          for j in range(n)] for i in range(n)])
        elif o[0] == "reseed":
            reseed(o[1], o[2])
            outs.append("ok")
        elif o[0] == "new":
            def mk():
                objs[o[1]] = build(q, c["qs"][o[1]], o[1])
            s, v = H.call(mk)
            outs.append(s)
        elif o[0] == "reset":
            s, v = H.call(q.reset_correlations)
            outs.append(s)
        elif o[0] == "setstd":
            def f():
                objs[o[1]].error = mk_num(o[2], o[3] if len(o) > 3 else None)
            s, v = H.call(f)
            outs.append(s)
            if s != "ok":
                excs[v] += 1
        elif o[0] == "set":
            _, w, form, a, b, v = o[:6]
            args = () if v is None else (mk_num(v, o[6] if len(o) > 6 else None),)
            name = "set_correlation" if w == "corr" else "set_covariance"
            if form == "fn":
                s, e = H.call(lambda: getattr(q, name)(objs[a], objs[b], *args))
            else:
                s, e = H.call(lambda: getattr(objs[a], name)(objs[b], *args))
            outs.append(s)
            if s != "ok":
                excs[e] += 1
        elif o[0] == "get":
            _, w, form, a, b = o
            name = "get_correlation" if w == "corr" else "get_covariance"
            if form == "fn":
                outs.append(num_or_reject(lambda: getattr(q, name)(objs[a], objs[b])))
            else:
                outs.append(num_or_reject(lambda: getattr(objs[a], name)(objs[b])))
    stds = []
    for x, qd in zip(objs, c["qs"]):
        stds.append(float(x.std) if qd["kind"] in MEASURED and x is not None else None)
    return {"outs": outs, "stds": stds, "exceptions": dict(excs)}


def model_line(c):
    qs = []
    for x in c["qs"]:
        if x["kind"] == "single":
            qs.append({"kind": "single", "std": x["std"]})
        elif x["kind"] == "repeated":
            qs.append({"kind": "repeated", "raw": x["raw"], "plain": x["plain"]})
        else:
            qs.append({"kind": x["kind"]})
    # ("reseed" / "new" are requests of the history like any other: in the model the identity of a
    # quantity is its index, creation is not observable and no generator exists -- both answer "ok")
    return {"cmd": "c04", "qs": qs, "ops": c["ops"]}


# ---------------------------------------------------------------- comparison with the model
def same_out(io, mo, slack=64.0):
    """impl output vs model output: 'ok' | 'reject' | number"""
    if isinstance(mo, str) or isinstance(io, str):
        return io == mo
    mv, mb = fb(mo)
    return close(io, mv, mb, slack=slack)


def in_band(c, i, stds):
    """an explicit number whose quotient is within 8 ulp of +-1"""
    o = c["ops"][i]
    if o[0] != "set" or o[5] is None:
        return False
    v = unbits(o[5])
    if o[1] == "cov":
        sa, sb = stds.get(o[3]), stds.get(o[4])
        if not sa or not sb:
            return False
        v = v / (sa * sb)
    # (exactly +-1 included: the model's own sigma of a reading array may differ from the
    # library's by an ulp; "an exact +-1 must be accepted" is checked by spec_check on the
    # library's own numbers)
    return H.ulps(abs(v), 1.0) <= 8


def compare(c, o, m):
    fails = []
    inp = describe(c)
    if "fail" in m:
        return [{"signature": "c04:model-error", "kind": "disagreement", "what": "model driver: " +
                 m["fail"], "input": inp, "case": c}], 0
    stds = {i: unbits(x["std"]) for i, x in enumerate(c["qs"]) if x["kind"] == "single"}
    for i, x in enumerate(c["qs"]):
        if x["kind"] == "repeated":
            stds[i] = sample_std([unbits(v) for v in x["raw"]])
    band = 0
    for i, (op, io, mo) in enumerate(zip(c["ops"], o["outs"], m["outs"])):
        if op[0] == "snap":
            n = len(c["qs"])
            bad = None
            for a in range(n):
                for b in range(n):
                    for k, w in ((0, "correlation"), (1, "covariance")):
                        if io[a][b] is None:
                            continue        # one of the two quantities is made later in the history
                        if not same_out(io[a][b][k], mo[a][b][k], slack=256.0):
                            bad = (a, b, w, io[a][b][k], mo[a][b][k])
                            break
                    if bad:
                        break
                if bad:
                    break
            if bad:
                a, b, w, iv, mv = bad
                prev = c["ops"][i - 1]
                fails.append({"signature": "c04:read:{}:after-{}".format(w, prev[0] + (":" + prev[1] if prev[0] == "set" else "")),
                              "what": "get_{}(q{}, q{}) after request {} differs from the store "
                                      "model".format(w, a, b, i - 1),
                              "input": inp, "case": c, "step": i, "impl": iv,
                              "expected": mv if isinstance(mv, str) else fb(mv)[0],
                              "clause": "records equal the reference map"})
                break
            continue
        if not same_out(io, mo):
            if in_band(c, i, stds):
                band += 1
                break      # either outcome is allowed; the histories diverge from here
            kind = op[0] + (":" + op[1] + (":inferred" if op[5] is None else ":explicit") if op[0] == "set" else "")
            fails.append({"signature": "c04:outcome:{}:impl-{}".format(kind, io if isinstance(io, str) else "number"),
                          "what": "request {} ({}) answered {} but the model answers {}".format(
                              i, kind, io, mo if isinstance(mo, str) else fb(mo)[0]),
                          "input": inp, "case": c, "step": i, "impl": io,
                          "expected": mo if isinstance(mo, str) else fb(mo)[0],
                          "clause": "accept/reject and read values"})
            break
        if op[0] == "setstd" and io == "ok":
            stds[op[1]] = unbits(op[2])
    return fails, band


# ---------------------------------------------------------------- the property's clauses, directly
def spec_check(c, o):
    """evaluate the statement's clauses on the implementation's reads (independent of the model)"""
    fails = []
    inp = describe(c)
    qs = c["qs"]
    n = len(qs)
    meas = [i for i in range(n) if qs[i]["kind"] in MEASURED]
    stds = {i: cur_std(qs[i]) for i in meas}
    for i in meas:      # the standard deviation of a reading array is read from the object
        if qs[i]["kind"] == "repeated" and o["stds"][i] is not None:
            stds[i] = o["stds"][i]

    def fail(sig, what, step, **kw):
        d = {"signature": "c04:spec:" + sig, "what": what, "input": inp, "case": c, "step": step,
             "oracle": "independent"}
        d.update(kw)
        fails.append(d)

    prev = None
    last = None          # the request before the snapshot
    last_out = None
    all_meas = meas
    alive = set(range(n)) - set(c.get("late") or [])
    meas = [i for i in all_meas if i in alive]
    recorded = set()     # own reference: the pairs an accepted request was about, since the last reset
    for i, (op, io) in enumerate(zip(c["ops"], o["outs"])):
        if op[0] != "snap":
            last, last_out = op, io
            if op[0] == "setstd" and io == "ok":
                stds[op[1]] = unbits(op[2])
            if op[0] == "new":
                if io != "ok":
                    fail("new-raised", "making a quantity raised", i, impl=io)
                    return fails
                alive.add(op[1])
                meas = [k for k in all_meas if k in alive]
            if op[0] == "reset" and io == "ok":
                recorded.clear()
            if op[0] == "set" and io == "ok":
                recorded.add(frozenset((op[3], op[4])))
            # requests that must be rejected
            if op[0] == "set":
                _, w, form, a, b, v = op[:6]
                ka, kb = qs[a]["kind"], qs[b]["kind"]
                must = None
                if ka not in MEASURED or kb not in MEASURED:
                    must = "operand-kind:{}-{}".format(ka, kb)
                elif stds[a] == 0 or stds[b] == 0:
                    must = "zero-sigma"
                elif v is None:
                    usable = (ka == "repeated" and kb == "repeated" and
                              len(qs[a]["raw"]) == len(qs[b]["raw"]))
                    if not usable:
                        must = "no-number"
                else:
                    x = unbits(v)
                    rho = x if w == "corr" else x / (stds[a] * stds[b])
                    if abs(rho) > 1 and H.ulps(abs(rho), 1.0) > 8:
                        must = "out-of-range"
                    elif abs(rho) <= 1 and io != "ok" and (abs(rho) == 1.0 or H.ulps(abs(rho), 1.0) > 8):
                        fail("rejected-valid:" + w, "a physical request (|rho| <= 1) was rejected",
                             i, impl=io, rho=rho)
                if must and io == "ok":
                    fail("accepted:" + must, "a request that must be rejected ({}) was "
                         "accepted".format(must), i, impl=io)
                if must is None and v is None and io != "ok":
                    if qs[a]["plain"] and qs[b]["plain"]:
                        fail("rejected-inferred:" + w, "inferred {} of equal-length plain reading "
                             "arrays with non-zero spread rejected".format(w), i, impl=io)
            continue
        S = io
        # reads of measured pairs are numbers, symmetric and bounded
        for a in meas:
            for b in meas:
                ca, va = S[a][b]
                cb, vb = S[b][a]
                if isinstance(ca, str) or isinstance(va, str):
                    fail("read-raised", "reading a pair of measurements raised", i)
                    return fails
                if ca != cb or va != vb:
                    fail("asymmetric", "get(q{0}, q{1}) != get(q{1}, q{0})".format(a, b), i,
                         impl=[S[a][b], S[b][a]])
                    return fails
                if abs(ca) > 1:
                    fail("unbounded", "|correlation| > 1 read back", i, impl=ca)
                    return fails
            if stds[a] > 0:
                ca, va = S[a][a]
                if ca != 1 or abs(va - stds[a] ** 2) > 1e-12 * stds[a] ** 2:
                    fail("self", "self correlation / covariance is not 1 / variance", i,
                         impl=S[a][a], expected=[1.0, stds[a] ** 2])
                    return fails
        # pairs never recorded (since the last reset) read 0 -- whatever their numbers are, whenever
        # the two objects were made, whatever the random generators were seeded with
        for a in meas:
            for b in meas:
                if a < b and frozenset((a, b)) not in recorded and \
                        (S[a][b] != [0.0, 0.0] or S[b][a] != [0.0, 0.0]):
                    how = "after-" + (last[0] if last else "start")
                    if last and last[0] == "new":
                        how += ":twin" if c["qs"][last[1]].get("twin_of") in (a, b) and last[1] in (a, b) \
                            else ":other"
                    fail("unrecorded:" + how, "the pair (q{}, q{}) was never recorded{} but reads "
                         "non-zero".format(a, b, " since the last reset" if any(
                             x[0] == "reset" for x in c["ops"][:i]) else ""), i,
                         impl=[S[a][b], S[b][a]], expected=[0.0, 0.0],
                         clause="pairs never recorded, and every pair after a reset, read as 0")
                    return fails
        # operands that are not measurements read 0 (or raise for foreign objects)
        if prev is not None and last is not None:
            changed = [(a, b) for a in meas for b in meas
                       if a != b and prev[a][b] is not None and S[a][b] != prev[a][b]]
            if last[0] == "reset" and last_out == "ok":
                nz = [(a, b) for a in meas for b in meas if a != b and S[a][b] != [0.0, 0.0]]
                if nz:
                    fail("reset", "pairs read non-zero after reset_correlations", i, impl=nz[:3])
                    return fails
            elif last[0] == "set":
                _, w, form, a, b, v = last[:6]
                if last_out != "ok" and changed:
                    fail("reject-changed", "a rejected request changed the records of {}".format(
                        changed[:3]), i, impl=[S[x][y] for x, y in changed[:3]])
                    return fails
                if last_out == "ok":
                    other = [p for p in changed if set(p) != {a, b}]
                    if other:
                        fail("not-isolated", "recording (q{}, q{}) changed other pairs {}".format(
                            a, b, other[:3]), i)
                        return fails
                    if a != b and a in meas and b in meas:
                        ca, va = S[a][b]
                        prod = stds[a] * stds[b]
                        if abs(va - ca * prod) > 1e-9 * prod:
                            fail("inconsistent", "covariance != correlation * sigma_a * sigma_b "
                                 "at the time of recording", i, impl=[ca, va], sigmas=[stds[a], stds[b]])
                            return fails
                        if v is None and qs[a]["kind"] == "repeated" and qs[b]["kind"] == "repeated" \
                                and qs[a]["plain"] and qs[b]["plain"] and len(qs[a]["raw"]) == len(qs[b]["raw"]):
                            # the inferred number IS the sample covariance of the two reading arrays:
                            # exact rational arithmetic on the readings (no mean is rounded)
                            ecov, erho = exact_sample_cov([unbits(x) for x in qs[a]["raw"]],
                                                          [unbits(x) for x in qs[b]["raw"]])
                            if abs(va - ecov) > 1e-7 * prod or abs(ca - erho) > 1e-7:
                                fail("inferred-not-sample-cov:" + w + (":offset" if qs[a].get("offset") is not None
                                     or qs[b].get("offset") is not None else ""),
                                     "the inferred record of (q{}, q{}) is not the sample covariance / "
                                     "correlation of the readings".format(a, b), i, impl=[ca, va],
                                     expected=[erho, ecov], clause="inferred from equal-length reading "
                                     "arrays; covariance = correlation * the two standard deviations")
                                return fails
                        if v is not None:
                            x = unbits(v)
                            got = ca if w == "corr" else va
                            if abs(got - x) > 1e-12 * abs(x) + 1e-300 and H.ulps(abs(x if w == "corr" else x / prod), 1.0) > 8:
                                fail("wrong-number", "the recorded {} is not the requested "
                                     "number".format(w), i, impl=got, expected=x)
                                return fails
            elif last[0] in ("new", "reseed"):
                if changed:
                    fail("changed-by-" + last[0], "{} changed the records of {}".format(
                        "making a new quantity" if last[0] == "new" else "re-seeding a random generator",
                        changed[:3]), i, impl=[S[x][y] for x, y in changed[:3]],
                        expected=[prev[x][y] for x, y in changed[:3]],
                        clause="recording one pair never alters another")
                    return fails
            elif last[0] == "setstd":
                k = last[1]
                other = [p for p in changed if k not in p]
                if other:
                    fail("setstd-changed", "changing an uncertainty changed records of other "
                         "pairs", i, impl=other[:3])
                    return fails
                if last_out != "ok" and changed:
                    fail("reject-changed", "a rejected uncertainty changed the reads", i)
                    return fails
        elif prev is None and last is None:
            pass
        prev = S
    return fails


def nontrivial(c, o):
    pairs, rejected_between, seen_reject = set(), False, False
    for op, io in zip(c["ops"], o["outs"]):
        if op[0] != "set":
            continue
        if io == "ok":
            p = frozenset((op[3], op[4]))
            if p not in pairs:
                if pairs and seen_reject:
                    rejected_between = True
                pairs.add(p)
        elif pairs:
            seen_reject = True
    return len(pairs) >= 2 and rejected_between


def run_cases(ctx, cases, ref=False, with_model=True):
    import qexpy as q
    obs = [observe(q, c) for c in cases]
    H.reset(q)
    mod = ctx.model([model_line(c) for c in cases], ref=ref) if with_model else [None] * len(cases)
    res = {"evaluations": len(cases), "nontrivial": set(), "failures": [], "samples": [],
           "distribution": collections.Counter(), "skipped": 0}
    d = res["distribution"]
    for c, o, m in zip(cases, obs, mod):
        if with_model:
            fails, band = compare(c, o, m)
            res["failures"] += fails
            d["band-either-outcome"] += band
        sp = spec_check(c, o)
        for f in sp:
            f.setdefault("kind", "violation")
        res["failures"] += sp
        d["stream:" + ("malformed" if c["malformed"] else "valid")] += 1
        d["quantities:%d" % len(c["qs"])] += 1
        d["scenario:" + {"plain": "all quantities made at the start", "late": "quantities made during the history",
                         "reseed": "random generators re-seeded, then quantities made"}[c.get("scenario", "plain")]] += 1
        for i in c.get("late") or []:
            d["late-quantity:" + ("twin of an earlier one (equal numbers)" if "twin_of" in c["qs"][i]
                                  else "other")] += 1
        vals = [x.get("val") for x in c["qs"] if x["kind"] == "single" and "val" in x]
        if len(vals) != len(set(vals)):
            d["single measurements with equal central values"] += 1
        nops = sum(1 for x in c["ops"] if x[0] != "snap")
        d["ops:" + ("<=8" if nops <= 8 else "9-20" if nops <= 20 else "21-60" if nops <= 60 else "61-150")] += 1
        for x in c["qs"]:
            d["kind:" + x["kind"] + ("" if x["kind"] != "repeated" or x["plain"] else "-with-errors")] += 1
            if x.get("offset") is not None:
                d["readings:large mean, small scatter (mean/scatter 1e4..1e11)"] += 1
        for op, io in zip(c["ops"], o["outs"]):
            if op[0] == "snap":
                continue
            tag = op[0]
            if op[0] == "set":
                tag = "set:{}:{}:{}".format(op[1], op[2], "inferred" if op[5] is None else "explicit")
            elif op[0] == "get":
                tag = "get:{}:{}".format(op[1], op[2])
            elif op[0] == "reseed":
                tag = "reseed:{}:{}".format(op[1], "same seed as at the start" if op[2] == c.get("seed0") else "other seed")
            d["op:{}:{}".format(tag, io if isinstance(io, str) else "number")] += 1
            if op[0] == "set" and op[5] is None and io == "ok":
                no = sum(1 for k in (op[3], op[4]) if c["qs"][k].get("offset") is not None)
                d["inferred-accepted:checked against exact sample covariance:{}".format(
                    ["ordinary readings", "one array with large mean / small scatter",
                     "both arrays with large mean / small scatter"][no])] += 1
            typ = op[6] if op[0] == "set" and len(op) > 6 else op[3] if op[0] == "setstd" and len(op) > 3 else None
            if typ:
                d["argtype:{}:{}".format(op[0], typ)] += 1
        for k, v in o["exceptions"].items():
            d["exception:" + k] += v
        if nontrivial(c, o):
            res["nontrivial"].add(canon_hash(c))
        if len(res["samples"]) < 5 and nops <= 8:
            res["samples"].append({"history": describe(c), "impl_outcomes":
                                   [x for x, op in zip(o["outs"], c["ops"]) if op[0] != "snap"]})
    return res


def chunk(sub, n):
    return run_cases(sub, [gen_case(sub.rng, malformed=(i % 4 == 3), long=not sub.quick and i % 5 == 0)
                           for i in range(n)])


def correspond(ctx):
    return H.run_chunks(ctx, chunk, ctx.n(400, 60000), chunk=200 if ctx.quick else 750)


def search_chunk(sub, n):
    return run_cases(sub, [gen_case(sub.rng, malformed=(i % 3 == 2)) for i in range(n)],
                     with_model=False)


def search(ctx, broken):
    r = H.run_chunks(ctx, search_chunk, ctx.n(1200, 12000), chunk=400)
    for f in r["failures"]:
        f["oracle"], f["kind"] = "independent", "violation"
    return {"failures": r["failures"],
            "strategy": ["the statement's clauses (symmetry, bound, self pair, consistency, "
                         "reject-leaves-records, isolation, reset, must-reject classes) evaluated "
                         "on the implementation's reads: {} histories".format(r["evaluations"])]}


def shrink(ctx, c, pred):
    """drop requests from the end / one at a time while the failure persists"""
    ops = [o for o in c["ops"]]
    # keep request+snap pairs together
    units = []
    for o in ops:
        if o[0] == "snap" and units:
            units[-1].append(o)
        else:
            units.append([o])
    i = 0
    while i < len(units) and len(units) > 1:
        cand = units[:i] + units[i + 1:]
        c2 = dict(c, ops=[o for u in cand for o in u])
        if pred(c2):
            units = cand
        else:
            i += 1
    return dict(c, ops=[o for u in units for o in u])


def replay(ctx, rp):
    import qexpy as q
    c = rp.get("failure", {}).get("case")
    if not c:
        return {"fails": False, "note": "replay file carries no concrete input", "payload": rp}
    r = run_cases(ctx, [c])
    return {"fails": bool(r["failures"]), "history": describe(c), "failures": r["failures"]}

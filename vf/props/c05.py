"""C05 — recalculate() brings a result fully up to date; reads are otherwise stable."""
from props import _worldcheck as W

ID = "C05"
SECTIONS = ["ops", "session"]
LEAN_MODULES = ["QExPy.Props.C05", "QExPy.Props.C03"]
THEOREMS = ["QExPy.World.C05_recalc_fresh", "QExPy.World.C05_recalc_redraws",
            "QExPy.World.C05_deriv_current", "QExPy.World.C05_read_stable",
            "QExPy.World.C05_sim_kept", "QExPy.World.C05_memo_kept", "QExPy.World.read_settles", "QExPy.World.C05_setRel_eq",
            "QExPy.World.C05_setRel_nonneg", "QExPy.C03_diff_correct"]
RULE = ("seeded histories (5-40 ops) over formulas assembled through real intermediate results "
        "(2-4 measurements, 1-5 operators, reuse of intermediates): set value / uncertainty / "
        "correlation (function and method form; uncertainties also through relative_error, incl. a deliberate scenario: two correlated sources of one result, one revised relatively), reset correlations, read, derivative(), "
        "recalculate, global and per-quantity method switches, sample-size changes; derivative "
        "reads vs the state machine under the FB bound, Monte Carlo reads by identity pattern and against mean/std of the simulation the quantity keeps, "
        "and after every recalculate() the same formula built afresh with the real library "
        "(value, uncertainty, derivatives, unit). Non-trivial = a source of a nested formula "
        "changed and the outer quantity was recalculated and read; distinct by hash")
ASSUMPTIONS = ["Monte Carlo numbers are compared by identity pattern (which earlier read of the same "
               "quantity a read is bit-identical to), never by value",
               "unit changes are outside the statement's list of changes; units are compared after "
               "recalculate() with units unchanged"]
TRUSTED = ["the translator checks that differentiate() hands the rules fresh operand values "
           "(operations.py _CentralValue); numpy RNG"]
LEVEL_TEXT = ("Theorems over the session state machine for ALL histories (induction over the op "
              "list): recalc ⇒ fresh; reads stable between changes under both methods; one "
              "simulation kept. Tied to the code by the translator (operand-value semantics of the "
              "derivative rules) and by differential histories against the real library.")


def correspond(ctx):
    return W.run(ctx, "c05", ctx.n(120, 6000), ctx.n(30, 40))


def search(ctx, broken):
    # the correspondence already carries an oracle that is independent of the model (the formula
    # built afresh with the real library); run more and longer histories
    r = W.run(ctx, "c05", ctx.n(400, 6000), 40)
    fs = [f for f in r["failures"] if f.get("oracle") == "independent"]
    return {"failures": fs, "strategy": ["afresh-built formula oracle on {} histories".format(
        r["evaluations"])]}


def replay(ctx, rp):
    c = rp.get("failure", {}).get("case")
    if not c:
        return {"fails": False, "note": "replay file carries no concrete input", "payload": rp}
    r = W.run(ctx, "c05", 1, 1, cases=[c])
    return {"fails": bool(r["failures"]), "failures": r["failures"]}

"""Shared helpers for the checks: paths, float bit patterns, Lean/lake, the model driver."""
import fcntl
import hashlib
import json
import math
import os
import struct
import subprocess
import sys
import time

ROOT = os.path.dirname(os.path.dirname(os.path.abspath(__file__)))
LEAN = os.path.join(ROOT, "lean")
REPO = os.environ.get("QEXPY_REPO") or "/repo"
DRIVER = os.path.join(LEAN, ".lake", "build", "bin", "driver")
LOCK = os.path.join(ROOT, ".lake.lock")
STD_AXIOMS = {"propext", "Classical.choice", "Quot.sound"}


def bits(x):
    return struct.unpack("<Q", struct.pack("<d", float(x)))[0]


def unbits(n):
    return struct.unpack("<d", struct.pack("<Q", int(n)))[0]


def fb(pair):
    """[valuebits, boundbits] -> (value, bound)"""
    return unbits(pair[0]), unbits(pair[1])


def close(impl, model, bound, slack=64.0, rel=1e-12, floor=1e-300):
    """conditioned comparison (DESIGN §3.4): |impl-model| <= slack*bound + rel*|model| + floor"""
    if impl is None or model is None:
        return False
    if math.isnan(impl) or math.isnan(model):
        return math.isnan(impl) and math.isnan(model)
    if math.isinf(impl) or math.isinf(model):
        return impl == model
    if math.isnan(bound) or math.isinf(bound):
        return True  # the model itself says the case is ill-conditioned
    return abs(impl - model) <= slack * bound + rel * abs(model) + floor


class Lake:
    """serialised lake invocations (concurrent checks must not corrupt .lake)"""

    def __enter__(self):
        self.f = open(LOCK, "w")
        fcntl.flock(self.f, fcntl.LOCK_EX)
        return self

    def __exit__(self, *a):
        fcntl.flock(self.f, fcntl.LOCK_UN)
        self.f.close()


def lake(args, timeout=3000):
    env = dict(os.environ)
    t0 = time.time()
    with Lake():
        p = subprocess.run(["lake"] + args, cwd=LEAN, capture_output=True, text=True,
                           timeout=timeout, env=env)
    return p.returncode, p.stdout + p.stderr, time.time() - t0


def lake_build(targets, timeout=3000):
    return lake(["build"] + list(targets), timeout=timeout)


def lean_run_file(relpath, timeout=1200):
    """`lake env lean <file>` — used for the axiom audit; returns (rc, output)"""
    with Lake():
        p = subprocess.run(["lake", "env", "lean", relpath], cwd=LEAN, capture_output=True,
                           text=True, timeout=timeout)
    return p.returncode, p.stdout + p.stderr


def run_driver(lines, driver=None, timeout=3600):
    """feed JSON objects to the model driver, one per line; returns the list of decoded replies"""
    driver = driver or DRIVER
    data = "\n".join(json.dumps(x, separators=(",", ":")) for x in lines) + "\n"
    p = subprocess.run([driver], input=data, capture_output=True, text=True, timeout=timeout)
    if p.returncode != 0:
        raise RuntimeError("model driver failed: rc={} {}".format(p.returncode, p.stderr[-2000:]))
    out = [json.loads(l) for l in p.stdout.splitlines() if l.strip()]
    if len(out) != len(lines):
        raise RuntimeError("model driver answered {} of {} lines".format(len(out), len(lines)))
    return out


def canon_hash(obj):
    return hashlib.sha1(json.dumps(obj, sort_keys=True, default=str).encode()).hexdigest()[:16]


def eprint(*a):
    print(*a, file=sys.stderr)
    sys.stderr.flush()


# ----------------------------------------------------------------------------- clean room
class CleanRoom:
    """A fresh interpreter that has imported the library and one property module and has executed
    nothing else.  Every request `replay(failure)` is served by a FORK of it, so each one sees the
    library exactly as a new process does (`./check <ID> --replay <file>`), whatever the requests
    before it did: a failing input that was found late in a long run (where caches or other
    session state of a changed library may have been filled by earlier cases) is confirmed or
    refuted as a stand-alone reproduction here, and histories are shortened here."""

    def __init__(self, modname):
        code = ("import sys; sys.path.insert(0, {!r}); import common; "
                "common._cleanroom_serve({!r})".format(os.path.dirname(os.path.abspath(__file__)),
                                                       modname))
        env = dict(os.environ)
        env.setdefault("MPLBACKEND", "Agg")
        self.p = subprocess.Popen([sys.executable, "-c", code], stdin=subprocess.PIPE,
                                  stdout=subprocess.PIPE, text=True, env=env)
        self.requests = 0

    def replay(self, failure):
        """-> {"fails": bool, ...}; a crash of the clean room counts as 'does not reproduce'"""
        self.requests += 1
        try:
            self.p.stdin.write(json.dumps({"failure": failure}, default=str) + "\n")
            self.p.stdin.flush()
            line = self.p.stdout.readline()
            return json.loads(line) if line.strip() else {"fails": False, "error": "no answer"}
        except (OSError, ValueError) as e:
            return {"fails": False, "error": repr(e)}

    def close(self):
        try:
            self.p.stdin.close()
            self.p.wait(timeout=10)
        except Exception:  # noqa: BLE001
            self.p.kill()

    def __enter__(self):
        return self

    def __exit__(self, *a):
        self.close()


def _cleanroom_serve(modname, limit=120.0):
    import importlib
    import select
    import signal
    sys.path.insert(0, REPO)
    mod = importlib.import_module(modname)
    import qexpy  # noqa: F401  imported, nothing executed
    out = sys.stdout
    for line in sys.stdin:
        if not line.strip():
            continue
        rp = json.loads(line)
        r, w = os.pipe()
        pid = os.fork()
        if pid == 0:
            os.close(r)
            try:
                res = mod.replay(None, rp)
                ans = {"fails": bool(res.get("fails")), "failures": (res.get("failures") or [])[:1]}
            except BaseException as e:  # noqa: BLE001
                ans = {"fails": False, "error": repr(e)}
            with os.fdopen(w, "w") as f:
                f.write(json.dumps(ans, default=str))
            os._exit(0)
        os.close(w)
        data = b""
        t0 = time.time()
        while True:
            left = limit - (time.time() - t0)
            if left <= 0 or not select.select([r], [], [], left)[0]:
                os.kill(pid, signal.SIGKILL)
                data = json.dumps({"fails": False, "error": "timeout"}).encode()
                break
            chunk = os.read(r, 65536)
            if not chunk:
                break
            data += chunk
        os.close(r)
        os.waitpid(pid, 0)
        try:
            ans = json.loads(data.decode() or "{}")
        except ValueError:
            ans = {"fails": False, "error": "garbled answer"}
        ans.setdefault("fails", False)
        out.write(json.dumps(ans) + "\n")
        out.flush()

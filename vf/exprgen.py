"""Seeded generator of formula DAGs over QExPy's operators, and the harness that builds the
same formula with the real library (operators, q.* functions, all operand forms).

Node forms (each node is a list; operands refer to earlier nodes by index):
  ["var", i]            measurement i
  ["const", bits]       plain number (only ever an operand next to a quantity)
  ["pair", i]           a (value, error) tuple operand: a fresh measurement, var index i
  ["un", op, a] ["bin", op, a, b] ["deg", op, a]
For the Lean model "pair" is just "var".
"""
import math

from common import bits, unbits

UN = ["neg", "sqrt", "exp", "sin", "cos", "tan", "asin", "acos", "atan", "sec", "csc", "cot",
      "log10", "ln"]
BIN = ["add", "sub", "mul", "div", "pow", "log"]
DEG = ["sind", "cosd", "tand", "secd", "cscd", "cotd"]
NONLINEAR = set(UN) - {"neg"} | {"mul", "div", "pow", "log"} | set(DEG)

EDGE = 0.05

# central values that coincide with constants the code (or a shortcut in it) may single out
SPECIAL_VALUES = [10.0, 10.0, 2.0, math.e, 1.0, 3.0, 0.5, 100.0, -1.0, -2.0, 4.0, 90.0, 180.0,
                  45.0, 60.0, 0.0, 0.0, math.pi, math.pi / 2,
                  # readings on the scale of physical constants / unit prefixes (derivatives and
                  # results far from 1 in absolute terms)
                  6.674e-11, 1.381e-23, 6.626e-34, 2.998e8, 1e-9, 1e9, 1.602e-19, -5e-10]
SPECIAL_CONSTS = [1e-9, 1e9, 6.674e-11, 1e-6, 1e3, 0.001]
# results are kept inside this band (far inside binary64, far outside "ordinary" magnitudes)
VMAX, VMIN = 1e60, 1e-60


def ref_un(op, x):
    """reference value + domain guard (keeps generated points away from singularities)"""
    if op == "neg":
        return -x
    if op == "sqrt":
        return math.sqrt(x) if x >= EDGE else None
    if op == "exp":
        return math.exp(x) if abs(x) <= 6 else None
    if op == "sin":
        return math.sin(x) if abs(x) < 1e3 else None
    if op == "cos":
        return math.cos(x) if abs(x) < 1e3 else None
    if op in ("tan", "sec"):
        if abs(x) > 1e3 or abs(math.cos(x)) < EDGE:
            return None
        return math.tan(x) if op == "tan" else 1 / math.cos(x)
    if op == "csc":
        if abs(x) > 1e3 or abs(math.sin(x)) < EDGE or abs(math.cos(x)) < EDGE:
            return None
        return 1 / math.sin(x)
    if op == "cot":
        if abs(x) > 1e3 or abs(math.sin(x)) < EDGE or abs(math.cos(x)) < EDGE:
            return None
        return 1 / math.tan(x)
    if op == "asin":
        return math.asin(x) if abs(x) <= 0.95 else None
    if op == "acos":
        return math.acos(x) if abs(x) <= 0.95 else None
    if op == "atan":
        return math.atan(x)
    if op == "log10":
        return math.log10(x) if EDGE <= x <= 1e6 else None
    if op == "ln":
        return math.log(x) if EDGE <= x <= 1e6 else None
    raise KeyError(op)


def ref_bin(op, a, b, b_is_const=False):
    if op == "add":
        return a + b
    if op == "sub":
        return a - b
    if op == "mul":
        return a * b
    if op == "div":
        return a / b if abs(b) >= EDGE else None
    if op == "pow":
        if b_is_const and float(b).is_integer() and abs(b) <= 4 and abs(a) >= EDGE:
            return a ** b
        if EDGE <= a <= 20 and abs(b) <= 4:
            return a ** b
        return None
    if op == "log":  # log(base=a, x=b)
        if EDGE <= a <= 20 and abs(a - 1) >= EDGE and EDGE <= b <= 1e6:
            return math.log(b) / math.log(a)
        return None
    raise KeyError(op)


def gen_case(rng, max_ops=8, max_meas=5, allow_pairs=True, allow_corr=True, ops=None,
             allow_repeated=False, allow_revalue=False, allow_cast=False, allow_special=True,
             allow_routes=False):
    """one formula DAG; returns a JSON-able dict or None when the draw fell out of domain"""
    n_meas = rng.randint(1, max_meas)
    vals, errs = [], []
    for _ in range(n_meas):
        v = rng.choice([1, -1]) * 10 ** rng.uniform(-1.3, 1.3) if rng.random() < 0.8 else \
            rng.uniform(-1, 1)
        if abs(v) < EDGE:
            v = EDGE * 2 if v >= 0 else -EDGE * 2
        if allow_special and rng.random() < 0.14:
            # readings that coincide with numbers the code may treat specially
            v = rng.choice(SPECIAL_VALUES)
        if vals and rng.random() < 0.15:
            v = rng.choice(vals)     # two distinct measurements with exactly the same reading
        r = rng.random()
        e = 0.0 if r < 0.12 else abs(v) * 10 ** rng.uniform(-6, -0.7)
        if v == 0.0:
            e = 10 ** rng.uniform(-3, -0.7)     # a reading of exactly 0 with an uncertainty
        vals.append(float(v))
        errs.append(float(e))
    raw = {}
    if allow_repeated:
        for i in range(n_meas):
            if errs[i] > 0 and vals[i] != 0.0 and rng.random() < 0.25:
                k = rng.randint(2, 6)
                spread = errs[i] * math.sqrt(k)
                xs = [vals[i] + rng.gauss(0, 1) * spread for _ in range(k)]
                if rng.random() < 0.2:
                    xs = [vals[i]] * k          # identical readings: zero scatter
                rerr = None
                sels = ["", "", "use_std_for_uncertainty"]
                if rng.random() < 0.5:
                    rerr = [bits(abs(vals[i]) * 10 ** rng.uniform(-3, -1)) for _ in range(k)]
                    sels += ["use_propagated_error_for_uncertainty", "use_error_weighted_mean_as_value",
                             "use_propagated_error_for_uncertainty+use_error_weighted_mean_as_value"]
                sel = rng.choice(sels)
                if len(set(xs)) == 1:
                    if rerr is None:
                        xs[0] = xs[0] * (1 + 1e-3)     # no per-reading errors: keep some scatter
                    else:
                        sel = "use_propagated_error_for_uncertainty"   # the only non-zero statistic
                raw[str(i)] = {"data": [bits(x) for x in xs], "errors": rerr,
                               "selector": sel,
                               "ndarray": rng.random() < 0.5}
                # provisional central value for domain control; the harness reads the real
                # (value, error) from the library object and feeds those to the model
                vals[i] = float(sum(xs) / k)
                if abs(vals[i]) < EDGE:
                    del raw[str(i)]
    nodes = [["var", i] for i in range(n_meas)]
    ref = list(vals)          # reference value per node
    quantity = [True] * n_meas
    n_ops = rng.randint(1, max_ops)
    unary = list(UN) + list(DEG)
    made = 0
    tries = 0
    used_ops = []
    pairs_made = []
    casts_made = []
    routes = {}
    template = None
    if allow_special and rng.random() < 0.10:
        # a formula that starts from a special point: a measured logarithm base that equals a
        # familiar constant, or a stationary point of the formula (derivative exactly 0 there)
        k = rng.randrange(n_meas)
        raw.pop(str(k), None)
        if rng.random() < 0.5:
            template = "logbase"
            vals[k] = rng.choice([10.0, 10.0, 2.0, math.e])
            errs[k] = vals[k] * 10 ** rng.uniform(-3, -1)
            ref[k] = vals[k]
            others = [j for j in range(n_meas) if j != k and EDGE <= vals[j] <= 1e6]
            if others and rng.random() < 0.6:
                seq = [["bin", "log", k, rng.choice(others)]]
            else:       # log(b, b*b): the base occurs in the argument as well
                seq = [["bin", "mul", k, k], ["bin", "log", k, n_meas]]
        else:
            template = "stationary"
            vals[k] = 0.0
            errs[k] = 10 ** rng.uniform(-2.5, -0.7)
            ref[k] = 0.0
            seq = [rng.choice([["un", "cos", k], ["un", "sec", k], ["deg", "cosd", k],
                               ["deg", "secd", k], ["bin", "mul", k, k]])]
        for node in seq:
            if node[0] == "un":
                v = ref_un(node[1], ref[node[2]])
            elif node[0] == "deg":
                v = ref_un(node[1][:-1], ref[node[2]] / 180 * math.pi)
            else:
                v = ref_bin(node[1], ref[node[2]], ref[node[3]])
            if v is None:
                break
            nodes.append(node)
            ref.append(float(v))
            quantity.append(True)
            used_ops.append(node[1])
            made += 1
    while made < n_ops and tries < n_ops * 30:
        tries += 1
        qidx = [i for i, isq in enumerate(quantity) if isq]
        # bias towards recent nodes so that depth grows, but keep sharing
        def pick():
            if rng.random() < 0.6:
                return qidx[-1 - min(len(qidx) - 1, int(rng.expovariate(0.9)))]
            return rng.choice(qidx)
        kind = rng.random()
        chosen = rng.choice(ops) if ops else None
        leaf, swap, b = None, False, None
        if (chosen in unary) if chosen else kind < 0.4:
            op = chosen or rng.choice(unary)
            a = pick()
            if op in DEG:
                inner = {"sind": "sin", "cosd": "cos", "tand": "tan", "secd": "sec",
                         "cscd": "csc", "cotd": "cot"}[op]
                v = ref_un(inner, ref[a] / 180 * math.pi)
                node = ["deg", op, a]
            else:
                v = ref_un(op, ref[a])
                node = ["un", op, a]
        else:
            op = chosen or rng.choice(BIN)
            a = pick()
            form = rng.random()
            # leaf: ("const", c) | ("pair", v, e) — appended only if the draw is in domain
            if form < 0.45:
                b = pick() if rng.random() < 0.7 else a
                bref = ref[b]
            elif form < 0.8 or not allow_pairs:
                c = rng.choice([2.0, 3.0, -1.0, 0.5, -2.0, 1.5, 10.0, 4.0,
                                round(rng.uniform(-5, 5), 3)])
                if allow_special and op in ("mul", "div") and rng.random() < 0.15:
                    c = rng.choice(SPECIAL_CONSTS)      # a change of unit prefix, a small constant
                if op == "pow" and rng.random() < 0.6:
                    c = float(rng.choice([2, 3, -1, -2, 4]))
                if op in ("add", "sub") and rng.random() < 0.2:
                    c = 0.0       # `0 + r` is what the builtin sum() starts with
                leaf, bref = ("const", c), c
            else:
                pv = rng.choice([1, -1]) * 10 ** rng.uniform(-1, 1)
                pe = abs(pv) * 10 ** rng.uniform(-4, -1)
                if pairs_made and rng.random() < 0.4:
                    # the same numbers as an earlier pair: still another, independent measurement
                    pv, pe = rng.choice(pairs_made)
                leaf, bref = ("pair", float(pv), float(pe)), float(pv)
            swap = rng.random() < 0.5
            xr, yr = (bref, ref[a]) if swap else (ref[a], bref)
            y_const = leaf is not None and leaf[0] == "const" and not swap
            v = ref_bin(op, xr, yr, b_is_const=y_const)
            node = ["bin", op, None, None]
        if v is None or isinstance(v, complex) or math.isnan(v) or math.isinf(v) or abs(v) > VMAX \
                or (abs(v) < VMIN and v != 0):
            continue
        if node[0] == "bin":
            if leaf is not None:
                if leaf[0] == "const":
                    nodes.append(["const", bits(leaf[1])])
                else:
                    vals.append(leaf[1])
                    errs.append(leaf[2])
                    pairs_made.append((leaf[1], leaf[2]))
                    nodes.append(["pair", len(vals) - 1])
                ref.append(bref)
                quantity.append(False)   # a number / tuple operand is never reused
                b = len(nodes) - 1
            node = ["bin", op, b, a] if swap else ["bin", op, a, b]
        nodes.append(node)
        ref.append(float(v))
        quantity.append(True)
        used_ops.append(op)
        made += 1
        if allow_routes and rng.random() < 0.3:
            rt = gen_route(rng, nodes, len(nodes) - 1)
            if rt:
                routes[str(len(nodes) - 1)] = rt
        if allow_cast and rng.random() < 0.07:
            # the result just made is overridden by hand (value, uncertainty or relative
            # uncertainty assigned): from then on it is a measurement of its own — a new,
            # independent variable whose value / uncertainty the harness reads from the library
            a = len(nodes) - 1
            how = rng.choice(["value", "value", "error", "rel"])
            if how == "value":
                x = ref[a] * (1 + rng.uniform(-0.3, 0.3)) if ref[a] != 0 else rng.uniform(-1, 1)
                newv = float(x)
            elif how == "error":
                x = (abs(ref[a]) or 1.0) * 10 ** rng.uniform(-4, -1)
                newv = ref[a]
            else:
                x = 10 ** rng.uniform(-4, -1)
                newv = ref[a]
            vals.append(float(newv))
            errs.append(0.0)          # placeholder: read from the library object
            quantity[a] = False       # the overridden object is only ever used through the cast
            nodes.append(["cast", a, how, bits(float(x)), len(vals) - 1])
            ref.append(float(newv))
            quantity.append(True)
            casts_made.append(how)
    if made == 0:
        return None
    root = len(nodes) - 1
    # correlations between base measurements with non-zero error, PSD by construction
    rho = []
    # (set_correlation refuses quantities whose raw readings have zero scatter)
    base = [i for i in range(n_meas) if errs[i] > 0 and not (
        str(i) in raw and len(set(raw[str(i)]["data"])) == 1)]
    if allow_corr and len(base) >= 2 and rng.random() < 0.7:
        mode = rng.random()
        if mode < 0.25:
            i, j = rng.sample(base, 2)
            rho.append([i, j, bits(rng.choice([1.0, -1.0, 0.0, 0.5, -0.3]))])
        else:
            k = rng.randint(1, 2)
            load = {i: [rng.uniform(-1, 1) for _ in range(k)] for i in base}
            uniq = {i: rng.uniform(0.05, 1) for i in base}
            for ii, i in enumerate(base):
                for j in base[ii + 1:]:
                    if rng.random() < 0.8:
                        num = sum(x * y for x, y in zip(load[i], load[j]))
                        den = math.sqrt((sum(x * x for x in load[i]) + uniq[i]) *
                                        (sum(x * x for x in load[j]) + uniq[j]))
                        rho.append([i, j, bits(num / den)])
    # uncertainties revised AFTER the correlations were recorded ("current uncertainties")
    revise = {}
    if rho and rng.random() < 0.4:
        for i in {r[0] for r in rho} | {r[1] for r in rho}:
            if str(i) not in raw and rng.random() < 0.6:
                revise[str(i)] = bits(errs[i] * 10 ** rng.uniform(-0.7, 0.7))
    # a source whose central value is changed AFTER the formula was built and read once
    # (derivative() must answer at the current central values)
    revalue = None
    if allow_revalue and rng.random() < 0.35:
        cand = [i for i in range(n_meas) if str(i) not in raw]
        if cand:
            k = rng.choice(cand)
            for _ in range(8):
                trial = list(vals)
                trial[k] = vals[k] * (1 + rng.uniform(-0.3, 0.3))
                probe = {"nodes": nodes}
                if ref_eval_all(probe, trial) is not None:
                    revalue = [k, bits(trial[k])]
                    break
    return {"routes": routes, "casts": casts_made, "template": template, "equal_pairs": len(pairs_made) - len(set(pairs_made)),
            "fault": bool(allow_revalue and rng.random() < 0.3), "revalue": revalue, "revise": revise, "nodes": nodes, "root": root, "vals": [bits(v) for v in vals],
            "errs": [bits(e) for e in errs], "rho": rho, "n_meas": n_meas, "raw": raw,
            "ops": used_ops, "ref_value": bits(ref[root])}


# ---- call forms (routes): the same operator applied through containers ------------------------
# An element of an array result is a calculated quantity like any other, so the derivative law is
# judged for formulas some of whose operators were applied to arrays: a quantity operand travels in
# a MeasurementArray ("marr": the existing object wrapped, next to fresh unrelated measurements), in
# a plain Python list of quantity objects ("objlist") or on its own ("scalar", broadcast); a number
# operand travels in a plain list, a non-qexpy ndarray or on its own. Every combination Python can
# dispatch (direct and reflected operator methods, list / ndarray / scalar on either side) is drawn.
# A (value, error) tuple is only ever a scalar operand (a tuple inside a list has no meaning), and
# is not passed to the vectorised math functions next to a container (numpy would read it as an
# array of two numbers).
def gen_route(rng, nodes, idx):
    n = nodes[idx]
    if n[0] not in ("un", "deg", "bin"):
        return None
    opnds = n[2:]
    func = n[0] != "bin" or n[1] == "log"      # applied through q.<function>, not an operator
    forms = []
    for i in opnds:
        t = nodes[i][0]
        if t == "const":
            forms.append(rng.choice(["list", "ndarray", "scalar"]))
        elif t == "pair":
            if func:
                return None
            forms.append("scalar")
        else:
            forms.append(rng.choice(["marr", "marr", "objlist", "scalar"]))
    qpos = [j for j, i in enumerate(opnds) if nodes[i][0] not in ("const", "pair")]
    if func:
        if all(f == "scalar" for f in forms):
            forms[rng.choice(qpos)] = "marr"
    elif "marr" not in forms:
        forms[rng.choice(qpos)] = "marr"       # an operator needs a qexpy array on one side
    if n[1] == "neg":
        forms = ["marr"]       # unary minus is an operator: a plain list has none
    L = rng.randint(1, 3)
    return {"L": L, "k": rng.randrange(L), "forms": forms}


def _container(q, form, obj, L, k):
    import numpy as np
    if form == "scalar":
        return obj
    if form in ("list", "ndarray"):
        xs = [obj] * L
        return xs if form == "list" else np.array(xs)
    # fresh, unrelated measurements with the same reading (inside every domain the operand is in)
    xs = [obj if j == k else q.Measurement(float(obj.value), abs(float(obj.value)) * 0.01 + 0.01)
          for j in range(L)]
    return xs if form == "objlist" else q.MeasurementArray(xs)


def _element(res, k):
    return res[k]


def _referenced(nodes):
    out = set()
    for n in nodes:
        if n[0] in ("un", "deg"):
            out.add(n[2])
        elif n[0] == "cast":
            out.add(n[1])
        elif n[0] == "bin":
            out.add(n[2])
            out.add(n[3])
    return out


def model_nodes(nodes):
    """for the Lean model a pair operand is a variable, and so is a result overridden by hand"""
    return [["var", n[1]] if n[0] == "pair" else ["var", n[4]] if n[0] == "cast" else n
            for n in nodes]


def depends_nonlinear(case, k):
    """does the path from the root to measurement k cross a non-linear operator?"""
    nodes = case["nodes"]

    def walk(i, crossed):
        n = nodes[i]
        if n[0] == "cast":
            return False
        if n[0] in ("var", "pair"):
            return crossed and n[1] == k
        if n[0] == "const":
            return False
        c = crossed or n[1] in NONLINEAR
        return any(walk(j, c) for j in n[2:])
    return walk(case["root"], False)


PYOPS = {
    "add": lambda a, b: a + b, "sub": lambda a, b: a - b, "mul": lambda a, b: a * b,
    "div": lambda a, b: a / b, "pow": lambda a, b: a ** b,
}


LAST_ARRAY = None     # the MeasurementArray the sources of the last build are entries of (or None)


def build_impl(q, case, casts=None):
    """build the formula with the real library. Returns (objects per node, measurement objects);
    `casts` (a list) receives (variable index, object) of every result overridden by hand"""
    vals = [unbits(b) for b in case["vals"]]
    errs = [unbits(b) for b in case["errs"]]
    n_meas = case["n_meas"]
    meas = []
    raw = case.get("raw") or {}
    global LAST_ARRAY
    LAST_ARRAY = None
    if case.get("via_array") and not raw:
        LAST_ARRAY = q.MeasurementArray(vals[:n_meas], error=errs[:n_meas])
        meas = [LAST_ARRAY[i] for i in range(n_meas)]
    for i in range(n_meas if not meas else 0):
        r = raw.get(str(i))
        if r is None:
            meas.append(q.Measurement(vals[i], errs[i]))
        else:
            import numpy as np
            data = [unbits(b) for b in r["data"]]
            args = [np.array(data) if r["ndarray"] else data]
            if r.get("errors"):
                args.append([unbits(b) for b in r["errors"]])
            m = q.Measurement(*args)
            for sel in (r["selector"].split("+") if r["selector"] else []):
                getattr(m, sel)()
            meas.append(m)
    objs = []
    routes = case.get("routes") or {}
    late = set(case.get("late") or [])
    for n in case["nodes"]:
        t = n[0]
        if len(objs) in late:
            objs.append(None)       # made later, in the middle of the history (build_node)
            continue
        rt = routes.get(str(len(objs)))
        if rt is not None and t in ("un", "deg", "bin"):
            args = [_container(q, f, objs[i], rt["L"], rt["k"]) for f, i in zip(rt["forms"], n[2:])]
            op = n[1]
            if t == "bin" and op != "log":
                res = PYOPS[op](*args)
            elif op == "neg":
                res = -args[0]
            elif op == "ln":
                res = q.log(args[0])
            else:
                res = getattr(q, op)(*args)
            objs.append(_element(res, rt["k"]))
            continue
        if t == "var":
            objs.append(meas[n[1]])
        elif t == "const":
            c = unbits(n[1])
            # the same number in the different numeric types a caller may use
            sel = (n[1] // 7 + len(objs)) % 6
            if c.is_integer() and abs(c) < 100 and sel in (0, 1):
                import numpy as np
                objs.append(int(c) if sel == 0 else np.int64(int(c)))
            elif sel == 2:
                import numpy as np
                objs.append(np.float64(c))
            else:
                objs.append(c)
        elif t == "pair":
            objs.append((vals[n[1]], errs[n[1]]))
        elif t == "cast":
            obj, x = objs[n[1]], unbits(n[3])
            if n[2] == "value":
                obj.value = x
            elif n[2] == "error":
                obj.error = x
            else:
                obj.relative_error = x
            objs.append(obj)
            if casts is not None:
                casts.append((n[4], obj))
        elif t == "un":
            op, a = n[1], objs[n[2]]
            if op == "neg":
                objs.append(-a)
            elif op == "ln":
                objs.append(q.log(a))
            else:
                objs.append(getattr(q, op)(a))
        elif t == "deg":
            objs.append(getattr(q, n[1])(objs[n[2]]))
        elif t == "bin":
            op, a, b = n[1], objs[n[2]], objs[n[3]]
            if op == "log":
                objs.append(q.log(a, b))
            else:
                objs.append(PYOPS[op](a, b))
        else:
            raise ValueError(t)
    for i, j, r in case["rho"]:
        q.set_correlation(meas[i], meas[j], unbits(r))
    for i, e in (case.get("revise") or {}).items():
        meas[int(i)].error = unbits(e)
    return objs, meas


def build_node(q, case, objs, idx):
    """apply the operator of node idx to the operand OBJECTS that exist now (a result created in the
    middle of a session)"""
    n = case["nodes"][idx]
    t, op = n[0], n[1]
    if t == "un":
        a = objs[n[2]]
        return -a if op == "neg" else q.log(a) if op == "ln" else getattr(q, op)(a)
    if t == "deg":
        return getattr(q, op)(objs[n[2]])
    if t == "bin":
        a, b = objs[n[2]], objs[n[3]]
        return q.log(a, b) if op == "log" else PYOPS[op](a, b)
    raise ValueError(t)


def ref_eval_all(case, vals):
    """reference values of every node for measurement values `vals` (floats); None when some
    operator application leaves the guarded domain"""
    out = []
    for n in case["nodes"]:
        t = n[0]
        if t in ("var", "pair"):
            v = vals[n[1]]
        elif t == "cast":
            v = vals[n[4]]
        elif t == "const":
            v = unbits(n[1])
        elif t == "un":
            v = ref_un(n[1], out[n[2]])
        elif t == "deg":
            inner = {"sind": "sin", "cosd": "cos", "tand": "tan", "secd": "sec",
                     "cscd": "csc", "cotd": "cot"}[n[1]]
            v = ref_un(inner, out[n[2]] / 180 * math.pi)
        else:
            v = ref_bin(n[1], out[n[2]], out[n[3]], b_is_const=(case["nodes"][n[3]][0] == "const"))
        if v is None or isinstance(v, complex) or math.isnan(v) or math.isinf(v) or abs(v) > VMAX:
            return None
        out.append(float(v))
    return out


def enum_cases(rng, points=3):
    """thorough tier: every operator x operand form at depth <= 2 (exhaustive over the alphabet
    of operators and forms; `points` in-domain sample points each)"""
    out = []
    forms = ["qq", "qq_same", "qn", "nq", "qp", "pq"]
    for op in UN + DEG:
        for outer in [None, "neg", "sin"]:
            got = 0
            for _ in range(200):
                if got >= points:
                    break
                v = rng.choice([1, -1]) * 10 ** rng.uniform(-1.2, 1.2)
                e = abs(v) * 10 ** rng.uniform(-4, -1)
                nodes = [["var", 0]]
                if op in DEG:
                    inner = {"sind": "sin", "cosd": "cos", "tand": "tan", "secd": "sec",
                             "cscd": "csc", "cotd": "cot"}[op]
                    r = ref_un(inner, v / 180 * math.pi)
                    nodes.append(["deg", op, 0])
                else:
                    r = ref_un(op, v)
                    nodes.append(["un", op, 0])
                if r is None:
                    continue
                if outer:
                    r = ref_un(outer, r)
                    if r is None:
                        continue
                    nodes.append(["un", outer, 1])
                out.append({"nodes": nodes, "root": len(nodes) - 1, "vals": [bits(v)],
                            "errs": [bits(e)], "rho": [], "n_meas": 1, "raw": {}, "revise": {},
                            "ops": [op] + ([outer] if outer else []), "ref_value": bits(r)})
                got += 1
    for op in BIN:
        for form in forms:
            got = 0
            for _ in range(400):
                if got >= points:
                    break
                a = rng.choice([1, -1]) * 10 ** rng.uniform(-1, 1)
                b = rng.choice([1, -1]) * 10 ** rng.uniform(-1, 1)
                if op == "pow" and form in ("qn",) and rng.random() < 0.5:
                    b = float(rng.choice([2, 3, -1, -2]))
                ea, eb = abs(a) * 10 ** rng.uniform(-4, -1), abs(b) * 10 ** rng.uniform(-4, -1)
                vals, errs = [a], [ea]
                nodes = [["var", 0]]
                if form == "qq":
                    vals.append(b); errs.append(eb); nodes.append(["var", 1]); x, y = 0, 1
                elif form == "qq_same":
                    b = a; x, y = 0, 0
                elif form in ("qn", "nq"):
                    nodes.append(["const", bits(b)])
                    x, y = (0, 1) if form == "qn" else (1, 0)
                else:
                    vals.append(b); errs.append(eb); nodes.append(["pair", 1])
                    x, y = (0, 1) if form == "qp" else (1, 0)
                xv = a if x == 0 else b
                yv = a if y == 0 else b
                if form == "qq_same":
                    xv = yv = a
                r = ref_bin(op, xv, yv, b_is_const=(nodes[y][0] == "const"))
                if r is None or abs(r) > 1e8:
                    continue
                nodes.append(["bin", op, x, y])
                n_meas = 2 if form == "qq" else 1
                rho = [[0, 1, bits(rng.uniform(-1, 1))]] if form == "qq" and rng.random() < 0.5 else []
                out.append({"nodes": nodes, "root": len(nodes) - 1, "vals": [bits(v) for v in vals],
                            "errs": [bits(e) for e in errs], "rho": rho, "n_meas": n_meas, "raw": {},
                            "revise": {}, "ops": [op], "ref_value": bits(r)})
                got += 1
    return out

#!/bin/sh
# vf/seedtest.sh <dir with patch.diff, demo.py, meta.json> [tier]
# 1. confirms the seeded change in a scratch worktree (demo ok unchanged, 47 tests pass with change, demo fails)
# 2. applies it to /repo, runs the property's check, reverts /repo
d=$(cd "$1" && pwd); tier=${2:-quick}
pid=$(/venv/bin/python -c "import json,sys;print(json.load(open('$d/meta.json'))['property'])")
wt=/tmp/seedtest-$$
git -C /repo worktree add -q --detach $wt HEAD || exit 2
( cd $wt && /venv/bin/python $d/demo.py >/dev/null 2>&1; echo "demo_unchanged_exit=$?"
  git apply $d/patch.diff || echo "PATCH DOES NOT APPLY"
  /venv/bin/python -m pytest -q -p no:cacheprovider 2>&1 | tail -1
  /venv/bin/python $d/demo.py >/dev/null 2>&1; echo "demo_changed_exit=$?" )
git -C /repo worktree remove --force $wt
git -C /repo apply $d/patch.diff || exit 2
cd /verif && ./check $pid --tier $tier | grep -E "VIOLATION|KNOWN|OK|FAIL"
git -C /repo checkout -- .
test -z "$(git -C /repo status --short)" && echo "repo clean"

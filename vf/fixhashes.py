#!/usr/bin/env python3
"""known_findings.json: replace commit hashes from contributor branches by the hash of the
commit with the same subject on /repo's main"""
import json, subprocess, os
ROOT = os.path.dirname(os.path.dirname(os.path.abspath(__file__)))
def log(ref):
    out = subprocess.run(["git", "-C", "/repo", "log", "--format=%h\t%s", ref], capture_output=True, text=True).stdout
    return [l.split("\t", 1) for l in out.splitlines() if "\t" in l]
main = {s: h for h, s in log("main")}
allsub = {}
for br in subprocess.run(["git", "-C", "/repo", "branch", "--format=%(refname:short)"], capture_output=True, text=True).stdout.split():
    for h, s in log(br):
        allsub[h] = s
p = os.path.join(ROOT, "known_findings.json")
d = json.load(open(p))
for f in d["findings"]:
    c = f.get("commit")
    if c:
        key = next((h for h in allsub if h.startswith(c[:7]) or c.startswith(h)), None)
        if key and allsub[key] in main and main[allsub[key]] != c:
            print(c, "->", main[allsub[key]], allsub[key][:60])
            f["commit"] = main[allsub[key]]
json.dump(d, open(p, "w"), indent=1)

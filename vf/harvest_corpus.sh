#!/bin/sh
# vf/harvest_corpus.sh seeded/<name> — apply the seeded change, run the property's check, and keep
# the replay file (concrete failing input) as corpus/<ID>/<name>.json if it replays correctly
d=$(cd "$1" && pwd); name=$(basename $d)
pid=$(/venv/bin/python -c "import json;print(json.load(open('$d/meta.json'))['property'])")
cd /verif
git -C /repo apply $d/patch.diff || exit 2
line=$(./check $pid | grep VIOLATION | head -1)
rp=$(echo "$line" | sed -n 's/.*replay=\([^ ]*\).*/\1/p')
case "$line" in *no-failing-input-found*) rp="";; esac
ok=no
if [ -n "$rp" ] && [ -f "$rp" ]; then
  ./check $pid --replay $rp >/dev/null 2>&1; r1=$?
  git -C /repo checkout -- .
  ./check $pid --replay $rp >/dev/null 2>&1; r0=$?
  if [ $r1 = 1 ] && [ $r0 = 0 ]; then mkdir -p corpus/$pid; cp $rp corpus/$pid/$name.json; ok=yes; fi
  echo "$name $pid replay_under_change=$r1 replay_clean=$r0 kept=$ok"
else
  git -C /repo checkout -- .
  echo "$name $pid no concrete replay ($line)"
fi

/-
  The instance the theorems are about: `Num ℝ` (noncomputable).
  Comparisons use classical decidability.  `Num.pow` is `Real.rpow`
  (`x ^ (y:ℝ)`), `log10 x = log x / log 10`.
-/
import QExPy.Num
import Mathlib.Analysis.SpecialFunctions.Trigonometric.Deriv
import Mathlib.Analysis.SpecialFunctions.Trigonometric.ArctanDeriv
import Mathlib.Analysis.SpecialFunctions.Trigonometric.InverseDeriv
import Mathlib.Analysis.SpecialFunctions.Pow.Deriv
import Mathlib.Analysis.SpecialFunctions.Log.Deriv
import Mathlib.Analysis.SpecialFunctions.Sqrt

namespace QExPy
open Classical in
noncomputable instance instNumReal : Num ℝ where
  add := (· + ·)
  sub := (· - ·)
  mul := (· * ·)
  div := (· / ·)
  pow := fun x y => x ^ y
  neg := fun x => -x
  sqrt := Real.sqrt
  exp := Real.exp
  log := Real.log
  log10 := fun x => Real.log x / Real.log 10
  sin := Real.sin
  cos := Real.cos
  tan := Real.tan
  asin := Real.arcsin
  acos := Real.arccos
  atan := Real.arctan
  abs := fun x => |x|
  ofNat := fun n => (n : ℝ)
  pi := Real.pi
  isZero := fun x => decide (x = 0)
  lt := fun a b => decide (a < b)
  le := fun a b => decide (a ≤ b)

section simp_lemmas
variable (x y : ℝ) (n : ℕ)
@[simp] theorem num_add : Num.add x y = x + y := rfl
@[simp] theorem num_sub : Num.sub x y = x - y := rfl
@[simp] theorem num_mul : Num.mul x y = x * y := rfl
@[simp] theorem num_div : Num.div x y = x / y := rfl
@[simp] theorem num_pow : Num.pow x y = x ^ y := rfl
@[simp] theorem num_neg : Num.neg x = -x := rfl
@[simp] theorem num_sqrt : Num.sqrt x = Real.sqrt x := rfl
@[simp] theorem num_exp : Num.exp x = Real.exp x := rfl
@[simp] theorem num_log : Num.log x = Real.log x := rfl
@[simp] theorem num_log10 : Num.log10 x = Real.log x / Real.log 10 := rfl
@[simp] theorem num_sin : Num.sin x = Real.sin x := rfl
@[simp] theorem num_cos : Num.cos x = Real.cos x := rfl
@[simp] theorem num_tan : Num.tan x = Real.tan x := rfl
@[simp] theorem num_asin : Num.asin x = Real.arcsin x := rfl
@[simp] theorem num_acos : Num.acos x = Real.arccos x := rfl
@[simp] theorem num_atan : Num.atan x = Real.arctan x := rfl
@[simp] theorem num_abs : Num.abs x = |x| := rfl
@[simp] theorem num_ofNat : (Num.ofNat n : ℝ) = (n : ℝ) := rfl
@[simp] theorem num_pi : (Num.pi : ℝ) = Real.pi := rfl
@[simp] theorem num_isZero : Num.isZero x = decide (x = 0) := rfl
@[simp] theorem num_lt : Num.lt x y = decide (x < y) := rfl
@[simp] theorem num_le : Num.le x y = decide (x ≤ y) := rfl
end simp_lemmas

end QExPy

import QExPy.Props.C03
#print axioms QExPy.rule1
#print axioms QExPy.rule2
#print axioms QExPy.rule_pow_const
#print axioms QExPy.C03_diff_correct
#print axioms QExPy.C03_not_mem
#print axioms QExPy.C03_self
#print axioms QExPy.C03_pow_const_base
#print axioms QExPy.C03_log_base
#print axioms QExPy.C03_deg_eval
#print axioms QExPy.C03_deg_arg
#print axioms QExPy.C03_sind
#print axioms QExPy.C03_sind_value

/- `expr` command: value, error and derivatives of a formula under the derivative method (C01, C03). -/
import QExPy.Driver.Json
import QExPy.Model.Expr
namespace QExPy.Drv
open Lean QExPy

/-- nodes reference earlier nodes by index; the DAG is unfolded into a tree -/
def buildExpr (nodes : Array Json) : R (Array (Expr FB)) := do
  let mut out : Array (Expr FB) := #[]
  for n in nodes do
    let a ← getArr n
    let tag ← getStr a[0]!
    let get (i : Nat) : R (Expr FB) := do
      let k ← a[i]!.getNat?
      match out[k]? with
      | some e => pure e
      | none => throw s!"bad node reference {k}"
    let e ← match tag with
      | "var" => do pure (Expr.var (← a[1]!.getNat?))
      | "const" => do pure (Expr.const (FB.exact (← getF a[1]!)))
      | "un" => do
        let o ← getStr a[1]!
        match Op1.ofName? o with
        | some o => pure (Expr.un o (← get 2))
        | none => throw s!"unknown op1 {o}"
      | "bin" => do
        let o ← getStr a[1]!
        match Op2.ofName? o with
        | some o => pure (Expr.bin o (← get 2) (← get 3))
        | none => throw s!"unknown op2 {o}"
      | "deg" => do
        let o ← getStr a[1]!
        match DegOp.ofName? o with
        | some o => pure (Expr.deg o (← get 2))
        | none => throw s!"unknown degop {o}"
      | t => throw s!"unknown node tag {t}"
    out := out.push e
  pure out

def cmdExpr (j : Json) : R Json := do
  let nodes ← getArr (← field j "nodes")
  let root ← (← field j "root").getNat?
  let es ← buildExpr nodes
  let e ← match es[root]? with | some e => pure e | none => throw "bad root"
  let vals ← getFList (← field j "vals")
  let errs ← getFList (← field j "errs")
  let rhoJ ← getArr (fieldD j "rho" (Json.arr #[]))
  let rho ← rhoJ.toList.mapM fun r => do
    let a ← getArr r
    pure ((← a[0]!.getNat?), (← a[1]!.getNat?), (← getF a[2]!))
  let wrt ← getNatList (fieldD j "wrt" (Json.arr #[]))
  let env : Nat → FB := fun i => FB.exact (vals.getD i 0.0)
  let σ : Nat → FB := fun i => FB.exact (errs.getD i 0.0)
  let ρ : Nat → Nat → FB := fun i k =>
    match rho.find? (fun (a, b, _) => (a == i && b == k) || (a == k && b == i)) with
    | some (_, _, r) => FB.exact r
    | none => FB.exact 0.0
  let (v, er) := Expr.propagate env σ ρ e
  let ds := wrt.map fun k => putFB (Expr.diff env k e)
  pure (obj [("value", putFB v), ("error", putFB er), ("derivs", Json.arr ds.toArray),
    ("sources", Json.arr ((Expr.sources e).map (fun (n : Nat) => (n : Json))).toArray)])

def exprCmds : List (String × (Json → R Json)) := [("expr", cmdExpr)]

end QExPy.Drv

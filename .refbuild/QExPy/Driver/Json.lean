/- JSON helpers for the line protocol (core Lean only). Floats cross the boundary as bit patterns. -/
import Lean.Data.Json
import QExPy.Num
import QExPy.FB
namespace QExPy.Drv
open Lean

abbrev R := Except String

def getF (j : Json) : R Float := do
  let n ← j.getNat?
  pure (Float.ofBits n.toUInt64)

def putF (x : Float) : Json := Json.num (JsonNumber.fromNat x.toBits.toNat)

def putFB (x : FB) : Json := Json.arr #[putF x.v, putF x.e]

def getArr (j : Json) : R (Array Json) := j.getArr?

def field (j : Json) (k : String) : R Json := j.getObjVal? k

def fieldD (j : Json) (k : String) (d : Json) : Json :=
  match j.getObjVal? k with | .ok v => v | .error _ => d

def getFList (j : Json) : R (List Float) := do
  let a ← getArr j
  a.toList.mapM getF

def getFBList (j : Json) : R (List FB) := do
  pure ((← getFList j).map FB.exact)

def getNatList (j : Json) : R (List Nat) := do
  let a ← getArr j
  a.toList.mapM (·.getNat?)

def getIntList (j : Json) : R (List Int) := do
  let a ← getArr j
  a.toList.mapM (·.getInt?)

def getStr (j : Json) : R String := j.getStr?

def obj (kvs : List (String × Json)) : Json := Json.mkObj kvs

end QExPy.Drv

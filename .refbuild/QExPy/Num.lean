/-
  QExPy.Num — the numeric interface every numeric model is written against.

  Two instances exist:
  * `Num Float`  (here, core Lean, computable): the executable model run by the
    correspondence check against the real implementation.
  * `Num ℝ`      (QExPy/Real.lean, noncomputable, Mathlib): the instance the
    theorems are about.
  The bodies of `eval`, `diff`, `propagate`, … are the same Lean terms for both.
-/
namespace QExPy

class Num (α : Type) where
  add : α → α → α
  sub : α → α → α
  mul : α → α → α
  div : α → α → α
  pow : α → α → α
  neg : α → α
  sqrt : α → α
  exp : α → α
  log : α → α
  log10 : α → α
  sin : α → α
  cos : α → α
  tan : α → α
  asin : α → α
  acos : α → α
  atan : α → α
  abs : α → α
  ofNat : Nat → α
  pi : α
  /-- `isZero x` is the code's `x == 0` / `x != 0` test -/
  isZero : α → Bool
  lt : α → α → Bool
  le : α → α → Bool

instance : Num Float where
  add := (· + ·)
  sub := (· - ·)
  mul := (· * ·)
  div := (· / ·)
  pow := Float.pow
  neg := fun x => -x
  sqrt := Float.sqrt
  exp := Float.exp
  log := Float.log
  log10 := Float.log10
  sin := Float.sin
  cos := Float.cos
  tan := Float.tan
  asin := Float.asin
  acos := Float.acos
  atan := Float.atan
  abs := Float.abs
  ofNat := Float.ofNat
  pi := 3.141592653589793
  isZero := fun x => x == 0.0
  lt := fun a b => a < b
  le := fun a b => a ≤ b

namespace Num
variable {α : Type} [Num α]

/-- sum of a list, left to right starting from 0 (Python's `sum`) -/
def sum (l : List α) : α := l.foldl Num.add (Num.ofNat 0)

def sq (x : α) : α := Num.mul x x

end Num
end QExPy

/-
  Operator alphabets of qexpy/data/operations.py (keys of OPERATIONS /
  DIFFERENTIATORS).  Hand written; the translator checks that the key sets of
  the two Python tables are exactly these constructors (else: tie broken).
-/
namespace QExPy

inductive Op1 where
  | neg | sqrt | exp | sin | cos | tan | asin | acos | atan | sec | csc | cot | log10 | ln
  deriving DecidableEq, Repr, Inhabited

inductive Op2 where
  | add | sub | mul | div | pow | log
  deriving DecidableEq, Repr, Inhabited

/-- degree variants `sind … cotd`: each is a radian operator applied to a rescaled argument -/
inductive DegOp where
  | sind | cosd | tand | secd | cscd | cotd
  deriving DecidableEq, Repr, Inhabited

def Op1.all : List Op1 :=
  [.neg, .sqrt, .exp, .sin, .cos, .tan, .asin, .acos, .atan, .sec, .csc, .cot, .log10, .ln]
def Op2.all : List Op2 := [.add, .sub, .mul, .div, .pow, .log]
def DegOp.all : List DegOp := [.sind, .cosd, .tand, .secd, .cscd, .cotd]

def Op1.name : Op1 → String
  | .neg => "neg" | .sqrt => "sqrt" | .exp => "exp" | .sin => "sin" | .cos => "cos"
  | .tan => "tan" | .asin => "asin" | .acos => "acos" | .atan => "atan" | .sec => "sec"
  | .csc => "csc" | .cot => "cot" | .log10 => "log10" | .ln => "ln"
def Op2.name : Op2 → String
  | .add => "add" | .sub => "sub" | .mul => "mul" | .div => "div" | .pow => "pow" | .log => "log"
def DegOp.name : DegOp → String
  | .sind => "sind" | .cosd => "cosd" | .tand => "tand" | .secd => "secd" | .cscd => "cscd"
  | .cotd => "cotd"

def Op1.ofName? (s : String) : Option Op1 := Op1.all.find? (·.name == s)
def Op2.ofName? (s : String) : Option Op2 := Op2.all.find? (·.name == s)
def DegOp.ofName? (s : String) : Option DegOp := DegOp.all.find? (·.name == s)

end QExPy

/-
  C03 — derivative() returns the true partial derivative of the composed formula.

  Model: `Expr.diff` interpreting the generated DIFFERENTIATORS table,
  `Expr.eval` interpreting the generated OPERATIONS table (QExPy/Generated/Ops.lean,
  regenerated from /repo on every run).
-/
import QExPy.Lemmas.Rules

namespace QExPy
open Expr

/-- constant-exponent powers: integer-valued exponent and (base ≠ 0 or exponent ≥ 1) -/
def powConstDom (a c : ℝ) : Prop := (∃ n : ℤ, c = n) ∧ (a ≠ 0 ∨ 1 ≤ c)

/-- every operator application inside `e` is inside the operator's domain at `env` -/
def InDom (env : Nat → ℝ) : Expr ℝ → Prop
  | .var _ => True
  | .const _ => True
  | .un o a => InDom env a ∧ dom1 o (eval env a)
  | .bin o a b => InDom env a ∧ InDom env b ∧
      (dom2 o (eval env a) (eval env b) ∨
        (o = .pow ∧ ∃ c, b = .const c ∧ powConstDom (eval env a) c))

/-- **C03 (main).** For every formula tree, every point of the domain and every
    measurement `k`: the number `derivative()` computes is the derivative of the whole
    composed formula with respect to measurement `k` (all occurrences of `k`, chain rule
    through every nested operation). -/
theorem C03_diff_correct (env : Nat → ℝ) (k : Nat) (e : Expr ℝ) (h : InDom env e) :
    HasDerivAt (fun t => eval (Function.update env k t) e) (diff env k e) (env k) := by
  induction e with
  | var i =>
    by_cases hik : i = k
    · subst hik
      simpa [eval, diff] using hasDerivAt_id' (env i)
    · simpa [eval, diff, hik, Function.update_of_ne hik] using hasDerivAt_const (env k) (env i)
  | const c => simpa [eval, diff] using hasDerivAt_const (env k) c
  | un o a iha =>
    obtain ⟨ha, hd⟩ := h
    have hfa := iha ha
    have hd' : dom1 o ((fun t => eval (Function.update env k t) a) (env k)) := by
      simpa using hd
    have := rule1 o hd' hfa
    simpa [eval, diff] using this
  | bin o a b iha ihb =>
    obtain ⟨ha, hb, hd⟩ := h
    have hfa := iha ha
    have hfb := ihb hb
    rcases hd with hd | ⟨ho, c, hc, hpc⟩
    · have hd' : dom2 o ((fun t => eval (Function.update env k t) a) (env k))
          ((fun t => eval (Function.update env k t) b) (env k)) := by simpa using hd
      have := rule2 o hd' hfa hfb
      simpa [eval, diff] using this
    · subst ho; subst hc
      have hd' : (fun t => eval (Function.update env k t) a) (env k) ≠ 0 ∨ 1 ≤ c := by
        simpa using hpc.2
      have := rule_pow_const c hd' hfa
      simpa [eval, diff] using this

/-- the rules vanish when all operand derivatives vanish -/
theorem d1_zero (o : Op1) (v : ℝ) : Gen.d1 o v 0 = 0 := by
  cases o <;> simp [Gen.d1]

theorem d2_zero (o : Op2) (v w : ℝ) : Gen.d2 o v 0 w 0 = 0 := by
  cases o <;> simp [Gen.d2]

/-- **C03.** `derivative(m)` is 0 when the formula does not depend on `m`. -/
theorem C03_not_mem (env : Nat → ℝ) (k : Nat) (e : Expr ℝ) (h : k ∉ sources e) :
    diff env k e = 0 := by
  induction e with
  | var i =>
    have : i ≠ k := by
      intro hik; apply h; simp [sources, hik]
    simp [diff, this]
  | const c => simp [diff]
  | un o a iha =>
    have : k ∉ sources a := by simpa [sources] using h
    simp [diff, iha this, d1_zero]
  | bin o a b iha ihb =>
    have hk : k ∉ sources a ++ sources b := by
      intro hm; apply h; simp only [sources]; exact List.mem_eraseDups.mpr hm
    have ha : k ∉ sources a := fun hm => hk (List.mem_append_left _ hm)
    have hb : k ∉ sources b := fun hm => hk (List.mem_append_right _ hm)
    simp [diff, iha ha, ihb hb, d2_zero]

/-- **C03.** The derivative of a measurement with respect to itself is 1. -/
theorem C03_self (env : Nat → ℝ) (k : Nat) : diff env k (Expr.var k : Expr ℝ) = 1 := by
  simp [diff]

/-- **C03.** Both operand positions of `**`: number base with variable exponent. -/
theorem C03_pow_const_base (env : Nat → ℝ) (k : Nat) (c : ℝ) (hc : 0 < c) :
    HasDerivAt (fun t => c ^ t) (diff env k (.bin .pow (.const c) (.var k))) (env k) := by
  have h : InDom env (.bin .pow (.const c) (.var k) : Expr ℝ) := by
    refine ⟨trivial, trivial, Or.inl ?_⟩
    simpa [dom2, eval] using hc
  have := C03_diff_correct env k _ h
  simpa [eval, Gen.op2] using this

/-- **C03.** Two-argument logarithm, variable *base*: d/db log_b(x) at constant x. -/
theorem C03_log_base (env : Nat → ℝ) (k : Nat) (c : ℝ) (hc : 0 < c)
    (hb : 0 < env k) (hb1 : env k ≠ 1) :
    HasDerivAt (fun t => Real.log c / Real.log t)
      (diff env k (.bin .log (.var k) (.const c))) (env k) := by
  have h : InDom env (.bin .log (.var k) (.const c) : Expr ℝ) := by
    refine ⟨trivial, trivial, Or.inl ?_⟩
    simp [dom2, eval, hc, hb, hb1]
  have := C03_diff_correct env k _ h
  simpa [eval, Gen.op2] using this

/-- degree variants unfold to the radian operator at `x/180·π` -/
theorem C03_deg_eval (env : Nat → ℝ) (o : DegOp) (a : Expr ℝ) :
    eval env (Expr.deg o a) = Gen.op1 (degOuter o) (eval env a / 180 * Real.pi) := by
  cases o <;> simp [Expr.deg, eval, Gen.op2, degOuter]

/-- the unfolding the model uses for degree variants is the *generated* argument rule -/
theorem C03_deg_arg (o : DegOp) (x : ℝ) : Gen.degArg o x = x / 180 * Real.pi := by
  cases o <;> simp [Gen.degArg]

/-- **C03 (degree variants).** `sind(x)` differentiates as sin(x·π/180): its derivative with
    respect to the measurement is cos(x/180·π)·(π/180). -/
theorem C03_sind (env : Nat → ℝ) (k : Nat) :
    HasDerivAt (fun t => Real.sin (t / 180 * Real.pi))
      (diff env k (Expr.deg .sind (.var k))) (env k) := by
  have h : InDom env (Expr.deg .sind (.var k) : Expr ℝ) := by
    simp [Expr.deg, InDom, dom1, dom2, degOuter, eval]
  have := C03_diff_correct env k _ h
  simpa [Expr.deg, eval, Gen.op1, Gen.op2, degOuter] using this

theorem C03_sind_value (env : Nat → ℝ) (k : Nat) :
    diff env k (Expr.deg .sind (.var k) : Expr ℝ)
      = Real.cos (env k / 180 * Real.pi) * (Real.pi / 180) := by
  simp [Expr.deg, diff, eval, Gen.d1, Gen.d2, Gen.op2, degOuter]
  left; ring

/-- non-vacuity: the docstring formula sqrt(c)*d − b/exp(a) at (a,b,c,d) = (5,4,6.3,7.2)
    satisfies the hypotheses of `C03_diff_correct`. -/
example : InDom (fun i => [5, 4, 6.3, 7.2].getD i 0)
    (.bin .sub (.bin .mul (.un .sqrt (.var 2)) (.var 3))
               (.bin .div (.var 1) (.un .exp (.var 0))) : Expr ℝ) := by
  refine ⟨⟨⟨trivial, ?_⟩, trivial, Or.inl trivial⟩, ⟨trivial, ⟨trivial, trivial⟩, Or.inl ?_⟩,
    Or.inl trivial⟩
  · simp [dom1, eval]; norm_num
  · simp [dom2, eval, Gen.op1]

end QExPy

/-
  Per-operator rule lemmas: the *generated* derivative rule `Gen.d1 o` / `Gen.d2 o`
  is the derivative of the *generated* operation `Gen.op1 o` / `Gen.op2 o`
  on the operator's domain.  A changed entry of OPERATIONS or DIFFERENTIATORS
  changes the generated term and the corresponding lemma no longer closes.
-/
import QExPy.Real
import QExPy.Model.Expr

namespace QExPy
open Real

/-- domain of a one-operand operator at the operand value `x` -/
def dom1 : Op1 → ℝ → Prop
  | .neg, _ => True
  | .sqrt, x => 0 < x
  | .exp, _ => True
  | .sin, _ => True
  | .cos, _ => True
  | .tan, x => cos x ≠ 0
  | .asin, x => -1 < x ∧ x < 1
  | .acos, x => -1 < x ∧ x < 1
  | .atan, _ => True
  | .sec, x => cos x ≠ 0
  | .csc, x => sin x ≠ 0 ∧ cos x ≠ 0
  | .cot, x => sin x ≠ 0 ∧ cos x ≠ 0
  | .log10, x => 0 < x
  | .ln, x => 0 < x

variable {f g : ℝ → ℝ} {f' g' x : ℝ}

theorem rule1 (o : Op1) (hd : dom1 o (f x)) (hf : HasDerivAt f f' x) :
    HasDerivAt (fun t => Gen.op1 o (f t)) (Gen.d1 o (f x) f') x := by
  cases o <;> simp only [Gen.op1, Gen.d1, dom1, num_add, num_sub, num_mul, num_div, num_pow,
    num_neg, num_sqrt, num_exp, num_log, num_log10, num_sin, num_cos, num_tan, num_asin,
    num_acos, num_atan, num_ofNat, Nat.cast_ofNat, Nat.cast_one] at hd ⊢
  case neg => exact hf.fun_neg
  case sqrt =>
    have := hf.sqrt (ne_of_gt hd)
    refine this.congr_deriv ?_
    field_simp
  case exp => exact (hf.exp).congr_deriv (by ring)
  case sin => exact (hf.sin).congr_deriv (by ring)
  case cos => exact (hf.cos).congr_deriv (by ring)
  case tan =>
    have := (Real.hasDerivAt_tan hd).comp x hf
    refine this.congr_deriv ?_
    rw [← Real.rpow_natCast]; norm_num
  case asin =>
    have := (Real.hasDerivAt_arcsin (ne_of_gt hd.1) (ne_of_lt hd.2)).comp x hf
    refine this.congr_deriv ?_
    rw [← Real.rpow_natCast]; norm_num
  case acos =>
    have := (Real.hasDerivAt_arccos (ne_of_gt hd.1) (ne_of_lt hd.2)).comp x hf
    refine this.congr_deriv ?_
    rw [← Real.rpow_natCast]; norm_num; ring
  case atan =>
    have := hf.arctan
    refine this.congr_deriv ?_
    rw [← Real.rpow_natCast]; norm_num
  case sec =>
    -- canonical form of the operation: (cos y)⁻¹ (covers 1 / cos y and cos y ** -1)
    simp only [one_div, Real.rpow_neg_one, neg_neg] at *
    have := (hf.cos).inv hd
    refine this.congr_deriv ?_
    rw [Real.tan_eq_sin_div_cos]; field_simp
  case csc =>
    simp only [one_div, Real.rpow_neg_one] at *
    have := (hf.sin).inv hd.1
    refine this.congr_deriv ?_
    rw [Real.tan_eq_sin_div_cos]
    have := hd.1; have := hd.2
    field_simp
  case cot =>
    simp only [one_div, Real.rpow_neg_one] at *
    have ht : Real.tan (f x) ≠ 0 := by
      rw [Real.tan_eq_sin_div_cos]; exact div_ne_zero hd.1 hd.2
    have := ((Real.hasDerivAt_tan hd.2).comp x hf).inv ht
    refine this.congr_deriv ?_
    simp only [Function.comp_apply]
    rw [← Real.rpow_natCast, Real.tan_eq_sin_div_cos]
    have := hd.1; have := hd.2
    norm_num
    field_simp
  case log10 =>
    have := (hf.log (ne_of_gt hd)).div_const (Real.log 10)
    refine this.congr_deriv ?_
    have h10 : Real.log 10 ≠ 0 := by
      have : (0:ℝ) < Real.log 10 := Real.log_pos (by norm_num)
      exact ne_of_gt this
    have := ne_of_gt hd
    field_simp
  case ln =>
    exact (hf.log (ne_of_gt hd)).congr_deriv (by ring)

end QExPy

namespace QExPy
open Real

variable {f g : ℝ → ℝ} {f' g' x : ℝ}

/-- domain of a two-operand operator at operand values `a`, `b` (general, both operands vary) -/
def dom2 : Op2 → ℝ → ℝ → Prop
  | .add, _, _ => True
  | .sub, _, _ => True
  | .mul, _, _ => True
  | .div, _, b => b ≠ 0
  | .pow, a, _ => 0 < a
  | .log, a, b => 0 < a ∧ a ≠ 1 ∧ 0 < b

theorem rule2 (o : Op2) (hd : dom2 o (f x) (g x)) (hf : HasDerivAt f f' x)
    (hg : HasDerivAt g g' x) :
    HasDerivAt (fun t => Gen.op2 o (f t) (g t)) (Gen.d2 o (f x) f' (g x) g') x := by
  cases o <;> simp only [Gen.op2, Gen.d2, dom2, num_add, num_sub, num_mul, num_div, num_pow,
    num_log, num_ofNat, num_isZero, Nat.cast_ofNat, Nat.cast_one, Nat.cast_zero] at hd ⊢
  case add => exact hf.fun_add hg
  case sub => exact hf.fun_sub hg
  case mul => exact (hf.fun_mul hg).congr_deriv (by ring)
  case div =>
    refine (hf.fun_div hg hd).congr_deriv ?_
    rw [← Real.rpow_natCast]; norm_num; ring
  case pow =>
    have := hf.rpow hg hd
    refine this.congr_deriv ?_
    rw [Real.rpow_sub_one (ne_of_gt hd)]
    by_cases h0 : g' = 0
    · simp [h0]; field_simp
    · simp [h0]; field_simp
  case log =>
    have hlb : Real.log (f x) ≠ 0 := by
      intro h
      rcases Real.log_eq_zero.mp h with h | h | h
      · linarith [hd.1]
      · exact hd.2.1 h
      · linarith [hd.1]
    have := (hg.log (ne_of_gt hd.2.2)).fun_div (hf.log (ne_of_gt hd.1)) hlb
    refine this.congr_deriv ?_
    rw [← Real.rpow_natCast]
    have := ne_of_gt hd.1; have := ne_of_gt hd.2.2
    norm_num
    field_simp

/-- power with a *constant* exponent `c`: valid also for non-positive bases
    (`x ≠ 0` or `1 ≤ c`), which is the case the code's `if a.derivative(o) != 0 else 0`
    guard exists for. -/
theorem rule_pow_const (c : ℝ) (hd : f x ≠ 0 ∨ 1 ≤ c) (hf : HasDerivAt f f' x) :
    HasDerivAt (fun t => Gen.op2 .pow (f t) c) (Gen.d2 .pow (f x) f' c 0) x := by
  simp only [Gen.op2, Gen.d2, num_add, num_sub, num_mul, num_pow, num_ofNat, num_isZero,
    Nat.cast_one, Nat.cast_zero, decide_true, if_true]
  have := hf.rpow_const (p := c) hd
  refine this.congr_deriv ?_
  ring

end QExPy

/- Line-protocol driver: one JSON object per line in, one per line out. No Mathlib. -/
import QExPy.Driver.All
open Lean QExPy.Drv

def handle (line : String) : String :=
  match Json.parse line with
  | .error e => (obj [("fail", Json.str s!"parse: {e}")]).compress
  | .ok j =>
    let r : R Json := do
      let cmd ← getStr (← field j "cmd")
      match allCmds.lookup cmd with
      | some f => f j
      | none => throw s!"unknown cmd {cmd}"
    match r with
    | .ok v => v.compress
    | .error e => (obj [("fail", Json.str e)]).compress

partial def loop (hin hout : IO.FS.Stream) : IO Unit := do
  let line ← hin.getLine
  if line.isEmpty then return ()
  let t := line.trimAscii.toString
  if !t.isEmpty then
    hout.putStrLn (handle t)
  loop hin hout

def main : IO Unit := do
  let hin ← IO.getStdin
  let hout ← IO.getStdout
  loop hin hout
  hout.flush

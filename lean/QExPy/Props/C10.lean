/-
  C10 — statistics of an array of readings: mean, sample standard deviation, error on the
  mean, error-weighted mean, propagated error, sample covariance / correlation, and the
  `use_*` selector state machine of a repeatedly measured value.

  Model: `QExPy/Model/Stats.lean`, instantiated at `ℝ` (`instNumReal`).
  Helper lemmas: `QExPy/Lemmas/Stats.lean`.

  Conventions: `x / 0 = 0` in `ℝ` (Mathlib), so several statements hold without a
  non-degeneracy hypothesis; where that is the case the docstring says what happens in the
  degenerate case.  `xs.length - 1` in the model is natural-number subtraction; the theorems
  state the textbook forms with the real `(n:ℝ) - 1`.
-/
import QExPy.Lemmas.Stats
import QExPy.Model.Downstream

namespace QExPy
open Stats

/-! ### 1. definitions in textbook form -/

/-- **C10.** The mean is Σx / n. -/
theorem C10_mean_def (xs : List ℝ) : mean xs = xs.sum / (xs.length : ℝ) := mean_eq xs

/-- **C10.** The sample variance (`ddof = 1`) is Σ(x − x̄)² / (n − 1), with x̄ = Σx / n
    (for `n = 0` both sides are `0`; for `n = 1` both sides are `0 / 0 = 0`). -/
theorem C10_var_def (xs : List ℝ) :
    var1 xs = (xs.map fun x => (x - xs.sum / (xs.length : ℝ)) ^ 2).sum
        / ((xs.length : ℝ) - 1) := by
  cases xs with
  | nil => simp [var1_eq, ssq_eq]
  | cons x xs =>
    rw [var1_eq' _ (by simp), ssq_eq, mean_eq]

/-- **C10.** The sample standard deviation is sqrt(Σ(x − x̄)² / (n − 1)). -/
theorem C10_std_def (xs : List ℝ) :
    std1 xs = Real.sqrt ((xs.map fun x => (x - xs.sum / (xs.length : ℝ)) ^ 2).sum
        / ((xs.length : ℝ) - 1)) := by
  rw [std1_eq, C10_var_def]

/-- **C10.** The error on the mean is std / √n, i.e.
    sqrt(Σ(x − x̄)² / (n − 1)) / √n. -/
theorem C10_sem_def (xs : List ℝ) :
    sem xs = std1 xs / Real.sqrt (xs.length : ℝ)
    ∧ sem xs = Real.sqrt ((xs.map fun x => (x - xs.sum / (xs.length : ℝ)) ^ 2).sum
        / ((xs.length : ℝ) - 1)) / Real.sqrt (xs.length : ℝ) := by
  refine ⟨sem_eq xs, ?_⟩
  rw [sem_eq, C10_std_def]

/-- **C10.** `meanPair` (what `ExperimentalValueArray.mean` returns) is (mean, std/√n). -/
theorem C10_meanPair (xs : List ℝ) :
    meanPair xs = (xs.sum / (xs.length : ℝ), std1 xs / Real.sqrt (xs.length : ℝ)) := by
  rw [← mean_eq, ← sem_eq]; rfl

/-! ### 2.–4. deviations and variance -/

/-- **C10.** The deviations from the mean sum to zero. -/
theorem C10_sum_dev_zero (xs : List ℝ) (h : xs ≠ []) : (devs xs).sum = 0 := sum_devs xs h

/-- **C10.** The sample variance is never negative (so `std1` is its genuine square root). -/
theorem C10_var_nonneg (xs : List ℝ) : 0 ≤ var1 xs := var1_nonneg xs

/-- **C10.** `std1 ^ 2 = var1`. -/
theorem C10_std_sq (xs : List ℝ) : std1 xs ^ 2 = var1 xs := by
  rw [std1_eq, Real.sq_sqrt (var1_nonneg xs)]

/-- **C10.** Computational form of the variance: (Σx² − n·x̄²) / (n − 1).
    Needs no hypothesis: for `n ≤ 1` both numerators are `0`. The meaningful range is
    `2 ≤ xs.length`. -/
theorem C10_var_alt (xs : List ℝ) :
    var1 xs = ((xs.map fun x => x ^ 2).sum - (xs.length : ℝ) * mean xs ^ 2)
        / ((xs.length : ℝ) - 1) := by
  cases xs with
  | nil => simp [var1_eq, ssq_eq]
  | cons x xs =>
    rw [var1_eq' _ (by simp), ssq_alt _ (by simp)]

/-- **C10.** A non-zero sample variance needs at least two readings. -/
theorem C10_var_ne_zero_length (xs : List ℝ) (h : var1 xs ≠ 0) : 2 ≤ xs.length := by
  by_contra hlt
  apply h
  have : xs.length - 1 = 0 := by omega
  rw [var1_eq, this]; simp

/-- **C10.** Shifting every reading by `c` does not change the sample variance. -/
theorem C10_var_shift (xs : List ℝ) (c : ℝ) : var1 (xs.map fun x => x + c) = var1 xs := by
  cases xs with
  | nil => rfl
  | cons x xs =>
    have := var1_affine (x :: xs) (by simp) 1 c
    simpa using this

/-- **C10.** Scaling every reading by `k` scales the sample variance by `k²`. -/
theorem C10_var_scale (xs : List ℝ) (k : ℝ) :
    var1 (xs.map fun x => k * x) = k ^ 2 * var1 xs := by
  cases xs with
  | nil => simp [var1_eq, ssq_eq]
  | cons x xs =>
    have := var1_affine (x :: xs) (by simp) k 0
    simpa using this

/-- **C10.** Standard deviation under an affine map: `std(k·x + c) = |k|·std(x)`. -/
theorem C10_std_affine (xs : List ℝ) (h : xs ≠ []) (k c : ℝ) :
    std1 (xs.map fun x => k * x + c) = |k| * std1 xs := std1_affine xs h k c

/-- **C10.** The mean under an affine map: `mean(k·x + c) = k·mean(x) + c`. -/
theorem C10_mean_affine (xs : List ℝ) (h : xs ≠ []) (k c : ℝ) :
    mean (xs.map fun x => k * x + c) = k * mean xs + c := mean_affine xs h k c

/-! ### 5.–7. covariance, correlation, the clip -/

/-- **C10.** The sample covariance of an array with itself is its sample variance. -/
theorem C10_cov_self (xs : List ℝ) : cov1 xs xs = var1 xs := cov1_self xs

/-- **C10.** Cauchy–Schwarz: cov(x,y)² ≤ var(x)·var(y). -/
theorem C10_cauchy_schwarz (xs ys : List ℝ) (h : xs.length = ys.length) :
    cov1 xs ys ^ 2 ≤ var1 xs * var1 ys := cov1_sq_le xs ys h

/-- **C10.** |cov(x,y)| ≤ std(x)·std(y). -/
theorem C10_cov_bounded (xs ys : List ℝ) (h : xs.length = ys.length) :
    -(std1 xs * std1 ys) ≤ cov1 xs ys ∧ cov1 xs ys ≤ std1 xs * std1 ys :=
  abs_le.mp (abs_cov1_le xs ys h)

/-- **C10.** The correlation coefficient lies in [−1, 1].  (Holds also when a standard
    deviation is zero: then the model's quotient is `x / 0 = 0`; the intended range of use
    is `0 < var1 xs`, `0 < var1 ys`.) -/
theorem C10_corr_bounded (xs ys : List ℝ) (h : xs.length = ys.length) :
    |corr xs ys| ≤ 1 := by
  rw [corr_eq, abs_div]
  have hb : 0 ≤ std1 xs * std1 ys := mul_nonneg (std1_nonneg xs) (std1_nonneg ys)
  rw [abs_of_nonneg hb]
  exact div_le_one_of_le₀ (abs_cov1_le xs ys h) hb

/-- **C10.** Exactly collinear data has correlation exactly ±1 (the sign of the slope), for
    every length (including 2).  `var1 xs ≠ 0` forces `2 ≤ xs.length`
    (`C10_var_ne_zero_length`). -/
theorem C10_collinear (xs : List ℝ) (hv : var1 xs ≠ 0) (k c : ℝ) (hk : k ≠ 0) :
    corr xs (xs.map fun x => k * x + c) = if 0 < k then 1 else -1 := by
  have hne : xs ≠ [] := by
    rintro rfl
    exact hv (by simp [var1_eq, ssq_eq])
  have hs : std1 xs * std1 xs = var1 xs := Real.mul_self_sqrt (var1_nonneg xs)
  rw [corr_eq, cov1_affine xs hne, std1_affine xs hne]
  have : std1 xs * (|k| * std1 xs) = |k| * var1 xs := by rw [← hs]; ring
  rw [this]
  have hak : |k| ≠ 0 := abs_ne_zero.mpr hk
  split
  · rename_i hpos
    rw [abs_of_pos hpos]; field_simp
  · rename_i hneg
    have hlt : k < 0 := lt_of_le_of_ne (not_lt.mp hneg) hk
    rw [abs_of_neg hlt]; field_simp

/-- **C10.** Version of `C10_collinear` with the hypotheses as in the statement
    (`2 ≤ n`, positive variance). -/
theorem C10_collinear' (xs : List ℝ) (_hn : 2 ≤ xs.length) (hv : 0 < var1 xs) (k c : ℝ)
    (hk : k ≠ 0) :
    corr xs (xs.map fun x => k * x + c) = if 0 < k then 1 else -1 :=
  C10_collinear xs hv.ne' k c hk

/-- **C10 (also used by C04).** On exact values the clips around an inferred covariance /
    correlation are the identity: the exact covariance already lies in
    [−std·std, std·std] and the exact correlation in [−1, 1], so the `clip` in the code only
    removes rounding error. -/
theorem C10_inferred_accepted (xs ys : List ℝ) (h : xs.length = ys.length) :
    (-(std1 xs * std1 ys) ≤ cov1 xs ys ∧ cov1 xs ys ≤ std1 xs * std1 ys)
    ∧ clip (cov1 xs ys) (-(std1 xs * std1 ys)) (std1 xs * std1 ys) = cov1 xs ys
    ∧ clip (cov1 xs ys / (std1 xs * std1 ys)) (-1) 1 = cov1 xs ys / (std1 xs * std1 ys) := by
  have hb := C10_cov_bounded xs ys h
  refine ⟨hb, clip_of_mem _ _ _ hb.1 hb.2, ?_⟩
  have := abs_le.mp (C10_corr_bounded xs ys h)
  rw [corr_eq] at this
  exact clip_of_mem _ _ _ this.1 this.2

/-! ### 8. weighted mean and propagated error -/

/-- **C10.** χ²(m) = Σ((xᵢ − m)/eᵢ)² is a parabola with vertex at the weighted mean:
    χ²(m) = χ²(wmean) + (wmean − m)²·Σ 1/eᵢ². -/
theorem C10_wmean_decomp (xs es : List ℝ) (hlen : es.length = xs.length) (hne : xs ≠ [])
    (he : ∀ e ∈ es, e ≠ 0) (m : ℝ) :
    (List.zipWith (fun x e => ((x - m) / e) ^ 2) xs es).sum
      = (List.zipWith (fun x e => ((x - wmean xs es) / e) ^ 2) xs es).sum
        + (wmean xs es - m) ^ 2 * (es.map fun e => 1 / e ^ 2).sum := by
  have hes : es ≠ [] := by
    intro h0; apply hne; apply List.length_eq_zero_iff.mp; rw [← hlen, h0]; rfl
  exact chi2_wmean xs es hlen (sum_weights_pos es hes he).ne' m

/-- **C10.** The error-weighted mean minimises Σ((xᵢ − m)/eᵢ)² over all `m`
    (all individual uncertainties non-zero). -/
theorem C10_wmean_optimal_ne (xs es : List ℝ) (hlen : es.length = xs.length) (hne : xs ≠ [])
    (he : ∀ e ∈ es, e ≠ 0) (m : ℝ) :
    (List.zipWith (fun x e => ((x - wmean xs es) / e) ^ 2) xs es).sum
      ≤ (List.zipWith (fun x e => ((x - m) / e) ^ 2) xs es).sum := by
  rw [C10_wmean_decomp xs es hlen hne he m]
  have := mul_nonneg (sq_nonneg (wmean xs es - m)) (sum_weights_nonneg es)
  linarith

/-- **C10.** The error-weighted mean minimises Σ((xᵢ − m)/eᵢ)² over all `m`
    (all individual uncertainties positive). -/
theorem C10_wmean_optimal (xs es : List ℝ) (hlen : es.length = xs.length) (hne : xs ≠ [])
    (he : ∀ e ∈ es, 0 < e) (m : ℝ) :
    (List.zipWith (fun x e => ((x - wmean xs es) / e) ^ 2) xs es).sum
      ≤ (List.zipWith (fun x e => ((x - m) / e) ^ 2) xs es).sum :=
  C10_wmean_optimal_ne xs es hlen hne (fun e h => (he e h).ne') m

/-- **C10.** The minimiser is unique: equality only at the weighted mean. -/
theorem C10_wmean_unique (xs es : List ℝ) (hlen : es.length = xs.length) (hne : xs ≠ [])
    (he : ∀ e ∈ es, e ≠ 0) (m : ℝ)
    (hm : (List.zipWith (fun x e => ((x - m) / e) ^ 2) xs es).sum
      ≤ (List.zipWith (fun x e => ((x - wmean xs es) / e) ^ 2) xs es).sum) :
    m = wmean xs es := by
  have hes : es ≠ [] := by
    intro h0; apply hne; apply List.length_eq_zero_iff.mp; rw [← hlen, h0]; rfl
  have hW := sum_weights_pos es hes he
  rw [C10_wmean_decomp xs es hlen hne he m] at hm
  have h0 : (wmean xs es - m) ^ 2 * (es.map fun e => 1 / e ^ 2).sum ≤ 0 := by linarith
  have h1 : (wmean xs es - m) ^ 2 ≤ 0 := by
    by_contra hc
    have := mul_pos (not_le.mp hc) hW
    linarith
  have h2 : wmean xs es - m = 0 := by
    have := le_antisymm h1 (sq_nonneg _)
    exact pow_eq_zero_iff two_ne_zero |>.mp this
  linarith

/-- **C10.** The propagated error is the standard deviation of the weighted mean:
    perr² = 1 / Σ(1/eᵢ²) (no hypothesis), and, when all eᵢ ≠ 0, this equals
    Σ (wᵢ/Σw)²·eᵢ² with wᵢ = 1/eᵢ² — first-order propagation of independent eᵢ through
    the weighted mean Σ wᵢxᵢ / Σw. -/
theorem C10_perr_is_var (es : List ℝ) :
    perr es ^ 2 = 1 / (es.map fun e => 1 / e ^ 2).sum
    ∧ ((∀ e ∈ es, e ≠ 0) →
        perr es ^ 2
          = (es.map fun e => (1 / e ^ 2 / (es.map fun e => 1 / e ^ 2).sum) ^ 2 * e ^ 2).sum) := by
  refine ⟨perr_sq es, fun h => ?_⟩
  rw [perr_sq, perr_sq_propagated es h]

/-- **C10.** The weights the code uses are `1 / e²`, and the weighted mean is
    Σ wᵢxᵢ / Σ wᵢ. -/
theorem C10_wmean_def (xs es : List ℝ) :
    wmean xs es = (List.zipWith (fun e x => 1 / e ^ 2 * x) es xs).sum
        / (es.map fun e => 1 / e ^ 2).sum := wmean_eq xs es

/-! ### 9. the selector state machine -/

/-- selectors that choose the uncertainty (`use_std`, `use_sem`, `use_perr`) -/
def Stats.Sel.isErrSel : Sel → Bool
  | .useStd | .useSem | .usePerr => true
  | .useWmean => false

/-- specification: the last uncertainty selector in a history, if any -/
def lastErrSel (ss : List Sel) : Option Sel := (ss.filter Sel.isErrSel).getLast?

/-- specification: whether a value selector (`use_wmean`) occurred in a history -/
def lastValSel (ss : List Sel) : Bool := ss.contains Sel.useWmean

/-- **C10.** `lastValSel` is membership of `useWmean`. -/
theorem C10_lastValSel_iff (ss : List Sel) : lastValSel ss = true ↔ Sel.useWmean ∈ ss := by
  simp [lastValSel]

/-- **C10.** Recursion for `lastErrSel` at the end of a history. -/
theorem C10_lastErrSel_snoc (ss : List Sel) (s : Sel) :
    lastErrSel (ss ++ [s]) = if s.isErrSel then some s else lastErrSel ss := by
  unfold lastErrSel
  rw [List.filter_append]
  cases h : s.isErrSel <;> simp [h]

/-- **C10.** `lastErrSel` never returns the value selector. -/
theorem C10_lastErrSel_isErr (ss : List Sel) (s : Sel) (h : lastErrSel ss = some s) :
    s.isErrSel = true := by
  unfold lastErrSel at h
  have := List.mem_of_getLast? h
  exact (List.mem_filter.mp this).2

/-- **C10.** No selector history changes the stored readings or their uncertainties. -/
theorem C10_selectors_data (r : Rep ℝ) (ss : List Sel) :
    (r.run ss).xs = r.xs ∧ (r.run ss).es = r.es := ⟨run_xs r ss, run_es r ss⟩

/-- **C10.** Selector histories from an arbitrary state, all individual uncertainties
    non-zero: the value is the weighted mean iff `use_wmean` occurred, the uncertainty is
    decided by the last uncertainty selector. -/
theorem C10_selectors_from (r : Rep ℝ) (hz : hasZero r.es = false) (ss : List Sel) :
    (r.run ss).value = (if Sel.useWmean ∈ ss then wmean r.xs r.es else r.value)
    ∧ (r.run ss).error = (match lastErrSel ss with
        | some .useStd => std1 r.xs
        | some .useSem => sem r.xs
        | some .usePerr => perr r.es
        | _ => r.error) := by
  induction ss using List.reverseRecOn with
  | nil => simp [run_nil, lastErrSel]
  | append_singleton ss s ih =>
    obtain ⟨ihv, ihe⟩ := ih
    have hxs := run_xs r ss
    have hes := run_es r ss
    rw [run_snoc, C10_lastErrSel_snoc]
    cases s
    · -- useStd
      simp only [step_useStd, Sel.isErrSel, if_true, List.mem_append, List.mem_singleton,
        reduceCtorEq, or_false, ihv, hxs]
      trivial
    · -- useSem
      simp only [step_useSem, Sel.isErrSel, if_true, List.mem_append, List.mem_singleton,
        reduceCtorEq, or_false, ihv, hxs]
      trivial
    · -- useWmean
      have hstep : (r.run ss).step Sel.useWmean
          = { r.run ss with value := wmean r.xs r.es } := by
        simp [step_useWmean, hz, hxs, hes]
      rw [hstep]
      simp [Sel.isErrSel, ihe]
    · -- usePerr
      have hstep : (r.run ss).step Sel.usePerr
          = { r.run ss with error := perr r.es } := by
        simp [step_usePerr, hz, hes]
      rw [hstep]
      simp [Sel.isErrSel, ihv]

/-- **C10 (selectors).** After construction and any history `ss` of selector calls, when all
    individual uncertainties are non-zero: the value is the error-weighted mean if
    `use_error_weighted_mean_as_value` was ever called and the mean otherwise; the uncertainty
    is the one chosen by the last of `use_std_as_error` / `use_error_on_mean_as_error` /
    `use_propagated_error_for_error_weighted_mean_as_error` (error on the mean when none was
    called). -/
theorem C10_selectors (xs es : List ℝ) (hz : hasZero es = false) (ss : List Sel) :
    ((Rep.init xs es).run ss).value = (if Sel.useWmean ∈ ss then wmean xs es else mean xs)
    ∧ ((Rep.init xs es).run ss).error = (match lastErrSel ss with
        | none | some .useSem => sem xs
        | some .useStd => std1 xs
        | some .usePerr => perr es
        | some .useWmean => sem xs) := by
  have h := C10_selectors_from (Rep.init xs es) (by rw [init_eq]; exact hz) ss
  rw [init_eq] at h ⊢
  refine ⟨h.1, ?_⟩
  rw [h.2]
  cases hl : lastErrSel ss with
  | none => rfl
  | some s => cases s <;> rfl

/-- **C10.** `hasZero` at `ℝ` says some individual uncertainty is zero. -/
theorem C10_hasZero_iff (es : List ℝ) :
    (hasZero es = true ↔ ∃ e ∈ es, e = 0) ∧ (hasZero es = false ↔ ∀ e ∈ es, e ≠ 0) :=
  ⟨hasZero_eq_true_iff es, hasZero_eq_false_iff es⟩

/-- **C10.** With a zero individual uncertainty the selectors `use_wmean` / `use_perr` change
    nothing: any history has the same effect as the history with those calls deleted. -/
theorem C10_selectors_zero_from (r : Rep ℝ) (hz : hasZero r.es = true) (ss : List Sel) :
    r.run ss = r.run (ss.filter fun s => s = Sel.useStd ∨ s = Sel.useSem) := by
  induction ss generalizing r with
  | nil => rfl
  | cons s ss ih =>
    have hz' : hasZero (r.step s).es = true := by rw [step_es]; exact hz
    cases s
    · simpa [List.filter_cons, run_cons] using ih _ hz'
    · simpa [List.filter_cons, run_cons] using ih _ hz'
    · have : r.step Sel.useWmean = r := by simp [step_useWmean, hz]
      rw [run_cons, this]
      simpa [List.filter_cons] using ih r hz
    · have : r.step Sel.usePerr = r := by simp [step_usePerr, hz]
      rw [run_cons, this]
      simpa [List.filter_cons] using ih r hz

/-- **C10 (selectors, zero uncertainty present).** When some individual uncertainty is zero,
    `use_wmean` and `use_perr` are ignored: the value stays the mean and the uncertainty is
    decided by the last of `use_std` / `use_sem` only. -/
theorem C10_selectors_zero (xs es : List ℝ) (hz : hasZero es = true) (ss : List Sel) :
    (Rep.init xs es).run ss
        = (Rep.init xs es).run (ss.filter fun s => s = Sel.useStd ∨ s = Sel.useSem)
    ∧ ((Rep.init xs es).run ss).value = mean xs
    ∧ ((Rep.init xs es).run ss).error
        = (match (ss.filter fun s => s = Sel.useStd ∨ s = Sel.useSem).getLast? with
            | some .useStd => std1 xs
            | _ => sem xs) := by
  have h0 := C10_selectors_zero_from (Rep.init xs es) hz ss
  refine ⟨h0, ?_, ?_⟩
  · rw [h0]
    generalize (ss.filter fun s => s = Sel.useStd ∨ s = Sel.useSem) = ts
    have : ∀ (r : Rep ℝ), hasZero r.es = true → (r.run ts).value = r.value := by
      induction ts with
      | nil => intro r _; rfl
      | cons t ts ih =>
        intro r hr
        rw [run_cons, ih _ (by rw [step_es]; exact hr)]
        cases t <;> simp [step_useStd, step_useSem, step_useWmean, step_usePerr, hr]
    exact this _ hz
  · rw [h0]
    have hmem : ∀ t ∈ (ss.filter fun s => s = Sel.useStd ∨ s = Sel.useSem),
        t = Sel.useStd ∨ t = Sel.useSem := by
      intro t ht; simpa using (List.mem_filter.mp ht).2
    generalize (ss.filter fun s => s = Sel.useStd ∨ s = Sel.useSem) = ts at hmem
    induction ts using List.reverseRecOn with
    | nil => simp [run_nil, init_eq]
    | append_singleton ts t _ =>
      rw [run_snoc]
      have hx : ((Rep.init xs es).run ts).xs = xs := run_xs _ ts
      rcases hmem t (by simp) with rfl | rfl <;> simp [step_useStd, step_useSem, hx]

/-! ### 10. non-vacuity -/

/-- the hypotheses of the covariance / correlation theorems are satisfiable:
    xs = [1,2,4], ys = [2,4,8] have equal lengths and positive variances -/
example : ([1, 2, 4] : List ℝ).length = ([2, 4, 8] : List ℝ).length
    ∧ 0 < var1 ([1, 2, 4] : List ℝ) ∧ 0 < var1 ([2, 4, 8] : List ℝ) := by
  refine ⟨rfl, ?_, ?_⟩ <;> rw [C10_var_def] <;> norm_num

/-- `C10_collinear` is not vacuous: ys = 2·xs + 0 for the data above, correlation is 1 -/
example : corr ([1, 2, 4] : List ℝ) (([1, 2, 4] : List ℝ).map fun x => 2 * x + 0) = 1 := by
  have hv : var1 ([1, 2, 4] : List ℝ) ≠ 0 := by rw [C10_var_def]; norm_num
  rw [C10_collinear _ hv 2 0 (by norm_num)]; norm_num

/-- concrete values: mean [1,2,4] = 7/3, var1 = 7/3 -/
example : mean ([1, 2, 4] : List ℝ) = 7 / 3 ∧ var1 ([1, 2, 4] : List ℝ) = 7 / 3 := by
  constructor
  · rw [C10_mean_def]; norm_num
  · rw [C10_var_def]; norm_num

/-- the hypotheses of the weighted-mean theorems are satisfiable -/
example : ([1, 2] : List ℝ).length = ([3, 5] : List ℝ).length ∧ ([3, 5] : List ℝ) ≠ []
    ∧ (∀ e ∈ ([1, 2] : List ℝ), 0 < e) ∧ hasZero ([1, 2] : List ℝ) = false := by
  refine ⟨rfl, by simp, ?_, ?_⟩
  · intro e he; simp at he; rcases he with rfl | rfl <;> norm_num
  · rw [hasZero_eq_false_iff]; intro e he; simp at he; rcases he with rfl | rfl <;> norm_num

/-- the zero-uncertainty case is satisfiable -/
example : hasZero ([1, 0] : List ℝ) = true := by
  rw [hasZero_eq_true_iff]; exact ⟨0, by simp, rfl⟩

/-- selector histories: a concrete instance of the specification functions -/
example : lastErrSel [.useStd, .useWmean, .usePerr, .useWmean] = some .usePerr
    ∧ lastValSel [.useStd, .useWmean, .usePerr, .useWmean] = true
    ∧ lastErrSel [.useWmean] = none := by
  refine ⟨rfl, rfl, rfl⟩

/-! ### 11. the selected numbers are the ones used downstream -/

/-- **C10 (used downstream).** A later calculation `k·a + c`, propagated by the derivative method
    through the generated operator and derivative tables, reads exactly the value and the
    uncertainty currently in use: the result is `k·value + c ± |k|·|uncertainty|`. -/
theorem C10_used_downstream (k c v e : ℝ) :
    downstream k c v e = (k * v + c, |k| * |e|) := by
  unfold downstream Expr.propagate
  have hs : Expr.sources (Expr.bin Op2.add (Expr.bin Op2.mul (Expr.const k) (Expr.var 0))
      (Expr.const c) : Expr ℝ) = [0] := by
    simp only [Expr.sources, List.nil_append, List.append_nil]
    rfl
  rw [hs]
  simp only [Expr.eval, Expr.resultSums, Expr.quadTerms, Expr.pairTerms, Expr.diff, Gen.op2, Gen.d2,
    Gen.quadTerm, Gen.combine, Gen.errOf, List.map_cons, List.map_nil, List.append_nil]
  simp [Num.sum]
  rw [Real.sqrt_sq_eq_abs, abs_mul, mul_comm]

/-- **C10 (selectors, downstream).** After any selector history (all individual uncertainties
    non-zero) a later calculation `k·a + c` uses the statistic of the last value-selector and the
    statistic of the last uncertainty-selector. -/
theorem C10_selected_used_downstream (xs es : List ℝ) (hz : hasZero es = false) (ss : List Sel)
    (k c : ℝ) :
    downstream k c ((Rep.init xs es).run ss).value ((Rep.init xs es).run ss).error =
      (k * (if Sel.useWmean ∈ ss then wmean xs es else mean xs) + c,
       |k| * abs (match lastErrSel ss with
        | none | some .useSem => sem xs
        | some .useStd => std1 xs
        | some .usePerr => perr es
        | some .useWmean => sem xs)) := by
  rw [C10_used_downstream, (C10_selectors xs es hz ss).1, (C10_selectors xs es hz ss).2]

/-- **C10 (used downstream, through intermediate results).** A later calculation built from
    intermediate results that were made before (`mid = k·a`, `mid2 = mid + c`, now `1·mid2`) reads the
    value and the uncertainty the measurement has NOW: `k·value + c ± |k|·|uncertainty|` -- the same
    as the calculation written directly in terms of the measurement. -/
theorem C10_used_downstream_via_intermediate (k c v e : ℝ) :
    downstreamVia k c v e = (k * v + c, |k| * |e|) := by
  unfold downstreamVia Expr.propagate
  have hs : Expr.sources (Expr.bin Op2.mul (Expr.const (Num.ofNat 1))
      (Expr.bin Op2.add (Expr.bin Op2.mul (Expr.const k) (Expr.var 0)) (Expr.const c)) : Expr ℝ)
      = [0] := by
    simp only [Expr.sources, List.nil_append, List.append_nil]
    rfl
  rw [hs]
  simp only [Expr.eval, Expr.resultSums, Expr.quadTerms, Expr.pairTerms, Expr.diff, Gen.op2, Gen.d2,
    Gen.quadTerm, Gen.combine, Gen.errOf, List.map_cons, List.map_nil, List.append_nil]
  simp [Num.sum]
  rw [Real.sqrt_sq_eq_abs, abs_mul, mul_comm]

/-- **C10 (used downstream, non-linear in an intermediate result).** `mid·mid` with `mid = k·a` made
    earlier is `(k·value)² ± |2·k·value·k|·|uncertainty|` at the value and uncertainty in use NOW
    (the central value of the intermediate result that the product rule needs is not a stored one). -/
theorem C10_used_downstream_sq (k v e : ℝ) :
    downstreamSq k v e = ((k * v) * (k * v), |2 * (k * v) * k| * |e|) := by
  unfold downstreamSq Expr.propagate
  have hs : Expr.sources (Expr.bin Op2.mul (Expr.bin Op2.mul (Expr.const k) (Expr.var 0))
      (Expr.bin Op2.mul (Expr.const k) (Expr.var 0)) : Expr ℝ) = [0] := by
    simp only [Expr.sources, List.nil_append, List.append_nil]
    rfl
  rw [hs]
  simp only [Expr.eval, Expr.resultSums, Expr.quadTerms, Expr.pairTerms, Expr.diff, Gen.op2, Gen.d2,
    Gen.quadTerm, Gen.combine, Gen.errOf, List.map_cons, List.map_nil, List.append_nil]
  simp [Num.sum]
  rw [Real.sqrt_sq_eq_abs, show e * (k * (k * v) + k * (k * v)) = 2 * (k * v) * k * e by ring]
  simp only [abs_mul, abs_two]

/-- the two ways of writing the later calculation agree (whatever was selected in between) -/
theorem C10_via_intermediate_eq_direct (k c v e : ℝ) :
    downstreamVia k c v e = downstream k c v e := by
  rw [C10_used_downstream_via_intermediate, C10_used_downstream]

/-- **C10 (selectors, downstream through intermediate results).** After any selector history a later
    calculation built from intermediate results made BEFORE the history uses the statistic of the last
    value-selector and of the last uncertainty-selector. -/
theorem C10_selected_used_downstream_via_intermediate (xs es : List ℝ) (hz : hasZero es = false)
    (ss : List Sel) (k c : ℝ) :
    downstreamVia k c ((Rep.init xs es).run ss).value ((Rep.init xs es).run ss).error =
      (k * (if Sel.useWmean ∈ ss then wmean xs es else mean xs) + c,
       |k| * abs (match lastErrSel ss with
        | none | some .useSem => sem xs
        | some .useStd => std1 xs
        | some .usePerr => perr es
        | some .useWmean => sem xs)) := by
  rw [C10_via_intermediate_eq_direct]
  exact C10_selected_used_downstream xs es hz ss k c

/-! ### 12. two repeated measurements in one later calculation

`k1·a + k2·b + c`, `a − b`, `a·b` propagated by the derivative method through the generated tables
(quadrature terms, `__find_cov_terms`: `covOf`, `covYield`, the `cov != 0` test): EVERY term — the two
quadrature terms and the covariance term `2·(ρ·σa·σb)·∂a·∂b` — reads the uncertainties in use. -/

/-- the tactic block shared by the three shapes -/
macro "downstream2_tac" : tactic => `(tactic| (
  simp only [Expr.eval, Expr.resultSums, Expr.quadTerms, Expr.pairTerms, Expr.covTerm, Expr.diff,
    Gen.op2, Gen.d2, Gen.quadTerm, Gen.combine, Gen.errOf, Gen.covOf, Gen.covYield, List.map_cons,
    List.map_nil, List.append_nil]
  simp [Num.sum]
  congr 1
  split
  · rename_i h
    rcases h with (h | h) | h <;> subst h <;> ring
  · ring))

/-- **C10 (used downstream, two sources).** `k1·a + k2·b + c` with `a = va ± ea`, `b = vb ± eb` and
    recorded correlation factor `ρ` is `k1·va + k2·vb + c ± sqrt((k1·ea)² + (k2·eb)² + 2·(ρ·ea·eb)·k1·k2)`:
    the covariance term is rebuilt from the SAME two uncertainties as the quadrature terms (also when
    the `cov != 0` test skips it: the term is then 0). -/
theorem C10_used_downstream_pair (k1 k2 c va ea vb eb rho : ℝ) :
    downstream2 .lin k1 k2 c va ea vb eb rho =
      (k1 * va + k2 * vb + c,
       Real.sqrt ((k1 * ea) ^ 2 + (k2 * eb) ^ 2 + 2 * (rho * ea * eb) * k1 * k2)) := by
  unfold downstream2 expr2 Expr.propagate
  have hs : Expr.sources (Expr.bin Op2.add (Expr.bin Op2.add (Expr.bin Op2.mul (Expr.const k1)
      (Expr.var 0)) (Expr.bin Op2.mul (Expr.const k2) (Expr.var 1))) (Expr.const c) : Expr ℝ)
      = [0, 1] := by
    simp only [Expr.sources, List.nil_append, List.append_nil]
    rfl
  rw [hs]
  downstream2_tac

/-- **C10 (used downstream, difference).** `a − b` is `va − vb ± sqrt(ea² + eb² − 2·ρ·ea·eb)`. -/
theorem C10_used_downstream_sub (k1 k2 c va ea vb eb rho : ℝ) :
    downstream2 .sub k1 k2 c va ea vb eb rho =
      (va - vb, Real.sqrt (ea ^ 2 + eb ^ 2 - 2 * (rho * ea * eb))) := by
  unfold downstream2 expr2 Expr.propagate
  have hs : Expr.sources (Expr.bin Op2.sub (Expr.var 0) (Expr.var 1) : Expr ℝ) = [0, 1] := by
    simp only [Expr.sources]; rfl
  rw [hs]
  downstream2_tac

/-- **C10 (used downstream, product).** `a·b` is
    `va·vb ± sqrt((vb·ea)² + (va·eb)² + 2·(ρ·ea·eb)·vb·va)`. -/
theorem C10_used_downstream_prod (k1 k2 c va ea vb eb rho : ℝ) :
    downstream2 .prod k1 k2 c va ea vb eb rho =
      (va * vb, Real.sqrt ((vb * ea) ^ 2 + (va * eb) ^ 2 + 2 * (rho * ea * eb) * vb * va)) := by
  unfold downstream2 expr2 Expr.propagate
  have hs : Expr.sources (Expr.bin Op2.mul (Expr.var 0) (Expr.var 1) : Expr ℝ) = [0, 1] := by
    simp only [Expr.sources]; rfl
  rw [hs]
  downstream2_tac

/-- the statistic a selector history leaves as the uncertainty in use (`C10_selectors`) -/
noncomputable def errInUse (xs es : List ℝ) (ss : List Sel) : ℝ :=
  match lastErrSel ss with
  | none | some .useSem => sem xs
  | some .useStd => std1 xs
  | some .usePerr => perr es
  | some .useWmean => sem xs

/-- the statistic a selector history leaves as the value in use (`C10_selectors`) -/
noncomputable def valInUse (xs es : List ℝ) (ss : List Sel) : ℝ :=
  if Sel.useWmean ∈ ss then wmean xs es else mean xs

/-- **C10 (selectors, two sources downstream).** After ANY selector histories `ss` on `a` and `ts`
    on `b` (all individual uncertainties non-zero), with any recorded correlation factor `ρ` (the
    normalised sample covariance when it was inferred), `k1·a + k2·b + c` uses — in the quadrature
    terms AND in the covariance term — the statistic of the last uncertainty-selector of each source,
    and the statistic of the last value-selector of each source. -/
theorem C10_selected_used_downstream_pair (xs es ys fs : List ℝ) (hz : hasZero es = false)
    (hz' : hasZero fs = false) (ss ts : List Sel) (k1 k2 c rho : ℝ) :
    downstream2 .lin k1 k2 c ((Rep.init xs es).run ss).value ((Rep.init xs es).run ss).error
        ((Rep.init ys fs).run ts).value ((Rep.init ys fs).run ts).error rho =
      (k1 * valInUse xs es ss + k2 * valInUse ys fs ts + c,
       Real.sqrt ((k1 * errInUse xs es ss) ^ 2 + (k2 * errInUse ys fs ts) ^ 2
          + 2 * (rho * errInUse xs es ss * errInUse ys fs ts) * k1 * k2)) := by
  rw [C10_used_downstream_pair, (C10_selectors xs es hz ss).1, (C10_selectors xs es hz ss).2,
    (C10_selectors ys fs hz' ts).1, (C10_selectors ys fs hz' ts).2]
  rfl

/-- non-vacuity / a concrete instance: a = 1 ± 3, b = 2 ± 4, ρ = 1/2, `a − b`: radicand
    9 + 16 − 12 = 13 -/
example : downstream2 .sub (0 : ℝ) 0 0 1 3 2 4 (1 / 2) = (-1, Real.sqrt 13) := by
  rw [C10_used_downstream_sub]; norm_num

end QExPy

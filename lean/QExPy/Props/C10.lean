/- C10 property theorems (to be filled) -/
import QExPy.Model.Stats

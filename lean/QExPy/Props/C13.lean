/-
  C13 — every unit string the library prints is accepted back with the same meaning.

  Model: the printer `constructFrac` / `constructExp` / `powerStr` / `unitProp`
  (QExPy/Model/Units.lean) and the parser `parse` (QExPy/Model/UnitParse.lean).
-/
import QExPy.Lemmas.UnitParse

namespace QExPy
open U

/-- **C13 (separator).** the separator the printer writes between factors (`DOT_STRING`) is the
    character the tokeniser turns into `*`, and the bare numerator the fraction style prints
    is the prefix the tokeniser strips. -/
theorem C13_separator_tie :
    Gen.dotString = Gen.lexDotFrom ∧ Gen.lexDotTo = "*" ∧ Gen.bareNumeratorPrefix = "1/" ∧
    constructFrac [(['s'], -1)] = "1/s".toList := by
  refine ⟨by decide, by decide, by decide, by decide +kernel⟩

/- Full statement (not proved in general):
     theorem C13_roundtrip (u : Units) (frac : Bool) (hw : WF u) (hz : NoZero u)
         (hs : ∀ p ∈ u, p.1 ≠ [] ∧ p.1.all isAl) (hd : smallDen u) :
         ∃ v, parse (unitProp [] frac u) = some v ∧ Equiv v u     (u ≠ [])
   Proved below by kernel evaluation for every ordered exponent map with ≤ 2 entries over
   {m, s, kg} and exponents {±1, ±2, ±3, ±1/2, 3/2, 2/3}, and ≤ 3 entries with exponents
   {1, −1, −2, 1/2, −3/2}, in both styles (631 + 916 maps × 2 styles); the thorough tier of the
   check enumerates all maps over ≤ 4 symbols with exponents [−4,4]∖{0} on the real code. -/

set_option maxRecDepth 1000000 in
/-- **C13 (round trip, bounded).** for every such exponent map and both styles the printed unit
    string (`1/…` numerators, bracketed denominators and `^(p/q)` powers included) is accepted
    by the parser and parses to the same exponents, with no other symbol. -/
theorem C13_roundtrip_partial :
    (∀ u ∈ mapsOver rtSyms rtExps 2, roundTripOk true u = true ∧ roundTripOk false u = true) ∧
    (∀ u ∈ mapsOver rtSyms rtExpsSmall 3, roundTripOk true u = true ∧ roundTripOk false u = true) := by
  constructor <;> decide +kernel

/-- **C13 (the two forms that used to be rejected).** `1/s` and `m^(1/2)`, `1/(s⋅m^(3/2))` -/
theorem C13_printed_forms_accepted :
    parse "1/s".toList = some [(['s'], -1)] ∧
    parse "m^(1/2)".toList = some [(['m'], mkRat 1 2)] ∧
    parse "1/(s⋅m^(3/2))".toList = some [(['s'], -1), (['m'], mkRat (-3) 2)] ∧
    unitProp [] true [(['s'], -1), (['m'], mkRat (-3) 2)] = "1/(s⋅m^(3/2))".toList ∧
    unitProp [] false [(['s'], -1), (['m'], mkRat (-3) 2)] = "s^-1⋅m^(-3/2)".toList := by
  refine ⟨by decide +kernel, by decide +kernel, by decide +kernel, by decide +kernel,
    by decide +kernel⟩

end QExPy

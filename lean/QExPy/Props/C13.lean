/- C13 — property theorems (placeholder, filled in below) -/
import QExPy.Model.Units
import QExPy.Model.UnitParse
namespace QExPy
end QExPy

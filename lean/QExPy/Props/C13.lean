/-
  C13 — every unit string the library prints is accepted back with the same meaning.

  Model: the printer `constructFrac` / `constructExp` / `powerStr` / `unitProp`
  (QExPy/Model/Units.lean) and the parser `parse` (QExPy/Model/UnitParse.lean).
-/
import QExPy.Lemmas.UnitParse
import QExPy.Lemmas.PrintAst
import QExPy.Lemmas.DefReqs

namespace QExPy
open U

/-- **C13 (separator).** the separator the printer writes between factors (`DOT_STRING`) is the
    character the tokeniser turns into `*`, and the bare numerator the fraction style prints
    is the prefix the tokeniser strips. -/
theorem C13_separator_tie :
    Gen.dotString = Gen.lexDotFrom ∧ Gen.lexDotTo = "*" ∧ Gen.bareNumeratorPrefix = "1/" ∧
    constructFrac [(['s'], -1)] = "1/s".toList := by
  refine ⟨by decide, by decide, by decide, by decide +kernel⟩

/-- the symbols are ones the tokeniser reads as one symbol: non-empty and alphabetic
    (the decidable well-formedness hypothesis of `C13_roundtrip`) -/
def symsOK (u : Units) : Bool := u.all fun p => !p.1.isEmpty && p.1.all isAl

theorem symsOK_iff (u : Units) (h : symsOK u = true) : ∀ x ∈ u, SymOK x.1 := by
  intro x hx
  have := (List.all_eq_true.mp h) x hx
  simp only [Bool.and_eq_true, Bool.not_eq_true', List.isEmpty_eq_false_iff,
    List.all_eq_true] at this
  exact ⟨this.1, this.2⟩

/-- **C13 (round trip, all exponent maps).** For *every* exponent map `u` — any number of
    symbols, any non-zero rational exponents (integers and fractions p/q alike), any order, any
    sign pattern — with distinct alphabetic symbols, and in both display styles, the string the
    printer produces (`f⋅g^2`, `1/s`, `kg/(m^(1/2)⋅s)`, …) is accepted by the parser, and the
    exponent list `v` it returns has exactly the exponents of `u` for every symbol.
    Proof: the printed string is a rendering of an explicit syntax tree (`expE` / `fracE`,
    `Lemmas/PrintAst.lean`) whose tokens are lexically unambiguous and whose denotation is `u`;
    `parse_complete` = `C12_complete` (lexical round trip + token-level equivalence + evaluation) does the rest.
    The model's `powerStr` equals `__power_num2str` for denominators ≤ 10 (`smallDen`, where
    `limit_denominator(10)` is the identity); the theorem itself needs no bound. -/
theorem C13_roundtrip (u : Units) (frac : Bool) (hne : u ≠ []) (hw : WF u) (hz : NoZero u)
    (hs : symsOK u = true) :
    ∃ v, parse (unitProp [] frac u) = some v ∧ WF v ∧ Equiv v u := by
  have hs' := symsOK_iff u hs
  have hprop : unitProp [] frac u = if frac then constructFrac u else constructExp u := by
    cases u with
    | nil => exact absurd rfl hne
    | cons p r => simp [unitProp, construct, packOr_nil]
  rw [hprop]
  cases frac with
  | false =>
    cases u with
    | nil => exact absurd rfl hne
    | cons p r =>
      obtain ⟨v, h1, h2, h3⟩ := parse_complete (expE (p :: r)) (prodE_ok p r)
        (expE_lex p r hs') _ (expE_text p r hs')
      exact ⟨v, h1, h2, fun s => by rw [h3 s, expE_den _ hw hne]⟩
  | true =>
    have hpn := pos_or_neg u hne hz
    obtain ⟨v, h1, h2, h3⟩ := parse_complete (fracE u) (fracE_ok u) (fracE_lex u hs' hpn) _
      (fracE_text u hs' hpn)
    exact ⟨v, h1, h2, fun s => by rw [h3 s, fracE_den u hw hz]⟩

/-- **C13 (round trip after a history).** The domain of C13 is "no compound-unit definitions
    active" — at the moment the unit is printed.  Whatever was defined (and printed) earlier in
    the session: once the definitions have been cleared, and only rejected definitions followed,
    the printer works on no definitions and the string it writes for `u` is accepted back with
    the exponents of `u`.  (The printer of the model has no other state: the display style is an
    argument of `unitProp`, so earlier prints and style switches cannot matter.) -/
theorem C13_roundtrip_after_history (rs rs' : List DefReq)
    (hrej : ∀ r ∈ rs', r.accepted = false) (u : Units) (frac : Bool) (hne : u ≠ []) (hw : WF u)
    (hz : NoZero u) (hs : symsOK u = true) :
    ∃ v, parse (unitProp (runReqs [] (rs ++ DefReq.clear :: rs')) frac u) = some v ∧ WF v ∧
      Equiv v u := by
  rw [runReqs_clear_then_rejected [] rs rs' hrej]
  exact C13_roundtrip u frac hne hw hz hs

/-- non-vacuity: N is defined, the definition is cleared, a malformed definition is rejected -/
example : runReqs [] ([.define "N".toList "kg*m/s^2".toList] ++ DefReq.clear ::
    [.define "N".toList "kg*m/s^2)".toList]) = [] :=
  runReqs_clear_then_rejected [] _ _ (by
    intro r hr
    simp only [List.mem_singleton] at hr
    subst hr
    decide +kernel)

/-- **C13 (assignment).** `b.unit = a.unit` in the model is `parse (unitProp a._unit)`: it
    succeeds, and what `b` then prints is accepted again with the same exponents (so the unit can
    be handed on any number of times, as `MeasurementArray.append/insert/__setitem__` do for
    every element), provided the parsed list itself has no zero entry — which holds because
    every printed symbol occurs once. -/
theorem C13_assign_twice (u : Units) (f1 f2 : Bool) (hne : u ≠ []) (hw : WF u) (hz : NoZero u)
    (hs : symsOK u = true) :
    ∃ v, parse (unitProp [] f1 u) = some v ∧ Equiv v u ∧
      (v ≠ [] → NoZero v → symsOK v = true →
        ∃ w, parse (unitProp [] f2 v) = some w ∧ Equiv w u) := by
  obtain ⟨v, h1, h2, h3⟩ := C13_roundtrip u f1 hne hw hz hs
  refine ⟨v, h1, h3, fun hv hzv hsv => ?_⟩
  obtain ⟨w, g1, _, g3⟩ := C13_roundtrip v f2 hv h2 hzv hsv
  exact ⟨w, g1, fun s => (g3 s).trans (h3 s)⟩

/-- non-vacuity: kg·m^(1/2)/s² satisfies the hypotheses of `C13_roundtrip` -/
example : let u : Units := [("kg".toList, 1), ("m".toList, mkRat 1 2), ("s".toList, -2)]
    u ≠ [] ∧ WF u ∧ NoZero u ∧ symsOK u = true := by
  refine ⟨by simp, by simp [WF], ?_, by decide⟩
  intro p hp
  simp only [List.mem_cons, List.not_mem_nil, or_false] at hp
  rcases hp with rfl | rfl | rfl <;> norm_num

/- The bounded theorem below was the state before the general proof; it is kept because it
   pins the model to concrete cases by kernel evaluation. -/

set_option maxRecDepth 1000000 in
/-- **C13 (round trip, bounded).** for every such exponent map and both styles the printed unit
    string (`1/…` numerators, bracketed denominators and `^(p/q)` powers included) is accepted
    by the parser and parses to the same exponents, with no other symbol. -/
theorem C13_roundtrip_partial :
    (∀ u ∈ mapsOver rtSyms rtExps 2, roundTripOk true u = true ∧ roundTripOk false u = true) ∧
    (∀ u ∈ mapsOver rtSyms rtExpsSmall 3, roundTripOk true u = true ∧ roundTripOk false u = true) := by
  constructor <;> decide +kernel

/-- **C13 (the two forms that used to be rejected).** `1/s` and `m^(1/2)`, `1/(s⋅m^(3/2))` -/
theorem C13_printed_forms_accepted :
    parse "1/s".toList = some [(['s'], -1)] ∧
    parse "m^(1/2)".toList = some [(['m'], mkRat 1 2)] ∧
    parse "1/(s⋅m^(3/2))".toList = some [(['s'], -1), (['m'], mkRat (-3) 2)] ∧
    unitProp [] true [(['s'], -1), (['m'], mkRat (-3) 2)] = "1/(s⋅m^(3/2))".toList ∧
    unitProp [] false [(['s'], -1), (['m'], mkRat (-3) 2)] = "s^-1⋅m^(-3/2)".toList := by
  refine ⟨by decide +kernel, by decide +kernel, by decide +kernel, by decide +kernel,
    by decide +kernel⟩

end QExPy

/- C04 property theorems (to be filled) -/
import QExPy.Model.Stats

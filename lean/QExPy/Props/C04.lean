/-
  C04 — correlation/covariance records: symmetric, consistent, bounded, isolated.

  Model: the store state machine `QExPy/Model/Corr.lean`, here at `ℝ`.
  The same definitions run at `FB` in the correspondence check (`vf/props/c04.py`).
-/
import QExPy.Model.Corr
import QExPy.Lemmas.Corr
import QExPy.Real
import QExPy.Props.C10

namespace QExPy
open Corr

/-! ### the invariant -/

/-- a record is physical and consistent: `|corr| ≤ 1` and `cov = corr·σ_a·σ_b` for the two standard
    deviations at the time of recording -/
def RecOK (r : Rec ℝ) : Prop := |r.corr| ≤ 1 ∧ r.cov = r.corr * r.sa * r.sb

/-- every record is physical and consistent, and every key is a sorted pair of ids -/
def Inv (s : State ℝ) : Prop := ∀ p ∈ s.store, RecOK p.2 ∧ p.1.1 ≤ p.1.2

theorem key_sorted (a b : Nat) : (key a b).1 ≤ (key a b).2 := by
  unfold key; split <;> simp <;> omega

theorem key_comm (a b : Nat) : key a b = key b a := by
  unfold key
  split <;> split <;> simp [Prod.ext_iff] <;> omega

/-- **C04 (keys).** The store key of two ids identifies exactly the unordered pair. -/
theorem C04_key_unordered (a b c d : Nat) :
    key a b = key c d ↔ (a = c ∧ b = d) ∨ (a = d ∧ b = c) := by
  unfold key
  by_cases h : a ≤ b <;> by_cases h' : c ≤ d <;> simp [h, h', Prod.ext_iff] <;> omega

theorem outOfRange_iff (c : ℝ) : outOfRange c = true ↔ 1 < |c| := by
  rw [outOfRange_unfold]; unfold Corr.one
  simp only [num_lt, num_neg, num_ofNat, Nat.cast_one, Bool.or_eq_true, decide_eq_true_eq]
  rw [lt_abs]
  constructor
  · rintro (h | h)
    · left; exact h
    · right; linarith
  · rintro (h | h)
    · left; exact h
    · right; linarith

theorem not_outOfRange (c : ℝ) (h : outOfRange c = false) : |c| ≤ 1 := by
  by_contra hc
  have : outOfRange c = true := (outOfRange_iff c).2 (lt_of_not_ge hc)
  rw [h] at this; cases this

theorem isZero_false {x : ℝ} (h : Num.isZero x = false) : x ≠ 0 := by
  simpa using h

theorem inv_write (s : State ℝ) (a b : Nat) (corr cov sa sb : ℝ) (hs : Inv s)
    (hc : |corr| ≤ 1) (hv : cov = corr * sa * sb) : Inv (write s a b corr cov sa sb) := by
  intro p hp
  unfold write at hp
  simp only [List.mem_cons] at hp
  rcases hp with rfl | hp
  · refine ⟨?_, key_sorted a b⟩
    dsimp only
    split
    · exact ⟨hc, hv⟩
    · exact ⟨hc, by rw [hv]; ring⟩
  · exact hs p hp

theorem inv_setMeasured (s : State ℝ) (w : Which) (a b : Nat) (v : Option ℝ) (hs : Inv s) :
    Inv (setMeasured s w a b v).1 := by
  rw [setMeasured_unfold]
  dsimp only
  split; · exact hs
  split; · exact hs
  split; · exact hs
  rename_i hz
  simp only [Bool.or_eq_true, not_or, Bool.not_eq_true] at hz
  have ha := isZero_false hz.1
  have hb := isZero_false hz.2
  cases v with
  | none => exact hs
  | some x =>
    cases w with
    | cov =>
      dsimp only
      split
      · exact hs
      · rename_i hr
        apply inv_write _ _ _ _ _ _ _ hs (not_outOfRange _ (by simpa using hr))
        simp only [num_div, num_mul]
        field_simp
    | corr =>
      dsimp only
      split
      · exact hs
      · rename_i hr
        apply inv_write _ _ _ _ _ _ _ hs (not_outOfRange _ (by simpa using hr))
        simp only [num_mul]; ring

theorem inv_setRepeated (s : State ℝ) (w : Which) (a b : Nat) (v : Option ℝ) (hs : Inv s) :
    Inv (setRepeated s w a b v).1 := by
  unfold setRepeated
  dsimp only
  split; · exact hs
  split; · exact hs
  exact inv_setMeasured _ _ _ _ _ hs

theorem inv_setMeth (s : State ℝ) (w : Which) (a b : Nat) (v : Option ℝ) (hs : Inv s) :
    Inv (setMeth s w a b v).1 := by
  unfold setMeth
  split
  · exact inv_setMeasured _ _ _ _ _ hs
  · exact inv_setRepeated _ _ _ _ _ hs
  · exact hs

theorem setStd_store (s : State ℝ) (i : Nat) (x : ℝ) : (setStd s i x).1.store = s.store := by
  unfold setStd
  split
  · split
    · split <;> rfl
    · rfl
  · rfl

/-- **C04 (invariant, initial state).** A store without records satisfies the invariant. -/
theorem C04_inv_init (qs : List (Qty ℝ)) : Inv ⟨qs, []⟩ := by
  intro p hp; cases hp

/-- **C04 (invariant, one step).** Every request — accepted or rejected, explicit or inferred,
    function or method form — leaves every record physical (`|corr| ≤ 1`) and consistent
    (`cov = corr·σ_a·σ_b` with the standard deviations at the time of recording). -/
theorem C04_inv_step (s : State ℝ) (op : Op ℝ) (hs : Inv s) : Inv (step s op).1 := by
  cases op with
  | setStd i x =>
    intro p hp
    have : (step s (.setStd i x)).1.store = s.store := setStd_store s i x
    rw [this] at hp
    exact hs p hp
  | set w f a b v =>
    cases f with
    | fn =>
      show Inv (setFn s w a b v).1
      unfold setFn
      split
      · exact hs
      · exact inv_setMeth _ _ _ _ _ hs
    | meth => exact inv_setMeth _ _ _ _ _ hs
  | get w f a b => exact hs
  | reset => intro p hp; cases hp

/-- **C04 (invariant, all histories).** By induction over the request list: after any finite
    sequence of requests from a state satisfying the invariant, the invariant holds. -/
theorem C04_inv_run (s : State ℝ) (ops : List (Op ℝ)) (hs : Inv s) : Inv (exec s ops) := by
  unfold exec
  induction ops generalizing s with
  | nil => exact hs
  | cons op rest ih => exact ih _ (C04_inv_step s op hs)

/-- all histories from the empty store -/
theorem C04_inv_all (qs : List (Qty ℝ)) (ops : List (Op ℝ)) : Inv (exec ⟨qs, []⟩ ops) :=
  C04_inv_run _ _ (C04_inv_init qs)

/-! ### atomic reject -/

theorem setMeasured_reject (s : State ℝ) (w : Which) (a b : Nat) (v : Option ℝ)
    (h : (setMeasured s w a b v).2 = .reject) : (setMeasured s w a b v).1 = s := by
  revert h
  rw [setMeasured_unfold]
  dsimp only
  split; · intro _; rfl
  split; · intro _; rfl
  split; · intro _; rfl
  cases v with
  | none => intro _; rfl
  | some x =>
    cases w with
    | cov =>
      dsimp only
      split
      · intro _; rfl
      · intro h; cases h
    | corr =>
      dsimp only
      split
      · intro _; rfl
      · intro h; cases h

theorem setMeth_reject (s : State ℝ) (w : Which) (a b : Nat) (v : Option ℝ)
    (h : (setMeth s w a b v).2 = .reject) : (setMeth s w a b v).1 = s := by
  unfold setMeth at h ⊢
  split
  · rename_i hk; rw [hk] at h; exact setMeasured_reject _ _ _ _ _ h
  · rename_i hk; rw [hk] at h
    dsimp only at h ⊢
    unfold setRepeated at h ⊢
    dsimp only at h ⊢
    split; · rfl
    split; · rfl
    rename_i h1 h2
    simp only [h1, h2] at h
    exact setMeasured_reject _ _ _ _ _ h
  · rfl

/-- **C04 (atomic reject).** A rejected request leaves the whole state — every earlier record and
    every quantity — exactly as it was. -/
theorem C04_reject_unchanged (s : State ℝ) (op : Op ℝ) (h : (step s op).2 = .reject) :
    (step s op).1 = s := by
  cases op with
  | setStd i x =>
    show (setStd s i x).1 = s
    have h' : (setStd s i x).2 = .reject := h
    unfold setStd at h' ⊢
    split
    · rename_i q hq
      simp only [hq] at h'
      split
      · rename_i hk
        simp only [hk, if_true] at h'
        split
        · rfl
        · rename_i hlt; simp [hlt] at h'
      · rfl
    · rfl
  | set w f a b v =>
    cases f with
    | fn =>
      show (setFn s w a b v).1 = s
      have h' : (setFn s w a b v).2 = .reject := h
      unfold setFn at h' ⊢
      split
      · rfl
      · rename_i hc; simp only [hc] at h'; exact setMeth_reject _ _ _ _ _ h'
    | meth => exact setMeth_reject _ _ _ _ _ h
  | get w f a b => rfl
  | reset => cases h

/-- reads never change the state -/
theorem C04_get_pure (s : State ℝ) (w : Which) (f : Form) (a b : Nat) :
    (step s (.get w f a b)).1 = s := rfl

/-! ### symmetry -/

/-- **C04 (symmetric reads).** `q.get_x(a, b) = q.get_x(b, a)` for every pair of operands of any
    kind, in every state. -/
theorem C04_symmetric_get (s : State ℝ) (w : Which) (a b : Nat) :
    get s w .fn a b = get s w .fn b a := by
  show getFn s w a b = getFn s w b a
  unfold getFn
  dsimp only
  by_cases ha : (qty s a).kind.isEV <;> by_cases hb : (qty s b).kind.isEV <;> simp [ha, hb]
  by_cases ma : (qty s a).kind.measured <;> by_cases mb : (qty s b).kind.measured <;> simp [ma, mb]
  simp only [getMeasured_unfold]
  simp only [ha, hb, ma, mb, Bool.not_true, Bool.false_eq_true, if_false]
  by_cases za : (qty s a).std = 0 <;> by_cases zb : (qty s b).std = 0 <;> simp [za, zb]
  by_cases hab : a = b
  · subst hab; rfl
  · have hba : ¬ b = a := fun h => hab h.symm
    simp [hab, hba, key_comm a b]

/-- method form, both operands measurements -/
theorem C04_symmetric_get_meth (s : State ℝ) (w : Which) (a b : Nat)
    (ha : (qty s a).kind.measured = true) (hb : (qty s b).kind.measured = true) :
    get s w .meth a b = get s w .meth b a := by
  have ea : (qty s a).kind.isEV = true := by
    cases h : (qty s a).kind <;> simp_all [Kind.measured, Kind.isEV]
  have eb : (qty s b).kind.isEV = true := by
    cases h : (qty s b).kind <;> simp_all [Kind.measured, Kind.isEV]
  have h1 : get s w .meth a b = get s w .fn a b := by
    show getMeth s w a b = getFn s w a b
    unfold getMeth getFn; simp [ha, hb, ea, eb]
  have h2 : get s w .meth b a = get s w .fn b a := by
    show getMeth s w b a = getFn s w b a
    unfold getMeth getFn; simp [ha, hb, ea, eb]
  rw [h1, h2, C04_symmetric_get]

theorem write_comm (s : State ℝ) (a b : Nat) (c v : ℝ) :
    write s a b c v (qty s a).std (qty s b).std = write s b a c v (qty s b).std (qty s a).std := by
  unfold write
  rw [key_comm a b]
  rcases Nat.lt_trichotomy a b with h | h | h
  · have h1 : a ≤ b := by omega
    have h2 : ¬ b ≤ a := by omega
    simp [h1, h2]
  · subst h; simp
  · have h1 : ¬ a ≤ b := by omega
    have h2 : b ≤ a := by omega
    simp [h1, h2]

/-- **C04 (symmetric writes).** With an explicit number, recording (a, b) and recording (b, a)
    have the same outcome and produce the same state. -/
theorem C04_symmetric_set (s : State ℝ) (w : Which) (a b : Nat) (x : ℝ)
    (ha : (qty s a).kind.measured = true) (hb : (qty s b).kind.measured = true) :
    setMeasured s w a b (some x) = setMeasured s w b a (some x) := by
  have ea : (qty s a).kind.isEV = true := by
    cases h : (qty s a).kind <;> simp_all [Kind.measured, Kind.isEV]
  have eb : (qty s b).kind.isEV = true := by
    cases h : (qty s b).kind <;> simp_all [Kind.measured, Kind.isEV]
  simp only [setMeasured_unfold]
  simp only [ha, hb, ea, eb, Bool.not_true, Bool.false_eq_true, if_false]
  by_cases za : (qty s a).std = 0 <;> by_cases zb : (qty s b).std = 0 <;> simp [za, zb]
  cases w with
  | cov =>
    simp only [mul_comm (qty s b).std (qty s a).std]
    split
    · rfl
    · rw [write_comm]
  | corr =>
    simp only [mul_comm (qty s b).std (qty s a).std]
    split
    · rfl
    · rw [write_comm]

/-- for measurements and an explicit number the function form, the method form and the
    repeated-measurement override all reduce to the same request -/
theorem set_explicit_forms (s : State ℝ) (w : Which) (f : Form) (a b : Nat) (x : ℝ)
    (ha : (qty s a).kind.measured = true) (hb : (qty s b).kind.measured = true) :
    step s (.set w f a b (some x)) = setMeasured s w a b (some x) := by
  have ea : (qty s a).kind.isEV = true := by
    cases h : (qty s a).kind <;> simp_all [Kind.measured, Kind.isEV]
  have eb : (qty s b).kind.isEV = true := by
    cases h : (qty s b).kind <;> simp_all [Kind.measured, Kind.isEV]
  have hm : setMeth s w a b (some x) = setMeasured s w a b (some x) := by
    unfold setMeth
    cases hk : (qty s a).kind with
    | single => rfl
    | repeated =>
      dsimp only
      unfold setRepeated
      simp [eb, hb]
    | derived => simp [hk, Kind.measured] at ha
    | constant => simp [hk, Kind.measured] at ha
    | foreign => simp [hk, Kind.measured] at ha
  cases f with
  | fn =>
    show setFn s w a b (some x) = _
    unfold setFn
    simp [ea, eb, hm]
  | meth => exact hm

/-- **C04 (symmetric writes, API level).** Any form, either argument order: same outcome, same
    resulting state. -/
theorem C04_symmetric_set_api (s : State ℝ) (w : Which) (f f' : Form) (a b : Nat) (x : ℝ)
    (ha : (qty s a).kind.measured = true) (hb : (qty s b).kind.measured = true) :
    step s (.set w f a b (some x)) = step s (.set w f' b a (some x)) := by
  rw [set_explicit_forms s w f a b x ha hb, set_explicit_forms s w f' b a x hb ha,
    C04_symmetric_set s w a b x ha hb]

/-! ### isolation and refinement to a map keyed by unordered pairs -/

/-- the abstract store: a partial map from unordered pairs (sorted keys) to records -/
def absStore (s : State ℝ) : Nat × Nat → Option (Rec ℝ) := fun k => lookup k s.store

theorem lookup_cons (k k' : Nat × Nat) (r : Rec ℝ) (st : Store ℝ) :
    lookup k ((k', r) :: st) = if k' = k then some r else lookup k st := rfl

/-- **C04 (refinement: write).** Recording a pair is the map update at its unordered-pair key. -/
theorem C04_refines_write (s : State ℝ) (a b : Nat) (c v sa sb : ℝ) :
    absStore (write s a b c v sa sb) =
      Function.update (absStore s) (key a b)
        (some (if a ≤ b then ⟨c, v, sa, sb⟩ else ⟨c, v, sb, sa⟩)) := by
  funext k
  unfold absStore write
  simp only [lookup_cons, Function.update_apply]
  by_cases h : key a b = k
  · simp [h]
  · have h' : ¬ k = key a b := fun e => h e.symm
    simp [h, h']

/-- **C04 (refinement: reset).** After `reset_correlations` the map is empty. -/
theorem C04_refines_reset (s : State ℝ) : absStore (step s .reset).1 = fun _ => none := rfl

/-- **C04 (isolated, store level).** Recording one pair never alters the record of another. -/
theorem C04_isolated (s : State ℝ) (a b : Nat) (c v sa sb : ℝ) (k : Nat × Nat)
    (hk : key a b ≠ k) : lookup k (write s a b c v sa sb).store = lookup k s.store := by
  unfold write
  simp [lookup_cons, hk]

theorem setMeasured_qs (s : State ℝ) (w : Which) (a b : Nat) (v : Option ℝ) :
    (setMeasured s w a b v).1.qs = s.qs := by
  rw [setMeasured_unfold]
  dsimp only
  split; · rfl
  split; · rfl
  split; · rfl
  cases v with
  | none => rfl
  | some x =>
    cases w <;> dsimp only <;> split <;> rfl

theorem setMeasured_lookup (s : State ℝ) (w : Which) (a b : Nat) (v : Option ℝ) (k : Nat × Nat)
    (hk : key a b ≠ k) : lookup k (setMeasured s w a b v).1.store = lookup k s.store := by
  rw [setMeasured_unfold]
  dsimp only
  split; · rfl
  split; · rfl
  split; · rfl
  cases v with
  | none => rfl
  | some x =>
    cases w <;> dsimp only <;> split <;> first | rfl | exact C04_isolated _ _ _ _ _ _ _ _ hk

theorem set_qs_lookup (s : State ℝ) (w : Which) (f : Form) (a b : Nat) (v : Option ℝ)
    (k : Nat × Nat) (hk : key a b ≠ k) :
    (step s (.set w f a b v)).1.qs = s.qs ∧
      lookup k (step s (.set w f a b v)).1.store = lookup k s.store := by
  have hm : (setMeth s w a b v).1.qs = s.qs ∧
      lookup k (setMeth s w a b v).1.store = lookup k s.store := by
    unfold setMeth
    split
    · exact ⟨setMeasured_qs _ _ _ _ _, setMeasured_lookup _ _ _ _ _ _ hk⟩
    · unfold setRepeated
      dsimp only
      split; · exact ⟨rfl, rfl⟩
      split; · exact ⟨rfl, rfl⟩
      exact ⟨setMeasured_qs _ _ _ _ _, setMeasured_lookup _ _ _ _ _ _ hk⟩
    · exact ⟨rfl, rfl⟩
  cases f with
  | fn =>
    show (setFn s w a b v).1.qs = s.qs ∧ lookup k (setFn s w a b v).1.store = lookup k s.store
    unfold setFn
    split
    · exact ⟨rfl, rfl⟩
    · exact hm
  | meth => exact hm

theorem get_congr (s s' : State ℝ) (w : Which) (f : Form) (c d : Nat) (hq : s'.qs = s.qs)
    (hl : lookup (key c d) s'.store = lookup (key c d) s.store) :
    get s' w f c d = get s w f c d := by
  have hqty : ∀ i, qty s' i = qty s i := by intro i; unfold qty; rw [hq]
  cases f <;> simp only [Corr.get, getFn, getMeth, getMeasured_unfold, hqty, hl]

/-- **C04 (isolated, API level).** Whatever a request on the pair (a, b) does — accepted or
    rejected, any form, explicit or inferred — every read of any *other* pair (c, d), in either
    form and for either quantity, is the same before and after. -/
theorem C04_isolated_api (s : State ℝ) (w w' : Which) (f f' : Form) (a b c d : Nat) (v : Option ℝ)
    (hk : key a b ≠ key c d) :
    get (step s (.set w f a b v)).1 w' f' c d = get s w' f' c d := by
  obtain ⟨hq, hl⟩ := set_qs_lookup s w f a b v (key c d) hk
  exact get_congr _ _ _ _ _ _ hq hl

/-- **C04 (refinement: reads).** A read of two distinct measurements with non-zero uncertainties
    is the value stored in the abstract map at their unordered-pair key (`C04_unrecorded_zero`:
    and 0 when the pair was never recorded, in particular for every pair after a reset). -/
theorem C04_refines_get (s : State ℝ) (w : Which) (f : Form) (a b : Nat) (hab : a ≠ b)
    (ha : (qty s a).kind.measured = true) (hb : (qty s b).kind.measured = true)
    (za : (qty s a).std ≠ 0) (zb : (qty s b).std ≠ 0) (r : Rec ℝ)
    (hr : absStore s (key a b) = some r) :
    get s w f a b = .num (match w with | .corr => r.corr | .cov => r.cov) := by
  have ea : (qty s a).kind.isEV = true := by
    cases h : (qty s a).kind <;> simp_all [Kind.measured, Kind.isEV]
  have eb : (qty s b).kind.isEV = true := by
    cases h : (qty s b).kind <;> simp_all [Kind.measured, Kind.isEV]
  have hm : getMeasured s w a b = .num (match w with | .corr => r.corr | .cov => r.cov) := by
    unfold absStore at hr
    rw [getMeasured_unfold]
    cases w <;> simp [eb, hb, za, zb, hab, hr]
  cases f with
  | fn => show getFn s w a b = _; unfold getFn; simp [ea, eb, ha, hb, hm]
  | meth => show getMeth s w a b = _; unfold getMeth; simp [ea, ha, hm]

/-- never recorded pairs, and every pair after a reset, read 0 -/
theorem C04_unrecorded_zero (s : State ℝ) (w : Which) (f : Form) (a b : Nat) (hab : a ≠ b)
    (ha : (qty s a).kind.measured = true) (hb : (qty s b).kind.measured = true)
    (hn : lookup (key a b) s.store = none) : get s w f a b = .num 0 := by
  have ea : (qty s a).kind.isEV = true := by
    cases h : (qty s a).kind <;> simp_all [Kind.measured, Kind.isEV]
  have eb : (qty s b).kind.isEV = true := by
    cases h : (qty s b).kind <;> simp_all [Kind.measured, Kind.isEV]
  have hm : getMeasured s w a b = .num 0 := by
    rw [getMeasured_unfold]; unfold Corr.zero
    simp only [ea, eb, ha, hb, hab, hn, Bool.not_true, Bool.false_eq_true, if_false, num_ofNat,
      Nat.cast_zero]
    split <;> rfl
  cases f with
  | fn => show getFn s w a b = _; unfold getFn; simp [ea, eb, ha, hb, hm]
  | meth => show getMeth s w a b = _; unfold getMeth; simp [ea, ha, hm]

theorem C04_after_reset_zero (s : State ℝ) (w : Which) (f : Form) (a b : Nat) (hab : a ≠ b)
    (ha : (qty s a).kind.measured = true) (hb : (qty s b).kind.measured = true) :
    get (step s .reset).1 w f a b = .num 0 :=
  C04_unrecorded_zero _ w f a b hab ha hb rfl

/-- **C04 (self pair).** A measurement with non-zero uncertainty has correlation 1 and covariance
    equal to its variance with itself, whatever the store contains. -/
theorem C04_self (s : State ℝ) (f : Form) (a : Nat) (ha : (qty s a).kind.measured = true)
    (za : (qty s a).std ≠ 0) :
    get s .corr f a a = .num 1 ∧ get s .cov f a a = .num ((qty s a).std ^ 2) := by
  have ea : (qty s a).kind.isEV = true := by
    cases h : (qty s a).kind <;> simp_all [Kind.measured, Kind.isEV]
  have hm : getMeasured s .corr a a = .num 1 ∧ getMeasured s .cov a a = .num ((qty s a).std ^ 2) := by
    simp only [getMeasured_unfold]; unfold Corr.one Num.sq
    simp [ea, ha, za, sq]
  cases f with
  | fn =>
    show getFn s .corr a a = _ ∧ getFn s .cov a a = _
    unfold getFn; simp [ea, ha, hm]
  | meth =>
    show getMeth s .corr a a = _ ∧ getMeth s .cov a a = _
    unfold getMeth; simp [ea, ha, hm]

/-! ### what an accepted request records -/

/-- **C04 (consistent).** After an accepted explicit request on two distinct measurements the
    pair reads back the requested number, and the other quantity is tied to it by
    `cov = corr · σ_a · σ_b`. -/
theorem C04_set_records (s : State ℝ) (w : Which) (f f' : Form) (a b : Nat) (x : ℝ) (hab : a ≠ b)
    (ha : (qty s a).kind.measured = true) (hb : (qty s b).kind.measured = true)
    (hok : (step s (.set w f a b (some x))).2 = .ok) :
    let s' := (step s (.set w f a b (some x))).1
    ∃ ρ c, get s' .corr f' a b = .num ρ ∧ get s' .cov f' a b = .num c ∧ |ρ| ≤ 1 ∧
      c = ρ * (qty s a).std * (qty s b).std ∧ (match w with | .corr => ρ = x | .cov => c = x) := by
  intro s'
  have hs' : s' = (setMeasured s w a b (some x)).1 := by
    show (step s (.set w f a b (some x))).1 = _
    rw [set_explicit_forms s w f a b x ha hb]
  rw [set_explicit_forms s w f a b x ha hb] at hok
  have ea : (qty s a).kind.isEV = true := by
    cases h : (qty s a).kind <;> simp_all [Kind.measured, Kind.isEV]
  have eb : (qty s b).kind.isEV = true := by
    cases h : (qty s b).kind <;> simp_all [Kind.measured, Kind.isEV]
  -- the request passed every check
  rw [setMeasured_unfold] at hok hs'
  simp only [ha, hb, ea, eb, Bool.not_true, Bool.false_eq_true, if_false] at hok hs'
  by_cases hz : (Num.isZero (qty s a).std || Num.isZero (qty s b).std) = true
  · rw [if_pos hz] at hok; cases hok
  · rw [if_neg hz] at hok hs'
    simp only [Bool.or_eq_true, not_or, Bool.not_eq_true] at hz
    have za := isZero_false hz.1
    have zb := isZero_false hz.2
    cases w with
    | cov =>
      dsimp only at hok hs'
      by_cases hr : outOfRange (Num.div x (Num.mul (qty s a).std (qty s b).std)) = true
      · rw [if_pos hr] at hok; cases hok
      · rw [if_neg hr] at hs'
        have hq : ∀ i, qty s' i = qty s i := by intro i; unfold qty; rw [hs']; rfl
        have hb1 := not_outOfRange _ (by simpa using hr)
        have hl : absStore s' (key a b) = some
            (if a ≤ b then ⟨x / ((qty s a).std * (qty s b).std), x, (qty s a).std, (qty s b).std⟩
             else ⟨x / ((qty s a).std * (qty s b).std), x, (qty s b).std, (qty s a).std⟩) := by
          unfold absStore; rw [hs']; unfold write; simp [lookup_cons]
        refine ⟨x / ((qty s a).std * (qty s b).std), x, ?_, ?_, by simpa using hb1, ?_, rfl⟩
        · rw [C04_refines_get s' .corr f' a b hab (by rw [hq]; exact ha) (by rw [hq]; exact hb)
            (by rw [hq]; exact za) (by rw [hq]; exact zb) _ hl]
          dsimp only; split <;> rfl
        · rw [C04_refines_get s' .cov f' a b hab (by rw [hq]; exact ha) (by rw [hq]; exact hb)
            (by rw [hq]; exact za) (by rw [hq]; exact zb) _ hl]
          dsimp only; split <;> rfl
        · field_simp
    | corr =>
      dsimp only at hok hs'
      by_cases hr : outOfRange x = true
      · rw [if_pos hr] at hok; cases hok
      · rw [if_neg hr] at hs'
        have hq : ∀ i, qty s' i = qty s i := by intro i; unfold qty; rw [hs']; rfl
        have hb1 := not_outOfRange _ (by simpa using hr)
        have hl : absStore s' (key a b) = some
            (if a ≤ b then ⟨x, x * ((qty s a).std * (qty s b).std), (qty s a).std, (qty s b).std⟩
             else ⟨x, x * ((qty s a).std * (qty s b).std), (qty s b).std, (qty s a).std⟩) := by
          unfold absStore; rw [hs']; unfold write; simp [lookup_cons]
        refine ⟨x, x * ((qty s a).std * (qty s b).std), ?_, ?_, hb1, by ring, rfl⟩
        · rw [C04_refines_get s' .corr f' a b hab (by rw [hq]; exact ha) (by rw [hq]; exact hb)
            (by rw [hq]; exact za) (by rw [hq]; exact zb) _ hl]
          dsimp only; split <;> rfl
        · rw [C04_refines_get s' .cov f' a b hab (by rw [hq]; exact ha) (by rw [hq]; exact hb)
            (by rw [hq]; exact za) (by rw [hq]; exact zb) _ hl]
          dsimp only; split <;> rfl

/-! ### requests that must be rejected -/

/-- every request either is rejected by a type check, or reduces to the basic request on two
    measurements with some number (the given one, or the inferred one) -/
theorem set_cases (s : State ℝ) (w : Which) (f : Form) (a b : Nat) (v : Option ℝ) :
    (step s (.set w f a b v)).2 = .reject ∨
      ∃ v', step s (.set w f a b v) = setMeasured s w a b v' := by
  have hm : (setMeth s w a b v).2 = .reject ∨ ∃ v', setMeth s w a b v = setMeasured s w a b v' := by
    unfold setMeth
    split
    · exact Or.inr ⟨v, rfl⟩
    · unfold setRepeated
      dsimp only
      split; · exact Or.inl rfl
      split; · exact Or.inl rfl
      exact Or.inr ⟨_, rfl⟩
    · exact Or.inl rfl
  cases f with
  | fn =>
    show (setFn s w a b v).2 = .reject ∨ ∃ v', setFn s w a b v = setMeasured s w a b v'
    unfold setFn
    split
    · exact Or.inl rfl
    · exact hm
  | meth => exact hm

theorem setMeasured_zero (s : State ℝ) (w : Which) (a b : Nat) (v : Option ℝ)
    (hz : (qty s a).std = 0 ∨ (qty s b).std = 0) : (setMeasured s w a b v).2 = .reject := by
  rw [setMeasured_unfold]
  dsimp only
  split; · rfl
  split; · rfl
  split; · rfl
  rename_i h
  exfalso; apply h
  simp only [num_isZero, Bool.or_eq_true, decide_eq_true_eq]
  exact hz

/-- **C04 (reject: zero uncertainty).** Any request — explicit or inferred, any form — involving
    a value with zero standard deviation is rejected. -/
theorem C04_reject_zero_sigma (s : State ℝ) (w : Which) (f : Form) (a b : Nat) (v : Option ℝ)
    (hz : (qty s a).std = 0 ∨ (qty s b).std = 0) : (step s (.set w f a b v)).2 = .reject := by
  rcases set_cases s w f a b v with h | ⟨v', h⟩
  · exact h
  · rw [h]; exact setMeasured_zero s w a b v' hz

/-- **C04 (reject: |ρ| > 1).** An explicit correlation outside [-1, 1] is rejected. -/
theorem C04_reject_corr_out_of_range (s : State ℝ) (f : Form) (a b : Nat) (x : ℝ) (hx : 1 < |x|) :
    (step s (.set .corr f a b (some x))).2 = .reject := by
  rcases set_cases s .corr f a b (some x) with h | ⟨v', h⟩
  · exact h
  · -- the number is passed through unchanged
    have hv : step s (.set .corr f a b (some x)) = setMeasured s .corr a b (some x) ∨
        (step s (.set .corr f a b (some x))).2 = .reject := by
      have hm : setMeth s .corr a b (some x) = setMeasured s .corr a b (some x) ∨
          (setMeth s .corr a b (some x)).2 = .reject := by
        unfold setMeth
        split
        · exact Or.inl rfl
        · unfold setRepeated
          dsimp only
          split; · exact Or.inr rfl
          split; · exact Or.inr rfl
          exact Or.inl rfl
        · exact Or.inr rfl
      cases f with
      | fn =>
        show setFn s .corr a b (some x) = _ ∨ (setFn s .corr a b (some x)).2 = .reject
        unfold setFn
        split
        · exact Or.inr rfl
        · exact hm
      | meth => exact hm
    rcases hv with hv | hv
    · rw [hv]
      rw [setMeasured_unfold]
      dsimp only
      split; · rfl
      split; · rfl
      split; · rfl
      rw [if_pos ((outOfRange_iff x).2 hx)]
    · exact hv

/-- **C04 (reject: covariance implying |ρ| > 1).** An explicit covariance whose quotient by the two
    standard deviations is outside [-1, 1] is rejected. -/
theorem C04_reject_cov_out_of_range (s : State ℝ) (f : Form) (a b : Nat) (x : ℝ)
    (hx : 1 < |x / ((qty s a).std * (qty s b).std)|) :
    (step s (.set .cov f a b (some x))).2 = .reject := by
  have hm : (setMeasured s .cov a b (some x)).2 = .reject := by
    rw [setMeasured_unfold]
    dsimp only
    split; · rfl
    split; · rfl
    split; · rfl
    rw [if_pos]
    exact (outOfRange_iff _).2 (by simpa using hx)
  have hmeth : (setMeth s .cov a b (some x)).2 = .reject := by
    unfold setMeth
    split
    · exact hm
    · unfold setRepeated
      dsimp only
      split; · rfl
      split; · rfl
      exact hm
    · rfl
  cases f with
  | fn =>
    show (setFn s .cov a b (some x)).2 = .reject
    unfold setFn
    split
    · rfl
    · exact hmeth
  | meth => exact hmeth

/-- **C04 (reject: calculated quantities, constants, foreign objects).** A request in which either
    operand is not a measurement is rejected (exhaustive over the kind alphabet). -/
theorem C04_reject_non_measurement (s : State ℝ) (w : Which) (f : Form) (a b : Nat) (v : Option ℝ)
    (h : (qty s a).kind.measured = false ∨ (qty s b).kind.measured = false) :
    (step s (.set w f a b v)).2 = .reject := by
  have hmeas : ∀ v', (qty s b).kind.measured = false → (setMeasured s w a b v').2 = .reject := by
    intro v' hb
    rw [setMeasured_unfold]
    dsimp only
    split; · rfl
    rw [if_pos (by simp [hb])]
  have hmeth : (setMeth s w a b v).2 = .reject := by
    unfold setMeth
    rcases h with ha | hb
    · cases hk : (qty s a).kind <;> simp_all [Kind.measured]
    · split
      · exact hmeas _ hb
      · unfold setRepeated
        dsimp only
        split; · rfl
        rw [if_pos (by simp [hb])]
      · rfl
  cases f with
  | fn =>
    show (setFn s w a b v).2 = .reject
    unfold setFn
    split
    · rfl
    · exact hmeth
  | meth => exact hmeth

/-- **C04 (reject: no number and nothing to infer from).** Without a number the request is
    rejected unless both operands are repeated measurements with equally long plain reading
    arrays. -/
theorem C04_reject_no_number (s : State ℝ) (w : Which) (f : Form) (a b : Nat)
    (h : (qty s a).kind ≠ .repeated ∨ (qty s b).kind ≠ .repeated ∨
         (qty s a).raw.length ≠ (qty s b).raw.length ∨ (qty s a).plain = false ∨
         (qty s b).plain = false) :
    (step s (.set w f a b none)).2 = .reject := by
  have hnone : (setMeasured s w a b none).2 = .reject := by
    rw [setMeasured_unfold]
    dsimp only
    split; · rfl
    split; · rfl
    split <;> rfl
  have hmeth : (setMeth s w a b none).2 = .reject := by
    unfold setMeth
    split
    · exact hnone
    · rename_i hka
      unfold setRepeated
      dsimp only
      split; · rfl
      split; · rfl
      by_cases hkb : (qty s b).kind = .repeated
      · have hi : infer (qty s a) (qty s b) w = none := by
          rw [infer_unfold]
          rcases h with h | h | h | h | h
          · exact absurd hka h
          · exact absurd hkb h
          · simp [h]
          · simp [h]
          · simp [h]
        simp only [hkb, if_true, hi]
        exact hnone
      · simp only [hkb, if_false]
        exact hnone
    · rfl
  cases f with
  | fn =>
    show (setFn s w a b none).2 = .reject
    unfold setFn
    split
    · rfl
    · exact hmeth
  | meth => exact hmeth

/-! ### inferred covariances are never rejected -/

theorem clip_bounds (x lo hi : ℝ) (h : lo ≤ hi) :
    lo ≤ Stats.clip x lo hi ∧ Stats.clip x lo hi ≤ hi := by
  unfold Stats.clip
  simp only [num_lt, decide_eq_true_eq]
  by_cases h1 : x < lo
  · simp only [h1, if_true]
    by_cases h2 : hi < lo
    · exact absurd h (not_le.mpr h2)
    · simp only [h2, if_false]; exact ⟨le_refl _, h⟩
  · simp only [h1, if_false]
    by_cases h2 : hi < x
    · simp only [h2, if_true]; exact ⟨h, le_refl _⟩
    · simp only [h2, if_false]; exact ⟨not_lt.mp h1, not_lt.mp h2⟩

/-- **C04 (inferred never rejected).** For two repeated measurements with equally long plain
    reading arrays and non-zero sample standard deviations, the request without a number is
    accepted in every form, for the covariance as well as for the correlation: the inferred number
    is inside the Cauchy–Schwarz bound (C10_cauchy_schwarz shows that the clip to the bound is the
    identity on the exact sample covariance, so what is recorded *is* the sample covariance). -/
theorem C04_inferred_never_rejected (s : State ℝ) (w : Which) (f : Form) (a b : Nat)
    (ka : (qty s a).kind = .repeated) (kb : (qty s b).kind = .repeated)
    (hl : (qty s a).raw.length = (qty s b).raw.length)
    (pa : (qty s a).plain = true) (pb : (qty s b).plain = true)
    (sa : 0 < (qty s a).std) (sb : 0 < (qty s b).std) :
    (step s (.set w f a b none)).2 = .ok := by
  have hB : 0 < (qty s a).std * (qty s b).std := mul_pos sa sb
  have hmeas : (setMeasured s w a b (infer (qty s a) (qty s b) w)).2 = .ok := by
    rw [setMeasured_unfold]
    simp only [ka, kb, Kind.isEV, Kind.measured, Bool.not_true, Bool.false_eq_true, if_false,
      num_isZero, ne_of_gt sa, ne_of_gt sb, decide_false, Bool.or_false]
    rw [infer_unfold]
    simp only [hl, pa, pb, bne_self_eq_false, Bool.not_true, Bool.or_false, Bool.false_eq_true,
      if_false, num_mul, num_neg, num_div]
    cases w with
    | cov =>
      dsimp only
      obtain ⟨h1, h2⟩ := clip_bounds (Stats.cov1 (qty s a).raw (qty s b).raw)
        (-((qty s a).std * (qty s b).std)) ((qty s a).std * (qty s b).std) (by linarith)
      rw [if_neg]
      have : |Stats.clip (Stats.cov1 (qty s a).raw (qty s b).raw)
          (-((qty s a).std * (qty s b).std)) ((qty s a).std * (qty s b).std) /
          ((qty s a).std * (qty s b).std)| ≤ 1 := by
        rw [abs_div, abs_of_pos hB, div_le_one hB, abs_le]
        exact ⟨h1, h2⟩
      intro hc
      exact absurd ((outOfRange_iff _).1 hc) (not_lt.mpr this)
    | corr =>
      dsimp only
      obtain ⟨h1, h2⟩ := clip_bounds (Stats.cov1 (qty s a).raw (qty s b).raw /
        ((qty s a).std * (qty s b).std)) (-Corr.one) Corr.one (by unfold Corr.one; simp)
      rw [if_neg]
      intro hc
      have := (outOfRange_iff _).1 hc
      rw [lt_abs] at this
      unfold Corr.one at h1 h2
      simp only [num_ofNat, Nat.cast_one] at h1 h2
      have e1 : (Corr.one : ℝ) = 1 := by unfold Corr.one; simp
      rw [e1] at this
      rcases this with h | h <;> linarith
  have hmeth : (setMeth s w a b none).2 = .ok := by
    unfold setMeth
    rw [ka]
    dsimp only
    unfold setRepeated
    simp only [kb, Kind.isEV, Kind.measured, Bool.not_true, Bool.false_eq_true, if_false, if_true]
    exact hmeas
  cases f with
  | fn =>
    show (setFn s w a b none).2 = .ok
    unfold setFn
    simp only [ka, kb, Kind.isEV, Bool.not_true, Bool.or_self, Bool.false_eq_true, if_false]
    exact hmeth
  | meth => exact hmeth

/-- **C04 with C10 (what is inferred).** For repeated measurements whose `std` is the sample
    standard deviation of their readings, the number filled in for a missing covariance is exactly
    the sample covariance of the two reading arrays and for a missing correlation exactly its
    normalised form: by Cauchy–Schwarz (`C10_inferred_accepted`) the clip to the bound is the
    identity on the exact values, it only removes rounding error in the floating-point run. -/
theorem C04_inferred_is_sample_cov (qa qb : Qty ℝ) (hl : qa.raw.length = qb.raw.length)
    (pa : qa.plain = true) (pb : qb.plain = true)
    (ha : qa.std = Stats.std1 qa.raw) (hb : qb.std = Stats.std1 qb.raw) :
    infer qa qb .cov = some (Stats.cov1 qa.raw qb.raw) ∧
    infer qa qb .corr = some (Stats.corr qa.raw qb.raw) := by
  obtain ⟨_, h2, h3⟩ := C10_inferred_accepted qa.raw qb.raw hl
  have e1 : (Corr.one : ℝ) = 1 := by unfold Corr.one; simp
  simp only [infer_unfold]
  simp only [hl, pa, pb, bne_self_eq_false, Bool.not_true, Bool.or_false, Bool.false_eq_true,
    if_false, num_mul, num_neg, num_div, ha, hb, e1]
  refine ⟨by rw [h2], ?_⟩
  rw [h3]
  rfl

/-! ### non-vacuity: a concrete history -/

/-- two single measurements (σ = 1/2 and 3/10), a derived value -/
noncomputable def exQs : List (Qty ℝ) :=
  [⟨.single, 1 / 2, [], true⟩, ⟨.single, 3 / 10, [], true⟩, ⟨.derived, 0, [], true⟩]

/-- the hypotheses of the theorems above are satisfiable: a correlation 9/10 between the two
    measurements is accepted, 3/2 is rejected, and so is any request on the derived value -/
example : (step (⟨exQs, []⟩ : State ℝ) (.set .corr .fn 0 1 (some (9 / 10)))).2 = .ok := by
  have h : outOfRange (9 / 10 : ℝ) = false := by
    have : ¬ (1 < |(9 / 10 : ℝ)|) := by rw [abs_of_pos (by norm_num)]; norm_num
    cases hc : outOfRange (9 / 10 : ℝ)
    · rfl
    · exact absurd ((outOfRange_iff _).1 hc) this
  show (setFn _ _ _ _ _).2 = _
  unfold setFn setMeth; rw [setMeasured_unfold]; unfold qty exQs
  simp [Kind.isEV, Kind.measured, h]

example : (step (⟨exQs, []⟩ : State ℝ) (.set .corr .fn 0 1 (some (3 / 2)))).2 = .reject :=
  C04_reject_corr_out_of_range _ _ _ _ _ (by rw [abs_of_pos (by norm_num)]; norm_num)

example : (step (⟨exQs, []⟩ : State ℝ) (.set .cov .meth 0 2 (some 0))).2 = .reject :=
  C04_reject_non_measurement _ _ _ _ _ _ (Or.inr (by simp [qty, exQs, Kind.measured]))

end QExPy

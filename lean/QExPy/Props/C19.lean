/-
  C19 — what is drawn equals the data.

  Theorems about the render model `Model/Plot.lean`, over ℝ.  matplotlib and numpy.histogram
  are not modelled: that the real artists are `render`'s draw commands is the correspondence
  run (vf/props/c19.py).
-/
import QExPy.Model.Plot
import QExPy.Real
namespace QExPy.Plot
open QExPy.Expr

/-! ### x-range masking -/

theorem inRange_iff (lo hi x : ℝ) : inRange lo hi x = true ↔ lo ≤ x ∧ x < hi := by
  -- the regenerated element test of the x-range mask, in whatever spelling
  simp only [inRange, Gen.plotInRange, num_le, num_lt, Bool.and_eq_true, Bool.or_eq_true,
    Bool.not_eq_true', Bool.not_eq_eq_eq_not, Bool.not_true, decide_eq_true_eq,
    decide_eq_false_iff_not] <;>
  first | exact Iff.rfl | grind

/-- masking the four arrays one by one with the mask computed from x = filtering the rows -/
theorem mask_zip4 (p : ℝ → Bool) :
    ∀ (xs ys xe ye : List ℝ), xs.length = ys.length → xs.length = xe.length →
      xs.length = ye.length →
      Fit.zip4 (maskBy (xs.map p) xs) (maskBy (xs.map p) ys) (maskBy (xs.map p) xe)
          (maskBy (xs.map p) ye)
        = (Fit.zip4 xs ys xe ye).filter (fun r => p r.1) := by
  intro xs
  induction xs with
  | nil => intro ys xe ye _ _ _; simp [maskBy, Fit.zip4]
  | cons x xs ih =>
    intro ys xe ye h1 h2 h3
    cases ys with
    | nil => simp at h1
    | cons y ys =>
      cases xe with
      | nil => simp at h2
      | cons a xe =>
        cases ye with
        | nil => simp at h3
        | cons b ye =>
          simp only [List.length_cons, Nat.add_right_cancel_iff] at h1 h2 h3
          have := ih ys xe ye h1 h2 h3
          by_cases hp : p x = true
          · simp [maskBy, Fit.zip4, hp, this]
          · simp [maskBy, Fit.zip4, hp, this]

/-- **C19, "restricted to the points with low <= x < high".** With an x-range, the rows
    (x, y, xerr, yerr) that are drawn are exactly the rows of the data with `lo ≤ x < hi`:
    the four arrays are filtered alike, membership is "in the data and inside the range", and
    the order of the data is kept. -/
theorem C19_mask (d : DataSet ℝ) (lo hi : ℝ) (hr : d.range = some (lo, hi))
    (h1 : d.xs.length = d.ys.length) (h2 : d.xs.length = d.xerr.length)
    (h3 : d.xs.length = d.yerr.length) :
    Fit.zip4 d.vx d.vy d.vxerr d.vyerr
        = (Fit.zip4 d.xs d.ys d.xerr d.yerr).filter (fun r => decide (lo ≤ r.1 ∧ r.1 < hi)) ∧
    (∀ r, r ∈ Fit.zip4 d.vx d.vy d.vxerr d.vyerr ↔
        r ∈ Fit.zip4 d.xs d.ys d.xerr d.yerr ∧ lo ≤ r.1 ∧ r.1 < hi) ∧
    (Fit.zip4 d.vx d.vy d.vxerr d.vyerr).Sublist (Fit.zip4 d.xs d.ys d.xerr d.yerr) := by
  have hm : d.mask = some (d.xs.map (inRange lo hi)) := by simp [DataSet.mask, hr]
  have key : Fit.zip4 d.vx d.vy d.vxerr d.vyerr
      = (Fit.zip4 d.xs d.ys d.xerr d.yerr).filter (fun r => inRange lo hi r.1) := by
    simp only [DataSet.vx, DataSet.vy, DataSet.vxerr, DataSet.vyerr, DataSet.sel, hm]
    exact mask_zip4 (inRange lo hi) d.xs d.ys d.xerr d.yerr h1 h2 h3
  have hf : (fun r : ℝ × ℝ × ℝ × ℝ => inRange lo hi r.1) = fun r => decide (lo ≤ r.1 ∧ r.1 < hi) := by
    funext r
    by_cases h : lo ≤ r.1 ∧ r.1 < hi
    · simp [h, (inRange_iff lo hi r.1).2 h]
    · have : inRange lo hi r.1 = false := by
        cases hh : inRange lo hi r.1
        · rfl
        · exact absurd ((inRange_iff _ _ _).1 hh) h
      simp [h, this]
  rw [hf] at key
  refine ⟨key, ?_, ?_⟩
  · intro r; rw [key]; simp [List.mem_filter]
  · rw [key]; exact List.filter_sublist

/-- without an x-range every point is drawn -/
theorem C19_mask_none (d : DataSet ℝ) (hr : d.range = none) :
    d.vx = d.xs ∧ d.vy = d.ys ∧ d.vxerr = d.xerr ∧ d.vyerr = d.yerr := by
  simp [DataSet.vx, DataSet.vy, DataSet.vxerr, DataSet.vyerr, DataSet.sel, DataSet.mask, hr]

/-- a data set is drawn at its (masked) central values, with error bars equal to its (masked)
    uncertainties when error bars are on -/
theorem C19_dataset_draw (d : DataSet ℝ) (ax : Ax) :
    d.draw ax true = [.errorbars ax d.vx d.vy d.vyerr d.vxerr] ∧
    d.draw ax false = [.points ax d.vx d.vy] := by
  simp [DataSet.draw]

/-! ### sampling of functions -/

/-- **C19, function sampling.** 100 points, the i-th at `a + i (b - a) / 99`, first `a`, last `b` -/
theorem C19_linspace (a b : ℝ) :
    (linspace a b 100).length = 100 ∧
    (∀ i : ℕ, i < 100 → (linspace a b 100)[i]? = some (a + (i : ℝ) * (b - a) / 99)) ∧
    (linspace a b 100).head? = some a ∧ (linspace a b 100).getLast? = some b := by
  have hi : ∀ i : ℕ, i < 100 → (linspace a b 100)[i]? = some (a + (i : ℝ) * (b - a) / 99) := by
    intro i hi
    unfold linspace
    rw [List.getElem?_map, List.getElem?_range hi]
    simp only [Option.map_some]
    by_cases h : i + 1 = 100
    · have : i = 99 := by omega
      subst this
      simp only
      congr 1
      push_cast
      ring
    · simp only [if_neg h, num_add, num_mul, num_div, num_sub, num_ofNat]
      congr 1
      push_cast
      ring
  refine ⟨by simp [linspace], hi, ?_, ?_⟩
  · have := hi 0 (by norm_num)
    rw [List.head?_eq_getElem?, this]; simp
  · have := hi 99 (by norm_num)
    rw [List.getLast?_eq_getElem?]
    simp only [linspace, List.length_map, List.length_range] at this ⊢
    rw [this]
    congr 1
    push_cast
    ring

/-- general form: `n ≥ 2` points -/
theorem linspace_get (a b : ℝ) (n i : ℕ) (hn : 2 ≤ n) (hi : i < n) :
    (linspace a b n)[i]? = some (a + i * (b - a) / ((n : ℝ) - 1)) := by
  unfold linspace
  rw [List.getElem?_map, List.getElem?_range hi]
  simp only [Option.map_some]
  have hn1 : ((n : ℝ) - 1) ≠ 0 := by
    have : (2 : ℝ) ≤ n := by exact_mod_cast hn
    linarith
  by_cases h : i + 1 = n
  · simp only [if_pos h]
    congr 1
    have : (i : ℝ) = (n : ℝ) - 1 := by
      have : (i : ℝ) + 1 = n := by exact_mod_cast h
      linarith
    rw [this]; field_simp; ring
  · simp only [if_neg h, num_add, num_mul, num_div, num_sub, num_ofNat]
    congr 1
    have : ((n - 1 : ℕ) : ℝ) = (n : ℝ) - 1 := by
      rw [Nat.cast_sub (by omega)]; simp
    rw [this]; ring

/-- **C19, "every function is drawn as f evaluated on its own x-range if one was given and
    otherwise on the plot's x-domain"**, and the band is `y ± err`: the curve's abscissae are
    `linspace` of that range, its ordinates the function's central values there, the band's
    edges value ∓ uncertainty at the same abscissae; no band with error bars off. -/
theorem C19_band (f : Func ℝ) (dom : Option (ℝ × ℝ)) (r : ℝ × ℝ) (h : f.useRange dom = some r) :
    let xs := linspace r.1 r.2 100
    f.draw true dom = [.curve xs (xs.map fun x => (f.valErr x).1),
      .band xs (xs.map fun x => (f.valErr x).1 - (f.valErr x).2)
               (xs.map fun x => (f.valErr x).1 + (f.valErr x).2)] ∧
    f.draw false dom = [.curve xs (xs.map fun x => (f.valErr x).1)] := by
  simp [Func.draw, h, Func.xsOn, Gen.plotCurvePoints, List.map_map, Function.comp_def]

/-- the range a function is sampled on: its own when given, else the plot's domain -/
theorem C19_function_range (f : Func ℝ) (dom : Option (ℝ × ℝ)) :
    (∀ r, f.range = some r → f.useRange dom = some r) ∧ (f.range = none → f.useRange dom = dom) := by
  constructor
  · intro r h; simp [Func.useRange, h]
  · intro h; simp [Func.useRange, h]

/-- the curve's ordinate is the formula evaluated at x and the parameters' central values -/
theorem C19_curve_value (f : Func ℝ) (x : ℝ) :
    (f.valErr x).1 = Expr.eval (fun k => if k = 0 then x else f.env k) f.f := rfl

/-! ### plot domain -/

theorem min2_eq (a b : ℝ) : min2 a b = min a b := by
  unfold min2; simp only [num_le]
  by_cases h : a ≤ b <;> simp [h, min_def]

theorem max2_eq (a b : ℝ) : max2 a b = max a b := by
  unfold max2; simp only [num_le]
  by_cases h : a ≤ b <;> simp [h, max_def]

theorem foldl_min2_spec (l : List ℝ) (x : ℝ) :
    (l.foldl min2 x ∈ x :: l) ∧ ∀ y ∈ x :: l, l.foldl min2 x ≤ y := by
  induction l generalizing x with
  | nil => simp
  | cons a l ih =>
    simp only [List.foldl_cons]
    obtain ⟨hm, hle⟩ := ih (min2 x a)
    rw [min2_eq] at hm hle ⊢
    constructor
    · rcases List.mem_cons.1 hm with h | h
      · rw [h]
        rcases min_choice x a with h' | h' <;> simp [h']
      · simp [h]
    · intro y hy
      have h0 := hle (min x a) (by simp)
      rcases List.mem_cons.1 hy with h | h
      · subst h; exact le_trans h0 (min_le_left _ _)
      · rcases List.mem_cons.1 h with h | h
        · subst h; exact le_trans h0 (min_le_right _ _)
        · exact hle y (by simp [h])

theorem foldl_max2_spec (l : List ℝ) (x : ℝ) :
    (l.foldl max2 x ∈ x :: l) ∧ ∀ y ∈ x :: l, y ≤ l.foldl max2 x := by
  induction l generalizing x with
  | nil => simp
  | cons a l ih =>
    simp only [List.foldl_cons]
    obtain ⟨hm, hle⟩ := ih (max2 x a)
    rw [max2_eq] at hm hle ⊢
    constructor
    · rcases List.mem_cons.1 hm with h | h
      · rw [h]
        rcases max_choice x a with h' | h' <;> simp [h']
      · simp [h]
    · intro y hy
      have h0 := hle (max x a) (by simp)
      rcases List.mem_cons.1 hy with h | h
      · subst h; exact le_trans (le_max_left _ _) h0
      · rcases List.mem_cons.1 h with h | h
        · subst h; exact le_trans (le_max_right _ _) h0
        · exact hle y (by simp [h])

theorem minL_spec (l : List ℝ) (m : ℝ) (h : minL l = some m) : m ∈ l ∧ ∀ y ∈ l, m ≤ y := by
  cases l with
  | nil => simp [minL] at h
  | cons x xs =>
    simp only [minL, Option.some.injEq] at h
    subst h
    exact foldl_min2_spec xs x

theorem maxL_spec (l : List ℝ) (m : ℝ) (h : maxL l = some m) : m ∈ l ∧ ∀ y ∈ l, y ≤ m := by
  cases l with
  | nil => simp [maxL] at h
  | cons x xs =>
    simp only [maxL, Option.some.injEq] at h
    subst h
    exact foldl_max2_spec xs x

/-- **C19, "the plot's x-domain".** Without `plot.xrange`, the domain is (the smallest low, the
    largest high) over the objects that have a range: it contains every such range and both
    bounds are attained; a range set on the plot wins. -/
theorem C19_domain (p : Plot ℝ) :
    (∀ r, p.xrange = some r → p.domain = some r) ∧
    (p.xrange = none → ∀ lo hi, p.domain = some (lo, hi) →
      (∀ o ∈ p.objs, ∀ r, o.xrange = some r → lo ≤ r.1 ∧ r.2 ≤ hi) ∧
      (∃ o ∈ p.objs, ∃ r, o.xrange = some r ∧ r.1 = lo) ∧
      (∃ o ∈ p.objs, ∃ r, o.xrange = some r ∧ r.2 = hi)) := by
  constructor
  · intro r h; simp [Plot.domain, h]
  · intro hx lo hi hd
    simp only [Plot.domain, hx] at hd
    cases hlo : minL ((p.objs.filterMap Obj.xrange).map (·.1)) with
    | none => simp [hlo] at hd
    | some lo' =>
      cases hhi : maxL ((p.objs.filterMap Obj.xrange).map (·.2)) with
      | none => simp [hlo, hhi] at hd
      | some hi' =>
        simp only [hlo, hhi, Option.some.injEq, Prod.mk.injEq] at hd
        obtain ⟨rfl, rfl⟩ := hd
        obtain ⟨hml, hll⟩ := minL_spec _ _ hlo
        obtain ⟨hmh, hlh⟩ := maxL_spec _ _ hhi
        refine ⟨?_, ?_, ?_⟩
        · intro o ho r hr
          have hmem : r ∈ p.objs.filterMap Obj.xrange := List.mem_filterMap.2 ⟨o, ho, hr⟩
          exact ⟨hll r.1 (List.mem_map.2 ⟨r, hmem, rfl⟩), hlh r.2 (List.mem_map.2 ⟨r, hmem, rfl⟩)⟩
        · obtain ⟨r, hr, hr1⟩ := List.mem_map.1 hml
          obtain ⟨o, ho, hor⟩ := List.mem_filterMap.1 hr
          exact ⟨o, ho, r, hor, hr1⟩
        · obtain ⟨r, hr, hr1⟩ := List.mem_map.1 hmh
          obtain ⟨o, ho, hor⟩ := List.mem_filterMap.1 hr
          exact ⟨o, ho, r, hor, hr1⟩

/-! ### order independence -/

theorem minL_perm (l l' : List ℝ) (h : l.Perm l') : minL l = minL l' := by
  cases hl : minL l with
  | none =>
    cases l with
    | nil => have := h.symm.eq_nil; subst this; rfl
    | cons x xs => simp [minL] at hl
  | some m =>
    obtain ⟨hm, hle⟩ := minL_spec l m hl
    cases hl' : minL l' with
    | none =>
      cases l' with
      | nil => have := h.eq_nil; subst this; simp at hm
      | cons x xs => simp [minL] at hl'
    | some m' =>
      obtain ⟨hm', hle'⟩ := minL_spec l' m' hl'
      have h1 : m ≤ m' := hle m' (h.symm.subset hm')
      have h2 : m' ≤ m := hle' m (h.subset hm)
      rw [le_antisymm h1 h2]

theorem maxL_perm (l l' : List ℝ) (h : l.Perm l') : maxL l = maxL l' := by
  cases hl : maxL l with
  | none =>
    cases l with
    | nil => have := h.symm.eq_nil; subst this; rfl
    | cons x xs => simp [maxL] at hl
  | some m =>
    obtain ⟨hm, hle⟩ := maxL_spec l m hl
    cases hl' : maxL l' with
    | none =>
      cases l' with
      | nil => have := h.eq_nil; subst this; simp at hm
      | cons x xs => simp [maxL] at hl'
    | some m' =>
      obtain ⟨hm', hle'⟩ := maxL_spec l' m' hl'
      have h1 : m' ≤ m := hle m' (h.symm.subset hm')
      have h2 : m ≤ m' := hle' m (h.subset hm)
      rw [le_antisymm h2 h1]

/-- **C19, "all orders of adding objects".** Adding the same objects in another order leaves the
    plot's x-domain unchanged, hence every object is drawn with exactly the same commands, and
    the plot's object commands are the same up to the order of the objects. (An object's
    commands depend on the other objects only through the domain: `Obj.draw` takes nothing else.) -/
theorem C19_order_independent (p p' : Plot ℝ) (hperm : p.objs.Perm p'.objs)
    (he : p'.errorBars = p.errorBars) (hres : p'.residuals = p.residuals)
    (hx : p'.xrange = p.xrange) :
    p'.domain = p.domain ∧
    (∀ o, Obj.draw p'.errorBars p'.residuals p'.domain o = Obj.draw p.errorBars p.residuals p.domain o) ∧
    p'.objectCmds.Perm p.objectCmds := by
  have hd : p'.domain = p.domain := by
    unfold Plot.domain
    rw [hx]
    have hf : (p'.objs.filterMap Obj.xrange).Perm (p.objs.filterMap Obj.xrange) :=
      hperm.symm.filterMap _
    have e1 := minL_perm _ _ (hf.map (fun x : ℝ × ℝ => x.1))
    have e2 := maxL_perm _ _ (hf.map (fun x : ℝ × ℝ => x.2))
    cases p.xrange with
    | some r => rfl
    | none =>
      dsimp only
      rw [e1, e2]
  refine ⟨hd, fun o => by rw [hd, he, hres], ?_⟩
  unfold Plot.objectCmds
  rw [hd, he, hres]
  exact hperm.symm.flatMap_right _

/-! ### fits -/

/-- **C19, "the residuals panel showing exactly the fit's residuals".** The residual of a point
    is `y - f(x)` at the fitted parameters' central values; the panel shows all the fitted data
    set's abscissae against these, on the residual axes, only when the switch is on. -/
theorem C19_residual_panel (r : Fit ℝ) (eb : Bool) :
    (∀ x xe y ye, (r.residual x xe y ye).1
        = y - Expr.eval (fun k => if k = 0 then x else if k = Fit.yVar then y else r.fn.env k) r.fn.f) ∧
    r.draw eb true = r.fn.draw eb none ++ r.residualSet.draw .res eb ∧
    r.draw eb false = r.fn.draw eb none ∧
    r.residualSet.xs = r.data.xs ∧ r.residualSet.ys = r.residuals.map (·.1) ∧
    r.residualSet.range = none := by
  refine ⟨?_, by simp [Fit.draw], by simp [Fit.draw], rfl, rfl, rfl⟩
  intro x xe y ye
  simp [Fit.residual, Expr.propagate, Expr.eval, Gen.op2, Fit.yVar]

/-! ### histograms -/

theorem countP_split (ss : List ℝ) (p q r : ℝ → Bool)
    (h : ∀ s, r s = true ↔ (p s = true ∨ q s = true)) (hd : ∀ s, ¬(p s = true ∧ q s = true)) :
    ss.countP p + ss.countP q = ss.countP r := by
  induction ss with
  | nil => simp
  | cons s ss ih =>
    simp only [List.countP_cons]
    have h1 := h s
    have h2 := hd s
    cases hp : p s <;> cases hq : q s <;> cases hr : r s <;> simp_all <;> omega

theorem counts_total (ss : List ℝ) :
    ∀ (rest : List ℝ) (a b : ℝ), List.Pairwise (· ≤ ·) (a :: b :: rest) →
      (Hist.counts ss (a :: b :: rest)).sum
        = ss.countP (fun s => decide (a ≤ s ∧ s ≤ (a :: b :: rest).getLast (by simp))) ∧
      (Hist.counts ss (a :: b :: rest)).length = (b :: rest).length := by
  intro rest
  induction rest with
  | nil =>
    intro a b _
    simp [Hist.counts, Hist.countIn]
  | cons c rest ih =>
    intro a b hp
    have hp' : List.Pairwise (· ≤ ·) (b :: c :: rest) := (List.pairwise_cons.1 hp).2
    obtain ⟨ihs, ihl⟩ := ih b c hp'
    have hab : a ≤ b := (List.pairwise_cons.1 hp).1 b (by simp)
    have hlast : (a :: b :: c :: rest).getLast (by simp) = (b :: c :: rest).getLast (by simp) := by
      simp [List.getLast_cons]
    have hbl : b ≤ (b :: c :: rest).getLast (by simp) := by
      have hmem : (b :: c :: rest).getLast (by simp) ∈ b :: c :: rest := List.getLast_mem _
      rcases List.mem_cons.1 hmem with h | h
      · rw [h]
      · exact (List.pairwise_cons.1 hp').1 _ h
    constructor
    · show (Hist.countIn false a b ss :: Hist.counts ss (b :: c :: rest)).sum = _
      rw [List.sum_cons, ihs, hlast]
      unfold Hist.countIn
      simp only [num_le, num_lt, Bool.false_eq_true, if_false]
      set L := (b :: c :: rest).getLast (by simp) with hL
      apply countP_split
      · intro s
        simp only [Bool.and_eq_true, decide_eq_true_eq]
        constructor
        · rintro ⟨h1, h2⟩
          by_cases hsb : s < b
          · exact Or.inl ⟨h1, hsb⟩
          · exact Or.inr ⟨not_lt.1 hsb, h2⟩
        · rintro (⟨h1, h2⟩ | ⟨h1, h2⟩)
          · exact ⟨h1, le_trans (le_of_lt h2) hbl⟩
          · exact ⟨le_trans hab h1, h2⟩
      · intro s
        simp only [Bool.and_eq_true, decide_eq_true_eq]
        rintro ⟨⟨_, h2⟩, ⟨h3, _⟩⟩
        exact absurd h2 (not_lt.2 h3)
    · show (Hist.countIn false a b ss :: Hist.counts ss (b :: c :: rest)).length = _
      simp [ihl]

theorem counts_length (ss : List ℝ) :
    ∀ (rest : List ℝ) (a b : ℝ), (Hist.counts ss (a :: b :: rest)).length = (b :: rest).length := by
  intro rest
  induction rest with
  | nil => intro a b; simp [Hist.counts]
  | cons c rest ih =>
    intro a b
    show (Hist.countIn false a b ss :: Hist.counts ss (b :: c :: rest)).length = _
    simp [ih b c]

/-- **C19, "a histogram's bars are the bin counts of its samples, which are also the values
    returned to the caller".** The bars drawn are the very pair returned by `hist`; without
    `weights` / `density` they are the bin counts; there is one bar per bin; and for increasing
    edges the counts add up to the number of samples inside `[first edge, last edge]` (no sample
    in range is lost or counted twice). -/
theorem C19_hist (h : Hist ℝ) :
    h.draw = [.bars h.returned.1 h.returned.2] ∧
    (h.weights = none → h.density = false →
      h.returned.1 = (Hist.counts h.samples h.edges).map (fun n : ℕ => (n : ℝ))) ∧
    (∀ a b rest, h.edges = a :: b :: rest → List.Pairwise (· ≤ ·) h.edges →
      (Hist.counts h.samples h.edges).length + 1 = h.edges.length ∧
      (Hist.counts h.samples h.edges).sum
        = h.samples.countP (fun s => decide (a ≤ s ∧ s ≤ (a :: b :: rest).getLast (by simp)))) := by
  refine ⟨rfl, ?_, ?_⟩
  · intro hw hd
    simp [Hist.returned, Hist.heights, Hist.binValues, hw, hd]
  · intro a b rest he hp
    rw [he] at hp
    obtain ⟨hs, hl⟩ := counts_total h.samples rest a b hp
    simp only [he]
    exact ⟨by simp [hl], hs⟩

/-! ### weighted and normalised histograms -/

theorem total_eq_sum (l : List ℝ) : Hist.total l = l.sum := by
  induction l with
  | nil => simp [Hist.total]
  | cons x xs ih => simp [Hist.total, ih]

/-- the weighted count of a bin is the sum of the weights of the samples that fall into it -/
theorem wsumIn_eq (last : Bool) (a b : ℝ) (sw : List (ℝ × ℝ)) :
    Hist.wsumIn last a b sw
      = ((sw.filter fun p => decide (a ≤ p.1 ∧ (if last then p.1 ≤ b else p.1 < b))).map (·.2)).sum := by
  induction sw with
  | nil => simp [Hist.wsumIn]
  | cons p sw ih =>
    obtain ⟨s, w⟩ := p
    cases last <;> by_cases h1 : a ≤ s
    · by_cases h2 : s < b <;> simp [Hist.wsumIn, h1, h2, ih]
    · simp [Hist.wsumIn, h1, ih]
    · by_cases h2 : s ≤ b <;> simp [Hist.wsumIn, h1, h2, ih]
    · simp [Hist.wsumIn, h1, ih]

theorem wsumIn_split (sw : List (ℝ × ℝ)) (a b L : ℝ) (hab : a ≤ b) (hbL : b ≤ L) :
    Hist.wsumIn false a b sw + Hist.wsumIn true b L sw = Hist.wsumIn true a L sw := by
  induction sw with
  | nil => simp [Hist.wsumIn]
  | cons p sw ih =>
    obtain ⟨s, w⟩ := p
    by_cases h1 : a ≤ s <;> by_cases h2 : s < b <;> by_cases h3 : s ≤ L <;> by_cases h4 : b ≤ s <;>
      simp [Hist.wsumIn, h1, h2, h3, h4] <;> linarith

theorem wcounts_total (sw : List (ℝ × ℝ)) :
    ∀ (rest : List ℝ) (a b : ℝ), List.Pairwise (· ≤ ·) (a :: b :: rest) →
      (Hist.wcounts sw (a :: b :: rest)).sum
        = Hist.wsumIn true a ((a :: b :: rest).getLast (by simp)) sw ∧
      (Hist.wcounts sw (a :: b :: rest)).length = (b :: rest).length := by
  intro rest
  induction rest with
  | nil =>
    intro a b _
    simp [Hist.wcounts]
  | cons c rest ih =>
    intro a b hp
    have hp' : List.Pairwise (· ≤ ·) (b :: c :: rest) := (List.pairwise_cons.1 hp).2
    obtain ⟨ihs, ihl⟩ := ih b c hp'
    have hab : a ≤ b := (List.pairwise_cons.1 hp).1 b (by simp)
    have hlast : (a :: b :: c :: rest).getLast (by simp) = (b :: c :: rest).getLast (by simp) := by
      simp [List.getLast_cons]
    have hbl : b ≤ (b :: c :: rest).getLast (by simp) := by
      have hmem : (b :: c :: rest).getLast (by simp) ∈ b :: c :: rest := List.getLast_mem _
      rcases List.mem_cons.1 hmem with h | h
      · rw [h]
      · exact (List.pairwise_cons.1 hp').1 _ h
    constructor
    · show (Hist.wsumIn false a b sw :: Hist.wcounts sw (b :: c :: rest)).sum = _
      rw [List.sum_cons, ihs, hlast]
      exact wsumIn_split sw a b _ hab hbl
    · show (Hist.wsumIn false a b sw :: Hist.wcounts sw (b :: c :: rest)).length = _
      simp [ihl]

/-- **C19, histogram with `weights=`.** Each bar is the sum of the weights of the samples in its
    bin; there is one bar per bin; and for increasing edges the bars add up to the sum of the
    weights of the samples inside `[first edge, last edge]` (no weight is lost or counted twice). -/
theorem C19_hist_weights (h : Hist ℝ) (ws : List ℝ) (hw : h.weights = some ws) (hd : h.density = false) :
    h.returned.1 = Hist.wcounts (h.samples.zip ws) h.edges ∧
    (∀ a b rest, h.edges = a :: b :: rest → List.Pairwise (· ≤ ·) h.edges →
      h.returned.1.length + 1 = h.edges.length ∧
      h.returned.1.sum = (((h.samples.zip ws).filter fun p =>
          decide (a ≤ p.1 ∧ p.1 ≤ (a :: b :: rest).getLast (by simp))).map (·.2)).sum) := by
  have hr : h.returned.1 = Hist.wcounts (h.samples.zip ws) h.edges := by
    simp [Hist.returned, Hist.heights, Hist.binValues, hw, hd]
  refine ⟨hr, ?_⟩
  intro a b rest he hp
  rw [he] at hp
  obtain ⟨hs, hl⟩ := wcounts_total (h.samples.zip ws) rest a b hp
  rw [hr, he]
  refine ⟨by simp [hl], ?_⟩
  rw [hs, wsumIn_eq]
  simp

theorem wsumIn_ones (last : Bool) (a b : ℝ) (ss : List ℝ) :
    Hist.wsumIn last a b (ss.map fun s => (s, (1 : ℝ))) = (Hist.countIn last a b ss : ℝ) := by
  induction ss with
  | nil => simp [Hist.wsumIn, Hist.countIn]
  | cons s ss ih =>
    unfold Hist.countIn at ih ⊢
    rw [List.map_cons, List.countP_cons]
    unfold Hist.wsumIn
    rw [ih]
    split_ifs <;> (try simp only [num_add]) <;> push_cast <;> ring

/-- weights all equal to one give the plain counts (so `C19_hist`'s total applies) -/
theorem C19_hist_unit_weights (ss es : List ℝ) :
    Hist.wcounts (ss.map fun s => (s, (1 : ℝ))) es = (Hist.counts ss es).map (fun n : ℕ => (n : ℝ)) := by
  induction es with
  | nil => simp [Hist.wcounts, Hist.counts]
  | cons a es ih =>
    cases es with
    | nil => simp [Hist.wcounts, Hist.counts]
    | cons b rest =>
      cases rest with
      | nil => simp [Hist.wcounts, Hist.counts, wsumIn_ones]
      | cons c rest =>
        show Hist.wsumIn false a b _ :: Hist.wcounts _ (b :: c :: rest)
          = (Hist.countIn false a b ss :: Hist.counts ss (b :: c :: rest)).map _
        rw [ih, wsumIn_ones]; simp

theorem wcounts_length (sw : List (ℝ × ℝ)) :
    ∀ (rest : List ℝ) (a b : ℝ), (Hist.wcounts sw (a :: b :: rest)).length = (b :: rest).length := by
  intro rest
  induction rest with
  | nil => intro a b; simp [Hist.wcounts]
  | cons c rest ih =>
    intro a b
    show (Hist.wsumIn false a b sw :: Hist.wcounts sw (b :: c :: rest)).length = _
    simp [ih b c]

theorem widths_spec : ∀ (rest : List ℝ) (a b : ℝ),
    (Hist.widths (a :: b :: rest)).length = (b :: rest).length ∧
    (List.Pairwise (· < ·) (a :: b :: rest) → ∀ w ∈ Hist.widths (a :: b :: rest), 0 < w) := by
  intro rest
  induction rest with
  | nil =>
    intro a b
    refine ⟨by simp [Hist.widths], ?_⟩
    intro hp w hw
    have hab : a < b := (List.pairwise_cons.1 hp).1 b (by simp)
    simp only [Hist.widths, num_sub, List.mem_singleton] at hw
    rw [hw]; linarith
  | cons c rest ih =>
    intro a b
    obtain ⟨il, ip⟩ := ih b c
    refine ⟨by simp [Hist.widths] at il ⊢; exact il, ?_⟩
    intro hp w hw
    have hab : a < b := (List.pairwise_cons.1 hp).1 b (by simp)
    have hp' := (List.pairwise_cons.1 hp).2
    simp only [Hist.widths, num_sub, List.mem_cons] at hw
    rcases hw with hw | hw
    · rw [hw]; linarith
    · exact ip hp' w (by simpa [Hist.widths] using hw)

theorem density_sum (T : ℝ) : ∀ (vals ws : List ℝ), vals.length = ws.length → (∀ w ∈ ws, w ≠ 0) →
    (List.zipWith (· * ·) (List.zipWith (fun v w => v / w / T) vals ws) ws).sum = vals.sum / T := by
  intro vals
  induction vals with
  | nil => intro ws _ _; simp
  | cons v vals ih =>
    intro ws hl hw
    cases ws with
    | nil => simp at hl
    | cons w ws =>
      have hw0 : w ≠ 0 := hw w (by simp)
      have := ih ws (by simpa using hl) (fun x hx => hw x (by simp [hx]))
      simp only [List.zipWith_cons_cons, List.sum_cons, this]
      field_simp

/-- **C19, histogram with `density=True`.** Each bar is its bin value (count, resp. sum of weights)
    divided by the bin width and by the total of all bin values; for strictly increasing edges and
    a non-zero total (some sample in range) the bars integrate to one: Σ height·width = 1. -/
theorem C19_hist_density (h : Hist ℝ) (hd : h.density = true) :
    h.returned.1 = List.zipWith (fun v w => v / w / h.binValues.sum) h.binValues (Hist.widths h.edges) ∧
    (List.Pairwise (· < ·) h.edges → h.binValues.sum ≠ 0 →
      h.returned.1.length + 1 = h.edges.length ∧
      (List.zipWith (· * ·) h.returned.1 (Hist.widths h.edges)).sum = 1) := by
  have hr : h.returned.1
      = List.zipWith (fun v w => v / w / h.binValues.sum) h.binValues (Hist.widths h.edges) := by
    simp [Hist.returned, Hist.heights, hd, Hist.densityOf, total_eq_sum]
  refine ⟨hr, ?_⟩
  intro hp ht
  have hlen : ∀ a b rest, h.edges = a :: b :: rest → h.binValues.length = (b :: rest).length := by
    intro a b rest he
    unfold Hist.binValues
    cases h.weights with
    | none => simp only [he, List.length_map]; exact counts_length h.samples rest a b
    | some ws => simp only [he]; exact wcounts_length _ rest a b
  cases he : h.edges with
  | nil =>
    exfalso; apply ht
    unfold Hist.binValues; cases h.weights <;> simp [he, Hist.counts, Hist.wcounts]
  | cons a es =>
    cases es with
    | nil =>
      exfalso; apply ht
      unfold Hist.binValues; cases h.weights <;> simp [he, Hist.counts, Hist.wcounts]
    | cons b rest =>
      have hl := hlen a b rest he
      obtain ⟨wl, wp⟩ := widths_spec rest a b
      rw [he] at hp
      have hne : ∀ w ∈ Hist.widths (a :: b :: rest), w ≠ 0 := fun w hw => ne_of_gt (wp hp w hw)
      rw [hr, he]
      refine ⟨?_, ?_⟩
      · simp [List.length_zipWith, hl, wl]
      · rw [density_sum _ _ _ (by rw [hl, wl]) hne]
        exact div_self ht

/-! ### labels -/

theorem firstNonEmpty_spec (l : List String) :
    (firstNonEmpty l = "" ↔ ∀ s ∈ l, s = "") ∧
    (firstNonEmpty l ≠ "" → ∃ l1 l2, l = l1 ++ firstNonEmpty l :: l2 ∧ ∀ s ∈ l1, s = "") := by
  induction l with
  | nil => simp [firstNonEmpty]
  | cons s rest ih =>
    by_cases hs : s = ""
    · subst hs
      simp only [firstNonEmpty, if_true]
      constructor
      · rw [ih.1]; simp
      · intro hne
        obtain ⟨l1, l2, hl, hall⟩ := ih.2 hne
        refine ⟨"" :: l1, l2, by rw [List.cons_append, ← hl], ?_⟩
        intro t ht
        rcases List.mem_cons.1 ht with h | h
        · exact h
        · exact hall t h
    · simp only [firstNonEmpty, if_neg hs]
      constructor
      · constructor
        · intro h; exact absurd h hs
        · intro h; exact absurd (h s (by simp)) hs
      · intro _
        exact ⟨[], rest, by simp, by simp⟩

/-- **C19, "axis labels are the data's name followed by its unit in brackets, unless
    overridden".** `name[unit]`, just `name` when there is no unit; name (unit) is the override
    when one is set, else that of the first object on the plot that has one. -/
theorem C19_label (p : Plot ℝ) :
    p.xlabel = axisLabel (pick p.xname (p.objs.map Obj.xname)) (pick p.xunit (p.objs.map Obj.xunit)) ∧
    p.ylabel = axisLabel (pick p.yname (p.objs.map Obj.yname)) (pick p.yunit (p.objs.map Obj.yunit)) ∧
    (∀ n : String, axisLabel n "" = n) ∧
    (∀ n u : String, u ≠ "" → axisLabel n u = n ++ "[" ++ u ++ "]") ∧
    (∀ (o : String) l, o ≠ "" → pick o l = o) ∧
    (∀ l, pick "" l = firstNonEmpty l) := by
  refine ⟨rfl, rfl, ?_, ?_, ?_, ?_⟩
  · intro n; simp [axisLabel, Gen.plotAxisLabel]
  · intro n u hu; simp [axisLabel, Gen.plotAxisLabel, hu, String.append_assoc]
  · intro o l ho; simp [pick, ho]
  · intro l; simp [pick]

/-! ### non-vacuity -/

section examples
/-- a data set with a range that removes points, equal lengths (hypotheses of C19_mask) -/
def exD : DataSet ℝ :=
  { xs := [1, 2, 3], ys := [5, 6, 7], xerr := [0, 0, 0], yerr := [1, 1, 1], range := some (2, 3),
    xname := "t", xunit := "s", yname := "", yunit := "", label := "d" }
example : exD.range = some (2, 3) ∧ exD.xs.length = exD.ys.length ∧
    exD.xs.length = exD.xerr.length ∧ exD.xs.length = exD.yerr.length := by
  simp [exD]
/-- sorted edges with at least two entries (hypotheses of C19_hist) -/
example : List.Pairwise (· ≤ ·) ([0, 1, 3] : List ℝ) := by
  simp [List.pairwise_cons]
/-- a plot whose domain exists (hypothesis of C19_domain) and a non-trivial permutation of its
    objects (hypothesis of C19_order_independent) -/
def exP : Plot ℝ :=
  { objs := [.dataset exD, .histogram ⟨[1, 2], .edges [0, 1, 3], "", none, false⟩], errorBars := true,
    residuals := false, legend := false, xname := "", xunit := "", yname := "", yunit := "",
    title := "", xrange := none }
example : ∃ lo hi, exP.domain = some (lo, hi) := by
  refine ⟨min 2 0, max 3 3, ?_⟩
  simp [exP, Plot.domain, Obj.xrange, DataSet.xrange, exD, Hist.xrange, Hist.edges, Hist.edgesOf,
    minL, maxL, min2_eq, max2_eq]
example : exP.objs.Perm exP.objs.reverse := (List.reverse_perm _).symm
/-- a weighted, normalised histogram with strictly increasing edges and a non-zero total
    (hypotheses of C19_hist_weights / C19_hist_density) -/
noncomputable def exH : Hist ℝ := ⟨[1, 2], .edges [0, 1, 3], "", some [1/2, 2], true⟩
example : exH.density = true ∧ exH.weights = some [1/2, 2] ∧ List.Pairwise (· < ·) exH.edges ∧
    exH.binValues.sum ≠ 0 := by
  refine ⟨rfl, rfl, ?_, ?_⟩
  · simp [exH, Hist.edges, Hist.edgesOf, List.pairwise_cons]
  · simp [exH, Hist.binValues, Hist.edges, Hist.edgesOf, Hist.wcounts, Hist.wsumIn]
    norm_num
end examples

end QExPy.Plot

/- C19 — what is drawn equals the data (theorems about Model/Plot). -/
import QExPy.Model.Plot
import QExPy.Real
namespace QExPy.Plot

/-- placeholder while the check is wired end-to-end -/
theorem C19_placeholder : axisLabel "t" "" = "t" := by decide

end QExPy.Plot

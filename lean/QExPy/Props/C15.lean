/-
  C15 — error-method selection is respected and derivative results are deterministic.
  Model: QExPy/Model/World.lean.  The model has no random state at all: Monte Carlo reads are
  abstracted to the identity of the stored simulation, so "does not depend on the random state"
  is expressed by the derivative answers being functions of `core` (formulas, values,
  uncertainties, correlations) only.
-/
import QExPy.Props.C05
import QExPy.Generated.Session
set_option linter.unusedSectionVars false

namespace QExPy
namespace World
variable {α : Type} [Num α]

/-- **C15 (selection).** A quantity's own selection wins over the global setting. -/
theorem C15_set_method (w : World α) (n : Nat) (m : Method) (nd : Node α)
    (hn : w.nodes[n]? = some nd) : (w.step (.setMethod n m)).1.effMethod n = m := by
  simp [step, effMethod, nodes_modifyNode, hn, modifyNode]

/-- **C15 (reset).** After `reset_error_method()` the quantity follows the global setting. -/
theorem C15_reset_method (w : World α) (n : Nat) (nd : Node α) (hn : w.nodes[n]? = some nd) :
    (w.step (.resetMethod n)).1.effMethod n = w.globalMethod := by
  simp [step, effMethod, nodes_modifyNode, hn, modifyNode]

/-- **C15 (global).** The global setting applies exactly to the quantities without own selection. -/
theorem C15_set_global (w : World α) (n : Nat) (m : Method) (nd : Node α)
    (hn : w.nodes[n]? = some nd) :
    (w.step (.setGlobal m)).1.effMethod n = nd.method.getD m := by
  simp [step, effMethod, hn]

/-- selecting a method for one quantity never changes the effective method of another -/
theorem C15_set_method_other (w : World α) (n k : Nat) (m : Method) (h : n ≠ k) :
    (w.step (.setMethod n m)).1.effMethod k = w.effMethod k := by
  simp only [step]
  apply effMethod_congr
  · rfl
  · rw [nodes_modifyNode]; simp [h]

/-- **C15 (dispatch).** A read answers by the derivative method iff that is the effective method. -/
theorem C15_dispatch (w : World α) (n : Nat) (nd : Node α) (hn : w.nodes[n]? = some nd) :
    (w.effMethod n = .derivative → ∃ v e, (w.step (.read n)).2 = .deriv v e) ∧
    (w.effMethod n = .monteCarlo → ∃ s, (w.step (.read n)).2 = .mc s) := by
  constructor
  · intro hm
    cases hc : nd.cacheD with
    | some r => exact ⟨r.1, r.2, by simp [step, hn, hm, hc]⟩
    | none => exact ⟨(w.fresh n).1, (w.fresh n).2, by simp [step, hn, hm, hc]⟩
  · intro hm
    exact ⟨(w.ensureSim n).2, by simp [step, hn, hm]⟩

/-- **C15 (tie of the selection rule).** The effective method of the model is what the
    `error_method` getter of the working tree computes (regenerated as `Gen.effMethodOf`): the
    quantity's own selection, or the global setting while the AUTO marker is stored. -/
theorem C15_effMethod_tie (w : World α) (n : Nat) (nd : Node α) (hn : w.nodes[n]? = some nd) :
    w.effMethod n = Gen.effMethodOf nd.method w.globalMethod := by
  simp only [effMethod, hn, Gen.effMethodOf]
  cases nd.method <;> rfl

/-- non-vacuity: with the AUTO marker stored the two selections differ exactly by the global one -/
example : Gen.effMethodOf (none : Option Method) .monteCarlo = .monteCarlo ∧
    Gen.effMethodOf (some Method.derivative) .monteCarlo = .derivative := by decide

/-! ### non-interference -/

/-- operations that do not touch formulas, values, uncertainties or correlations: every method
    switch (global or per quantity), every read, every Monte Carlo setting, recalculation -/
def toggle : Op α → Bool
  | .setValue _ _ => false
  | .setError _ _ => false
  | .setRel _ _ => false
  | .setCorr _ _ _ => false
  | .resetCorr => false
  | _ => true

/-- memoised derivative results agree with the current state -/
def coherent (w : World α) : Prop :=
  ∀ n nd r, w.nodes[n]? = some nd → nd.cacheD = some r → r = w.fresh n

theorem fresh_of_core (w w' : World α) (h : w'.core = w.core) (n : Nat) :
    w'.fresh n = w.fresh n := by
  have hf : w'.nodes.map (·.formula) = w.nodes.map (·.formula) := congrArg Core.formulas h
  apply fresh_congr w w' n (congrArg Core.vals h) (congrArg Core.errs h) (congrArg Core.corr h)
  have := congrArg (fun l => l[n]?) hf
  simpa [List.getElem?_map] using this

theorem core_modifyNode (w : World α) (n : Nat) (f : Node α → Node α)
    (hf : ∀ nd, (f nd).formula = nd.formula) : (w.modifyNode n f).core = w.core := by
  simp only [core, modifyNode]
  congr 1
  apply List.ext_getElem?
  intro i
  simp only [List.getElem?_map, List.getElem?_modify]
  by_cases h : n = i
  · subst h; cases w.nodes[n]? <;> simp [hf]
  · simp [h]

theorem core_ensureSim (w : World α) (n : Nat) : (w.ensureSim n).1.core = w.core := by
  unfold ensureSim
  split
  · split
    · rfl
    · exact core_modifyNode w n _ (fun _ => rfl)
  · rfl

/-- **C15 (non-interference, one step).** Method switches, reads, Monte Carlo settings and
    recalculation leave formulas, values, uncertainties and correlations untouched. -/
theorem C15_core_unchanged (w : World α) (op : Op α) (h : toggle op = true) :
    (w.step op).1.core = w.core := by
  cases op with
  | setValue _ _ => simp [toggle] at h
  | setError _ _ => simp [toggle] at h
  | setRel _ _ => simp [toggle] at h
  | setCorr _ _ _ => simp [toggle] at h
  | resetCorr => simp [toggle] at h
  | read n =>
    simp only [step]
    cases hn : w.nodes[n]? with
    | none => rfl
    | some nd =>
      simp only []
      cases w.effMethod n with
      | derivative =>
        simp only []
        cases nd.cacheD with
        | some r => rfl
        | none => exact core_modifyNode w n _ (fun _ => rfl)
      | monteCarlo => exact core_ensureSim w n
  | readDeriv n k => simp only [step]; cases w.nodes[n]? <;> rfl
  | recalc n => exact core_modifyNode w n _ (fun _ => rfl)
  | setGlobal m => rfl
  | setMethod n m => exact core_modifyNode w n _ (fun _ => rfl)
  | resetMethod n => exact core_modifyNode w n _ (fun _ => rfl)
  | setSize n k =>
    simp only [step]
    exact (core_modifyNode (w.ensureSim n).1 n
      (fun nd => { nd with size := k, sim := none }) (fun _ => rfl)).trans (core_ensureSim w n)
  | touchMc n => exact core_ensureSim w n

/-- every cache a step leaves behind was either there before or is the fresh result -/
theorem step_cache (w : World α) (op : Op α) (n : Nat) (nd' : Node α) (r : α × α)
    (hn' : (w.step op).1.nodes[n]? = some nd') (hr : nd'.cacheD = some r) :
    r = w.fresh n ∨ ∃ nd, w.nodes[n]? = some nd ∧ nd.cacheD = some r := by
  cases op with
  | setValue i v => exact Or.inr ⟨nd', by simpa [step] using hn', hr⟩
  | setError i v => exact Or.inr ⟨nd', by simpa [step] using hn', hr⟩
  | setRel i v => exact Or.inr ⟨nd', by simpa [step] using hn', hr⟩
  | setCorr i j v => exact Or.inr ⟨nd', by simpa [step] using hn', hr⟩
  | resetCorr => exact Or.inr ⟨nd', by simpa [step] using hn', hr⟩
  | setGlobal m => exact Or.inr ⟨nd', by simpa [step] using hn', hr⟩
  | readDeriv m k =>
    simp only [step] at hn'
    cases hm : w.nodes[m]? <;> simp only [hm] at hn' <;> exact Or.inr ⟨nd', hn', hr⟩
  | read m =>
    simp only [step] at hn'
    cases hm : w.nodes[m]? with
    | none => simp only [hm] at hn'; exact Or.inr ⟨nd', hn', hr⟩
    | some ndm =>
      simp only [hm] at hn'
      cases he : w.effMethod m with
      | derivative =>
        simp only [he] at hn'
        cases hc : ndm.cacheD with
        | some r0 => simp only [hc] at hn'; exact Or.inr ⟨nd', hn', hr⟩
        | none =>
          simp only [hc, nodes_modifyNode] at hn'
          by_cases h : m = n
          · subst h
            simp only [if_true, hm, Option.map_some, Option.some.injEq] at hn'
            subst hn'
            simp only [Option.some.injEq] at hr
            exact Or.inl hr.symm
          · simp only [h, if_false] at hn'; exact Or.inr ⟨nd', hn', hr⟩
      | monteCarlo =>
        simp only [he, ensureSim_nodes] at hn'
        by_cases h : m = n
        · subst h
          simp only [if_true, hm, Option.map_some, Option.some.injEq] at hn'
          subst hn'
          refine Or.inr ⟨ndm, hm, ?_⟩
          cases hs : ndm.sim <;> simp only [hs] at hr <;> exact hr
        · simp only [h, if_false] at hn'; exact Or.inr ⟨nd', hn', hr⟩
  | touchMc m =>
    simp only [step, ensureSim_nodes] at hn'
    by_cases h : m = n
    · subst h
      cases hm : w.nodes[m]? with
      | none => simp [hm] at hn'
      | some ndm =>
        simp only [if_true, hm, Option.map_some, Option.some.injEq] at hn'
        subst hn'
        refine Or.inr ⟨ndm, rfl, ?_⟩
        cases hs : ndm.sim <;> simp only [hs] at hr <;> exact hr
    · simp only [h, if_false] at hn'; exact Or.inr ⟨nd', hn', hr⟩
  | recalc m =>
    simp only [step, nodes_modifyNode] at hn'
    by_cases h : m = n
    · subst h
      cases hm : w.nodes[m]? with
      | none => simp [hm] at hn'
      | some ndm =>
        simp only [if_true, hm, Option.map_some, Option.some.injEq] at hn'
        subst hn'; simp at hr
    · simp only [h, if_false] at hn'; exact Or.inr ⟨nd', hn', hr⟩
  | setMethod m meth =>
    simp only [step, nodes_modifyNode] at hn'
    by_cases h : m = n
    · subst h
      cases hm : w.nodes[m]? with
      | none => simp [hm] at hn'
      | some ndm =>
        simp only [if_true, hm, Option.map_some, Option.some.injEq] at hn'
        subst hn'; exact Or.inr ⟨ndm, rfl, hr⟩
    · simp only [h, if_false] at hn'; exact Or.inr ⟨nd', hn', hr⟩
  | resetMethod m =>
    simp only [step, nodes_modifyNode] at hn'
    by_cases h : m = n
    · subst h
      cases hm : w.nodes[m]? with
      | none => simp [hm] at hn'
      | some ndm =>
        simp only [if_true, hm, Option.map_some, Option.some.injEq] at hn'
        subst hn'; exact Or.inr ⟨ndm, rfl, hr⟩
    · simp only [h, if_false] at hn'; exact Or.inr ⟨nd', hn', hr⟩
  | setSize m k =>
    simp only [step, nodes_modifyNode, ensureSim_nodes] at hn'
    by_cases h : m = n
    · subst h
      cases hm : w.nodes[m]? with
      | none => simp [hm] at hn'
      | some ndm =>
        simp only [if_true, hm, Option.map_some, Option.some.injEq] at hn'
        subst hn'
        refine Or.inr ⟨ndm, rfl, ?_⟩
        cases hs : ndm.sim <;> simp only [hs] at hr <;> exact hr
    · simp only [h, if_false] at hn'; exact Or.inr ⟨nd', hn', hr⟩

theorem coherent_step (w : World α) (op : Op α) (h : toggle op = true) (hc : coherent w) :
    coherent (w.step op).1 := by
  intro n nd' r hn' hr
  rw [fresh_of_core w _ (C15_core_unchanged w op h) n]
  rcases step_cache w op n nd' r hn' hr with h1 | ⟨nd, hn, hr0⟩
  · exact h1
  · exact hc n nd r hn hr0

theorem run_toggle (w : World α) (ops : List (Op α)) (h : ∀ op ∈ ops, toggle op = true)
    (hc : coherent w) : coherent (w.run ops).1 ∧ (w.run ops).1.core = w.core := by
  induction ops generalizing w with
  | nil => exact ⟨hc, rfl⟩
  | cons op ops ih =>
    have h1 := coherent_step w op (h op (by simp)) hc
    have h2 := C15_core_unchanged w op (h op (by simp))
    obtain ⟨h3, h4⟩ := ih (w.step op).1 (fun o ho => h o (by simp [ho])) h1
    exact ⟨by simpa [run] using h3, by simpa [run, h2] using h4⟩

/-- a fresh session (nothing memoised) is coherent -/
theorem coherent_of_no_cache (w : World α)
    (h : ∀ (n : Nat) (nd : Node α), w.nodes[n]? = some nd → nd.cacheD = none) :
    coherent w := by
  intro n nd r hn hr; rw [h n nd hn] at hr; cases hr

/-- **C15 (determinism).** Start from any coherent state (e.g. nothing memoised yet) and apply
    ANY history of method switches (global / per quantity / reset), reads, Monte Carlo reads and
    settings, sample-size changes and recalculations.  Every derivative-method answer given
    afterwards is the derivative result of the ORIGINAL formulas, values, uncertainties and
    correlations: it does not depend on the history, on the global method, on Monte Carlo
    settings or simulations, or on how often the methods were switched. -/
theorem C15_noninterference (w : World α) (hc : coherent w) (ops : List (Op α))
    (h : ∀ op ∈ ops, toggle op = true) (n : Nat) (nd : Node α)
    (hn : (w.run ops).1.nodes[n]? = some nd)
    (hm : (w.run ops).1.effMethod n = .derivative) :
    ((w.run ops).1.step (.read n)).2 = .deriv (w.fresh n).1 (w.fresh n).2 := by
  obtain ⟨hco, hcore⟩ := run_toggle w ops h hc
  have hf := fresh_of_core w _ hcore n
  cases hcd : nd.cacheD with
  | some r =>
    have := hco n nd r hn hcd
    simp [step, hn, hm, hcd, this, hf]
  | none => simp [step, hn, hm, hcd, hf]

/-- two histories that differ only by such operations give the same derivative answers -/
theorem C15_history_independent (w : World α) (hc : coherent w) (ops₁ ops₂ : List (Op α))
    (h₁ : ∀ op ∈ ops₁, toggle op = true) (h₂ : ∀ op ∈ ops₂, toggle op = true)
    (n : Nat) (nd₁ nd₂ : Node α)
    (hn₁ : (w.run ops₁).1.nodes[n]? = some nd₁) (hn₂ : (w.run ops₂).1.nodes[n]? = some nd₂)
    (hm₁ : (w.run ops₁).1.effMethod n = .derivative)
    (hm₂ : (w.run ops₂).1.effMethod n = .derivative) :
    ((w.run ops₁).1.step (.read n)).2 = ((w.run ops₂).1.step (.read n)).2 := by
  rw [C15_noninterference w hc ops₁ h₁ n nd₁ hn₁ hm₁, C15_noninterference w hc ops₂ h₂ n nd₂ hn₂ hm₂]

/-- non-vacuity: a session with nothing memoised is coherent -/
example : coherent (World.mk [2.0, 3.0] [0.1, 0.2] []
    [(Node.mk (.bin .mul (.var 0) (.var 1)) none none none 0 : Node Float)] .derivative 0) := by
  apply coherent_of_no_cache
  intro n nd hn
  match n, hn with
  | 0, hn => simp at hn; subst hn; rfl
  | n + 1, hn => simp at hn

end World
end QExPy

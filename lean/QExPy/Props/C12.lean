/-
  C12 — unit strings are parsed with conventional precedence or rejected.

  Model: QExPy/Model/UnitParse.lean — `scan` (tokeniser), `group` (implicit multiplication),
  `twoStackAux` (two-stack precedence parser reading the generated `precedence` table),
  `evalTree`; specification `refExpr` (the grammar of the statement read left to right:
  expr := term (op term)*, term := factor+, factor := SYMBOL | SYMBOL^POWER | '(' expr ')').
-/
import QExPy.Lemmas.UnitParse

namespace QExPy
open U

/-- **C12 (scanner tie).** the regular-expression texts, the dot replacement and the bare
    numerator prefix in the working tree are the ones the hand-written scanner of the model
    was written for.  A changed text breaks this obligation (the correspondence run then has to
    show whether the new tokeniser still satisfies the property). -/
theorem C12_scanner_pins_patterns :
    Gen.tokenPatternSrc =
      "[a-zA-Z]+(\\^-?[0-9]+|\\^\\(-?[0-9]+/[0-9]+\\))?|/|\\*|\\(([^()]|\\^\\(-?[0-9]+/[0-9]+\\))*\\)" ∧
    Gen.unitExpPatternSrc = "[a-zA-Z]+(\\^-?[0-9]+|\\^\\(-?[0-9]+/[0-9]+\\))" ∧
    Gen.bracketPatternSrc = "\\(.*?\\)" ∧
    Gen.operatorPatternSrc = "[/*]" ∧
    Gen.validityPatternSrc = "<cover>" ∧
    Gen.lexDotFrom = "⋅" ∧ Gen.lexDotTo = "*" ∧ Gen.dotString = "⋅" ∧
    Gen.bareNumeratorPrefix = "1/" := by decide

/-- **C12 (precedence table).** in the generated `precedence` dict `*` and `/` have the same
    rank, above the bottom marker and below `^`; the keys are exactly the bottom marker and
    the three operators, and the bottom marker is not alphabetic and not "1", so no unit symbol
    and no operand can be mistaken for an operator (a symbol spelled "base" was, before the fix). -/
theorem C12_precedence_table :
    precOf "*" = precOf "/" ∧ (∃ b p, precOf Gen.precBase = some b ∧ precOf "*" = some p ∧ b < p) ∧
    pwOk = true ∧
    Gen.precTable.map Prod.fst = [Gen.precBase, "*", "/", "^"] ∧
    Gen.precBase.toList.all isAl = false ∧ Gen.precBase ≠ "1" := by
  refine ⟨by decide, ⟨0, 1, by decide, by decide, by decide⟩, by decide, by decide, by decide,
    by decide⟩

/- Full statement (not proved in general):
     theorem C12_tokens_equiv (ts : List UTok) : twoStack (groupAll ts) = refExpr ts
   i.e. for every token list — nested groups, dangling / doubled / leading operators included —
   the implicit-multiplication grouping followed by the two-stack parser builds exactly the
   tree of the reference grammar, and fails exactly when the list is not a sentence.
   Proved below for every list of at most 3 tokens over `tokAlphabet` and every bracket-free
   list of at most 5 tokens (1 111 + 3 906 lists, by kernel evaluation); the unbounded
   induction (stack invariant) is left open; the thorough tier of the check enumerates longer
   strings against the real code. -/

set_option maxRecDepth 1000000 in
/-- **C12 (token level, bounded).** grouping + two-stack parser = reference grammar, acceptance
    and rejection, on every token list of length ≤ 3 over `tokAlphabet` (nested groups
    included) and every bracket-free list of length ≤ 5 over {a, b^2, *, /, 1}. -/
theorem C12_tokens_equiv_partial :
    (∀ ts ∈ listsUpTo tokAlphabet 3, twoStack (groupAll ts) = refExpr ts) ∧
    (∀ ts ∈ listsUpTo (tokAlphabet.take 5) 5, twoStack (groupAll ts) = refExpr ts) := by
  constructor <;> decide

/-- non-vacuity and meaning: `a / b^2 a` reads as a / (b²·a), `a/b/c*d` from left to right -/
example : twoStack (groupAll [.sym ['a'], .div, .pw ['b'] ['2'], .sym ['a']]) =
    some (.bin false (.leaf ['a']) (.bin true (.pw ['b'] ['2']) (.leaf ['a']))) := by decide

example : refExpr [.sym ['a'], .div, .sym ['b'], .div, .sym ['c'], .mul, .sym ['d']] =
    some (.bin true (.bin false (.bin false (.leaf ['a']) (.leaf ['b'])) (.leaf ['c']))
      (.leaf ['d'])) := by decide

end QExPy

/-
  C12 — unit strings are parsed with conventional precedence or rejected.

  Model: QExPy/Model/UnitParse.lean — `scan` (tokeniser), `group` (implicit multiplication),
  `twoStackAux` (two-stack precedence parser reading the generated `precedence` table),
  `evalTree`; specification `refExpr` (the grammar of the statement read left to right:
  expr := term (op term)*, term := factor+, factor := SYMBOL | SYMBOL^POWER | '(' expr ')').
-/
import QExPy.Lemmas.UnitParse
import QExPy.Lemmas.ParseSpec
import QExPy.Lemmas.ParseSession

namespace QExPy
open U

/-- **C12 (scanner tie).** the regular-expression texts, the dot replacement and the bare
    numerator prefix in the working tree are the ones the hand-written scanner of the model
    was written for.  A changed text breaks this obligation (the correspondence run then has to
    show whether the new tokeniser still satisfies the property). -/
theorem C12_scanner_pins_patterns :
    Gen.tokenPatternSrc =
      "[a-zA-Z]+(\\^-?[0-9]+|\\^\\(-?[0-9]+/[0-9]+\\))?|/|\\*|\\(([^()]|\\^\\(-?[0-9]+/[0-9]+\\))*\\)" ∧
    Gen.unitExpPatternSrc = "[a-zA-Z]+(\\^-?[0-9]+|\\^\\(-?[0-9]+/[0-9]+\\))" ∧
    Gen.bracketPatternSrc = "\\(.*?\\)" ∧
    Gen.patternFlags = [("token", ""), ("bracket", "DOTALL"), ("unitexp", ""), ("operator", "")] ∧
    Gen.operatorPatternSrc = "[/*]" ∧
    Gen.validityPatternSrc = "<cover>" ∧
    Gen.lexDotFrom = "⋅" ∧ Gen.lexDotTo = "*" ∧ Gen.dotString = "⋅" ∧
    Gen.bareNumeratorPrefix = "1/" := by decide

/-- **C12 (precedence table).** in the generated `precedence` dict `*` and `/` have the same
    rank, above the bottom marker and below `^`; the keys are exactly the bottom marker and
    the three operators, and the bottom marker is not alphabetic and not "1", so no unit symbol
    and no operand can be mistaken for an operator (a symbol spelled "base" was, before the fix). -/
theorem C12_precedence_table :
    precOf "*" = precOf "/" ∧ (∃ b p, precOf Gen.precBase = some b ∧ precOf "*" = some p ∧ b < p) ∧
    pwOk = true ∧
    Gen.precTable.map Prod.fst = [Gen.precBase, "*", "/", "^"] ∧
    Gen.precBase.toList.all isAl = false ∧ Gen.precBase ≠ "1" := by
  refine ⟨by decide, ⟨0, 1, by decide, by decide, by decide⟩, by decide, by decide, by decide,
    by decide⟩

/-- **C12 (token level, all token lists).** For *every* token list — any length, nested groups,
    dangling / doubled / leading operators included — the implicit-multiplication grouping
    followed by the two-stack precedence parser builds exactly the tree of the reference grammar
    (`expr := term (op term)*`, `term := factor+`, `*` and `/` left to right), and fails exactly
    when the list is not a sentence.  Proof: induction over the token list with a stack invariant
    (`Lemmas/ParseEquiv.lean`: the emitted tokens drive the two stacks into `[]/[]` or `[e]/[op]`,
    matching the state of the reference automaton; ill-formed prefixes are shown to be doomed),
    and structural recursion over the nesting for groups. -/
theorem C12_tokens_equiv (ts : List UTok) : twoStack (groupAll ts) = refExpr ts :=
  tokens_equiv ts

/-- **C12 (the whole pipeline, all strings).** On every string the library's pipeline
    (tokeniser with grouping → two-stack parser → tree evaluation) gives the same result —
    the same exponent list or the same rejection — as tokenising without grouping, reading the
    tokens with the reference grammar and evaluating. -/
theorem C12_parse_eq_ref (cs : List Char) : parse cs = refParse cs := parse_eq_refParse cs

/-- **C12 (lexical level: nothing is skipped).** When the tokeniser accepts a string, the texts
    of the tokens it returns (a bracket as `(`…`)` around its own tokens, the bare numerator as
    `1`) concatenate to the whole string, up to the replacement of the dot sign by `*`. -/
theorem C12_lex_total (cs : List Char) (ts : List UTok) (h : rawTop cs = some ts) :
    textL ts = replaceDot cs := rawTop_text cs ts h

/-- **C12 (lexical round trip).** A lexically unambiguous token list (alphabetic non-empty
    symbols, well-formed powers, no symbol directly followed by a letter, `1` only as a leading
    `1/`, brackets non-empty and not nested) is exactly what the tokeniser returns for every
    string that spells it (with `*` or the dot sign for multiplication). -/
theorem C12_lex_roundtrip (ts : List UTok) (h : LexUnambiguous ts) (cs : List Char)
    (hcs : replaceDot cs = textL ts) : rawTop cs = some ts := rawTop_roundtrip ts h cs hcs

/-- non-vacuity of `LexUnambiguous`: the tokens of `1/(s⋅m^(3/2))` -/
example : LexUnambiguous [.one, .div,
    .par [.sym ['s'], .mul, .pw ['m'] ['(', '3', '/', '2', ')']]] := by
  refine Or.inr ⟨_, rfl, ?_, trivial⟩
  intro t ht
  simp only [List.mem_singleton] at ht
  subst ht
  refine Or.inr ⟨_, rfl, Or.inl ⟨by simp, ?_, ?_⟩⟩
  · intro t ht
    simp only [List.mem_cons, List.not_mem_nil, or_false] at ht
    rcases ht with rfl | rfl | rfl
    · exact ⟨by simp, by decide⟩
    · trivial
    · refine ⟨⟨by simp, by decide⟩, Or.inr ⟨['3'], ['2'], Or.inl ⟨by simp, by decide⟩,
        ⟨by simp, by decide⟩, rfl⟩⟩
  · exact ⟨by simp [UTok.isSym, UTok.startsAl], by simp [UTok.isSym], trivial⟩

/-- **C12 (soundness).** If the library accepts a string and returns the exponent list `u`, then
    the string is the rendering of a syntax tree `a` of the grammar (its token texts concatenate
    to the string), all powers of `a` have a value, and `u` is the denotation of `a`: for every
    symbol the exponent obtained by reading with conventional precedence (`^` binds to one
    symbol, juxtaposition tighter than `*` `/`, these left to right, brackets group). -/
theorem C12_sound (cs : List Char) (u : Units) (h : parse cs = some u) :
    ∃ a : Expr, textL a.toks = replaceDot cs ∧ rawTop cs = some a.toks ∧ a.ok ∧ WF u ∧
      ∀ s, expOf u s = a.den s := parse_sound cs u h

/-- **C12 (completeness).** Every string that spells a syntax tree of the grammar in a lexically
    unambiguous way is accepted, and the exponents returned are the denotation of the tree. -/
theorem C12_complete (a : Expr) (hok : a.ok) (hlex : LexUnambiguous a.toks) (cs : List Char)
    (hcs : replaceDot cs = textL a.toks) :
    ∃ u, parse cs = some u ∧ WF u ∧ ∀ s, expOf u s = a.den s :=
  parse_complete a hok hlex cs hcs

/-- **C12 (token level: soundness and completeness of the algorithm).** The two-stack parser
    accepts a token list iff it is the rendering of a syntax tree, and then builds the tree
    whose evaluation is the denotation. -/
theorem C12_tokens_sound_complete (ts : List UTok) (t : Tree) :
    twoStack (groupAll ts) = some t ↔ ∃ a : Expr, a.toks = ts ∧ a.tree = t := by
  rw [tokens_equiv]
  constructor
  · exact refExpr_sound ts t
  · rintro ⟨a, rfl, rfl⟩
    exact refExpr_toks a

/-! ### histories of calls (sessions): `Model/ParseSession.lean` -/

/-- **C12 (histories: the reply depends on the string alone).** Whatever was parsed before,
    through whichever entry point, accepted or rejected, and whatever the callers did with the
    mappings they were handed (item assignment, `pop`, `clear`): the reply to the next call with
    the string `s` is the reading of `s` by the reference grammar — the same exponents or the
    same rejection as in a fresh session. -/
theorem C12_session_parse_pure (hs : Handles) (rs : List PReq) (s : List Char) :
    runS hs (rs ++ [.parse s]) = runS hs rs ++ [refParse s] := by
  rw [runS_snoc]; simp [stepS, parse_eq_refParse]

/-- **C12 (histories: a mapping that was handed out belongs to its caller).** A request changes
    no mapping handed out earlier, except the one an `edit` names: later calls (with the same or
    another string) and edits of other mappings leave it as it is. -/
theorem C12_session_frame (hs : Handles) (r : PReq) (i : Nat) (hi : i < hs.length)
    (hne : ∀ h e, r = .edit h e → h ≠ i) : slot (stepS hs r).1 i = slot hs i := by
  cases r with
  | parse s => simp [stepS, slot, List.getElem?_append_left hi]
  | read h => simp [stepS, slot, List.getElem?_append_left hi]
  | edit h e =>
    have hh := hne h e rfl
    simp only [stepS]
    cases hu : slot hs h with
    | none => simp [slot, List.getElem?_append_left hi]
    | some u =>
      have : i < (hs.set h (some (applyEdit u e))).length := by simpa using hi
      simp [slot, List.getElem?_append_left this, List.getElem?_set_ne hh]

/-- **C12 (histories: an edit is the caller's dict operation).** -/
theorem C12_session_edit (hs : Handles) (h : Nat) (e : Edit) (u : Units)
    (hu : slot hs h = some u) :
    (stepS hs (.edit h e)).2 = some (applyEdit u e) ∧
    slot (stepS hs (.edit h e)).1 h = some (applyEdit u e) := by
  have hl := slot_lt hu
  have : h < (hs.set h (some (applyEdit u e))).length := by simpa using hl
  simp only [stepS, hu]
  refine ⟨trivial, ?_⟩
  simp [slot, List.getElem?_append_left this, List.getElem?_set_self hl]

/-- non-vacuity and meaning: `u = parse("m/s"); u["s"] = -2; parse("m/s"); u` -/
example : runS [] [.parse "m/s".toList, .edit 0 (.set ['s'] (-2)), .parse "m/s".toList, .read 0]
    = [some [(['m'], 1), (['s'], -1)], some [(['m'], 1), (['s'], -2)],
       some [(['m'], 1), (['s'], -1)], some [(['m'], 1), (['s'], -2)]] := by decide +kernel

/- The bounded theorem below was the state before the induction was found; it is kept because
   it pins the model to concrete cases by kernel evaluation (it also breaks when the generated
   precedence table changes). -/

set_option maxRecDepth 1000000 in
/-- **C12 (token level, bounded).** grouping + two-stack parser = reference grammar, acceptance
    and rejection, on every token list of length ≤ 3 over `tokAlphabet` (nested groups
    included) and every bracket-free list of length ≤ 5 over {a, b^2, *, /, 1}. -/
theorem C12_tokens_equiv_partial :
    (∀ ts ∈ listsUpTo tokAlphabet 3, twoStack (groupAll ts) = refExpr ts) ∧
    (∀ ts ∈ listsUpTo (tokAlphabet.take 5) 5, twoStack (groupAll ts) = refExpr ts) := by
  constructor <;> decide

/-- non-vacuity and meaning: `a / b^2 a` reads as a / (b²·a), `a/b/c*d` from left to right -/
example : twoStack (groupAll [.sym ['a'], .div, .pw ['b'] ['2'], .sym ['a']]) =
    some (.bin false (.leaf ['a']) (.bin true (.pw ['b'] ['2']) (.leaf ['a']))) := by decide

example : refExpr [.sym ['a'], .div, .sym ['b'], .div, .sym ['c'], .mul, .sym ['d']] =
    some (.bin true (.bin false (.bin false (.leaf ['a']) (.leaf ['b'])) (.leaf ['c']))
      (.leaf ['d'])) := by decide

end QExPy

/-
  C05 — recalculate() brings a result fully up to date; reads are otherwise stable.
  Model: QExPy/Model/World.lean (state machine).  The theorems hold for every `Num` instance
  (no analysis needed): they are about caching, not about numbers.
-/
import QExPy.Lemmas.World
import QExPy.Real
set_option linter.unusedSectionVars false

namespace QExPy
namespace World
variable {α : Type} [Num α]

/-- `fresh` only looks at the formula of the node and at values / uncertainties / correlations -/
theorem fresh_congr (w w' : World α) (n : Nat)
    (hv : w'.vals = w.vals) (he : w'.errs = w.errs) (hc : w'.corr = w.corr)
    (hf : (w'.nodes[n]?).map (·.formula) = (w.nodes[n]?).map (·.formula)) :
    w'.fresh n = w.fresh n := by
  unfold fresh env sig rho
  rw [hv, he, hc]
  cases h : w.nodes[n]? <;> cases h' : w'.nodes[n]? <;> simp_all

/-- **C05 (recalculate, derivative method).** In every state, after `recalculate()` the next
    read of the quantity under the derivative method returns exactly the (value, uncertainty) of
    its formula computed afresh from the *current* measurements, uncertainties and correlations
    — however stale the memo was, and however the formula was assembled (the formula is unfolded
    through intermediate results, whose caches are never consulted). -/
theorem C05_recalc_fresh (w : World α) (n : Nat) (nd : Node α) (hn : w.nodes[n]? = some nd)
    (hm : w.effMethod n = .derivative) :
    ((w.step (.recalc n)).1.step (.read n)).2 = .deriv (w.fresh n).1 (w.fresh n).2 := by
  have hnodes : (w.modifyNode n fun nd => { nd with cacheD := none, sim := none }).nodes[n]?
      = some { nd with cacheD := none, sim := none } := by
    rw [nodes_modifyNode]; simp [hn]
  have heff : (w.modifyNode n fun nd => { nd with cacheD := none, sim := none }).effMethod n
      = .derivative := by
    unfold effMethod at hm ⊢
    rw [hnodes]; rw [hn] at hm
    simpa [modifyNode] using hm
  have hfresh : (w.modifyNode n fun nd => { nd with cacheD := none, sim := none }).fresh n
      = w.fresh n := by
    apply fresh_congr <;> try rfl
    rw [hnodes, hn]; rfl
  simp only [step, hnodes, heff, hfresh]

/-- **C05 (recalculate, Monte Carlo).** After `recalculate()` the next Monte Carlo read comes
    from a simulation drawn after the recalculation (a new identity), never from the stored one. -/
theorem C05_recalc_redraws (w : World α) (n : Nat) (nd : Node α) (hn : w.nodes[n]? = some nd)
    (hm : w.effMethod n = .monteCarlo) :
    ((w.step (.recalc n)).1.step (.read n)).2 = .mc w.nextSim := by
  have hnodes : (w.modifyNode n fun nd => { nd with cacheD := none, sim := none }).nodes[n]?
      = some { nd with cacheD := none, sim := none } := by
    rw [nodes_modifyNode]; simp [hn]
  have heff : (w.modifyNode n fun nd => { nd with cacheD := none, sim := none }).effMethod n
      = .monteCarlo := by
    unfold effMethod at hm ⊢
    rw [hnodes]; rw [hn] at hm
    simpa [modifyNode] using hm
  simp only [step, hnodes, heff, ensureSim]
  rfl

/-- **C05 (derivatives).** `derivative()` is never memoised: in every state it is the derivative
    of the unfolded formula at the current central values (which `C03_diff_correct` shows to be
    the true partial derivative). -/
theorem C05_deriv_current (w : World α) (n k : Nat) (nd : Node α) (hn : w.nodes[n]? = some nd) :
    (w.step (.readDeriv n k)).2 = .num (Expr.diff w.env k nd.formula) := by
  simp [step, hn]

/-! ### stability of reads between changes -/

/-- operations that change nothing the user set: reads of any quantity, of any derivative, and
    accesses to a quantity's Monte Carlo settings object -/
def quiet : Op α → Bool
  | .read _ => true
  | .readDeriv _ _ => true
  | .touchMc _ => true
  | _ => false

/-- the answer a read of `n` would give now -/
def readOut (w : World α) (n : Nat) : Out α := (w.step (.read n)).2

/-- `n` has been read under its current method since the last change -/
def settled (w : World α) (n : Nat) : Prop :=
  ∃ nd, w.nodes[n]? = some nd ∧
    match w.effMethod n with
    | .derivative => nd.cacheD.isSome
    | .monteCarlo => nd.sim.isSome

/-- what a later state must keep of node `n` for its reads to stay the same -/
structure Keeps (w w' : World α) (n : Nat) : Prop where
  eff : w'.effMethod n = w.effMethod n
  node : ∀ nd, w.nodes[n]? = some nd → ∃ nd', w'.nodes[n]? = some nd' ∧
      (nd.cacheD.isSome → nd'.cacheD = nd.cacheD) ∧ (nd.sim.isSome → nd'.sim = nd.sim)

theorem Keeps.refl (w : World α) (n : Nat) : Keeps w w n :=
  ⟨rfl, fun nd h => ⟨nd, h, fun _ => rfl, fun _ => rfl⟩⟩

/-- a settled quantity answers from its memo / stored simulation -/
theorem readOut_settled (w : World α) (n : Nat) (nd : Node α) (hn : w.nodes[n]? = some nd) :
    (w.effMethod n = .derivative → ∀ r, nd.cacheD = some r → readOut w n = .deriv r.1 r.2) ∧
    (w.effMethod n = .monteCarlo → ∀ s, nd.sim = some s → readOut w n = .mc s) := by
  constructor
  · intro hm r hr
    simp [readOut, step, hn, hm, hr]
  · intro hm s hs
    simp [readOut, step, hn, hm, ensureSim, hs]

theorem keeps_readOut (w w' : World α) (n : Nat) (hs : settled w n) (hk : Keeps w w' n) :
    settled w' n ∧ readOut w' n = readOut w n := by
  obtain ⟨nd, hn, hset⟩ := hs
  obtain ⟨nd', hn', hc, hsim⟩ := hk.node nd hn
  cases hm : w.effMethod n with
  | derivative =>
    rw [hm] at hset
    obtain ⟨r, hr⟩ := Option.isSome_iff_exists.mp hset
    have hm' : w'.effMethod n = .derivative := by rw [hk.eff, hm]
    have hr' : nd'.cacheD = some r := by rw [hc hset, hr]
    refine ⟨⟨nd', hn', ?_⟩, ?_⟩
    · rw [hm']; simp [hr']
    · rw [(readOut_settled w' n nd' hn').1 hm' r hr', (readOut_settled w n nd hn).1 hm r hr]
  | monteCarlo =>
    rw [hm] at hset
    obtain ⟨s, hs⟩ := Option.isSome_iff_exists.mp hset
    have hm' : w'.effMethod n = .monteCarlo := by rw [hk.eff, hm]
    have hs' : nd'.sim = some s := by rw [hsim hset, hs]
    refine ⟨⟨nd', hn', ?_⟩, ?_⟩
    · rw [hm']; simp [hs']
    · rw [(readOut_settled w' n nd' hn').2 hm' s hs', (readOut_settled w n nd hn).2 hm s hs]

/-- effective method is determined by the node's own selection and the global setting -/
theorem effMethod_congr (w w' : World α) (n : Nat) (hg : w'.globalMethod = w.globalMethod)
    (hm : (w'.nodes[n]?).map (·.method) = (w.nodes[n]?).map (·.method)) :
    w'.effMethod n = w.effMethod n := by
  unfold effMethod
  rw [hg]
  cases h : w.nodes[n]? <;> cases h' : w'.nodes[n]? <;> simp_all

/-- every quiet operation keeps what the reads of every quantity depend on -/
theorem quiet_keeps (w : World α) (op : Op α) (hq : quiet op = true) (n : Nat) :
    Keeps w (w.step op).1 n := by
  cases op with
  | read m =>
    simp only [step]
    cases hm : w.nodes[m]? with
    | none => exact Keeps.refl w n
    | some ndm =>
      simp only []
      cases he : w.effMethod m with
      | derivative =>
        simp only []
        cases hc : ndm.cacheD with
        | some r => exact Keeps.refl w n
        | none =>
          simp only []
          refine ⟨?_, ?_⟩
          · apply effMethod_congr
            · rfl
            · rw [nodes_modifyNode]; by_cases h : m = n
              · subst h; simp [hm]
              · simp [h]
          · intro nd hn
            rw [nodes_modifyNode]
            by_cases h : m = n
            · subst h
              rw [hm] at hn; cases hn
              refine ⟨{ ndm with cacheD := some (w.fresh m) }, by simp [hm], ?_, fun _ => rfl⟩
              intro hsome; simp [hc] at hsome
            · exact ⟨nd, by simp [h, hn], fun _ => rfl, fun _ => rfl⟩
      | monteCarlo =>
        simp only []
        refine ⟨?_, ?_⟩
        · apply effMethod_congr
          · exact ensureSim_global w m
          · rw [ensureSim_nodes]; by_cases h : m = n
            · subst h; simp only [if_true, hm, Option.map_some]
              cases ndm.sim <;> rfl
            · simp [h]
        · intro nd hn
          rw [ensureSim_nodes]
          by_cases h : m = n
          · subst h
            rw [hm] at hn; cases hn
            simp only [if_true, hm, Option.map_some]
            cases hs : ndm.sim with
            | some s => exact ⟨ndm, by simp, fun _ => rfl, fun _ => hs⟩
            | none =>
              exact ⟨{ ndm with sim := some w.nextSim }, by simp, fun _ => rfl,
                fun h => by simp at h⟩
          · exact ⟨nd, by simp [h, hn], fun _ => rfl, fun _ => rfl⟩
  | readDeriv m k =>
    simp only [step]
    cases w.nodes[m]? <;> exact Keeps.refl w n
  | touchMc m =>
    simp only [step]
    refine ⟨?_, ?_⟩
    · apply effMethod_congr
      · exact ensureSim_global w m
      · rw [ensureSim_nodes]; by_cases h : m = n
        · subst h
          cases hm : w.nodes[m]? with
          | none => simp
          | some ndm => simp only [if_true, Option.map_some]; cases ndm.sim <;> rfl
        · simp [h]
    · intro nd hn
      rw [ensureSim_nodes]
      by_cases h : m = n
      · subst h
        simp only [if_true, hn, Option.map_some]
        cases hs : nd.sim with
        | some s => exact ⟨nd, by simp, fun _ => rfl, fun _ => hs⟩
        | none =>
          exact ⟨{ nd with sim := some w.nextSim }, by simp, fun _ => rfl,
            fun h => by simp at h⟩
      · exact ⟨nd, by simp [h, hn], fun _ => rfl, fun _ => rfl⟩
  | _ => simp [quiet] at hq

/-- one read makes the quantity settled, and the state then answers that same output -/
theorem read_settles (w : World α) (n : Nat) (nd : Node α) (hn : w.nodes[n]? = some nd) :
    settled (w.step (.read n)).1 n ∧ readOut (w.step (.read n)).1 n = (w.step (.read n)).2 := by
  cases hm : w.effMethod n with
  | derivative =>
    cases hc : nd.cacheD with
    | some r =>
      have hst : (w.step (.read n)) = (w, .deriv r.1 r.2) := by simp [step, hn, hm, hc]
      rw [hst]
      refine ⟨⟨nd, hn, by simp [hm, hc]⟩, (readOut_settled w n nd hn).1 hm r hc⟩
    | none =>
      have hst : (w.step (.read n)) =
          (w.modifyNode n fun nd => { nd with cacheD := some (w.fresh n) },
            .deriv (w.fresh n).1 (w.fresh n).2) := by simp [step, hn, hm, hc]
      rw [hst]
      have hnodes : (w.modifyNode n fun nd => { nd with cacheD := some (w.fresh n) }).nodes[n]?
          = some { nd with cacheD := some (w.fresh n) } := by
        rw [nodes_modifyNode]; simp [hn]
      have heff : (w.modifyNode n fun nd => { nd with cacheD := some (w.fresh n) }).effMethod n
          = .derivative := by
        rw [← hm]; apply effMethod_congr
        · rfl
        · rw [hnodes, hn]; rfl
      refine ⟨⟨_, hnodes, by simp [heff]⟩, ?_⟩
      exact (readOut_settled _ n _ hnodes).1 heff (w.fresh n) rfl
  | monteCarlo =>
    have hst : (w.step (.read n)) = ((w.ensureSim n).1, .mc (w.ensureSim n).2) := by
      simp [step, hn, hm]
    rw [hst]
    have heff : (w.ensureSim n).1.effMethod n = .monteCarlo := by
      rw [← hm]; apply effMethod_congr
      · exact ensureSim_global w n
      · rw [ensureSim_nodes]; simp only [if_true, hn, Option.map_some]; cases nd.sim <;> rfl
    have hnodes := ensureSim_nodes w n n
    simp only [if_true, hn, Option.map_some] at hnodes
    cases hs : nd.sim with
    | some s =>
      simp only [hs] at hnodes
      have e2 : (w.ensureSim n).2 = s := by unfold ensureSim; simp [hn, hs]
      rw [e2]
      exact ⟨⟨nd, hnodes, by simp [heff, hs]⟩, (readOut_settled _ n nd hnodes).2 heff s hs⟩
    | none =>
      simp only [hs] at hnodes
      have e2 : (w.ensureSim n).2 = w.nextSim := by unfold ensureSim; simp [hn, hs]
      rw [e2]
      exact ⟨⟨_, hnodes, by simp [heff]⟩, (readOut_settled _ n _ hnodes).2 heff w.nextSim rfl⟩

/-- **C05 (stable reads).** Between changes — along any sequence of reads of values and
    derivatives of any quantities and accesses to Monte Carlo settings objects — every read of a
    quantity that has been read once returns that same answer, under both error methods
    (for Monte Carlo: the same stored simulation). -/
theorem C05_read_stable (w : World α) (n : Nat) (hs : settled w n) (ops : List (Op α))
    (hq : ∀ op ∈ ops, quiet op = true) :
    settled (w.run ops).1 n ∧ readOut (w.run ops).1 n = readOut w n ∧
      ∀ i : Nat, ops[i]? = some (Op.read n) → (w.run ops).2[i]? = some (readOut w n) := by
  induction ops generalizing w with
  | nil => exact ⟨hs, rfl, fun i h => by simp at h⟩
  | cons op ops ih =>
    have hk := quiet_keeps w op (hq op (by simp)) n
    obtain ⟨hs1, hr1⟩ := keeps_readOut w (w.step op).1 n hs hk
    obtain ⟨h1, h2, h3⟩ := ih (w.step op).1 hs1 (fun o ho => hq o (by simp [ho]))
    refine ⟨by simpa [run] using h1, by simpa [run, hr1] using h2, ?_⟩
    intro i hi
    cases i with
    | zero =>
      simp only [List.getElem?_cons_zero, Option.some.injEq] at hi
      subst hi
      simp [run, readOut]
    | succ i =>
      simp only [List.getElem?_cons_succ] at hi
      have := h3 i hi
      simpa [run, hr1] using this

/-- **C05 (one simulation is kept).** The stored Monte Carlo simulation of a quantity is replaced
    only by `recalculate()` of that quantity or by assigning its sample size: every other
    operation (changes of measurements, of correlations, of methods, reads of anything) keeps it. -/
theorem C05_sim_kept (w : World α) (op : Op α) (n : Nat) (nd : Node α) (s : Nat)
    (hn : w.nodes[n]? = some nd) (hs : nd.sim = some s)
    (h1 : ∀ k, op ≠ .recalc n ∧ op ≠ .setSize n k) :
    ∃ nd', (w.step op).1.nodes[n]? = some nd' ∧ nd'.sim = some s := by
  cases op with
  | setValue i v => exact ⟨nd, by simpa [step] using hn, hs⟩
  | setError i e => exact ⟨nd, by simpa [step] using hn, hs⟩
  | setRel i e => exact ⟨nd, by simpa [step] using hn, hs⟩
  | setCorr i j r => exact ⟨nd, by simpa [step] using hn, hs⟩
  | resetCorr => exact ⟨nd, by simpa [step] using hn, hs⟩
  | setGlobal m => exact ⟨nd, by simpa [step] using hn, hs⟩
  | readDeriv m k =>
    simp only [step]; cases w.nodes[m]? <;> exact ⟨nd, hn, hs⟩
  | read m =>
    have hk := (quiet_keeps w (.read m) rfl n).node nd hn
    obtain ⟨nd', hn', _, hsim⟩ := hk
    exact ⟨nd', hn', by rw [hsim (by simp [hs]), hs]⟩
  | touchMc m =>
    have hk := (quiet_keeps w (.touchMc m) rfl n).node nd hn
    obtain ⟨nd', hn', _, hsim⟩ := hk
    exact ⟨nd', hn', by rw [hsim (by simp [hs]), hs]⟩
  | recalc m =>
    have hmn : m ≠ n := fun h => (h1 0).1 (by rw [h])
    exact ⟨nd, by simp [step, nodes_modifyNode, hmn, hn], hs⟩
  | setMethod m meth =>
    simp only [step, nodes_modifyNode]
    by_cases h : m = n
    · subst h; exact ⟨{ nd with method := some meth }, by simp [hn], hs⟩
    · exact ⟨nd, by simp [h, hn], hs⟩
  | resetMethod m =>
    simp only [step, nodes_modifyNode]
    by_cases h : m = n
    · subst h; exact ⟨{ nd with method := none }, by simp [hn], hs⟩
    · exact ⟨nd, by simp [h, hn], hs⟩
  | setSize m k =>
    have hmn : m ≠ n := fun h => (h1 k).2 (by rw [h])
    simp only [step, nodes_modifyNode, hmn, if_false, ensureSim_nodes]
    exact ⟨nd, hn, hs⟩

/-- **C05 (memo kept).** The memoised derivative result of a quantity is dropped only by
    `recalculate()` of that quantity: method switches (global or per quantity), Monte Carlo
    settings, reads and edits elsewhere keep it, so switching the method away and back returns
    the same numbers. -/
theorem C05_memo_kept (w : World α) (op : Op α) (n : Nat) (nd : Node α) (r : α × α)
    (hn : w.nodes[n]? = some nd) (hr : nd.cacheD = some r) (h1 : op ≠ .recalc n) :
    ∃ nd', (w.step op).1.nodes[n]? = some nd' ∧ nd'.cacheD = some r := by
  cases op with
  | setValue i v => exact ⟨nd, by simpa [step] using hn, hr⟩
  | setError i e => exact ⟨nd, by simpa [step] using hn, hr⟩
  | setRel i e => exact ⟨nd, by simpa [step] using hn, hr⟩
  | setCorr i j r => exact ⟨nd, by simpa [step] using hn, hr⟩
  | resetCorr => exact ⟨nd, by simpa [step] using hn, hr⟩
  | setGlobal m => exact ⟨nd, by simpa [step] using hn, hr⟩
  | readDeriv m k =>
    simp only [step]; cases w.nodes[m]? <;> exact ⟨nd, hn, hr⟩
  | read m =>
    obtain ⟨nd', hn', hc, _⟩ := (quiet_keeps w (.read m) rfl n).node nd hn
    exact ⟨nd', hn', by rw [hc (by simp [hr]), hr]⟩
  | touchMc m =>
    obtain ⟨nd', hn', hc, _⟩ := (quiet_keeps w (.touchMc m) rfl n).node nd hn
    exact ⟨nd', hn', by rw [hc (by simp [hr]), hr]⟩
  | recalc m =>
    have hmn : m ≠ n := fun h => h1 (by rw [h])
    exact ⟨nd, by simp [step, nodes_modifyNode, hmn, hn], hr⟩
  | setMethod m meth =>
    simp only [step, nodes_modifyNode]
    by_cases h : m = n
    · subst h; exact ⟨{ nd with method := some meth }, by simp [hn], hr⟩
    · exact ⟨nd, by simp [h, hn], hr⟩
  | resetMethod m =>
    simp only [step, nodes_modifyNode]
    by_cases h : m = n
    · subst h; exact ⟨{ nd with method := none }, by simp [hn], hr⟩
    · exact ⟨nd, by simp [h, hn], hr⟩
  | setSize m k =>
    simp only [step, nodes_modifyNode, ensureSim_nodes]
    by_cases h : m = n
    · subst h
      simp only [if_true, hn, Option.map_some]
      cases hs : nd.sim with
      | some s => exact ⟨{ nd with size := k, sim := none }, by simp, hr⟩
      | none => exact ⟨{ nd with size := k, sim := none }, by simp, hr⟩
    · exact ⟨nd, by simp [h, hn], hr⟩

/-! ### revising an uncertainty as a fraction of the central value -/

/-- **C05 (relative uncertainty).** `m.relative_error = r` is the assignment of the uncertainty
    `|current central value| * r`: every statement about changes of uncertainties covers it. -/
theorem C05_setRel_eq (w : World α) (i : Nat) (r : α) :
    w.step (.setRel i r) = w.step (.setError i (Num.mul (Num.abs (w.env i)) r)) := rfl

/-- **C05 (relative uncertainty, sign).** Over the reals the uncertainty that a relative
    uncertainty `r ≥ 0` leaves behind is non-negative whatever the sign of the central value, and
    it is the one every later fresh result is computed from. -/
theorem C05_setRel_nonneg (w : World ℝ) (i : Nat) (r : ℝ) (hr : 0 ≤ r) (hi : i < w.errs.length) :
    (w.step (.setRel i r)).1.sig i = |w.env i| * r ∧ 0 ≤ (w.step (.setRel i r)).1.sig i := by
  have h : (w.step (.setRel i r)).1.sig i = |w.env i| * r := by
    simp [step, sig, List.getD_eq_getElem?_getD, hi]
  exact ⟨h, by rw [h]; exact mul_nonneg (abs_nonneg _) hr⟩

/-- non-vacuity and the point of the sign: a reading of -5 with relative uncertainty 0.1 -/
example : ((({ vals := [-5, 2], errs := [1, 1], corr := [], nodes := [] } : World ℝ).step
    (.setRel 0 (1 / 10))).1.sig 0) = 1 / 2 := by
  simp [step, sig, env]; norm_num [abs_of_neg]

/-- non-vacuity: a concrete session (c = a*b, d = c*c unfolded) in which `d` is settled -/
example : settled
    ({ vals := [2.0, 3.0], errs := [0.1, 0.2], corr := [],
       nodes := [{ formula := .bin .mul (.var 0) (.var 1), cacheD := some (6.0, 0.5) }] } :
      World Float) 0 :=
  ⟨_, rfl, by simp [effMethod]⟩

end World
end QExPy

/-
  C01 — derivative-method results obey the first-order propagation law.

  Model: `Expr.propagate` (QExPy/Model/Expr.lean) — the code's
  "quadratures + covariance terms over itertools.combinations" — over the generated
  operator and derivative tables.
-/
import QExPy.Props.C03

namespace QExPy
open Expr

/-- the covariance matrix the statement talks about -/
noncomputable def Cov (σ : Nat → ℝ) (ρ : Nat → Nat → ℝ) (i j : Nat) : ℝ :=
  if i = j then σ i ^ 2 else ρ i j * σ i * σ j

/-- the statement's formula: Σ_i Σ_j ∂_i ∂_j C_ij over the source list `S` -/
noncomputable def quadForm (g : Nat → ℝ) (C : Nat → Nat → ℝ) (S : List Nat) : ℝ :=
  (S.map fun i => (S.map fun j => g i * g j * C i j).sum).sum

/-- **C01.** The central value is the formula evaluated at the central values. -/
theorem C01_value (env σ : Nat → ℝ) (ρ : Nat → Nat → ℝ) (e : Expr ℝ) :
    (propagate env σ ρ e).1 = eval env e := rfl

theorem numSum_eq (l : List ℝ) : Num.sum l = l.sum := by
  unfold Num.sum
  have : ∀ (a : ℝ) (l : List ℝ), List.foldl Num.add a l = a + l.sum := by
    intro a l
    induction l generalizing a with
    | nil => simp
    | cons x xs ih => simp [List.foldl, ih, add_assoc]
  simpa using this 0 l

/-- symmetric double sum = diagonal + 2 × (sum over unordered pairs) -/
theorem pairs_identity (G : Nat → Nat → ℝ) (hG : ∀ i j, G i j = G j i) (S : List Nat) :
    (S.map fun i => (S.map fun j => G i j).sum).sum
      = (S.map fun i => G i i).sum + 2 * (pairTerms G S).sum := by
  induction S with
  | nil => simp [pairTerms]
  | cons x xs ih =>
    simp only [List.map_cons, List.sum_cons, pairTerms, List.sum_append]
    have h1 : (xs.map fun i => G i x + (xs.map fun j => G i j).sum).sum
        = (xs.map fun i => G i x).sum + (xs.map fun i => (xs.map fun j => G i j).sum).sum := by
      rw [← List.sum_map_add]
    have h2 : (xs.map fun i => G i x) = xs.map (G x) := by
      apply List.map_congr_left; intro i _; exact hG i x
    rw [h1, ih, h2]
    ring

theorem covTerm_eq (env σ : Nat → ℝ) (ρ : Nat → Nat → ℝ) (e : Expr ℝ) (i j : Nat) :
    covTerm env σ ρ e i j = 2 * (ρ i j * σ i * σ j) * diff env i e * diff env j e := by
  unfold covTerm
  simp only [Gen.covOf, Gen.covYield, num_mul, num_isZero, num_ofNat, Nat.cast_ofNat, Nat.cast_zero]
  split
  · rename_i h
    have : ρ i j * σ i * σ j = 0 := by simpa using h
    rw [this]; ring
  · rfl

theorem pairTerms_congr {F G : Nat → Nat → ℝ} (S : List Nat) (hS : S.Nodup)
    (h : ∀ i j, i ≠ j → F i j = G i j) : pairTerms F S = pairTerms G S := by
  induction S with
  | nil => rfl
  | cons x xs ih =>
    have hx := (List.nodup_cons.mp hS)
    simp only [pairTerms]
    rw [ih hx.2]
    congr 1
    apply List.map_congr_left
    intro j hj
    exact h x j (fun hxj => hx.1 (hxj ▸ hj))

/-- **C01 (main).** For every formula, values, uncertainties and symmetric correlation
    assignment, and any duplicate-free list `S` of measurements: the number under the square
    root in the code is the quadratic form Σ_i Σ_j ∂_i ∂_j C_ij with C_ii = σ_i²,
    C_ij = ρ_ij σ_i σ_j, i.e. Σ_i (∂_i σ_i)² + 2 Σ_{i<j} ∂_i ∂_j ρ_ij σ_i σ_j. Each measurement
    is one variable however often it occurs in the formula (`diff` is the derivative of the
    whole composed formula by `C03_diff_correct`). -/
theorem C01_quadratic_form (env σ : Nat → ℝ) (ρ : Nat → Nat → ℝ) (hρ : ∀ i j, ρ i j = ρ j i)
    (e : Expr ℝ) (S : List Nat) (hS : S.Nodup) :
    resultSums env σ ρ e S = quadForm (fun i => diff env i e) (Cov σ ρ) S := by
  unfold resultSums quadForm
  simp only [Gen.combine]
  rw [num_add, numSum_eq, numSum_eq]
  have hsym : ∀ i j, (fun i j => diff env i e * diff env j e * Cov σ ρ i j) i j
      = (fun i j => diff env i e * diff env j e * Cov σ ρ i j) j i := by
    intro i j
    simp only [Cov]
    by_cases h : i = j
    · subst h; rfl
    · have h' : ¬ j = i := fun hh => h hh.symm
      simp only [h, h', if_false]; rw [hρ i j]; ring
  rw [pairs_identity _ hsym]
  congr 1
  · unfold quadTerms
    apply congrArg
    apply List.map_congr_left
    intro i _
    simp only [Gen.quadTerm, num_pow, num_mul, num_ofNat, Cov, if_true]
    rw [Nat.cast_ofNat, Real.rpow_two]; ring
  · have : pairTerms (covTerm env σ ρ e) S
        = pairTerms (fun i j => 2 * (diff env i e * diff env j e * Cov σ ρ i j)) S := by
      apply pairTerms_congr S hS
      intro i j hij
      rw [covTerm_eq]; simp only [Cov, hij, if_false]; ring
    rw [this]
    have hmul : ∀ (F : Nat → Nat → ℝ) (S : List Nat),
        (pairTerms (fun i j => 2 * F i j) S).sum = 2 * (pairTerms F S).sum := by
      intro F S
      induction S with
      | nil => simp [pairTerms]
      | cons x xs ih =>
        simp only [pairTerms, List.sum_append, ih]
        have : (xs.map fun j => 2 * F x j).sum = 2 * (xs.map (F x)).sum := by
          rw [List.sum_map_mul_left]
        rw [this]; ring
    rw [hmul]

theorem nodup_eraseDups' : ∀ (n : Nat) (l : List Nat), l.length ≤ n → l.eraseDups.Nodup := by
  intro n
  induction n with
  | zero =>
    intro l hl
    have : l = [] := List.length_eq_zero_iff.mp (Nat.le_zero.mp hl)
    subst this; simp
  | succ n ih =>
    intro l hl
    cases l with
    | nil => simp
    | cons a as =>
      rw [List.eraseDups_cons]
      refine List.nodup_cons.mpr ⟨?_, ?_⟩
      · intro hm
        have := List.mem_eraseDups.mp hm
        simp at this
      · apply ih
        have := List.length_filter_le (fun b => !b == a) as
        simp at hl; omega

/-- **C01 (the statement's formula, verbatim).** The radicand is
    Σ_i (∂_i σ_i)² + 2 Σ_{i<j} ∂_i ∂_j ρ_ij σ_i σ_j, the pairs i<j being the unordered pairs of
    distinct sources. -/
theorem C01_statement_form (env σ : Nat → ℝ) (ρ : Nat → Nat → ℝ) (e : Expr ℝ) (S : List Nat) :
    resultSums env σ ρ e S
      = (S.map fun i => (diff env i e * σ i) ^ 2).sum
        + 2 * (pairTerms (fun i j => diff env i e * diff env j e * ρ i j * σ i * σ j) S).sum := by
  unfold resultSums
  simp only [Gen.combine]
  rw [num_add, numSum_eq, numSum_eq]
  congr 1
  · unfold quadTerms
    apply congrArg
    apply List.map_congr_left
    intro i _
    simp only [Gen.quadTerm, num_pow, num_mul, num_ofNat]
    rw [Nat.cast_ofNat, Real.rpow_two]; ring
  · have hmul : ∀ (F : Nat → Nat → ℝ) (S : List Nat),
        (pairTerms (fun i j => 2 * F i j) S).sum = 2 * (pairTerms F S).sum := by
      intro F S
      induction S with
      | nil => simp [pairTerms]
      | cons x xs ih =>
        simp only [pairTerms, List.sum_append, ih]
        have : (xs.map fun j => 2 * F x j).sum = 2 * (xs.map (F x)).sum := by
          rw [List.sum_map_mul_left]
        rw [this]; ring
    rw [← hmul]
    congr 1
    have : covTerm env σ ρ e = fun i j => 2 * (diff env i e * diff env j e * ρ i j * σ i * σ j) := by
      funext i j; rw [covTerm_eq]; ring
    rw [this]

/-- the list of sources the code iterates over has no duplicates -/
theorem sources_nodup (e : Expr ℝ) : (sources e).Nodup := by
  cases e with
  | var i => simp [sources]
  | const c => simp [sources]
  | un o a => simpa [sources] using sources_nodup a
  | bin o a b => simp only [sources]; exact nodup_eraseDups' _ _ (Nat.le_refl _)

/-- **C01.** The reported uncertainty is sqrt of the statement's formula over the distinct
    source measurements. -/
theorem C01_error (env σ : Nat → ℝ) (ρ : Nat → Nat → ℝ) (hρ : ∀ i j, ρ i j = ρ j i)
    (e : Expr ℝ) :
    (propagate env σ ρ e).2
      = Real.sqrt (quadForm (fun i => diff env i e) (Cov σ ρ) (sources e)) := by
  simp only [propagate, Gen.errOf, num_sqrt]
  rw [C01_quadratic_form env σ ρ hρ e _ (sources_nodup e)]

/-- **C01.** The ∂_i in the law are the exact partial derivatives of the composed formula. -/
theorem C01_partials_exact (env : Nat → ℝ) (e : Expr ℝ) (h : InDom env e) (i : Nat) :
    diff env i e = deriv (fun t => eval (Function.update env i t) e) (env i) :=
  (C03_diff_correct env i e h).deriv.symm

/-- **C01.** The result does not depend on the (hash-set) order in which the code meets the
    sources. -/
theorem C01_perm_invariant (env σ : Nat → ℝ) (ρ : Nat → Nat → ℝ) (hρ : ∀ i j, ρ i j = ρ j i)
    (e : Expr ℝ) (S S' : List Nat) (hS : S.Nodup) (hp : S.Perm S') :
    resultSums env σ ρ e S = resultSums env σ ρ e S' := by
  rw [C01_quadratic_form env σ ρ hρ e S hS,
      C01_quadratic_form env σ ρ hρ e S' (hp.nodup_iff.mp hS)]
  unfold quadForm
  have h1 : ∀ i, (S.map fun j => diff env i e * diff env j e * Cov σ ρ i j).sum
      = (S'.map fun j => diff env i e * diff env j e * Cov σ ρ i j).sum :=
    fun i => (hp.map _).sum_eq
  simp only [h1]
  exact (hp.map _).sum_eq

/-- a formula none of whose partial derivatives is non-zero has zero uncertainty -/
theorem error_zero_of_diff_zero (env σ : Nat → ℝ) (ρ : Nat → Nat → ℝ) (e : Expr ℝ)
    (h : ∀ k, diff env k e = 0) : (propagate env σ ρ e).2 = 0 := by
  simp only [propagate, Gen.errOf, num_sqrt]
  have hq : quadTerms env σ e (sources e) = (sources e).map fun _ => (0:ℝ) := by
    unfold quadTerms
    apply List.map_congr_left
    intro i _
    simp [Gen.quadTerm, h i]
  have hc : ∀ S : List Nat, (pairTerms (covTerm env σ ρ e) S).sum = 0 := by
    intro S
    induction S with
    | nil => simp [pairTerms]
    | cons x xs ih =>
      simp only [pairTerms, List.sum_append, ih, add_zero]
      have : xs.map (covTerm env σ ρ e x) = xs.map fun _ => (0:ℝ) := by
        apply List.map_congr_left; intro j _; rw [covTerm_eq, h x]; ring
      rw [this]; simp
  unfold resultSums
  simp only [Gen.combine]
  rw [num_add, numSum_eq, numSum_eq, hq, hc]
  simp

/-- **C01.** `x - x` has zero uncertainty, for any sub-formula `x` (a measurement that occurs
    several times is one variable). -/
theorem C01_self_cancel_sub (env σ : Nat → ℝ) (ρ : Nat → Nat → ℝ) (e : Expr ℝ) :
    (propagate env σ ρ (.bin .sub e e)).2 = 0 := by
  apply error_zero_of_diff_zero
  intro k; simp [diff, Gen.d2]

/-- **C01.** `x / x` has zero uncertainty wherever it is defined. -/
theorem C01_self_cancel_div (env σ : Nat → ℝ) (ρ : Nat → Nat → ℝ) (e : Expr ℝ)
    (_hdef : eval env e ≠ 0) :
    (propagate env σ ρ (.bin .div e e)).2 = 0 := by
  apply error_zero_of_diff_zero
  intro k; simp [diff, Gen.d2]

/-- **C01.** With a positive-semidefinite covariance the radicand is non-negative. -/
theorem C01_sums_nonneg (env σ : Nat → ℝ) (ρ : Nat → Nat → ℝ) (hρ : ∀ i j, ρ i j = ρ j i)
    (e : Expr ℝ) (S : List Nat) (hS : S.Nodup)
    (hpsd : ∀ g : Nat → ℝ, 0 ≤ quadForm g (Cov σ ρ) S) :
    0 ≤ resultSums env σ ρ e S := by
  rw [C01_quadratic_form env σ ρ hρ e S hS]; exact hpsd _

/-- non-vacuity of the PSD hypothesis: uncorrelated measurements -/
example (σ : Nat → ℝ) (g : Nat → ℝ) : 0 ≤ quadForm g (Cov σ (fun _ _ => 0)) [0, 1] := by
  simp [quadForm, Cov]
  nlinarith [sq_nonneg (g 0 * σ 0), sq_nonneg (g 1 * σ 1), mul_self_nonneg (g 0 * σ 0), mul_self_nonneg (g 1 * σ 1)]

end QExPy

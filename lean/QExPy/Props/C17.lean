/-
  C17 — append, insert, delete and item assignment on a MeasurementArray behave like the same
  edits on a Python list of (value, uncertainty) pairs; every element carries the array's unit
  and, when the array has a name, is named `name_index` by its position; assigning a bare number
  to an item replaces its value and keeps its uncertainty; `sum()` is Σx_i ± sqrt(Σ s_i²),
  `mean()` the arithmetic mean ± std/√n, `std()` the sample standard deviation (n−1).

  Model: `QExPy.ArrayEdit` (QExPy/Model/ArrayEdit.lean), aggregates from QExPy/Model/Stats.lean.

  The reference semantics (`pyIndex`, `pyInsertPos`, `itemPair`, `operandPairs`, `listEdit`,
  `listRun`) is written here with core list functions only (`++`, `take`, `drop`, `eraseIdx`,
  `set`, `mapM`) and does not mention `relabel`, `rename`, `pos`, `coerce` or any other model
  function; the theorems connect the two.

  Source-unchangedness.  `edit` is a function `Arr α → Edit α → Option (Arr α)`: the argument is a
  value and cannot be changed by computing the result, so "the source array is not modified by
  a rejected edit" has no separate statement here.  What carries it is the correspondence run:
  `run` keeps the previous array whenever `edit` returns `none` (`C17_reject_unchanged`), and the
  check runner compares the implementation's array after every step — rejected ones included —
  with `pairs (run a es)`, which is `listRun (pairs a) es` by `C17_run_refines`.
-/
import QExPy.Lemmas.ArrayEdit
import QExPy.Lemmas.Stats

namespace QExPy.ArrayEdit
open QExPy

/-! ## 1. Reference semantics: a Python list of pairs -/

/-- Python index normalisation for a sequence of length `n`:
    `0 ≤ i < n ↦ i`, `−n ≤ i < 0 ↦ n + i`, anything else is an `IndexError`. -/
def pyIndex (n : Nat) (i : Int) : Option Nat :=
  if 0 ≤ i then (if i < n then some i.toNat else none)
  else if -(n : Int) ≤ i then some ((n : Int) + i).toNat else none

/-- Positions `numpy.insert` accepts for a sequence of length `n`:
    `0 ≤ i ≤ n ↦ i`, `−n ≤ i < 0 ↦ n + i`, anything else raises. -/
def pyInsertPos (n : Nat) (i : Int) : Option Nat :=
  if 0 ≤ i then (if i ≤ n then some i.toNat else none)
  else if -(n : Int) ≤ i then some ((n : Int) + i).toNat else none

/-- **C17.** `pyIndex` in relational form. -/
theorem C17_pyIndex_iff (n k : Nat) (i : Int) :
    pyIndex n i = some k ↔
      (0 ≤ i ∧ i < n ∧ (k : Int) = i) ∨ (i < 0 ∧ -(n : Int) ≤ i ∧ (k : Int) = n + i) := by
  unfold pyIndex
  split
  · split
    · simp only [Option.some.injEq]; omega
    · simp only [reduceCtorEq, false_iff]; omega
  · split
    · simp only [Option.some.injEq]; omega
    · simp only [reduceCtorEq, false_iff]; omega

/-- **C17.** `pyInsertPos` in relational form. -/
theorem C17_pyInsertPos_iff (n k : Nat) (i : Int) :
    pyInsertPos n i = some k ↔
      (0 ≤ i ∧ i ≤ n ∧ (k : Int) = i) ∨ (i < 0 ∧ -(n : Int) ≤ i ∧ (k : Int) = n + i) := by
  unfold pyInsertPos
  split
  · split
    · simp only [Option.some.injEq]; omega
    · simp only [reduceCtorEq, false_iff]; omega
  · split
    · simp only [Option.some.injEq]; omega
    · simp only [reduceCtorEq, false_iff]; omega

/-- **C17.** A normalised index is a valid position. -/
theorem C17_pyIndex_lt {n k : Nat} {i : Int} (h : pyIndex n i = some k) : k < n := by
  have := (C17_pyIndex_iff n k i).mp h; omega

/-- **C17.** A normalised insert position is at most the length. -/
theorem C17_pyInsertPos_le {n k : Nat} {i : Int} (h : pyInsertPos n i = some k) : k ≤ n := by
  have := (C17_pyInsertPos_iff n k i).mp h; omega

/-- **C17.** Nothing can be indexed in an empty sequence. -/
theorem C17_pyIndex_zero (i : Int) : pyIndex 0 i = none := by
  cases h : pyIndex 0 i with
  | none => rfl
  | some k => exact absurd (C17_pyIndex_lt h) (Nat.not_lt_zero k)

variable {α : Type} [Num α]

/-- the pair one operand item stands for (`none` = an exception): a number has uncertainty 0,
    a `(value, error)` tuple is rejected when the error is negative -/
def itemPair : Item α → Option (α × α)
  | .num c => some (c, Num.ofNat 0)
  | .pair v e => if Num.lt e (Num.ofNat 0) then none else some (v, e)
  | .meas v e => some (v, e)
  | .bad => none

/-- the list of pairs an operand stands for: all items must be acceptable -/
def operandPairs : Operand α → Option (List (α × α))
  | .one x => (itemPair x).map fun p => [p]
  | .many xs => xs.mapM itemPair
  | .arr ps => some ps

/-- one edit of a Python list of pairs; `none` = the edit raises -/
def listEdit (l : List (α × α)) : Edit α → Option (List (α × α))
  | .append x => (operandPairs x).map fun ps => l ++ ps
  | .insert i x =>
    match operandPairs x, pyInsertPos l.length i with
    | some ps, some k => some (l.take k ++ ps ++ l.drop k)
    | _, _ => none
  | .delete i => (pyIndex l.length i).map fun k => l.eraseIdx k
  | .setItem i x =>
    match pyIndex l.length i with
    | none => none
    | some k =>
      match x with
      | .num c => (l[k]?).map fun old => l.set k (c, old.2)   -- value replaced, uncertainty kept
      | x => (itemPair x).map fun p => l.set k p

/-- a history of edits of a Python list; a raising edit leaves the list as it was -/
def listRun (l : List (α × α)) (es : List (Edit α)) : List (α × α) :=
  es.foldl (fun l e => (listEdit l e).getD l) l

/-- **C17.** Item assignment of a bare number at a valid index, spelled with `l[k]`:
    the new entry is `(c, (l[k]).2)`. -/
theorem C17_listEdit_set_number (l : List (α × α)) (i : Int) (c : α) (k : Nat)
    (hk : pyIndex l.length i = some k) :
    listEdit l (.setItem i (.num c))
      = some (l.set k (c, (l[k]'(C17_pyIndex_lt hk)).2)) := by
  have hlt := C17_pyIndex_lt hk
  simp [listEdit, hk, hlt]

/-- **C17.** Inserting a single element is `List.insertIdx` at the normalised position. -/
theorem C17_insert_single (l : List (α × α)) (i : Int) (x : Item α) (p : α × α) (k : Nat)
    (hx : itemPair x = some p) (hk : pyInsertPos l.length i = some k) :
    listEdit l (.insert i (.one x)) = some (l.insertIdx k p) := by
  simp [listEdit, operandPairs, hx, hk, insertIdx_eq_take_drop' l k p (C17_pyInsertPos_le hk)]

/-! ## 2. The model refines the list semantics -/

/-- **C17.** `pos` is Python index normalisation: with `hi = n − 1` (and `n > 0`) it is
    `pyIndex`, with `hi = n` it is the insert position. -/
theorem C17_pos_spec (n : Nat) (i : Int) :
    (0 < n → pos n i (n - 1) = pyIndex n i) ∧ pos n i n = pyInsertPos n i := by
  unfold pos pyIndex pyInsertPos
  refine ⟨fun hn => ?_, ?_⟩
  · by_cases h0 : 0 ≤ i
    · simp only [h0, if_true]
      by_cases h1 : i < n
      · rw [if_pos (by omega), if_pos h1]
      · rw [if_neg (by omega), if_neg h1]
    · simp only [h0, if_false]
      by_cases h1 : -(n : Int) ≤ i
      · rw [if_pos (by omega), if_pos h1]; congr 1; omega
      · rw [if_neg (by omega), if_neg h1]
  · by_cases h0 : 0 ≤ i
    · simp only [h0, if_true]
      by_cases h1 : i ≤ n
      · rw [if_pos (by omega), if_pos h1]
      · rw [if_neg (by omega), if_neg h1]
    · simp only [h0, if_false]
      by_cases h1 : -(n : Int) ≤ i
      · rw [if_pos (by omega), if_pos h1]; congr 1; omega
      · rw [if_neg (by omega), if_neg h1]

/-- **C17.** What the model accepts as an item is what the reference accepts, with the same
    pair. -/
theorem C17_coerceItem_spec (x : Item α) : coerceItem x = itemPair x := by
  cases x <;> rfl

/-- **C17.** What the model accepts as an operand is what the reference accepts, with the same
    pairs. -/
theorem C17_coerce_spec (x : Operand α) : coerce x = operandPairs x := by
  cases x with
  | one x => simp [coerce, operandPairs, C17_coerceItem_spec]
  | many xs =>
    simp only [coerce, operandPairs, coerceItems_eq_mapM]
    have : (coerceItem : Item α → Option (α × α)) = itemPair := funext C17_coerceItem_spec
    rw [this]
  | arr ps => rfl

/-- **C17 (refinement, one equation).** For every array and every edit, the model accepts the
    edit exactly when the list semantics does, and then the pairs of the result are the result
    of the list edit. -/
theorem C17_refines_list_eq (a : Arr α) (e : Edit α) :
    listEdit (pairs a) e = (edit a e).map pairs := by
  cases e with
  | append x =>
    simp only [listEdit, edit, append, C17_coerce_spec]
    cases operandPairs x with
    | none => rfl
    | some ps => simp [pairs, map_pair_relabel]
  | insert i x =>
    simp only [listEdit, edit, insert, C17_coerce_spec, length_pairs, (C17_pos_spec _ _).2]
    cases operandPairs x with
    | none => rfl
    | some ps =>
      cases pyInsertPos a.elems.length i with
      | none => rfl
      | some k => simp [pairs, map_pair_relabel]
  | delete i =>
    simp only [listEdit, edit, delete, length_pairs]
    by_cases h0 : a.elems.length = 0
    · simp [h0, C17_pyIndex_zero]
    · rw [if_neg h0, (C17_pos_spec _ _).1 (by omega)]
      cases pyIndex a.elems.length i with
      | none => rfl
      | some k => simp [pairs, map_pair_rename, map_eraseIdx']
  | setItem i x =>
    simp only [listEdit, edit, setItem, length_pairs]
    by_cases h0 : a.elems.length = 0
    · simp [h0, C17_pyIndex_zero]
    · rw [if_neg h0, (C17_pos_spec _ _).1 (by omega)]
      cases hk : pyIndex a.elems.length i with
      | none => rfl
      | some k =>
        have hlt : k < a.elems.length := C17_pyIndex_lt hk
        cases x with
        | num c => simp [pairs, hlt, modify_eq_set', List.map_set]
        | pair v e =>
          simp only [C17_coerceItem_spec]
          cases itemPair (Item.pair v e) <;> simp [pairs, List.map_set]
        | meas v e =>
          simp only [C17_coerceItem_spec]
          cases itemPair (Item.meas v e) <;> simp [pairs, List.map_set]
        | bad => simp [C17_coerceItem_spec, itemPair]

/-- **C17 (refinement).** An accepted edit is accepted by the list semantics and yields the
    pairs of the model's result; a rejected edit is rejected by the list semantics. -/
theorem C17_refines_list (a : Arr α) (e : Edit α) :
    (∀ a', edit a e = some a' → listEdit (pairs a) e = some (pairs a')) ∧
    (edit a e = none → listEdit (pairs a) e = none) := by
  rw [C17_refines_list_eq]
  constructor
  · intro a' h; rw [h]; rfl
  · intro h; rw [h]; rfl

/-- **C17.** … and conversely: whatever the list semantics does, the model does. -/
theorem C17_refines_list_conv (a : Arr α) (e : Edit α) :
    (∀ l', listEdit (pairs a) e = some l' → ∃ a', edit a e = some a' ∧ pairs a' = l') ∧
    (listEdit (pairs a) e = none → edit a e = none) := by
  rw [C17_refines_list_eq]
  cases edit a e with
  | none => simp
  | some a' => simp

/-- **C17 (histories).** For every array and every sequence of edits — accepted or rejected —
    the pairs of the model's final array are what the same history does to the Python list. -/
theorem C17_run_refines (a : Arr α) (es : List (Edit α)) :
    pairs (run a es) = listRun (pairs a) es := by
  induction es generalizing a with
  | nil => rfl
  | cons e es ih =>
    simp only [run, listRun, List.foldl_cons] at ih ⊢
    rw [ih, C17_refines_list_eq]
    cases edit a e <;> rfl

/-- **C17.** In a history a rejected edit leaves the array as it was. -/
theorem C17_reject_unchanged (a : Arr α) (e : Edit α) (es : List (Edit α))
    (h : edit a e = none) : run a (e :: es) = run a es := by
  simp [run, h]

/-- **C17.** … and an accepted one continues from its result. -/
theorem C17_accept_step (a a' : Arr α) (e : Edit α) (es : List (Edit α))
    (h : edit a e = some a') : run a (e :: es) = run a' es := by
  simp [run, h]

/-! ## 3. Names and units -/

/-- every element is named `name_index` by its position -/
def Named {α : Type} (a : Arr α) : Prop :=
  ∀ i (h : i < a.elems.length), (a.elems[i]).name = nameAt a.name i

/-- every element carries the array's unit -/
def Unitful {α : Type} (a : Arr α) : Prop := ∀ el ∈ a.elems, el.unit = a.unit

/-- **C17.** An accepted edit changes neither the array's name nor its unit. -/
theorem C17_name_unit_fixed (a a' : Arr α) (e : Edit α) (h : edit a e = some a') :
    a'.name = a.name ∧ a'.unit = a.unit :=
  ⟨(edit_some_cases h).1, (edit_some_cases h).2.1⟩

omit [Num α] in
/-- **C17.** The constructor names the elements of a named array `name_0, name_1, …`. -/
theorem C17_names_mk (name unit : String) (ps : List (α × α)) (hn : name ≠ "") :
    Named (mk name unit ps) := by
  intro i h
  rw [getElem_mk]
  simp [hn, mk]

/-- **C17.** After append / insert / delete every element is named by its position, whatever
    the names were before. -/
theorem C17_names_reindexed (a a' : Arr α) (e : Edit α) (h : edit a e = some a')
    (he : ∀ i x, e ≠ .setItem i x) : Named a' := by
  intro i hi
  cases e with
  | setItem k x => exact absurd rfl (he k x)
  | append x =>
    simp only [edit, append] at h
    split at h
    · cases h
    · cases h; simp [getElem_relabel]
  | insert j x =>
    simp only [edit, insert] at h
    split at h
    · cases h
    · split at h
      · cases h
      · cases h; simp [getElem_relabel]
  | delete j =>
    simp only [edit, delete] at h
    split at h
    · cases h
    · split at h
      · cases h
      · cases h; simp [getElem_rename]

/-- **C17.** Every accepted edit of a named array whose elements are named by position yields
    an array whose elements are named by position. -/
theorem C17_names_edit (a a' : Arr α) (e : Edit α) (hn : a.name ≠ "") (ha : Named a)
    (h : edit a e = some a') : Named a' := by
  obtain ⟨hname, -, hc⟩ := edit_some_cases h
  obtain ⟨n', u', els'⟩ := a'
  simp only at hname hc
  subst hname
  intro i hi
  simp only at hi ⊢
  rcases hc with ⟨ps, rfl⟩ | ⟨k, rfl⟩ | ⟨k, c, hk, rfl⟩ | ⟨k, p, hk, rfl⟩
  · simp [getElem_relabel]
  · simp [getElem_rename]
  · have hi' : i < a.elems.length := by simpa using hi
    rw [List.getElem_modify]
    split
    · exact ha i hi'
    · exact ha i hi'
  · have hi' : i < a.elems.length := by simpa using hi
    rw [List.getElem_set]
    split
    · rename_i hki; subst hki; rfl
    · exact ha i hi'

/-- **C17.** An accepted edit keeps `run`'s array name; so does a rejected one. -/
theorem C17_run_name_unit (a : Arr α) (es : List (Edit α)) :
    (run a es).name = a.name ∧ (run a es).unit = a.unit := by
  induction es generalizing a with
  | nil => exact ⟨rfl, rfl⟩
  | cons e es ih =>
    cases h : edit a e with
    | none => rw [C17_reject_unchanged a e es h]; exact ih a
    | some a' =>
      rw [C17_accept_step a a' e es h]
      have := C17_name_unit_fixed a a' e h
      exact ⟨(ih a').1.trans this.1, (ih a').2.trans this.2⟩

/-- **C17.** Through every history of edits (accepted or rejected) of a named array, every
    element stays named `name_index` by its position. -/
theorem C17_names_run (a : Arr α) (es : List (Edit α)) (hn : a.name ≠ "") (ha : Named a) :
    Named (run a es) := by
  induction es generalizing a with
  | nil => exact ha
  | cons e es ih =>
    cases h : edit a e with
    | none => rw [C17_reject_unchanged a e es h]; exact ih a hn ha
    | some a' =>
      rw [C17_accept_step a a' e es h]
      have hfix := C17_name_unit_fixed a a' e h
      exact ih a' (by rw [hfix.1]; exact hn) (C17_names_edit a a' e hn ha h)

omit [Num α] in
/-- **C17.** Every element the constructor makes carries the array's unit. -/
theorem C17_units_mk (name unit : String) (ps : List (α × α)) : Unitful (mk name unit ps) := by
  intro el hel
  obtain ⟨i, hi, rfl⟩ := List.mem_iff_getElem.mp hel
  rw [getElem_mk]
  rfl

/-- **C17.** After append / insert every element carries the array's unit, whatever the units
    were before. -/
theorem C17_units_relabelled (a a' : Arr α) (e : Edit α) (h : edit a e = some a')
    (he : (∃ x, e = .append x) ∨ (∃ i x, e = .insert i x)) : Unitful a' := by
  intro el hel
  obtain ⟨i, hi, rfl⟩ := List.mem_iff_getElem.mp hel
  rcases he with ⟨x, rfl⟩ | ⟨j, x, rfl⟩
  · simp only [edit, append] at h
    split at h
    · cases h
    · cases h; simp [getElem_relabel]
  · simp only [edit, insert] at h
    split at h
    · cases h
    · split at h
      · cases h
      · cases h; simp [getElem_relabel]

/-- **C17.** Every accepted edit of an array whose elements carry its unit yields an array
    whose elements carry its unit. -/
theorem C17_units_edit (a a' : Arr α) (e : Edit α) (ha : Unitful a)
    (h : edit a e = some a') : Unitful a' := by
  obtain ⟨-, hunit, hc⟩ := edit_some_cases h
  obtain ⟨n', u', els'⟩ := a'
  simp only at hunit hc
  subst hunit
  intro el hel
  obtain ⟨i, hi, rfl⟩ := List.mem_iff_getElem.mp hel
  simp only at hi ⊢
  rcases hc with ⟨ps, rfl⟩ | ⟨k, rfl⟩ | ⟨k, c, hk, rfl⟩ | ⟨k, p, hk, rfl⟩
  · simp [getElem_relabel]
  · have hi' : i < (a.elems.eraseIdx k).length := by simpa using hi
    rw [getElem_rename]
    exact ha ((a.elems.eraseIdx k)[i]) (List.mem_of_mem_eraseIdx (List.getElem_mem hi'))
  · have hi' : i < a.elems.length := by simpa using hi
    rw [List.getElem_modify]
    split
    · exact ha (a.elems[i]) (List.getElem_mem hi')
    · exact ha _ (List.getElem_mem hi')
  · have hi' : i < a.elems.length := by simpa using hi
    rw [List.getElem_set]
    split
    · rfl
    · exact ha _ (List.getElem_mem hi')

/-- **C17.** Through every history of edits every element carries the array's unit. -/
theorem C17_units_run (a : Arr α) (es : List (Edit α)) (ha : Unitful a) :
    Unitful (run a es) := by
  induction es generalizing a with
  | nil => exact ha
  | cons e es ih =>
    cases h : edit a e with
    | none => rw [C17_reject_unchanged a e es h]; exact ih a ha
    | some a' =>
      rw [C17_accept_step a a' e es h]
      exact ih a' (C17_units_edit a a' e ha h)

/-- **C17.** An array built by the constructor with a name and then edited by any history:
    all elements named by position, all carrying the unit, pairs as the Python list. -/
theorem C17_mk_run (name unit : String) (ps : List (α × α)) (es : List (Edit α))
    (hn : name ≠ "") :
    Named (run (mk name unit ps) es) ∧ Unitful (run (mk name unit ps) es) ∧
    pairs (run (mk name unit ps) es) = listRun ps es ∧
    (run (mk name unit ps) es).name = name ∧ (run (mk name unit ps) es).unit = unit := by
  refine ⟨C17_names_run _ es hn (C17_names_mk name unit ps hn),
    C17_units_run _ es (C17_units_mk name unit ps), ?_, ?_, ?_⟩
  · rw [C17_run_refines, pairs_mk]
  · exact (C17_run_name_unit _ es).1
  · exact (C17_run_name_unit _ es).2

/-! ## 4. Item assignment of a bare number; lengths -/

/-- **C17.** `a[i] = c` with a bare number `c`, accepted: `i` normalises to a position `k`, the
    length is unchanged, element `k` has value `c` and keeps its uncertainty (and its name and
    unit), and every other element is unchanged. -/
theorem C17_setitem_number_keeps_uncertainty (a a' : Arr α) (i : Int) (c : α)
    (h : setItem a i (.num c) = some a') :
    ∃ k, pyIndex a.elems.length i = some k ∧
      ∃ (hk : k < a.elems.length) (hl : a'.elems.length = a.elems.length),
        (a'.elems[k]'(by omega)).v = c ∧
        (a'.elems[k]'(by omega)).e = (a.elems[k]).e ∧
        (a'.elems[k]'(by omega)).name = (a.elems[k]).name ∧
        (a'.elems[k]'(by omega)).unit = (a.elems[k]).unit ∧
        ∀ j (hj : j < a.elems.length), j ≠ k → a'.elems[j]'(by omega) = a.elems[j] := by
  unfold setItem at h
  split at h
  · cases h
  · rename_i h0
    rw [(C17_pos_spec _ _).1 (by omega)] at h
    split at h
    · cases h
    · rename_i k hk
      have hlt := C17_pyIndex_lt hk
      cases h
      refine ⟨k, hk, hlt, by simp, ?_, ?_, ?_, ?_, ?_⟩
      · simp
      · simp
      · simp
      · simp
      · intro j hj hjk
        have : ¬ k = j := fun hh => hjk hh.symm
        simp [this]

/-- **C17.** The number of elements after an accepted edit: append and insert add the number of
    pairs the operand stands for, delete removes one (and needs a non-empty array), item
    assignment keeps the length. -/
theorem C17_length (a a' : Arr α) (e : Edit α) (h : edit a e = some a') :
    match e with
    | .append x => ∃ ps, operandPairs x = some ps ∧ a'.elems.length = a.elems.length + ps.length
    | .insert _ x =>
        ∃ ps, operandPairs x = some ps ∧ a'.elems.length = a.elems.length + ps.length
    | .delete _ => 0 < a.elems.length ∧ a'.elems.length = a.elems.length - 1
    | .setItem _ _ => a'.elems.length = a.elems.length := by
  have hr := (C17_refines_list a e).1 a' h
  have hlen : ∀ l, l = pairs a' → l.length = a'.elems.length := by
    intro l hl; rw [hl, length_pairs]
  cases e with
  | append x =>
    simp only [listEdit] at hr ⊢
    cases hx : operandPairs x with
    | none => simp [hx] at hr
    | some ps =>
      simp only [hx, Option.map_some, Option.some.injEq] at hr
      refine ⟨ps, rfl, ?_⟩
      have := hlen _ hr
      simp only [List.length_append, length_pairs] at this
      omega
  | insert i x =>
    simp only [listEdit] at hr ⊢
    cases hx : operandPairs x with
    | none => simp [hx] at hr
    | some ps =>
      cases hk : pyInsertPos (pairs a).length i with
      | none => simp [hx, hk] at hr
      | some k =>
        simp only [hx, hk, Option.some.injEq] at hr
        refine ⟨ps, rfl, ?_⟩
        have hle := C17_pyInsertPos_le hk
        have := hlen _ hr
        simp only [List.length_append, List.length_take, List.length_drop, length_pairs]
          at this hle
        omega
  | delete i =>
    simp only [listEdit] at hr ⊢
    cases hk : pyIndex (pairs a).length i with
    | none => simp [hk] at hr
    | some k =>
      simp only [hk, Option.map_some, Option.some.injEq] at hr
      have hlt := C17_pyIndex_lt hk
      have := hlen _ hr
      rw [List.length_eraseIdx, if_pos hlt] at this
      rw [length_pairs] at this hlt
      omega
  | setItem i x =>
    simp only [listEdit] at hr ⊢
    cases hk : pyIndex (pairs a).length i with
    | none => simp [hk] at hr
    | some k =>
      simp only [hk] at hr
      have hlt := C17_pyIndex_lt hk
      cases x with
      | num c =>
        simp only [List.getElem?_eq_getElem hlt, Option.map_some, Option.some.injEq] at hr
        have := hlen _ hr
        simpa [length_pairs] using this.symm
      | pair v e =>
        cases hp : itemPair (Item.pair v e) with
        | none => simp [hp] at hr
        | some p =>
          simp only [hp, Option.map_some, Option.some.injEq] at hr
          have := hlen _ hr
          simpa [length_pairs] using this.symm
      | meas v e =>
        cases hp : itemPair (Item.meas v e) with
        | none => simp [hp] at hr
        | some p =>
          simp only [hp, Option.map_some, Option.some.injEq] at hr
          have := hlen _ hr
          simpa [length_pairs] using this.symm
      | bad => simp [itemPair] at hr

/-! ## 5. Aggregates (over ℝ) -/

/-- **C17.** `sum()` is Σ x_i ± sqrt(Σ s_i²). -/
theorem C17_sum (a : Arr ℝ) :
    ArrayEdit.sum a = ((values a).sum, Real.sqrt (((errors a).map (· ^ 2)).sum)) := by
  rw [ArrayEdit.sum, Stats.sumPair_eq]

/-- **C17.** `mean()` is the arithmetic mean ± std()/√n. -/
theorem C17_mean (a : Arr ℝ) :
    (ArrayEdit.mean a).1 = (values a).sum / (values a).length ∧
    (ArrayEdit.mean a).2 = ArrayEdit.std a / Real.sqrt (values a).length := by
  simp [ArrayEdit.mean, ArrayEdit.std, Stats.meanPair_eq, Stats.mean_eq, Stats.sem_eq]

/-- **C17.** `std()` is the sample standard deviation (divisor n − 1) of the central values. -/
theorem C17_std (a : Arr ℝ) :
    ArrayEdit.std a
      = Real.sqrt ((((values a).map
          (fun x => (x - (values a).sum / (values a).length) ^ 2)).sum)
          / ((values a).length - 1 : ℕ)) := by
  rw [ArrayEdit.std, Stats.std1_eq, Stats.var1_eq, Stats.ssq_eq, Stats.mean_eq]

/-- **C17.** The aggregates only see the pairs: `values` / `errors` are the two projections of
    `pairs`, so after any history they are those of the Python list. -/
theorem C17_values_errors_run (a : Arr α) (es : List (Edit α)) :
    values (run a es) = (listRun (pairs a) es).map Prod.fst ∧
    errors (run a es) = (listRun (pairs a) es).map Prod.snd := by
  rw [← C17_run_refines]
  simp [values, errors, pairs, List.map_map, Function.comp_def]

/-! ## 6. Non-vacuity -/

/-- the array `x = [1 ± 0.1, 2 ± 0.2] m` used by the examples -/
noncomputable def C17_exampleArray : Arr ℝ := mk "x" "m" [(1, 0.1), (2, 0.2)]

/-- hypotheses of `C17_names_edit` / `C17_units_edit` are satisfiable, and an edit is accepted -/
example : C17_exampleArray.name ≠ "" ∧ Named C17_exampleArray ∧ Unitful C17_exampleArray ∧
    ∃ a', edit C17_exampleArray (.append (.one (.num 3))) = some a' ∧ pairs a' = [(1, 0.1), (2, 0.2), (3, 0)] := by
  refine ⟨by simp [C17_exampleArray, mk], C17_names_mk _ _ _ (by simp), C17_units_mk _ _ _, ?_⟩
  have h := C17_refines_list_conv C17_exampleArray (.append (.one (.num 3)))
  refine h.1 _ ?_
  simp [listEdit, operandPairs, itemPair, C17_exampleArray, pairs_mk]

/-- item assignment with a negative index is accepted and keeps the uncertainty -/
example : listEdit [((1 : ℝ), (0.1 : ℝ)), (2, 0.2)] (.setItem (-1) (.num 5))
    = some [(1, 0.1), (5, 0.2)] := by
  simp [listEdit, pyIndex]

/-- an out-of-range index, a negative uncertainty and a non-numeric operand are rejected -/
example : edit C17_exampleArray (.setItem 2 (.num 5)) = none ∧ edit C17_exampleArray (.delete (-3)) = none ∧
    edit C17_exampleArray (.append (.one (.pair 1 (-1)))) = none ∧
    edit C17_exampleArray (.insert 0 (.many [.num 1, .bad])) = none := by
  refine ⟨(C17_refines_list_conv _ _).2 ?_, (C17_refines_list_conv _ _).2 ?_,
    (C17_refines_list_conv _ _).2 ?_, (C17_refines_list_conv _ _).2 ?_⟩
  · simp [listEdit, pyIndex, C17_exampleArray, pairs_mk]
  · simp [listEdit, pyIndex, C17_exampleArray, pairs_mk]
  · simp [listEdit, operandPairs, itemPair]
  · simp [listEdit, operandPairs, itemPair]

/-- the hypothesis of `C17_setitem_number_keeps_uncertainty` is satisfiable (negative index) -/
example : ∃ a', setItem C17_exampleArray (-1) (.num 5) = some a' ∧
    pairs a' = [(1, 0.1), (5, 0.2)] := by
  have h := (C17_refines_list_conv C17_exampleArray (.setItem (-1) (.num 5))).1
  refine h _ ?_
  simp [listEdit, pyIndex, C17_exampleArray, pairs_mk]

/-- the aggregates on a concrete array: the sum of `[1 ± 0.1, 2 ± 0.2]` has value 3 and
    squared uncertainty 0.05 -/
example : (ArrayEdit.sum C17_exampleArray).1 = 3 ∧ (ArrayEdit.sum C17_exampleArray).2 ^ 2 = 0.05 := by
  rw [C17_sum]
  have hv : values C17_exampleArray = [1, 2] := by simp [values, C17_exampleArray, mk]
  have he : errors C17_exampleArray = [0.1, 0.2] := by simp [errors, C17_exampleArray, mk]
  rw [hv, he]
  constructor
  · norm_num
  · rw [Real.sq_sqrt (by norm_num)]; norm_num

end QExPy.ArrayEdit

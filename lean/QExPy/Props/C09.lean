/-
  C09 — printed value and uncertainty are the correctly rounded pair in every style.

  Model: `QExPy/Model/Printing.lean` (exact over ℚ) with the constants generated from
  qexpy/utils/printing.py on every run (`QExPy/Generated/Printing.lean`).
-/
import QExPy.Model.Printing

namespace QExPy
open Printing

/-- **C09 (formatting succeeds).** The model printer is a total function: every pair of rationals
    (so every pair of finite floats, including value 0, negatives, uncertainty 0) and every
    configuration yields a printed form. -/
theorem C09_total (cfg : PCfg) (v e : Rat) : ∃ p : Printed, fmt cfg v e = p := ⟨_, rfl⟩

end QExPy

/-
  C09 — printed value and uncertainty are the correctly rounded pair in every style.

  Model: `QExPy/Model/Printing.lean` (exact over ℚ, follows printing.py step by step) with the
  constants generated from qexpy/utils/printing.py on every run (`QExPy/Generated/Printing.lean`:
  back-off exponent, decimals formula, clip, rounding function, fallback order).
  Spec: `Printing.PrintedOK v e cfg p` (decidable; the same definition is evaluated by the driver
  command `print_spec` on the real library's parsed output).
-/
import QExPy.Lemmas.Printing
import QExPy.Lemmas.PrintText

namespace QExPy
open Printing

/-- **C09 (formatting succeeds).** The model printer is a total function: every pair of rationals
    (so every pair of finite floats, including value 0, negatives, uncertainty 0) and every
    configuration yields a printed form. -/
theorem C09_total (cfg : PCfg) (v e : Rat) : ∃ p : Printed, fmt cfg v e = p := ⟨_, rfl⟩

/-- **C09 (rounding).** `roundHE` (Python's `round`) moves a number by at most one half. -/
theorem C09_round_bound (q : ℚ) : |(roundHE q : ℚ) - q| ≤ 1 / 2 := roundHE_bound q

/-- **C09 (order of magnitude).** `ilog10 q = ⌊log₁₀|q|⌋`, exactly: `10^k ≤ |q| < 10^(k+1)`,
    and this `k` is unique (so values at and next to exact powers of ten get the right order). -/
theorem C09_ilog10_spec (q : ℚ) (hq : q ≠ 0) :
    p10 (ilog10 q) ≤ |q| ∧ |q| < p10 (ilog10 q + 1) ∧
    ∀ k : ℤ, p10 k ≤ |q| → |q| < p10 (k + 1) → k = ilog10 q := by
  obtain ⟨h1, h2⟩ := ilog10_spec q hq
  exact ⟨h1, h2, fun k a b => (ilog10_unique q k a b).symm⟩

/-- **C09 (significant figures).** Rounding `x ≠ 0` to `n ≥ 1` significant figures gives an
    `n`-digit mantissa, or `10^n` exactly when the rounding carries into the next decade
    (`0.096 → 0.1`, `9.96 → 10`, `99.96 → 100`). -/
theorem C09_sig_round (x : ℚ) (hx : x ≠ 0) (n : ℕ) (hn : 1 ≤ n) :
    let m := roundHE (x / p10 (ilog10 x - n + 1))
    (10 : ℚ) ^ (n - 1) ≤ |(m : ℚ)| ∧ |(m : ℚ)| ≤ (10 : ℚ) ^ n := by
  obtain ⟨k, rfl⟩ : ∃ k, n = k + 1 := ⟨n - 1, by omega⟩
  exact (sig_round x hx k).1

/-- **C09 (main).** For every value and uncertainty (all rationals, hence all finite floats:
    zero, negative, at or next to powers of ten, carrying or not), every style, every
    significant-figure mode and every `n ≥ 1`, what the model prints satisfies `PrintedOK`:
    one common decimal place; that place is the one of the n-th significant figure of the
    uncertainty (automatic / error mode) or of the value (value mode), one above it when the
    rounding carries; both numbers are multiples of that place and within (1/2 + 1/20) of a unit
    of it from the true numbers; with nothing to fix a place (pivot 0) both are within that
    allowance of the last printed place. -/
theorem C09_model_ok (cfg : PCfg) (v e : ℚ) (hn : 1 ≤ cfg.n) : PrintedOK v e cfg (fmt cfg v e) := by
  have hdef : ∀ latex, PrintedOK v e cfg (defaultPrinter cfg v e latex) := by
    intro latex
    by_cases h : v = 0 ∧ e = 0
    · obtain ⟨rfl, rfl⟩ := h
      simp only [defaultPrinter, and_self, if_true]
      exact zeroForm_ok cfg latex
    · rw [defaultPrinter_eq cfg v e latex h]
      exact genP_ok cfg v e 0 false latex hn
  have hsci : ∀ latex, PrintedOK v e cfg (sciPrinter cfg v e latex) := by
    intro latex
    unfold sciPrinter
    by_cases h : v = 0 ∧ e = 0
    · obtain ⟨rfl, rfl⟩ := h
      simp only [and_self, if_true]
      exact zeroForm_ok cfg latex
    · simp only [if_neg h]
      generalize (if v ≠ 0 then ilog10 v else ilog10 e) = ord
      by_cases ho : ord = Gen.sciFallbackOrder
      · simp only [if_pos ho]; exact hdef latex
      · simp only [if_neg ho]; exact genP_ok cfg v e ord true latex hn
  unfold fmt
  cases cfg.style
  · exact hdef false
  · exact hsci false
  · exact hsci true

/-- **C09 (the predicate means "n significant figures").** Whatever output satisfies `PrintedOK`
    (the model's or the implementation's): when the number that fixes the place — the uncertainty
    in automatic/error mode, the value in value mode — is non-zero, that number read back from the
    text is `m · 10^pl` with an integer `m` of exactly `n` digits, `10^(n−1) ≤ |m| ≤ 10^n`
    (`10^n` only through a carry). So the predicate cannot be met by printing more or fewer
    significant figures than configured. -/
theorem C09_spec_sig_figs (v e : ℚ) (cfg : PCfg) (p : Printed) (hn : 1 ≤ cfg.n)
    (hx : pivot cfg.mode v e ≠ 0) (h : PrintedOK v e cfg p) :
    ∃ pl m : ℤ, (10 : ℚ) ^ (cfg.n - 1) ≤ |(m : ℚ)| ∧ |(m : ℚ)| ≤ (10 : ℚ) ^ cfg.n ∧
      (if cfg.mode.onError then (p.mantE : ℚ) * p10 (p.pow10 - p.decE)
        else (p.mantV : ℚ) * p10 (p.pow10 - p.decV)) = (m : ℚ) * p10 pl := by
  obtain ⟨k, hk⟩ : ∃ k, cfg.n = k + 1 := ⟨cfg.n - 1, by omega⟩
  obtain ⟨-, h2⟩ := h
  simp only [hx, if_false] at h2
  rw [hk] at h2 ⊢
  simp only [Nat.add_sub_cancel]
  have key : ∀ pl : ℤ,
      (pl = ilog10 (pivot cfg.mode v e) - ((k + 1 : ℕ) : ℤ) + 1 ∨
        (pl = ilog10 (pivot cfg.mode v e) - ((k + 1 : ℕ) : ℤ) + 1 + 1 ∧
          p10 ((k + 1 : ℕ) : ℤ) - tol ≤
            qabs (pivot cfg.mode v e) / p10 (ilog10 (pivot cfg.mode v e) - ((k + 1 : ℕ) : ℤ) + 1))) →
      PlaceOK v e p pl →
      ∃ pl m : ℤ, (10 : ℚ) ^ k ≤ |(m : ℚ)| ∧ |(m : ℚ)| ≤ (10 : ℚ) ^ (k + 1) ∧
        (if cfg.mode.onError then (p.mantE : ℚ) * p10 (p.pow10 - p.decE)
          else (p.mantV : ℚ) * p10 (p.pow10 - p.decV)) = (m : ℚ) * p10 pl := by
    intro pl hpl hP
    obtain ⟨-, hmV, hbV, hE⟩ := hP
    unfold pivot at hx hpl
    cases hm : cfg.mode.onError
    · simp only [hm, Bool.false_eq_true, if_false] at hx hpl ⊢
      obtain ⟨m, e1, e2, e3⟩ := pivot_digits v _ hx k pl hpl hmV hbV
      exact ⟨pl, m, e2, e3, e1⟩
    · simp only [hm, if_true] at hx hpl ⊢
      obtain ⟨hmE, hbE⟩ := hE hx
      obtain ⟨m, e1, e2, e3⟩ := pivot_digits e _ hx k pl hpl hmE hbE
      exact ⟨pl, m, e2, e3, e1⟩
  rcases h2 with hP | ⟨hthr, hP⟩
  · exact key _ (Or.inl rfl) hP
  · exact key _ (Or.inr ⟨rfl, hthr⟩) hP

/-- **C09 (model prints n significant figures).** Corollary for the model's own output. -/
theorem C09_model_sig_figs (cfg : PCfg) (v e : ℚ) (hn : 1 ≤ cfg.n) (hx : pivot cfg.mode v e ≠ 0) :
    ∃ pl m : ℤ, (10 : ℚ) ^ (cfg.n - 1) ≤ |(m : ℚ)| ∧ |(m : ℚ)| ≤ (10 : ℚ) ^ cfg.n ∧
      (if cfg.mode.onError then ((fmt cfg v e).mantE : ℚ) * p10 ((fmt cfg v e).pow10 - (fmt cfg v e).decE)
        else ((fmt cfg v e).mantV : ℚ) * p10 ((fmt cfg v e).pow10 - (fmt cfg v e).decV))
        = (m : ℚ) * p10 pl :=
  C09_spec_sig_figs v e cfg (fmt cfg v e) hn hx (C09_model_ok cfg v e hn)

/-- **C09 (text round trip).** Reading a rendered output back (`parsePrinted`, the parser the
    driver applies to the implementation's raw text) returns the structured form it was rendered
    from — mantissas, decimals, power of ten, style flags — for every well-formed `Printed`
    (a bare `0` uncertainty stands for mantissa 0 with no decimals; the non-scientific form has
    power 0).  Only the `errBare` flag is normalised: `"0"` reads as a bare zero. -/
theorem C09_render_parse (p : Printed) (h : WFPrinted p) :
    parsePrinted (render p) = some { p with errBare := decide (p.mantE = 0 ∧ p.decE = 0) } := by
  unfold parsePrinted render
  rw [String.toList_ofList]
  exact parseChars_render p h

/-- the model's outputs are well-formed -/
theorem C09_model_wf (cfg : PCfg) (v e : ℚ) : WFPrinted (fmt cfg v e) := by
  have hz : ∀ l, WFPrinted (zeroForm l) := by intro l; simp [WFPrinted, zeroForm]
  have hdef : ∀ l, WFPrinted (defaultPrinter cfg v e l) := by
    intro l
    unfold defaultPrinter
    split
    · exact hz l
    · by_cases he : e = 0 <;> simp [WFPrinted, he]
  have hsci : ∀ l, WFPrinted (sciPrinter cfg v e l) := by
    intro l
    unfold sciPrinter
    by_cases h0 : v = 0 ∧ e = 0
    · simp only [if_pos h0]; exact hz l
    · simp only [if_neg h0]
      generalize (if v ≠ 0 then ilog10 v else ilog10 e) = ord
      by_cases ho : ord = Gen.sciFallbackOrder
      · simp only [if_pos ho]; exact hdef l
      · simp only [if_neg ho]
        by_cases he : e = 0 <;> simp [WFPrinted, he]
  unfold fmt
  cases cfg.style
  · exact hdef false
  · exact hsci false
  · exact hsci true

/-- **C09 (end to end on the model).** The TEXT the model prints, read back as numbers by
    `parsePrinted`, satisfies `PrintedOK` — for every value, uncertainty, style, mode, `n ≥ 1`. -/
theorem C09_model_text_ok (cfg : PCfg) (v e : ℚ) (hn : 1 ≤ cfg.n) :
    ∃ p, parsePrinted (render (fmt cfg v e)) = some p ∧ PrintedOK v e cfg p :=
  ⟨_, C09_render_parse _ (C09_model_wf cfg v e), C09_model_ok cfg v e hn⟩

/-- non-vacuity: the hypothesis of `C09_model_ok` is met by every configuration of the domain
    (n = 1 … 6) -/
example : 1 ≤ ({ style := .scientific, mode := .value, n := 2 } : PCfg).n := by decide

end QExPy

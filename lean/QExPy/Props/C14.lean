/-
  C14 — an uncertainty is never negative, whatever path created or changed it.

  Model: the creation / mutation state machine `QExPy/Model/Uncert.lean`, here at `ℝ`.
  The same definitions run at `FB` in the correspondence check (`vf/props/c14.py`).
-/
import QExPy.Model.Uncert
import QExPy.Real
import QExPy.Lemmas.Stats
import QExPy.Lemmas.Uncert
import QExPy.Lemmas.MCWalk

namespace QExPy
open Uncert

/-- the invariant: every live quantity has a non-negative uncertainty -/
def NonNeg (h : Heap ℝ) : Prop := ∀ q ∈ h, 0 ≤ q.error

theorem neg?_false {x : ℝ} (h : neg? x = false) : 0 ≤ x := by
  unfold neg? Uncert.zero at h
  simpa using h

theorem neg?_true {x : ℝ} (h : x < 0) : neg? x = true := by
  unfold neg? Uncert.zero
  simpa using h

theorem any_neg_false {l : List ℝ} (h : l.any neg? = false) : ∀ e ∈ l, 0 ≤ e := by
  intro e he
  rw [List.any_eq_false] at h
  have := h e he
  exact neg?_false (by simpa using this)

/-- `_get_error_array_helper` only ever returns non-negative uncertainties -/
theorem errArray_nonneg (xs : List ℝ) (spec : ErrSpec ℝ) (es : List ℝ)
    (h : errArray xs spec = some es) : ∀ e ∈ es, 0 ≤ e := errArray_nonneg' xs spec es h

theorem nonNeg_append {h l : Heap ℝ} (hh : NonNeg h) (hl : NonNeg l) : NonNeg (h ++ l) := by
  intro q hq
  rcases List.mem_append.mp hq with hq | hq
  · exact hh q hq
  · exact hl q hq

theorem nonNeg_singles (xs es : List ℝ) (hes : ∀ e ∈ es, 0 ≤ e) :
    NonNeg (List.zipWith single xs es) := by
  induction xs generalizing es with
  | nil => intro q hq; simp at hq
  | cons x xs ih =>
    cases es with
    | nil => intro q hq; simp at hq
    | cons e es =>
      intro q hq
      simp only [List.zipWith_cons_cons, List.mem_cons] at hq
      rcases hq with rfl | hq
      · exact hes e (by simp)
      · exact ih es (fun e' he' => hes e' (by simp [he'])) q hq

theorem nonNeg_set {h : Heap ℝ} (hh : NonNeg h) (i : Nat) (q : Qty ℝ) (hq : 0 ≤ q.error) :
    NonNeg (h.set i q) := by
  intro p hp
  rcases List.mem_or_eq_of_mem_set hp with hp | rfl
  · exact hh p hp
  · exact hq

theorem nonNeg_setErr {h : Heap ℝ} (hh : NonNeg h) (i : Nat) (e : ℝ) (he : 0 ≤ e) :
    NonNeg (setErr h i e) := by
  unfold setErr
  split
  · exact nonNeg_set hh _ _ he
  · exact hh

theorem nonNeg_assign {h : Heap ℝ} (hh : NonNeg h) (ids : List Nat) (es : List ℝ)
    (hes : ∀ e ∈ es, 0 ≤ e) : NonNeg (assignErrors h ids es) := by
  induction ids generalizing h es with
  | nil => unfold assignErrors; exact hh
  | cons i is ih =>
    cases es with
    | nil => unfold assignErrors; exact hh
    | cons e es =>
      unfold assignErrors
      exact ih (nonNeg_setErr hh i e (hes e (by simp))) es (fun e' he' => hes e' (by simp [he']))

theorem nonNeg_assignOpt {h : Heap ℝ} (hh : NonNeg h) (ids : List Nat) (spec : ErrSpec ℝ)
    (es : List ℝ) (hes : ∀ e ∈ es, 0 ≤ e) : NonNeg (assignOpt h ids spec es) := by
  unfold assignOpt
  split
  · exact hh
  · exact nonNeg_assign hh ids es hes

theorem sqrt_div_sqrt_nonneg (x y : ℝ) : 0 ≤ Real.sqrt x / Real.sqrt y :=
  div_nonneg (Real.sqrt_nonneg _) (Real.sqrt_nonneg _)

theorem sem_nonneg (xs : List ℝ) : 0 ≤ Stats.sem xs := by
  rw [Stats.sem_eq, Stats.std1_eq]
  exact sqrt_div_sqrt_nonneg _ _

theorem std1_nonneg (xs : List ℝ) : 0 ≤ Stats.std1 xs := by
  rw [Stats.std1_eq]
  exact Real.sqrt_nonneg _

theorem perr_nonneg (es : List ℝ) : 0 ≤ Stats.perr es := by
  rw [Stats.perr_eq]
  exact div_nonneg zero_le_one (Real.sqrt_nonneg _)

/-- **C14 (calculated results).** The uncertainty the derivative method gives to any formula, for
    any values, uncertainties and correlations of its sources, is non-negative (it is a square
    root). -/
theorem C14_derived_nonneg (env σ : Nat → ℝ) (ρ : Nat → Nat → ℝ) (e : Expr ℝ) :
    0 ≤ (Expr.propagate env σ ρ e).2 := by
  unfold Expr.propagate
  simp only [num_sqrt]
  exact Real.sqrt_nonneg _

theorem derive_nonneg (h : Heap ℝ) (e : Expr ℝ) : 0 ≤ (derive h e).error := by
  unfold derive
  exact C14_derived_nonneg _ _ _ _

theorem mem_of_get {h : Heap ℝ} {i : Nat} {q : Qty ℝ} (hq : h[i]? = some q) : q ∈ h :=
  List.mem_of_getElem? hq

theorem operandExpr_nonNeg {h : Heap ℝ} (hh : NonNeg h) (slot : Nat) (x : Operand ℝ) (e : Expr ℝ)
    (h' : Heap ℝ) (hx : operandExpr h slot x = some (e, h')) : NonNeg h' := by
  cases x with
  | num c => simp only [operandExpr, Option.some.injEq, Prod.mk.injEq] at hx; rw [← hx.2]; exact hh
  | pair v er =>
    rw [operandExpr_pair] at hx
    split at hx
    · cases hx
    · rename_i hn
      simp only [Option.some.injEq, Prod.mk.injEq] at hx
      rw [← hx.2]
      apply nonNeg_append hh
      intro q hq
      simp only [List.mem_singleton] at hq
      subst hq
      show 0 ≤ er
      exact neg?_false (by simpa using hn)
  | ref i =>
    simp only [operandExpr] at hx
    split at hx
    · cases hx
    · split at hx <;>
      · simp only [Option.some.injEq, Prod.mk.injEq] at hx
        rw [← hx.2]; exact hh

/-- well-formed requests: the histogram edges handed to the mode strategy are `numpy.histogram`'s,
    the last edge not below the first (every other request is well-formed as it stands) -/
def WF : Op ℝ → Prop
  | .mcMode _ _ edges _ => edges.getD 0 0 ≤ edges.getD (edges.length - 1) 0
  | _ => True

/-- the mode strategy's uncertainty is `k` bin widths, `k` a natural number, the width
    `(last edge − first edge)/len ≥ 0` (the statement of `C16_error_nonneg`, proved here from the
    model so that C14 does not depend on C16's module) -/
theorem mode_error_nonneg (n : List Nat) (edges : List ℝ) (c : ℝ)
    (h : edges.getD 0 0 ≤ edges.getD (edges.length - 1) 0) :
    0 ≤ (ModeWalk.modeResult n edges c).2 := by
  have e : (ModeWalk.modeResult n edges c).2 = ((ModeWalk.modeWalk n c).2 : ℝ) *
      ((edges.getD (edges.length - 1) 0 - edges.getD 0 0) / (n.length : ℝ)) := by
    simp [ModeWalk.modeResult, modeError_eq]
  rw [e]
  exact mul_nonneg (Nat.cast_nonneg _) (div_nonneg (by linarith) (Nat.cast_nonneg _))

/-- **C14 (invariant, one step).** Every creation and mutation path — constructors of single and
    repeated measurements, arrays and data sets, re-wrapping of existing arrays, the three setters
    on measurements and on calculated quantities, the selectors, arithmetic, and the Monte Carlo
    results of a calculated quantity under each strategy (mean / n−1 standard deviation of the
    samples, mode walk, custom pair) — leaves every uncertainty `≥ 0`, whether the request is
    accepted or rejected. -/
theorem C14_inv_step (h : Heap ℝ) (op : Op ℝ) (hwf : WF op) (hh : NonNeg h) :
    NonNeg (step h op).1 := by
  cases op with
  | mkMeasurement v e =>
    show NonNeg (mkMeasurement h v e).1
    rw [mkMeasurement_unfold]
    cases e with
    | none =>
      apply nonNeg_append hh
      intro q hq
      simp only [List.mem_singleton] at hq
      subst hq; simp [single, Uncert.zero]
    | some e =>
      dsimp only
      split
      · exact hh
      · rename_i hn
        apply nonNeg_append hh
        intro q hq
        simp only [List.mem_singleton] at hq
        subst hq
        show 0 ≤ e
        exact neg?_false (by simpa using hn)
  | mkRepeated xs spec =>
    show NonNeg (mkRepeated h xs spec).1
    unfold mkRepeated
    split
    · exact hh
    · exact hh
    · split
      · exact hh
      · apply nonNeg_append hh
        intro q hq
        simp only [List.mem_singleton] at hq
        subst hq
        exact sem_nonneg xs
  | mkArray xs spec =>
    show NonNeg (mkArray h xs spec).1
    unfold mkArray
    split
    · exact hh
    · rename_i es hes
      exact nonNeg_append hh (nonNeg_singles xs es (errArray_nonneg xs spec es hes))
  | mkXY xs ys xe ye =>
    show NonNeg (mkXY h xs ys xe ye).1
    unfold mkXY
    split
    · exact hh
    · split
      · rename_i ex ey hex hey
        split
        · exact hh
        · exact nonNeg_append (nonNeg_append hh (nonNeg_singles xs ex (errArray_nonneg xs xe ex hex)))
            (nonNeg_singles ys ey (errArray_nonneg ys ye ey hey))
      · exact hh
  | rewrap ids spec =>
    show NonNeg (rewrap h ids spec).1
    unfold rewrap
    split
    · exact hh
    · split
      · exact hh
      · exact hh
      · exact hh
      · dsimp only
        split
        · exact hh
        · rename_i es hes
          exact nonNeg_assign hh ids es (errArray_nonneg _ _ es hes)
  | rewrapXY ix iy xe ye =>
    show NonNeg (rewrapXY h ix iy xe ye).1
    unfold rewrapXY
    split
    · exact hh
    · split
      · exact hh
      · split
        · rename_i ex ey hex hey
          split
          · exact hh
          · exact nonNeg_assignOpt (nonNeg_assignOpt hh ix xe ex (errArray_nonneg _ _ ex hex))
              iy ye ey (errArray_nonneg _ _ ey hey)
        · exact hh
  | setError i e =>
    show NonNeg (setError h i e).1
    rw [setError_unfold]
    split
    · exact hh
    · split
      · exact hh
      · rename_i hn
        have he : 0 ≤ e := neg?_false (by simpa using hn)
        split <;> exact nonNeg_set hh _ _ he
  | setRelError i r =>
    show NonNeg (setRelError h i r).1
    rw [setRelError_unfold]
    split
    · exact hh
    · split
      · exact hh
      · rename_i q _ hn
        have hr : 0 ≤ r := neg?_false (by simpa using hn)
        have he : 0 ≤ Num.mul (Num.abs q.value) r := by
          simp only [num_mul, num_abs]
          exact mul_nonneg (abs_nonneg _) hr
        dsimp only
        split <;> exact nonNeg_set hh _ _ he
  | setValue i v =>
    show NonNeg (setValue h i v).1
    unfold setValue
    split
    · exact hh
    · rename_i q hq
      exact nonNeg_set hh _ _ (hh q (mem_of_get hq))
  | sel i s =>
    show NonNeg (sel h i s).1
    unfold sel
    split
    · exact hh
    · rename_i q hq
      have hqe : 0 ≤ q.error := hh q (mem_of_get hq)
      split
      · apply nonNeg_set hh
        dsimp only
        cases s with
        | useStd => rw [Stats.step_useStd]; exact std1_nonneg _
        | useSem => rw [Stats.step_useSem]; exact sem_nonneg _
        | useWmean => rw [Stats.step_useWmean]; dsimp only; split <;> exact hqe
        | usePerr =>
          rw [Stats.step_usePerr]; dsimp only
          split
          · exact hqe
          · exact perr_nonneg _
      · exact hh
  | arith o a b =>
    show NonNeg (arith h o a b).1
    unfold arith
    split
    · exact hh
    · rename_i ea h1 ha
      split
      · exact hh
      · rename_i eb h2 hb
        have n1 := operandExpr_nonNeg hh _ _ _ _ ha
        have n2 := operandExpr_nonNeg n1 _ _ _ _ hb
        apply nonNeg_append n2
        intro q hq
        simp only [List.mem_singleton] at hq
        subst hq
        exact derive_nonneg _ _
  | unary o a =>
    show NonNeg (unary h o a).1
    unfold unary
    split
    · exact hh
    · rename_i ea h1 ha
      have n1 := operandExpr_nonNeg hh _ _ _ _ ha
      apply nonNeg_append n1
      intro q hq
      simp only [List.mem_singleton] at hq
      subst hq
      exact derive_nonneg _ _
  | mcMeanStd i smp =>
    show NonNeg (mcMeanStd h i smp).1
    unfold mcMeanStd
    split
    · exact hh
    · split
      · exact nonNeg_set hh _ _ (std1_nonneg _)
      · exact hh
  | mcMode i cnt edges c =>
    show NonNeg (mcMode h i cnt edges c).1
    unfold mcMode
    split
    · exact hh
    · split
      · dsimp only
        split
        · exact hh
        · exact nonNeg_set hh _ _ (mode_error_nonneg cnt edges c hwf)
      · exact hh
  | mcCustom i v e =>
    show NonNeg (mcCustom h i v e).1
    unfold mcCustom
    split
    · exact hh
    · split
      · split
        · exact hh
        · rename_i hn
          exact nonNeg_set hh _ _ (neg?_false (by simpa using hn))
      · exact hh

/-- **C14 (invariant, all histories).** By induction over the request list. -/
theorem C14_inv_run (h : Heap ℝ) (ops : List (Op ℝ)) (hwf : ∀ op ∈ ops, WF op) (hh : NonNeg h) :
    NonNeg (exec h ops) := by
  unfold exec
  induction ops generalizing h with
  | nil => exact hh
  | cons op rest ih =>
    exact ih _ (fun o ho => hwf o (List.mem_cons_of_mem _ ho))
      (C14_inv_step h op (hwf op (List.mem_cons_self ..)) hh)

/-- **C14.** After any finite history from an empty session every uncertainty is `≥ 0`. -/
theorem C14_inv_all (ops : List (Op ℝ)) (hwf : ∀ op ∈ ops, WF op) : NonNeg (exec [] ops) :=
  C14_inv_run [] ops hwf (by intro q hq; cases hq)

/-! ### rejected requests change nothing -/

/-- closes `(.., out).2 = reject → (.., out).1 = h` once the branches are split -/
macro "rej" : tactic => `(tactic| (intro hr; first | rfl | cases hr))

/-- **C14 (atomic reject).** A rejected request leaves the whole heap — value, uncertainty and
    kind (class) of every quantity — exactly as it was. -/
theorem C14_reject_unchanged (h : Heap ℝ) (op : Op ℝ) (hr : (step h op).2 = .reject) :
    (step h op).1 = h := by
  revert hr
  cases op with
  | mkMeasurement v e =>
    show (mkMeasurement h v e).2 = .reject → (mkMeasurement h v e).1 = h
    rw [mkMeasurement_unfold]
    cases e with
    | none => rej
    | some e => dsimp only; split <;> rej
  | mkRepeated xs spec =>
    show (mkRepeated h xs spec).2 = .reject → (mkRepeated h xs spec).1 = h
    unfold mkRepeated
    split
    · rej
    · rej
    · split <;> rej
  | mkArray xs spec =>
    show (mkArray h xs spec).2 = .reject → (mkArray h xs spec).1 = h
    unfold mkArray
    split <;> rej
  | mkXY xs ys xe ye =>
    show (mkXY h xs ys xe ye).2 = .reject → (mkXY h xs ys xe ye).1 = h
    unfold mkXY
    split
    · rej
    · split
      · split <;> rej
      · rej
  | rewrap ids spec =>
    show (rewrap h ids spec).2 = .reject → (rewrap h ids spec).1 = h
    unfold rewrap
    split
    · rej
    · split
      · rej
      · rej
      · rej
      · dsimp only; split <;> rej
  | rewrapXY ix iy xe ye =>
    show (rewrapXY h ix iy xe ye).2 = .reject → (rewrapXY h ix iy xe ye).1 = h
    unfold rewrapXY
    split
    · rej
    · split
      · rej
      · split
        · split <;> rej
        · rej
  | setError i e =>
    show (setError h i e).2 = .reject → (setError h i e).1 = h
    rw [setError_unfold]
    split
    · rej
    · split
      · rej
      · split <;> rej
  | setRelError i r =>
    show (setRelError h i r).2 = .reject → (setRelError h i r).1 = h
    rw [setRelError_unfold]
    split
    · rej
    · split
      · rej
      · dsimp only; split <;> rej
  | setValue i v =>
    show (setValue h i v).2 = .reject → (setValue h i v).1 = h
    unfold setValue
    split <;> rej
  | sel i s =>
    show (sel h i s).2 = .reject → (sel h i s).1 = h
    unfold sel
    split
    · rej
    · split <;> rej
  | arith o a b =>
    show (arith h o a b).2 = .reject → (arith h o a b).1 = h
    unfold arith
    split
    · rej
    · split <;> rej
  | unary o a =>
    show (unary h o a).2 = .reject → (unary h o a).1 = h
    unfold unary
    split <;> rej
  | mcMeanStd i smp =>
    show (mcMeanStd h i smp).2 = .reject → (mcMeanStd h i smp).1 = h
    unfold mcMeanStd
    split
    · rej
    · split <;> rej
  | mcMode i cnt edges c =>
    show (mcMode h i cnt edges c).2 = .reject → (mcMode h i cnt edges c).1 = h
    unfold mcMode
    split
    · rej
    · split
      · dsimp only; split <;> rej
      · rej
  | mcCustom i v e =>
    show (mcCustom h i v e).2 = .reject → (mcCustom h i v e).1 = h
    unfold mcCustom
    split
    · rej
    · split
      · split <;> rej
      · rej

/-! ### what is rejected, what is accepted -/

/-- **C14 (negative numbers are refused at every entry point).** A negative uncertainty given to
    the Measurement constructor or the `error` setter, a negative relative uncertainty given to
    the `relative_error` setter, and a negative `(v, e)` pair operand are rejected. -/
theorem C14_negative_rejected (h : Heap ℝ) (v e : ℝ) (i : Nat) (o : Op2) (he : e < 0) :
    (step h (.mkMeasurement v (some e))).2 = .reject ∧
    (step h (.setError i e)).2 = .reject ∧
    (step h (.setRelError i e)).2 = .reject ∧
    (step h (.arith o (.ref i) (.pair v e))).2 = .reject := by
  have hn := neg?_true he
  refine ⟨?_, ?_, ?_, ?_⟩
  · show (mkMeasurement h v (some e)).2 = _
    rw [mkMeasurement_unfold]; simp [hn]
  · show (setError h i e).2 = _
    rw [setError_unfold]; split
    · rfl
    · simp [hn]
  · show (setRelError h i e).2 = _
    rw [setRelError_unfold]; split
    · rfl
    · simp [hn]
  · show (arith h o (.ref i) (.pair v e)).2 = _
    unfold arith
    split
    · rfl
    · simp [operandExpr_pair, hn]

/-- negative common / per-element / relative uncertainties are refused by the array helper -/
theorem C14_negative_array_rejected (xs : List ℝ) (hx : xs ≠ []) (e : ℝ) (he : e < 0) :
    errArray xs (.common e) = none ∧
    (∀ es : List ℝ, e ∈ es → errArray xs (.each es) = none) := by
  refine ⟨?_, ?_⟩
  · simp [errArray, errFinish, errArrayBad_true (errCommon_mem hx e) he]
  · intro es hes
    simp only [errArray]
    split
    · rfl
    · have hb : Gen.errArrayBad (Gen.errEach xs es) = true :=
        errArrayBad_true (by rw [errEach_eq]; exact hes) he
      simp [errFinish, hb]

/-- **C14 (the model is not vacuous).** A non-negative uncertainty is accepted by the constructor
    and by the setter and is then the uncertainty that is read. -/
theorem C14_nonneg_accepted (h : Heap ℝ) (v e : ℝ) (he : 0 ≤ e) :
    step h (.mkMeasurement v (some e)) = (h ++ [single v e], .ok) ∧
    (∀ i q, h[i]? = some q → ∃ q', (step h (.setError i e)) = (h.set i q', .ok) ∧ q'.error = e ∧
      q'.value = q.value) := by
  have hn : neg? e = false := by
    unfold neg? Uncert.zero; simpa using he
  refine ⟨?_, ?_⟩
  · show mkMeasurement h v (some e) = _
    rw [mkMeasurement_unfold]; simp [hn]
  · intro i q hq
    show ∃ q', setError h i e = _ ∧ _
    rw [setError_unfold]
    simp only [hq, hn, Bool.false_eq_true, if_false]
    cases hk : q.kind <;> exact ⟨_, rfl, rfl, rfl⟩

/-- **C14 (relative uncertainty).** Setting a relative uncertainty `r ≥ 0` is accepted on every
    kind of quantity and gives the uncertainty `r·|value|`; the value is unchanged. -/
theorem C14_rel (h : Heap ℝ) (i : Nat) (q : Qty ℝ) (r : ℝ) (hq : h[i]? = some q) (hr : 0 ≤ r) :
    ∃ q', step h (.setRelError i r) = (h.set i q', .ok) ∧ q'.error = r * |q.value| ∧
      q'.value = q.value := by
  have hn : neg? r = false := by
    unfold neg? Uncert.zero; simpa using hr
  show ∃ q', setRelError h i r = _ ∧ _
  rw [setRelError_unfold]
  simp only [hq, hn, Bool.false_eq_true, if_false]
  cases hk : q.kind <;> exact ⟨_, rfl, by simp [mul_comm], rfl⟩

/-- **C14 (Monte Carlo results).** For a calculated quantity `q` at `i`:
    * default strategy: accepted, uncertainty = n−1 standard deviation of the samples, `≥ 0`;
    * mode strategy at a confidence in [0, 1]: accepted, uncertainty = the mode walk's `k` bin
      widths, `≥ 0` for ordered edges; a confidence outside [0, 1] is rejected;
    * custom pair: `e ≥ 0` accepted and read back verbatim, `e < 0` rejected;
    and every rejection leaves the heap as it was (`C14_reject_unchanged`). -/
theorem C14_mc (h : Heap ℝ) (i : Nat) (q : Qty ℝ) (hq : h[i]? = some q) (hk : q.kind = .derived)
    (smp : List ℝ) (cnt : List Nat) (edges : List ℝ) (c v e : ℝ) :
    (∃ q', step h (.mcMeanStd i smp) = (h.set i q', .ok) ∧ q'.error = Stats.std1 smp ∧ 0 ≤ q'.error) ∧
    (0 ≤ c → c ≤ 1 → edges.getD 0 0 ≤ edges.getD (edges.length - 1) 0 →
      ∃ q', step h (.mcMode i cnt edges c) = (h.set i q', .ok) ∧
        q'.error = (ModeWalk.modeResult cnt edges c).2 ∧ 0 ≤ q'.error) ∧
    ((c < 0 ∨ 1 < c) → step h (.mcMode i cnt edges c) = (h, .reject)) ∧
    (0 ≤ e → ∃ q', step h (.mcCustom i v e) = (h.set i q', .ok) ∧ q'.error = e ∧ q'.value = v) ∧
    (e < 0 → step h (.mcCustom i v e) = (h, .reject)) := by
  refine ⟨?_, ?_, ?_, ?_, ?_⟩
  · refine ⟨{ q with value := Stats.mean smp, error := Stats.std1 smp }, ?_, rfl, std1_nonneg smp⟩
    show mcMeanStd h i smp = _
    simp [mcMeanStd, hq, hk]
  · intro h0 h1 hed
    have hb : badConf c = false := by
      simp [badConf, Uncert.zero, not_lt.mpr h0, not_lt.mpr h1]
    refine ⟨{ q with value := (ModeWalk.modeResult cnt edges c).1,
                     error := (ModeWalk.modeResult cnt edges c).2 }, ?_, rfl,
      mode_error_nonneg cnt edges c hed⟩
    show mcMode h i cnt edges c = _
    simp [mcMode, hq, hk, hb]
  · intro hc
    have hb : badConf c = true := by
      rcases hc with hc | hc <;> simp [badConf, Uncert.zero, hc]
    show mcMode h i cnt edges c = _
    simp [mcMode, hq, hk, hb]
  · intro he
    have hn : neg? e = false := by
      unfold neg? Uncert.zero; simpa using he
    refine ⟨{ q with value := v, error := e }, ?_, rfl, rfl⟩
    show mcCustom h i v e = _
    simp [mcCustom, hq, hk, hn]
  · intro he
    show mcCustom h i v e = _
    simp [mcCustom, hq, hk, neg?_true he]

/-- a measurement (single or repeated) has no Monte Carlo settings: the three requests are
    rejected and change nothing -/
theorem C14_mc_measurement (h : Heap ℝ) (i : Nat) (q : Qty ℝ) (hq : h[i]? = some q)
    (hk : q.kind ≠ .derived) (smp : List ℝ) (cnt : List Nat) (edges : List ℝ) (c v e : ℝ) :
    step h (.mcMeanStd i smp) = (h, .reject) ∧ step h (.mcMode i cnt edges c) = (h, .reject) ∧
    step h (.mcCustom i v e) = (h, .reject) := by
  refine ⟨?_, ?_, ?_⟩
  · show mcMeanStd h i smp = _
    cases hkk : q.kind <;> simp_all [mcMeanStd]
  · show mcMode h i cnt edges c = _
    cases hkk : q.kind <;> simp_all [mcMode]
  · show mcCustom h i v e = _
    cases hkk : q.kind <;> simp_all [mcCustom]

/-- statistics chosen by the selectors are non-negative: sample standard deviation, error on the
    mean, propagated error -/
theorem C14_statistics_nonneg (xs es : List ℝ) :
    0 ≤ Stats.std1 xs ∧ 0 ≤ Stats.sem xs ∧ 0 ≤ Stats.perr es :=
  ⟨std1_nonneg xs, sem_nonneg xs, perr_nonneg es⟩

/-! ### non-vacuity -/

/-- a concrete history: Measurement(-5, 1/2); its relative uncertainty set to 1/10 gives 1/2;
    Measurement(5, -1/2) is rejected and leaves the heap as it was -/
example :
    let h1 := (step ([] : Heap ℝ) (.mkMeasurement (-5) (some (1 / 2)))).1
    (step h1 (.mkMeasurement 5 (some (-1 / 2)))).2 = .reject ∧
    (step h1 (.mkMeasurement 5 (some (-1 / 2)))).1 = h1 ∧ NonNeg h1 := by
  intro h1
  have hneg := (C14_negative_rejected h1 5 (-1 / 2) 0 .add (by norm_num)).1
  exact ⟨hneg, C14_reject_unchanged _ _ hneg,
    C14_inv_step _ _ trivial (by intro q hq; cases hq)⟩

example : ∃ q', step [single (-5 : ℝ) (1 / 2)] (.setRelError 0 (1 / 10)) =
    ([single (-5 : ℝ) (1 / 2)].set 0 q', .ok) ∧ q'.error = 1 / 10 * |(-5 : ℝ)| :=
  let ⟨q', h1, h2, _⟩ := C14_rel [single (-5 : ℝ) (1 / 2)] 0 (single (-5) (1 / 2)) (1 / 10) rfl
    (by norm_num)
  ⟨q', h1, h2⟩

/-- a calculated quantity `x·x` with its Monte Carlo results: the mode strategy on a histogram
    whose fullest bin is the FIRST one (counts 5, 3, 1, 1; edges 0 … 4; confidence 9/10) reports a
    non-negative uncertainty; a custom pair with uncertainty −1 is rejected and changes nothing -/
example :
    let h0 : Heap ℝ := [single 0 1, ⟨.derived, 0, 0, [], [], .bin .mul (.var 0) (.var 0)⟩]
    let h1 := (step h0 (.mcMode 1 [5, 3, 1, 1] [0, 1, 2, 3, 4] (9 / 10))).1
    NonNeg h1 ∧ step h1 (.mcCustom 1 2 (-1)) = (h1, .reject) := by
  intro h0 h1
  have n0 : NonNeg h0 := by
    intro q hq
    simp only [h0, List.mem_cons, List.not_mem_nil, or_false] at hq
    rcases hq with rfl | rfl <;> simp [single]
  have n1 : NonNeg h1 := C14_inv_step h0 _ (by simp [WF]) n0
  refine ⟨n1, ?_⟩
  have hr : (step h1 (.mcCustom 1 2 (-1))).2 = .reject := by
    show (mcCustom h1 1 2 (-1)).2 = _
    unfold mcCustom
    split
    · rfl
    · split
      · simp [neg?_true (show (-1 : ℝ) < 0 by norm_num)]
      · rfl
  exact Prod.ext (C14_reject_unchanged _ _ hr) hr

end QExPy

/-
  C18 — named compound units never change the physical dimension of a result.

  Model: `unpackD`/`unpack` (`__unpack_unit`, fuelled), `packRatio`/`tryPack` (`__try_pack`),
  `firstPack`/`packOr` (the packing loops of `operate_with_units` and `construct_unit_string`),
  `define` in QExPy/Model/Units.lean.  Specification: `dimSym`/`dimU` — the exponent of a base
  symbol after expanding every defined name (a definition may mention names defined before it).
-/
import QExPy.Lemmas.Units

namespace QExPy
open U

/-- **C18 (packing is sound).** `__try_pack(unit, definition)` returns a non-zero power `k` only
    when the unit is exactly the `k`-th power of the compound: every symbol's exponent is `k`
    times its exponent in the definition (no partial match, no proportional-but-unequal
    exponents, no extra or missing symbol). -/
theorem C18_pack_sound (u d : Units) (k : Rat) (hu : WF u) (hk : tryPack u d = k) (hk0 : k ≠ 0) :
    ∀ s, expOf u s = k * expOf d s := by
  unfold tryPack at hk
  split at hk
  · exact absurd hk.symm hk0
  · rename_i e he
    split at hk
    · rename_i hall
      subst hk
      have hspec := (packRatio_spec d u 0 e he).2
      simp only [List.all_eq_true, bne_iff_ne, ne_eq] at hall
      intro s
      by_cases hs : s ∈ u.map Prod.fst
      · obtain ⟨p, hp, rfl⟩ := List.mem_map.mp hs
        obtain ⟨name, ex⟩ := p
        have hval := expOf_of_mem u hu name ex hp
        obtain ⟨hpre, hr⟩ := hspec _ hp
        simp only at hpre hr ⊢
        have hmemd : name ∈ d.map Prod.fst := mem_keys_of_expOf_ne_zero d name hpre
        obtain ⟨q, hq, hqn⟩ := List.mem_map.mp hmemd
        have hne := hall q hq
        rw [hqn, hval] at hne
        rw [hval]
        rcases hr with hr | hr
        · rw [← hr]; grind
        · exfalso; grind
      · rw [expOf_eq_zero_of_not_mem u s hs]
        by_cases hd : expOf d s = 0
        · rw [hd]; grind
        · exfalso
          have hmemd := mem_keys_of_expOf_ne_zero d s hd
          obtain ⟨q, hq, hqn⟩ := List.mem_map.mp hmemd
          have hne := hall q hq
          rw [hqn, expOf_eq_zero_of_not_mem u s hs] at hne
          exact hne rfl
    · exact absurd hk.symm hk0

/-- **C18 (expansion is sound).** For definitions without cycles (`OrderedR`: given latest
    first, no definition mentions itself or a later name — e.g. N, J = N·m, W = J/s) the
    recursive expansion `__unpack_unit` terminates within the fuel `|defs| + 1`, its result
    mentions no defined name, and the exponent of every base symbol is exactly the dimension
    `dimU` of the unit (the exponent of a named unit multiplies through its definition). -/
theorem C18_unpack_sound (rdefs : Defs) (h : OrderedR rdefs) (u : Units) :
    ∃ r, unpack rdefs.reverse u = some r ∧ WF r ∧ (∀ t, expOf r t = dimU rdefs u t) ∧
      ∀ k ∈ r.map Prod.fst, lookupDef rdefs.reverse k = none := by
  have hU : Unfolds rdefs.reverse (dimSym rdefs) := by
    obtain ⟨a, b⟩ := unfolds_dimSym rdefs h
    exact ⟨fun s hs => a s (by rwa [lookupDef_reverse rdefs h] at hs),
      fun s d hs => b s d (by rwa [lookupDef_reverse rdefs h] at hs)⟩
  have hR : Ranked rdefs.reverse (rankR rdefs) := fun s d hs =>
    ranked_rankR rdefs h s d (by rwa [lookupDef_reverse rdefs h] at hs)
  obtain ⟨r, h1, h2, h3, h4⟩ := unpackD_sound rdefs.reverse (dimSym rdefs) (rankR rdefs) hU hR
    rdefs.reverse.length u 1 (fun p _ => by simpa using rankR_le rdefs p.1)
  refine ⟨r, h1, h2, fun t => ?_, h4⟩
  rw [h3 t]
  show 1 * sumD (dimSym rdefs) u t = sumD (dimSym rdefs) u t
  exact Rat.one_mul _

/-- **C18 (dimension preserved by the operators).** With acyclic definitions, multiplying or
    dividing operands given in named, expanded or mixed form yields — before packing — a unit
    whose exponents are the sums / differences of the operands' *dimensions*. -/
theorem C18_mul_div_dim (rdefs : Defs) (h : OrderedR rdefs) (a b : Units) :
    ∃ ua ub, unpack rdefs.reverse a = some ua ∧ unpack rdefs.reverse b = some ub ∧
      (∀ t, expOf (filterZero (mul ua ub)) t = dimU rdefs a t + dimU rdefs b t) ∧
      (∀ t, expOf (filterZero (div ua ub)) t = dimU rdefs a t - dimU rdefs b t) := by
  obtain ⟨ua, a1, a2, a3, _⟩ := C18_unpack_sound rdefs h a
  obtain ⟨ub, b1, b2, b3, _⟩ := C18_unpack_sound rdefs h b
  refine ⟨ua, ub, a1, b1, fun t => ?_, fun t => ?_⟩
  · rw [expOf_filterZero _ _ (WF_mul _ _), expOf_mul _ _ _ a2 b2, a3, b3]
  · rw [expOf_filterZero _ _ (WF_div _ _), expOf_div _ _ _ a2 b2, a3, b3]

/-- **C18 (a name is shown only for an exact power).** If the packing loop replaces a result
    `r` (in base symbols) by a defined name `n` with power `k`, then `r` is exactly the `k`-th
    power of the stored definition of `n`; otherwise the result is left as it is. -/
theorem C18_named_only_if_power (defs : Defs) (r : Units) (hr : WF r) :
    (∃ n k d, firstPack defs r = some (n, k) ∧ packOr defs r = [(n, k)] ∧ k ≠ 0 ∧
        (n, d) ∈ defs ∧ ∀ s, expOf r s = k * expOf d s) ∨
    (firstPack defs r = none ∧ packOr defs r = r) := by
  induction defs with
  | nil => right; simp [firstPack, packOr]
  | cons q rest ih =>
    obtain ⟨n, d⟩ := q
    by_cases hk : tryPack r d = 0
    · rcases ih with ⟨n', k, d', h1, h2, h3, h4, h5⟩ | ⟨h1, h2⟩
      · left
        refine ⟨n', k, d', ?_, ?_, h3, List.mem_cons_of_mem _ h4, h5⟩
        · simp [firstPack, hk, h1]
        · simp [packOr, firstPack, hk, h1]
      · right
        constructor
        · simp [firstPack, hk, h1]
        · simp [packOr, firstPack, hk, h1]
    · left
      refine ⟨n, tryPack r d, d, ?_, ?_, hk, by simp, C18_pack_sound r d _ hr rfl hk⟩
      · simp [firstPack, hk]
      · simp [packOr, firstPack, hk]

/-- **C18 (clear).** after `clear_unit_definitions()` nothing is expanded or packed: the
    behaviour is the undecorated one of C08 -/
theorem C18_clear (u : Units) : packOr [] u = u ∧ unpack [] u = some (merge [] u 1) ∧
    firstPack [] u = none := ⟨packOr_nil u, unpack_nil u, rfl⟩

/-- non-vacuity: N = kg·m·s⁻², J = N·m is an acyclic definition set -/
example : OrderedR [("J".toList, [("N".toList, 1), ("m".toList, 1)]),
    ("N".toList, [("kg".toList, 1), ("m".toList, 1), ("s".toList, -2)])] := by
  simp only [OrderedR]
  decide


end QExPy

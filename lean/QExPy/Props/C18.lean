/-
  C18 — named compound units never change the physical dimension of a result.

  Model: `unpackD`/`unpack` (`__unpack_unit`, fuelled), `packRatio`/`tryPack` (`__try_pack`),
  `firstPack`/`packOr` (the packing loops of `operate_with_units` and `construct_unit_string`),
  `define` in QExPy/Model/Units.lean.  Specification: `dimSym`/`dimU` — the exponent of a base
  symbol after expanding every defined name (a definition may mention names defined before it).
-/
import QExPy.Lemmas.Units
import QExPy.Lemmas.UnitsDefs
import QExPy.Model.UnitDefs
import QExPy.Model.UnitWritten
import QExPy.Lemmas.ParseSpec

namespace QExPy
open U

/-- **C18 (packing is sound).** `__try_pack(unit, definition)` returns a non-zero power `k` only
    when the unit is exactly the `k`-th power of the compound: every symbol's exponent is `k`
    times its exponent in the definition (no partial match, no proportional-but-unequal
    exponents, no extra or missing symbol). -/
theorem C18_pack_sound (u d : Units) (k : Rat) (hu : WF u) (hk : tryPack u d = k) (hk0 : k ≠ 0) :
    ∀ s, expOf u s = k * expOf d s := by
  unfold tryPack at hk
  split at hk
  · exact absurd hk.symm hk0
  · rename_i e he
    split at hk
    · rename_i hall
      subst hk
      have hspec := (packRatio_spec d u 0 e he).2
      simp only [List.all_eq_true, bne_iff_ne, ne_eq] at hall
      intro s
      by_cases hs : s ∈ u.map Prod.fst
      · obtain ⟨p, hp, rfl⟩ := List.mem_map.mp hs
        obtain ⟨name, ex⟩ := p
        have hval := expOf_of_mem u hu name ex hp
        obtain ⟨hpre, hr⟩ := hspec _ hp
        simp only at hpre hr ⊢
        have hmemd : name ∈ d.map Prod.fst := mem_keys_of_expOf_ne_zero d name hpre
        obtain ⟨q, hq, hqn⟩ := List.mem_map.mp hmemd
        have hne := hall q hq
        rw [hqn, hval] at hne
        rw [hval]
        rcases hr with hr | hr
        · rw [← hr]; grind
        · exfalso; grind
      · rw [expOf_eq_zero_of_not_mem u s hs]
        by_cases hd : expOf d s = 0
        · rw [hd]; grind
        · exfalso
          have hmemd := mem_keys_of_expOf_ne_zero d s hd
          obtain ⟨q, hq, hqn⟩ := List.mem_map.mp hmemd
          have hne := hall q hq
          rw [hqn, expOf_eq_zero_of_not_mem u s hs] at hne
          exact hne rfl
    · exact absurd hk.symm hk0

/-- **C18 (expansion is sound).** For definitions without cycles (`OrderedR`: given latest
    first, no definition mentions itself or a later name — e.g. N, J = N·m, W = J/s) the
    recursive expansion `__unpack_unit` terminates within the fuel `|defs| + 1`, its result
    mentions no defined name, and the exponent of every base symbol is exactly the dimension
    `dimU` of the unit (the exponent of a named unit multiplies through its definition). -/
theorem C18_unpack_sound (rdefs : Defs) (h : OrderedR rdefs) (u : Units) :
    ∃ r, unpack rdefs.reverse u = some r ∧ WF r ∧ (∀ t, expOf r t = dimU rdefs u t) ∧
      ∀ k ∈ r.map Prod.fst, lookupDef rdefs.reverse k = none := by
  have hU : Unfolds rdefs.reverse (dimSym rdefs) := by
    obtain ⟨a, b⟩ := unfolds_dimSym rdefs h
    exact ⟨fun s hs => a s (by rwa [lookupDef_reverse rdefs h] at hs),
      fun s d hs => b s d (by rwa [lookupDef_reverse rdefs h] at hs)⟩
  have hR : Ranked rdefs.reverse (rankR rdefs) := fun s d hs =>
    ranked_rankR rdefs h s d (by rwa [lookupDef_reverse rdefs h] at hs)
  obtain ⟨r, h1, h2, h3, h4⟩ := unpackD_sound rdefs.reverse (dimSym rdefs) (rankR rdefs) hU hR
    rdefs.reverse.length u 1 (fun p _ => by simpa using rankR_le rdefs p.1)
  refine ⟨r, h1, h2, fun t => ?_, h4⟩
  rw [h3 t]
  show 1 * sumD (dimSym rdefs) u t = sumD (dimSym rdefs) u t
  exact Rat.one_mul _

/-- **C18 (dimension preserved by the operators).** With acyclic definitions, multiplying or
    dividing operands given in named, expanded or mixed form yields — before packing — a unit
    whose exponents are the sums / differences of the operands' *dimensions*. -/
theorem C18_mul_div_dim (rdefs : Defs) (h : OrderedR rdefs) (a b : Units) :
    ∃ ua ub, unpack rdefs.reverse a = some ua ∧ unpack rdefs.reverse b = some ub ∧
      (∀ t, expOf (filterZero (mul ua ub)) t = dimU rdefs a t + dimU rdefs b t) ∧
      (∀ t, expOf (filterZero (div ua ub)) t = dimU rdefs a t - dimU rdefs b t) := by
  obtain ⟨ua, a1, a2, a3, _⟩ := C18_unpack_sound rdefs h a
  obtain ⟨ub, b1, b2, b3, _⟩ := C18_unpack_sound rdefs h b
  refine ⟨ua, ub, a1, b1, fun t => ?_, fun t => ?_⟩
  · rw [expOf_filterZero _ _ (WF_mul _ _), expOf_mul _ _ _ a2 b2, a3, b3]
  · rw [expOf_filterZero _ _ (WF_div _ _), expOf_div _ _ _ a2 b2, a3, b3]

/-- **C18 (a name is shown only for an exact power).** If the packing loop replaces a result
    `r` (in base symbols) by a defined name `n` with power `k`, then `r` is exactly the `k`-th
    power of the stored definition of `n`; otherwise the result is left as it is. -/
theorem C18_named_only_if_power (defs : Defs) (r : Units) (hr : WF r) :
    (∃ n k d, firstPack defs r = some (n, k) ∧ packOr defs r = [(n, k)] ∧ k ≠ 0 ∧
        (n, d) ∈ defs ∧ ∀ s, expOf r s = k * expOf d s) ∨
    (firstPack defs r = none ∧ packOr defs r = r) := by
  induction defs with
  | nil => right; simp [firstPack, packOr]
  | cons q rest ih =>
    obtain ⟨n, d⟩ := q
    by_cases hk : tryPack r d = 0
    · rcases ih with ⟨n', k, d', h1, h2, h3, h4, h5⟩ | ⟨h1, h2⟩
      · left
        refine ⟨n', k, d', ?_, ?_, h3, List.mem_cons_of_mem _ h4, h5⟩
        · simp [firstPack, hk, h1]
        · simp [packOr, firstPack, hk, h1]
      · right
        constructor
        · simp [firstPack, hk, h1]
        · simp [packOr, firstPack, hk, h1]
    · left
      refine ⟨n, tryPack r d, d, ?_, ?_, hk, by simp, C18_pack_sound r d _ hr rfl hk⟩
      · simp [firstPack, hk]
      · simp [packOr, firstPack, hk]

/-- **C18 (clear).** after `clear_unit_definitions()` nothing is expanded or packed: the
    behaviour is the undecorated one of C08 -/
theorem C18_clear (u : Units) : packOr [] u = u ∧ unpack [] u = some (merge [] u 1) ∧
    firstPack [] u = none := ⟨packOr_nil u, unpack_nil u, rfl⟩

/-- non-vacuity: N = kg·m·s⁻², J = N·m is an acyclic definition set -/
example : OrderedR [("J".toList, [("N".toList, 1), ("m".toList, 1)]),
    ("N".toList, [("kg".toList, 1), ("m".toList, 1), ("s".toList, -2)])] := by
  simp only [OrderedR]
  decide


/-! ### the theorem over whole formulas, definitions active -/

/-- packing a result (in base symbols) under a defined name does not change its dimension -/
theorem packOr_dim (rdefs : Defs) (h : OrderedR rdefs) (hdw : ∀ q ∈ rdefs, WF q.2) (x : Units)
    (hx : WF x) (hb : BaseU rdefs x) (t : Sym) :
    dimU rdefs (packOr rdefs.reverse x) t = expOf x t := by
  rcases C18_named_only_if_power rdefs.reverse x hx with ⟨n, k, d, _, hp, hk, hm, hpow⟩ | ⟨_, hp⟩
  · rw [hp, dimU_single]
    have hm' : (n, d) ∈ rdefs := List.mem_reverse.mp hm
    have hl := lookupDef_of_mem rdefs h n d hm'
    rw [(unfolds_dimSym rdefs h).2 n d hl t]
    show k * dimU rdefs d t = _
    have hwd : WF d := hdw (n, d) hm'
    rw [dimU_support rdefs h d hwd ?_ t, hpow t]
    intro p hp hp0
    have hne : expOf x p.1 ≠ 0 := by
      rw [hpow, expOf_of_mem d hwd p.1 p.2 hp]
      exact mul_ne_zero hk hp0
    exact hb p.1 (mem_keys_of_expOf_ne_zero x p.1 hne)
  · rw [hp]
    exact dimU_base rdefs h x hx hb t

/-- the operand is a plain number or the library reports a non-empty unit for it -/
def HasUnitD (defs : Defs) (t : UTree) : Prop :=
  isConstT t = true ∨ ∃ r, unitOf defs t = some r ∧ r.1 ≠ []

/-- the domain of `C18_dim_preserved`: known operators, every non-constant operand of every
    operation carries a non-empty unit (the limitation of C08), and the operands of + and − have
    the same *dimension* (or one of them is a plain number) — their units may be written in
    named, expanded or mixed form -/
inductive DomD (rdefs : Defs) : UTree → Prop
  | leaf (u : Units) : DomD rdefs (.leaf u)
  | const : DomD rdefs .const
  | powc (a : UTree) (k : Rat) : DomD rdefs a → DomD rdefs (.powc a k)
  | un (op : String) (a : UTree) : DomD rdefs a → HasUnitD rdefs.reverse a →
      (opFun op = some .neg ∨ opFun op = some .sqrt) → DomD rdefs (.un op a)
  | bin (op : String) (a b : UTree) : DomD rdefs a → DomD rdefs b →
      HasUnitD rdefs.reverse a → HasUnitD rdefs.reverse b →
      (opFun op = some .mul ∨ opFun op = some .div ∨
        (opFun op = some .addsub ∧
          (isConstT a = true ∨ isConstT b = true ∨ ∀ s, dimT rdefs a s = dimT rdefs b s))) →
      DomD rdefs (.bin op a b)

theorem all_guard_D (defs : Defs) (a : UTree) (u : Units) (w : Nat)
    (hr : unitOf defs a = some (u, isConstT a, w)) (h : HasUnitD defs a) :
    (!u.isEmpty || isConstT a) = true := by
  rcases h with h | ⟨r, h1, h2⟩
  · rw [h]; simp
  · rw [hr] at h1
    cases h1
    cases u with
    | nil => exact absurd rfl h2
    | cons => simp

theorem const_unit (defs : Defs) (a : UTree) (hc : isConstT a = true) (u : Units) (c : Bool)
    (w : Nat) (hr : unitOf defs a = some (u, c, w)) : u = [] := by
  cases a <;> simp_all [isConstT, unitOf]

theorem const_dim (rdefs : Defs) (a : UTree) (hc : isConstT a = true) (s : Sym) :
    dimT rdefs a s = 0 := by
  cases a <;> simp_all [isConstT, dimT]

/-- **C18 (main: the dimension is preserved over whole formulas).** With an acyclic set of
    definitions active (names defined in terms of earlier names allowed; each definition a
    key-unique map, as every Python dict), for every formula over ×, ÷, sqrt, unary −, constant
    powers and + / − with dimensionally equal operands, whose leaves carry units in named,
    expanded or mixed form: the library derives a unit without raising and without a mismatch
    warning, and expanding all defined names in that unit (`dimU`) gives, for every symbol,
    exactly the result of dimensional analysis on the expanded operand units (`dimT`). -/
theorem C18_dim_preserved (rdefs : Defs) (h : OrderedR rdefs) (hdw : ∀ q ∈ rdefs, WF q.2)
    (t : UTree) (hd : DomD rdefs t) :
    ∃ u, unitOf rdefs.reverse t = some (u, isConstT t, 0) ∧
      ∀ s, dimU rdefs u s = dimT rdefs t s := by
  induction hd with
  | leaf u => exact ⟨u, rfl, fun _ => rfl⟩
  | const => exact ⟨[], rfl, fun _ => rfl⟩
  | powc a k _ ih =>
    obtain ⟨u, hu, hdim⟩ := ih
    refine ⟨powConst u k, by simp only [unitOf, hu]; rfl, fun s => ?_⟩
    rw [dimU_powConst, hdim s]; rfl
  | un op a _ hua hop ih =>
    obtain ⟨u, hu, hdim⟩ := ih
    obtain ⟨a', ha1, ha2, ha3, ha4⟩ := C18_unpack_sound rdefs h u
    have hba : BaseU rdefs a' := fun k hk => by rw [← lookupDef_reverse rdefs h]; exact ha4 k hk
    have hall : [(u, isConstT a, 0)].all (fun r => !r.1.isEmpty || r.2.1) = true := by
      simpa using all_guard_D _ a u 0 hu hua
    have e1 : unitOf rdefs.reverse (.un op a) = (dispatch op [a']).map
        fun r => (packOr rdefs.reverse (filterZero r.1), false, 0 + (if r.2 then 1 else 0)) := by
      simp only [unitOf, hu]
      rw [guarded_true_defs _ op _ _ hall]
      simp only [List.map, operate_un _ op u a' ha1]
      cases dispatch op [a'] <;> rfl
    rcases hop with hop | hop
    · refine ⟨packOr rdefs.reverse (filterZero a'), ?_, fun s => ?_⟩
      · rw [e1]; simp only [dispatch, hop, applyFun, negU]; rfl
      · rw [packOr_dim rdefs h hdw _ (WF_filterZero _ ha2) hba.filterZero,
          expOf_filterZero _ _ ha2, ha3, hdim s]
        simp [dimT, hop]
    · refine ⟨packOr rdefs.reverse (filterZero (sqrtU a')), ?_, fun s => ?_⟩
      · rw [e1]; simp only [dispatch, hop, applyFun]; rfl
      · rw [packOr_dim rdefs h hdw _ (WF_filterZero _ (WF_sqrtU _ ha2)) hba.sqrtU.filterZero,
          expOf_filterZero _ _ (WF_sqrtU _ ha2), expOf_sqrtU, ha3, hdim s]
        simp [dimT, hop]
  | bin op a b _ _ hua hub hop iha ihb =>
    obtain ⟨u, hu, hdu⟩ := iha
    obtain ⟨v, hv, hdv⟩ := ihb
    obtain ⟨a', ha1, ha2, ha3, ha4⟩ := C18_unpack_sound rdefs h u
    obtain ⟨b', hb1, hb2, hb3, hb4⟩ := C18_unpack_sound rdefs h v
    have hba : BaseU rdefs a' := fun k hk => by rw [← lookupDef_reverse rdefs h]; exact ha4 k hk
    have hbb : BaseU rdefs b' := fun k hk => by rw [← lookupDef_reverse rdefs h]; exact hb4 k hk
    have hall : [(u, isConstT a, 0), (v, isConstT b, 0)].all
        (fun r => !r.1.isEmpty || r.2.1) = true := by
      simp only [List.all_cons, List.all_nil, Bool.and_true, Bool.and_eq_true]
      exact ⟨all_guard_D _ a u 0 hu hua, all_guard_D _ b v 0 hv hub⟩
    have e1 : unitOf rdefs.reverse (.bin op a b) = (dispatch op [a', b']).map
        fun r => (packOr rdefs.reverse (filterZero r.1), false, 0 + 0 + (if r.2 then 1 else 0)) := by
      simp only [unitOf, hu, hv]
      rw [guarded_true_defs _ op _ _ hall]
      simp only [List.map, operate_bin _ op u v a' b' ha1 hb1]
      cases dispatch op [a', b'] <;> rfl
    -- the result `x` of the operator on the expanded operands, then filter + pack
    have fin : ∀ (x : Units), WF x → BaseU rdefs x → ∀ s,
        dimU rdefs (packOr rdefs.reverse (filterZero x)) s = expOf x s := fun x hx hbx s => by
      rw [packOr_dim rdefs h hdw _ (WF_filterZero _ hx) hbx.filterZero, expOf_filterZero _ _ hx]
    rcases hop with hop | hop | ⟨hop, hsame⟩
    · refine ⟨packOr rdefs.reverse (filterZero (mul a' b')), ?_, fun s => ?_⟩
      · rw [e1]; simp only [dispatch, hop, applyFun]; rfl
      · rw [fin _ (WF_mul _ _) (hba.mul hbb), expOf_mul _ _ _ ha2 hb2, ha3, hb3, hdu s, hdv s]
        simp [dimT, hop]
    · refine ⟨packOr rdefs.reverse (filterZero (div a' b')), ?_, fun s => ?_⟩
      · rw [e1]; simp only [dispatch, hop, applyFun]; rfl
      · rw [fin _ (WF_div _ _) (hba.div hbb), expOf_div _ _ _ ha2 hb2, ha3, hb3, hdu s, hdv s]
        simp [dimT, hop]
    · -- + / −
      -- a plain number has the empty unit, which expands to the empty unit
      have hconstA : isConstT a = true → a' = [] := fun hc => by
        have := const_unit _ a hc u _ _ hu
        subst this
        rw [unpack_empty] at ha1
        exact (Option.some.inj ha1).symm
      by_cases hae : a' = []
      · subst hae
        refine ⟨packOr rdefs.reverse (filterZero b'), ?_, fun s => ?_⟩
        · rw [e1]
          simp only [dispatch, hop, applyFun, (addSub_empty b').1]; rfl
        · rw [fin _ hb2 hbb, hb3, hdv s]
          by_cases hca : isConstT a = true
          · simp [dimT, hop, hca]
          · -- a is not a number but its unit expands to nothing: dimension 0 everywhere
            have ha0 : dimT rdefs a s = 0 := by rw [← hdu s, ← ha3 s]; rfl
            have hb0 : dimT rdefs b s = dimT rdefs a s := by
              rcases hsame with hc | hc | hc
              · exact absurd hc hca
              · rw [const_dim rdefs b hc s, ha0]
              · exact (hc s).symm
            simp [dimT, hop, hca, hb0]
      · have hca : isConstT a = false := by
          cases hc : isConstT a with
          | false => rfl
          | true => exact absurd (hconstA hc) hae
        by_cases hbe : b' = []
        · subst hbe
          refine ⟨packOr rdefs.reverse (filterZero a'), ?_, fun s => ?_⟩
          · rw [e1]
            simp only [dispatch, hop, applyFun, (addSub_empty a').2]; rfl
          · rw [fin _ ha2 hba, ha3, hdu s]
            simp [dimT, hop, hca]
        · have hcb : isConstT b = false := by
            cases hc : isConstT b with
            | false => rfl
            | true =>
              exfalso
              have := const_unit _ b hc v _ _ hv
              subst this
              rw [unpack_empty] at hb1
              exact hbe (Option.some.inj hb1).symm
          have hsame' : ∀ s, dimT rdefs a s = dimT rdefs b s := by
            rcases hsame with hc | hc | hc
            · rw [hca] at hc; cases hc
            · rw [hcb] at hc; cases hc
            · exact hc
          have hequiv : Equiv a' b' := fun s => by
            rw [ha3, hb3, hdu s, hdv s, hsame' s]
          have hadd := addSub_equiv a' b' ha2 hb2 hae hequiv
          refine ⟨packOr rdefs.reverse (filterZero a'), ?_, fun s => ?_⟩
          · rw [e1]; simp only [dispatch, hop, applyFun, hadd]; rfl
          · rw [fin _ ha2 hba, ha3, hdu s]
            simp [dimT, hop, hca]

/-- non-vacuity of `C18_dim_preserved`: with N = kg·m·s⁻² and J = N·m, the formula
    `[J] + [N]·[m]` (named plus mixed form) is in the domain -/
example : DomD [("J".toList, [("N".toList, 1), ("m".toList, 1)]),
      ("N".toList, [("kg".toList, 1), ("m".toList, 1), ("s".toList, -2)])]
    (.bin "add" (.leaf [("J".toList, 1)])
      (.bin "mul" (.leaf [("N".toList, 1)]) (.leaf [("m".toList, 1)]))) := by
  have hm : opFun "mul" = some .mul := by decide
  have hadd : opFun "add" = some .addsub := by decide
  obtain ⟨R, hR⟩ : ∃ R : Defs, R = [("J".toList, [("N".toList, (1 : Rat)), ("m".toList, 1)]),
      ("N".toList, [("kg".toList, (1 : Rat)), ("m".toList, 1), ("s".toList, -2)])] := ⟨_, rfl⟩
  rw [← hR]
  have hord : OrderedR R := by
    rw [hR]; simp only [OrderedR]; decide
  have hdw : ∀ q ∈ R, WF q.2 := by
    intro q hq
    rw [hR] at hq
    simp only [List.mem_cons, List.not_mem_nil, or_false] at hq
    rcases hq with rfl | rfl <;> simp only [WF, List.map] <;> decide
  have n1 : ¬ ("N".toList = "J".toList) := by decide
  have n2 : ¬ ("m".toList = "J".toList) := by decide
  have n3 : ¬ ("m".toList = "N".toList) := by decide
  have n4 : ¬ ("m".toList = "kg".toList) := by decide
  have n5 : ¬ ("s".toList = "kg".toList) := by decide
  have l0 : HasUnitD R.reverse (.leaf [("J".toList, 1)]) := Or.inr ⟨_, rfl, by simp⟩
  have l1 : HasUnitD R.reverse (.leaf [("N".toList, 1)]) := Or.inr ⟨_, rfl, by simp⟩
  have l2 : HasUnitD R.reverse (.leaf [("m".toList, 1)]) := Or.inr ⟨_, rfl, by simp⟩
  have d2 : DomD R (.bin "mul" (.leaf [("N".toList, 1)]) (.leaf [("m".toList, 1)])) :=
    DomD.bin "mul" _ _ (.leaf _) (.leaf _) l1 l2 (Or.inl hm)
  have h2 : HasUnitD R.reverse (.bin "mul" (.leaf [("N".toList, 1)]) (.leaf [("m".toList, 1)])) := by
    obtain ⟨u, hu, hdim⟩ := C18_dim_preserved R hord hdw _ d2
    refine Or.inr ⟨_, hu, fun he => ?_⟩
    simp only at he
    subst he
    have := hdim "kg".toList
    rw [hR] at this
    simp only [dimT, hm, dimU, List.map, sumRat, dimSym, n1, n2, n3, n4, n5, if_false,
      if_true] at this
    norm_num at this
  refine DomD.bin _ _ _ (.leaf _) d2 l0 h2 (Or.inr (Or.inr ⟨hadd, Or.inr (Or.inr fun s => ?_)⟩))
  rw [hR]
  simp only [dimT, hm, dimU, List.map, sumRat, dimSym, n1, n2, n3, if_false, if_true]
  ring

/-! ### define / clear histories in which a request is rejected (faults) -/

/-- **C18 (a rejected definition changes nothing).** When `define_unit(name, expr)` raises —
    the name fails the name test or the expression is not a unit string — the definitions are
    exactly what they were before the request: in particular a failing *re*-definition of an
    existing name keeps the previous valid definition. -/
theorem C18_define_reject_unchanged (defs : Defs) (name expr : List Char)
    (h : defineReq defs name expr = none) : defineStep defs name expr = defs := by
  simp [defineStep, h]

/-- the request is rejected exactly when the name or the expression is rejected (it does not
    depend on the current definitions: re-defining is neither easier nor harder than defining) -/
theorem C18_define_reject_iff (defs : Defs) (name expr : List Char) :
    defineReq defs name expr = none ↔ nameOk name = false ∨ parse expr = none := by
  unfold defineReq
  cases hn : nameOk name <;> cases hp : parse expr <;> simp

/-- an accepted request is the dictionary assignment `UNIT_DEFINITIONS[name] = parse(expr)` -/
theorem C18_define_accept (defs : Defs) (name expr : List Char) (u : Units)
    (hn : nameOk name = true) (hp : parse expr = some u) :
    defineStep defs name expr = define defs name u := by
  simp [defineStep, defineReq, hn, hp]

private theorem stepReq_rejected (defs : Defs) (r : DefReq) (h : r.accepted = false) :
    stepReq defs r = defs := by
  cases r with
  | clear => simp [DefReq.accepted] at h
  | define n e =>
    have hr : defineReq defs n e = none := by
      rw [C18_define_reject_iff]
      simp only [DefReq.accepted, Bool.and_eq_false_iff] at h
      rcases h with h | h
      · exact Or.inl h
      · right
        cases hp : parse e with
        | none => rfl
        | some u => simp [hp] at h
    exact C18_define_reject_unchanged defs n e hr

/-- **C18 (define/clear sequences with faults).** The definitions after any history of define /
    clear requests are those after the same history with every rejected request removed. -/
theorem C18_rejected_requests_invisible (defs : Defs) (rs : List DefReq) :
    runReqs defs rs = runReqs defs (rs.filter DefReq.accepted) := by
  induction rs generalizing defs with
  | nil => rfl
  | cons r rs ih =>
    cases hr : r.accepted
    · have hs := stepReq_rejected defs r hr
      simp only [runReqs, List.foldl_cons, List.filter_cons, hr, hs] at ih ⊢
      exact ih defs
    · simp only [runReqs, List.foldl_cons, List.filter_cons, hr, if_true] at ih ⊢
      exact ih _

/-- a history that ends in `clear_unit_definitions()` leaves no definition (then `C18_clear`) -/
theorem C18_clear_last (defs : Defs) (rs : List DefReq) :
    runReqs defs (rs ++ [DefReq.clear]) = [] := by
  simp [runReqs, List.foldl_append, stepReq]

/-- non-vacuity: a failing re-definition of `N` (unbalanced bracket) after a valid one -/
example : runReqs [] [.define "N".toList "kg*m".toList, .define "N".toList "kg*m)".toList]
    = runReqs [] [.define "N".toList "kg*m".toList] := by
  have h1 : (DefReq.define "N".toList "kg*m".toList).accepted = true := by decide
  have h2 : (DefReq.define "N".toList "kg*m)".toList).accepted = false := by decide
  rw [C18_rejected_requests_invisible]
  simp only [List.filter_cons, h1, h2, if_true, List.filter_nil]
  rfl

/-! ### definitions and operands as the user writes them -/

private theorem mem_define (defs : Defs) (n : Sym) (u : Units) (q : Sym × Units)
    (h : q ∈ define defs n u) : q ∈ defs ∨ q = (n, u) := by
  induction defs with
  | nil => simp only [define, List.mem_singleton] at h; exact Or.inr h
  | cons p r ih =>
    obtain ⟨m, d⟩ := p
    simp only [define] at h
    split at h
    · rcases List.mem_cons.mp h with h | h
      · subst_vars; exact Or.inr rfl
      · exact Or.inl (List.mem_cons_of_mem _ h)
    · rcases List.mem_cons.mp h with h | h
      · exact Or.inl (by rw [h]; exact List.mem_cons_self)
      · rcases ih h with h | h
        · exact Or.inl (List.mem_cons_of_mem _ h)
        · exact Or.inr h

private theorem stepReq_WF (defs : Defs) (hd : ∀ q ∈ defs, WF q.2) (r : DefReq) :
    ∀ q ∈ stepReq defs r, WF q.2 := by
  cases r with
  | clear => intro q hq; simp [stepReq] at hq
  | define n e =>
    simp only [stepReq, defineStep, defineReq]
    cases hn : nameOk n
    · simpa using hd
    · cases hp : parse e with
      | none => simpa using hd
      | some u =>
        obtain ⟨_, _, _, _, hw, _⟩ := parse_sound e u hp
        intro q hq
        simp only [if_true, Option.getD_some] at hq
        rcases mem_define defs n u q hq with h | h
        · exact hd q h
        · rw [h]; exact hw

/-- **C18 (whatever is written in a definition).** Every definition that any history of define /
    clear requests leaves active is a key-unique exponent map — however its expression was
    written: `N/m/m`, `kg*m*m/s^2`, `kg*m^2/(s^2*m)`, `J*J/N` mention a symbol several times and
    are stored with the SUM of the contributions (`C12_sound`: the conventional reading).  This
    discharges the hypothesis `hdw` of `C18_dim_preserved` for every session. -/
theorem C18_definitions_wellformed (rs : List DefReq) : ∀ q ∈ runReqs [] rs, WF q.2 := by
  suffices h : ∀ (defs : Defs), (∀ q ∈ defs, WF q.2) → ∀ q ∈ runReqs defs rs, WF q.2 from
    h [] (by simp)
  induction rs with
  | nil => intro defs hd; simpa [runReqs] using hd
  | cons r rs ih =>
    intro defs hd
    simp only [runReqs, List.foldl_cons]
    exact ih _ (stepReq_WF defs hd r)

/-- **C18 (main, formulas as typed).** The dimension is preserved for formulas whose operands
    carry unit STRINGS in any written form (named, expanded, mixed; symbols repeated; chains of
    `/`; brackets): when every string is accepted the typed formula evaluates like the formula
    it denotes, to which `C18_dim_preserved` applies. -/
theorem C18_written (rdefs : Defs) (h : OrderedR rdefs) (hdw : ∀ q ∈ rdefs, WF q.2)
    (w : WTree) (t : UTree) (hr : w.read = some t) (hd : DomD rdefs t) :
    ∃ u, unitOfW rdefs.reverse w = some (u, isConstT t, 0) ∧
      ∀ s, dimU rdefs u s = dimT rdefs t s := by
  obtain ⟨u, hu, hrest⟩ := C18_dim_preserved rdefs h hdw t hd
  exact ⟨u, by simp only [unitOfW, hr]; exact hu, hrest⟩

/-- non-vacuity: the pascal written as force per metre per metre is stored as N·m⁻² -/
example : runReqs [] [.define "Pa".toList "N/m/m".toList] =
    [("Pa".toList, [("N".toList, 1), ("m".toList, -2)])] := by decide +kernel

end QExPy

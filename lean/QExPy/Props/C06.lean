/-
  C06 — fit parameters are the weighted least-squares optimum.

  `numpy.polyfit` / `scipy.optimize.curve_fit` are not modelled.  The theorems below say what
  the conditions that the check certifies on their outputs *mean*:
  a solution of the weighted normal equations is the weighted least-squares optimum (and the
  only one when AᵀWA is positive definite); `−2·JᵀWr` is the gradient of the
  effective-variance objective (so "stationary point" ⇔ `JᵀWr = 0`); exact data are fitted
  with objective 0; the x-range filter keeps exactly the points with `low ≤ x < high`.
-/
import QExPy.Lemmas.FitSums
import Mathlib.Algebra.Polynomial.Roots

namespace QExPy
open Fit Expr

/-! ### linear least squares -/

/-- **C06 (expansion).** `S(q) = S(p) − 2 (q−p)·AᵀW(y−Ap) + ‖A(q−p)‖²_W`, for every `p`, `q`. -/
theorem C06_wls_expansion (n m : Nat) (A : Nat → Nat → ℝ) (s y p q : Nat → ℝ) :
    objective n m A s y q = objective n m A s y p
      - 2 * ∑ k ∈ Finset.range m, (q k - p k) * normalRes n m A s y p k
      + ∑ i ∈ Finset.range n, ((∑ k ∈ Finset.range m, A i k * (q k - p k)) / s i) ^ 2 := by
  simp only [objective, normalRes, resid, pred, sumN_eq, Num.sq, num_sub, num_mul, num_div]
  have hswap : ∑ k ∈ Finset.range m, (q k - p k) * ∑ i ∈ Finset.range n,
        A i k * (y i - ∑ l ∈ Finset.range m, A i l * p l) / (s i * s i)
      = ∑ i ∈ Finset.range n, (∑ k ∈ Finset.range m, A i k * (q k - p k))
          * (y i - ∑ l ∈ Finset.range m, A i l * p l) / (s i * s i) := by
    simp only [Finset.mul_sum]
    rw [Finset.sum_comm]
    apply Finset.sum_congr rfl
    intro i _
    rw [mul_div_assoc, Finset.sum_mul]
    apply Finset.sum_congr rfl
    intro k _
    ring
  rw [hswap, Finset.mul_sum, ← Finset.sum_sub_distrib, ← Finset.sum_add_distrib]
  apply Finset.sum_congr rfl
  intro i _
  have hd : ∑ k ∈ Finset.range m, A i k * q k
      = ∑ k ∈ Finset.range m, A i k * p k + ∑ k ∈ Finset.range m, A i k * (q k - p k) := by
    rw [← Finset.sum_add_distrib]
    apply Finset.sum_congr rfl
    intro k _
    ring
  rw [hd]
  ring

/-- **C06 (main, polynomial models).** If `p` solves the weighted normal equations
    `AᵀW(y − Ap) = 0` (`W = diag(1/s_i²)`, `s_i = σ_yi`, or 1 everywhere when no y-uncertainty
    is given) then `p` minimises the weighted sum of squares: `S(p) ≤ S(q)` for every `q`. -/
theorem C06_wls_optimal (n m : Nat) (A : Nat → Nat → ℝ) (s y p : Nat → ℝ)
    (hne : ∀ k < m, normalRes n m A s y p k = 0) (q : Nat → ℝ) :
    objective n m A s y p ≤ objective n m A s y q := by
  rw [C06_wls_expansion n m A s y p q]
  have h0 : ∑ k ∈ Finset.range m, (q k - p k) * normalRes n m A s y p k = 0 :=
    Finset.sum_eq_zero fun k hk => by rw [hne k (Finset.mem_range.mp hk)]; ring
  have h1 : 0 ≤ ∑ i ∈ Finset.range n, ((∑ k ∈ Finset.range m, A i k * (q k - p k)) / s i) ^ 2 :=
    Finset.sum_nonneg fun i _ => sq_nonneg _
  rw [h0]
  linarith

/-- **C06 (what an approximate certificate means).** For *any* `p` and `q`:
    `S(p) ≤ S(q) + 2 (q−p)·AᵀW(y−Ap)`.  A residual of the normal equations that is small (the
    check accepts `|residual_k| ≤` rounding bound) bounds how far `p` can be from optimal. -/
theorem C06_wls_near_optimal (n m : Nat) (A : Nat → Nat → ℝ) (s y p q : Nat → ℝ) :
    objective n m A s y p
      ≤ objective n m A s y q + 2 * ∑ k ∈ Finset.range m, (q k - p k) * normalRes n m A s y p k := by
  have h := C06_wls_expansion n m A s y p q
  have h1 : 0 ≤ ∑ i ∈ Finset.range n, ((∑ k ∈ Finset.range m, A i k * (q k - p k)) / s i) ^ 2 :=
    Finset.sum_nonneg fun i _ => sq_nonneg _
  linarith

/-- `AᵀWA` is positive definite: `‖Av‖²_W > 0` for every `v` that is non-zero on `0..m-1` -/
def NormalPosDef (n m : Nat) (A : Nat → Nat → ℝ) (s : Nat → ℝ) : Prop :=
  ∀ v : Nat → ℝ, (∃ k < m, v k ≠ 0) →
    0 < ∑ i ∈ Finset.range n, ((∑ k ∈ Finset.range m, A i k * v k) / s i) ^ 2

/-- **C06 (uniqueness).** When `AᵀWA` is positive definite, the solution of the normal
    equations is the *only* minimiser: anything that does as well is the same vector. -/
theorem C06_wls_unique (n m : Nat) (A : Nat → Nat → ℝ) (s y p : Nat → ℝ)
    (hne : ∀ k < m, normalRes n m A s y p k = 0) (hpd : NormalPosDef n m A s)
    (q : Nat → ℝ) (hq : objective n m A s y q ≤ objective n m A s y p) :
    ∀ k < m, q k = p k := by
  intro k hk
  by_contra hne'
  have hpos := hpd (fun k => q k - p k) ⟨k, hk, sub_ne_zero.mpr hne'⟩
  have hexp := C06_wls_expansion n m A s y p q
  have h0 : ∑ k ∈ Finset.range m, (q k - p k) * normalRes n m A s y p k = 0 :=
    Finset.sum_eq_zero fun k hk => by rw [hne k (Finset.mem_range.mp hk)]; ring
  rw [h0] at hexp
  linarith

/-- **C06 (distinct abscissae ⇒ positive definite).** With `n > d` pairwise distinct x values
    and non-zero `s_i`, the normal matrix of a degree-`d` polynomial fit is positive definite
    (a non-zero polynomial of degree ≤ d cannot vanish at more than d points). -/
theorem C06_vandermonde_posdef (n d : Nat) (x s : Nat → ℝ)
    (hx : ∀ i < n, ∀ j < n, x i = x j → i = j) (hn : d < n) (hs : ∀ i < n, s i ≠ 0) :
    NormalPosDef n (d + 1) (design d x) s := by
  intro v ⟨k, hk, hvk⟩
  have hnn : 0 ≤ ∑ i ∈ Finset.range n,
      ((∑ k ∈ Finset.range (d + 1), design d x i k * v k) / s i) ^ 2 :=
    Finset.sum_nonneg fun i _ => sq_nonneg _
  rcases lt_or_eq_of_le hnn with h | h
  · exact h
  exfalso
  -- every term vanishes
  have hz : ∀ i < n, ∑ k ∈ Finset.range (d + 1), design d x i k * v k = 0 := by
    intro i hi
    have := (Finset.sum_eq_zero_iff_of_nonneg (fun i _ => sq_nonneg _)).mp h.symm i
      (Finset.mem_range.mpr hi)
    have h2 : (∑ k ∈ Finset.range (d + 1), design d x i k * v k) / s i = 0 := by
      simpa using this
    rcases div_eq_zero_iff.mp h2 with h3 | h3
    · exact h3
    · exact absurd h3 (hs i hi)
  -- the polynomial with coefficients v, highest power first
  let P : Polynomial ℝ := ∑ j ∈ Finset.range (d + 1), Polynomial.C (v j) * Polynomial.X ^ (d - j)
  have hdeg : P.natDegree ≤ d := by
    apply Polynomial.natDegree_sum_le_of_forall_le
    intro j _
    exact (Polynomial.natDegree_C_mul_X_pow_le _ _).trans (Nat.sub_le d j)
  have heval : ∀ i : Fin n, P.eval (x i) = 0 := by
    intro i
    have := hz i i.isLt
    simp only [P, Polynomial.eval_finsetSum, Polynomial.eval_mul, Polynomial.eval_C,
      Polynomial.eval_pow, Polynomial.eval_X]
    rw [← this]
    apply Finset.sum_congr rfl
    intro j _
    simp only [design, npow_eq]
    ring
  have hinj : Function.Injective (fun i : Fin n => x i) := by
    intro a b hab
    exact Fin.ext (hx a a.isLt b b.isLt hab)
  have hP : P = 0 := Polynomial.eq_zero_of_natDegree_lt_card_of_eval_eq_zero P hinj heval
    (by simpa using lt_of_le_of_lt hdeg hn)
  have hcoeff : P.coeff (d - k) = v k := by
    simp only [P, Polynomial.finsetSum_coeff, Polynomial.coeff_C_mul_X_pow]
    rw [Finset.sum_eq_single k]
    · simp
    · intro j hj hjk
      have hj' := Finset.mem_range.mp hj
      have : d - k ≠ d - j := by omega
      simp [this]
    · intro hk'; exact absurd (Finset.mem_range.mpr hk) hk'
  rw [hP] at hcoeff
  simp at hcoeff
  exact hvk hcoeff.symm


/-- **C06 (polynomial fits: "solves the normal equations" ⇔ "is THE weighted least-squares
    solution").** For data with distinct x values, more points than coefficients and non-zero
    weights' denominators: a coefficient vector that solves the weighted normal equations
    minimises the weighted sum of squares, and every minimiser equals it. -/
theorem C06_polyfit_characterisation (n d : Nat) (x s y p : Nat → ℝ)
    (hx : ∀ i < n, ∀ j < n, x i = x j → i = j) (hn : d < n) (hs : ∀ i < n, s i ≠ 0)
    (hne : ∀ k < d + 1, normalRes n (d + 1) (design d x) s y p k = 0) :
    (∀ q, objective n (d + 1) (design d x) s y p ≤ objective n (d + 1) (design d x) s y q) ∧
    (∀ q, objective n (d + 1) (design d x) s y q ≤ objective n (d + 1) (design d x) s y p →
      ∀ k < d + 1, q k = p k) :=
  ⟨C06_wls_optimal n (d + 1) _ s y p hne,
   C06_wls_unique n (d + 1) _ s y p hne (C06_vandermonde_posdef n d x s hx hn hs)⟩

/-- **C06 (order).** Row `i` of the design matrix applied to `p` is
    `Σ_k p_k · x_i^(d−k)`: the first parameter multiplies the highest power. -/
theorem C06_order (d : Nat) (x p : Nat → ℝ) (i : Nat) :
    pred (d + 1) (design d x) p i = ∑ k ∈ Finset.range (d + 1), p k * x i ^ (d - k) :=
  design_pred_eq d x p i

/-- **C06 (residual-scaled covariance).** the scale factor is `S(p)/(n − m)` -/
theorem C06_cov_factor (n m : Nat) (A : Nat → Nat → ℝ) (s y p : Nat → ℝ) :
    polyCovFactor n m A s y p = objective n m A s y p / ((n - m : Nat) : ℝ) := rfl

/-! ### x-range selection -/

/-- **C06 (x-range).** A point enters the fit iff it is a data point with `low ≤ x < high`;
    a point is the record (x, y, σx, σy), so y and the uncertainties are selected with x. -/
theorem C06_select_mem (lo hi : ℝ) (d : List (Pt ℝ)) (pt : Pt ℝ) :
    pt ∈ select lo hi d ↔ pt ∈ d ∧ lo ≤ pt.x ∧ pt.x < hi := by
  simp [select, inRange, List.mem_filter]

/-- **C06 (x-range).** The selected points keep their order (and multiplicity). -/
theorem C06_select_sublist (lo hi : ℝ) (d : List (Pt ℝ)) : (select lo hi d).Sublist d :=
  List.filter_sublist

/-- **C06 (x-range).** A range that covers all the data selects all of it. -/
theorem C06_select_all (lo hi : ℝ) (d : List (Pt ℝ)) (h : ∀ pt ∈ d, lo ≤ pt.x ∧ pt.x < hi) :
    select lo hi d = d := by
  apply List.filter_eq_self.mpr
  intro pt hpt
  simp [inRange, h pt hpt]

/-! ### non-polynomial models -/

/-- **C06 (gradient).** For every model formula, on its domain, the derivative of the
    objective `S(p) = Σ_i ((y_i − f(x_i;p))/s_i)²` with respect to parameter `k` is
    `−2 Σ_i J_ik r_i / s_i²` with `J_ik = ∂f/∂p_k(x_i; p)` computed by the (proved) derivative
    rules (`s_i` does not depend on `p`: it was fixed with the first-pass optimum). -/
theorem C06_grad (e : Expr ℝ) (n m : Nat) (x y s p : Nat → ℝ) (k : Nat) (hk : k < m)
    (hdom : ∀ i < n, InDom (envOf m p (x i)) e) :
    HasDerivAt (fun t => objectiveNL e n m x y s (Function.update p k t))
      (-2 * gradNL e n m x y s p k) (p k) := by
  simp only [objectiveNL, gradNL, sumN_eq, Num.sq, num_sub, num_mul, num_div]
  rw [Finset.mul_sum]
  apply HasDerivAt.fun_sum
  intro i hi
  have hi' := Finset.mem_range.mp hi
  have hf : HasDerivAt (fun t => fval e m (Function.update p k t) (x i))
      (fgrad e m p (x i) k) (p k) := by
    have h := C03_diff_correct (envOf m p (x i)) k e (hdom i hi')
    have hpk : envOf m p (x i) k = p k := by simp [envOf, hk]
    rw [hpk] at h
    simpa [fval, fgrad, envOf_update_param m p (x i) k hk] using h
  have hr := ((hasDerivAt_const (p k) (y i)).fun_sub hf).div_const (s i)
  have := hr.fun_mul hr
  refine this.congr_deriv ?_
  simp only [Function.update_eq_self]
  ring

/-- **C06 (stationarity).** `p` is a stationary point of the objective in direction `k`
    iff component `k` of `JᵀWr` vanishes. -/
theorem C06_stationary_iff (e : Expr ℝ) (n m : Nat) (x y s p : Nat → ℝ) (k : Nat) (hk : k < m)
    (hdom : ∀ i < n, InDom (envOf m p (x i)) e) :
    deriv (fun t => objectiveNL e n m x y s (Function.update p k t)) (p k) = 0
      ↔ gradNL e n m x y s p k = 0 := by
  rw [(C06_grad e n m x y s p k hk hdom).deriv]
  constructor
  · intro h; linarith
  · intro h; rw [h]; ring

/-- **C06 (noise-free data).** If the data are exactly the model at `p*`, then `S(p*) = 0` and
    `p*` is a global minimiser of the objective, whatever the uncertainties. -/
theorem C06_noise_free (e : Expr ℝ) (n m : Nat) (x y s pstar : Nat → ℝ)
    (h : ∀ i < n, y i = fval e m pstar (x i)) :
    objectiveNL e n m x y s pstar = 0 ∧ ∀ q, objectiveNL e n m x y s pstar ≤ objectiveNL e n m x y s q := by
  have h0 : objectiveNL e n m x y s pstar = 0 := by
    simp only [objectiveNL, sumN_eq, Num.sq, num_sub, num_div]
    apply Finset.sum_eq_zero
    intro i hi
    rw [h i (Finset.mem_range.mp hi)]
    simp
  refine ⟨h0, fun q => ?_⟩
  rw [h0]
  simp only [objectiveNL, sumN_eq, Num.sq, num_sub, num_div]
  exact Finset.sum_nonneg fun i _ => mul_self_nonneg _

/-- **C06 (effective variance).** `s² = σ_y² + (σ_x · f'(x))²` where `f'(x)` is the exact
    derivative of the model curve `t ↦ f(t; p₁)` *at the data point `x`*. -/
theorem C06_eff_var (e : Expr ℝ) (m : Nat) (p1 : Nat → ℝ) (pt : Pt ℝ)
    (hdom : InDom (envOf m p1 pt.x) e) :
    effVar e m p1 pt = pt.sy ^ 2 + (pt.sx * fslope e m p1 pt.x) ^ 2
      ∧ HasDerivAt (fun t => fval e m p1 t) (fslope e m p1 pt.x) pt.x := by
  constructor
  · simp [effVar, Num.sq, sq]
  · have h := C03_diff_correct (envOf m p1 pt.x) m e hdom
    have hx : envOf m p1 pt.x m = pt.x := by simp [envOf]
    rw [hx] at h
    have hfun : (fun t => fval e m p1 t)
        = fun t => eval (Function.update (envOf m p1 pt.x) m t) e := by
      funext t; simp [fval, envOf_update_x m p1 pt.x t]
    rw [hfun]
    exact h

/-! ### non-vacuity -/

/-- the hypothesis of `C06_wls_optimal` is satisfiable: fitting a constant to (1, 3) gives 2 -/
example : ∀ k < 1, normalRes 2 1 (fun _ _ => (1:ℝ)) (fun _ => 1)
    (fun i => if i = 0 then 1 else 3) (fun _ => 2) k = 0 := by
  intro k _
  simp [normalRes, resid, pred, sumN_eq, Finset.sum_range_succ, Num.sq]
  norm_num

/-- `NormalPosDef` is satisfiable: one column of ones, two points -/
example : NormalPosDef 2 1 (fun _ _ => (1:ℝ)) (fun _ => 1) := by
  intro v ⟨k, hk, hv⟩
  have hk0 : k = 0 := by omega
  subst hk0
  simp
  have := sq_pos_of_ne_zero hv
  linarith

/-- the domain hypothesis of `C06_grad` holds for a straight line `p₀·x + p₁` at every point -/
example (p : Nat → ℝ) (x : ℝ) : InDom (envOf 2 p x)
    (Expr.bin .add (Expr.bin .mul (Expr.var 0) (Expr.var 2)) (Expr.var 1) : Expr ℝ) := by
  simp [InDom, dom2]

end QExPy

/-
  C06 — fit parameters are the weighted least-squares optimum.
-/
import QExPy.Real
import QExPy.Model.Fit
import QExPy.Props.C03

namespace QExPy
open Fit

end QExPy

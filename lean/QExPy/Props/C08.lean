/-
  C08 — units of results follow dimensional analysis, independent of factor order.

  Model: `QExPy/Model/Units.lean` (`mul`, `div`, `sqrtU`, `negU`, `addSub`, `filterZero`,
  `powConst`, `operate`, `unitOf`) mirroring qexpy/utils/units.py and `propagate_units`; the
  dispatch table `UNIT_OPERATIONS` is generated (`Gen.unitOps`).  Specification: `dimT`,
  dimensional analysis on exponent functions.  No compound-unit definitions (`defs = []`) — also
  at the end of a define / clear history (`C08_after_history`).  Leaves may be given as the unit
  STRINGS the user types (`Model/UnitWritten.lean`, `C08_leaf_written`, `C08_written`).
-/
import QExPy.Lemmas.Units
import QExPy.Lemmas.ParseSpec
import QExPy.Lemmas.DefReqs
import QExPy.Model.UnitWritten

namespace QExPy
open U

/-- **C08 (dispatch).** the generated `UNIT_OPERATIONS` table sends every operator literal to
    the function the model (and `dimT`) assumes: + and − to `__add_and_sub`, × to `__mul`,
    ÷ to `__div`, sqrt to `__sqrt`, unary − to `__neg`; any other operator has no entry. -/
theorem C08_dispatch :
    opFun "add" = some .addsub ∧ opFun "sub" = some .addsub ∧ opFun "mul" = some .mul ∧
    opFun "div" = some .div ∧ opFun "sqrt" = some .sqrt ∧ opFun "neg" = some .neg ∧
    opFun "pow" = none ∧ opFun "sin" = none := by decide

/-- **C08 (order-insensitive).** operands whose units are dimensionally equal — in whatever
    order the factors are written, with or without cancelled entries — are not a mismatch:
    no warning, and the result keeps the unit. -/
theorem C08_order_insensitive (u v : Units) (hu : WF u) (hv : WF v) (nu : u ≠ []) (_nv : v ≠ [])
    (h : Equiv u v) : addSub u v = (u, false) := by
  have he : Equiv (filterZero u) (filterZero v) := fun s => by
    rw [expOf_filterZero u s hu, expOf_filterZero v s hv]; exact h s
  have hd := (dictEq_iff _ _ (WF_filterZero u hu) (WF_filterZero v hv) (NoZero_filterZero u)
    (NoZero_filterZero v)).mpr he
  cases u with
  | nil => exact absurd rfl nu
  | cons p r => simp [addSub, hd]

/-- **C08 (mismatch).** a genuine mismatch (some symbol with different exponents) between two
    operands that both carry a unit produces the warning and a result without unit. -/
theorem C08_mismatch (u v : Units) (hu : WF u) (hv : WF v) (nu : u ≠ []) (nv : v ≠ [])
    (h : ¬ Equiv u v) : addSub u v = ([], true) := by
  have hd : dictEq (filterZero u) (filterZero v) = false := by
    cases hdd : dictEq (filterZero u) (filterZero v) with
    | false => rfl
    | true =>
      exfalso
      have he := (dictEq_iff _ _ (WF_filterZero u hu) (WF_filterZero v hv) (NoZero_filterZero u)
        (NoZero_filterZero v)).mp hdd
      exact h fun s => by
        have := he s
        rwa [expOf_filterZero u s hu, expOf_filterZero v s hv] at this
  cases u with
  | nil => exact absurd rfl nu
  | cons p r =>
    cases v with
    | nil => exact absurd rfl nv
    | cons q r' => simp [addSub, hd]

/-- an operand without unit (a plain number) takes the unit of the other operand -/
theorem C08_addsub_empty (v : Units) : addSub [] v = (v, false) ∧ addSub v [] = (v, false) := by
  constructor
  · simp [addSub]
  · cases v <;> simp [addSub]

/-- **C08 (order of factors).** the same factors written in another order are the same unit -/
theorem C08_perm (u u' : Units) (hu : WF u) (hp : u.Perm u') : Equiv u u' := by
  have hu' : WF u' := by
    unfold WF at *
    exact (hp.map Prod.fst).nodup_iff.mp hu
  intro s
  by_cases hs : s ∈ u.map Prod.fst
  · obtain ⟨p, hpm, rfl⟩ := List.mem_map.mp hs
    obtain ⟨k, e⟩ := p
    rw [expOf_of_mem u hu k e hpm, expOf_of_mem u' hu' k e (hp.mem_iff.mp hpm)]
  · have hs' : s ∉ u'.map Prod.fst := fun h' => hs ((hp.map Prod.fst).mem_iff.mpr h')
    rw [expOf_eq_zero_of_not_mem u s hs, expOf_eq_zero_of_not_mem u' s hs']

/-- **C08 (exponent arithmetic).** multiplication adds exponents, division subtracts them, a
    constant power multiplies them, a square root halves them, negation keeps them. -/
theorem C08_exponents (u v : Units) (hu : WF u) (hv : WF v) (k : Rat) (s : Sym) :
    expOf (mul u v) s = expOf u s + expOf v s ∧
    expOf (div u v) s = expOf u s - expOf v s ∧
    expOf (powConst u k) s = expOf u s * k ∧
    expOf (sqrtU u) s = expOf u s / 2 ∧
    expOf (negU u) s = expOf u s :=
  ⟨expOf_mul u v s hu hv, expOf_div u v s hu hv, expOf_powConst u k s, expOf_sqrtU u s, rfl⟩

/-- **C08 (cancelled units disappear).** whatever `operate_with_units` returns lists no symbol
    with exponent 0, and keeps the exponents of what the operator computed. -/
theorem C08_no_zero_entries (op : String) (ops : List Units) (r : Units) (w : Bool)
    (h : operate [] op ops = some (r, w)) : NoZero r := by
  simp only [operate] at h
  split at h
  · cases h
  · split at h
    · cases h
    · simp only [Option.some.injEq, Prod.mk.injEq] at h
      rw [← h.1, packOr_nil]
      exact NoZero_filterZero _

/-! ### the theorem over whole formulas -/

/-- the operand is a plain number or the library reports a non-empty unit for it
    (the domain restriction in the statement of the property) -/
def HasUnit (t : UTree) : Prop :=
  isConstT t = true ∨ ∃ r, unitOf [] t = some r ∧ r.1 ≠ []

/-- the domain of C08: key-unique leaf units, known operators, every non-constant operand of
    every operation carries a non-empty unit, and the operands of + and − are dimensionally
    equal (or one of them is a plain number) -/
inductive Dom : UTree → Prop
  | leaf (u : Units) : WF u → Dom (.leaf u)
  | const : Dom .const
  | powc (a : UTree) (k : Rat) : Dom a → Dom (.powc a k)
  | un (op : String) (a : UTree) : Dom a → HasUnit a →
      (opFun op = some .neg ∨ opFun op = some .sqrt) → Dom (.un op a)
  | bin (op : String) (a b : UTree) : Dom a → Dom b → HasUnit a → HasUnit b →
      (opFun op = some .mul ∨ opFun op = some .div ∨
        (opFun op = some .addsub ∧
          (isConstT a = true ∨ isConstT b = true ∨ ∀ s, dimT [] a s = dimT [] b s))) →
      Dom (.bin op a b)

theorem all_guard_un (ra : Units × Bool × Nat) (a : UTree) (hr : unitOf [] a = some ra)
    (h : HasUnit a) : (!ra.1.isEmpty || ra.2.1) = true := by
  rcases h with h | ⟨r, h1, h2⟩
  · rw [unitOf_const_flag a ra hr, h]; simp
  · rw [hr] at h1
    cases h1
    cases hx : ra.1 with
    | nil => exact absurd hx h2
    | cons => simp

/-- **C08 (main).** For every formula in the domain of the property the unit the library derives
    is exactly the dimensional-analysis result `dimT` of the formula — for every symbol, so
    cancelled symbols have exponent 0 — no mismatch warning is issued, and the call does not
    raise. -/
theorem C08_dim (t : UTree) (h : Dom t) :
    ∃ u, unitOf [] t = some (u, isConstT t, 0) ∧ WF u ∧ ∀ s, expOf u s = dimT [] t s := by
  induction h with
  | leaf u hu => exact ⟨u, rfl, hu, fun s => (dimU_nil u hu s).symm⟩
  | const => exact ⟨[], rfl, WF_nil, fun _ => rfl⟩
  | powc a k _ ih =>
    obtain ⟨u, hu, hw, hd⟩ := ih
    refine ⟨powConst u k, by simp only [unitOf, hu]; rfl, WF_powConst u k hw, fun s => ?_⟩
    rw [expOf_powConst, hd s]; rfl
  | un op a _ hua hop ih =>
    obtain ⟨u, hu, hw, hd⟩ := ih
    have hg := all_guard_un _ a hu hua
    have hall : [(u, isConstT a, 0)].all (fun r => !r.1.isEmpty || r.2.1) = true := by
      simpa using hg
    have e1 : unitOf [] (.un op a) = (dispatch op [merge [] u 1]).map
        fun r => (filterZero r.1, false, 0 + (if r.2 then 1 else 0)) := by
      simp only [unitOf, hu]
      rw [guarded_true op _ _ hall]
      simp only [List.map, operate_nil1]
      cases dispatch op [merge [] u 1] <;> rfl
    rcases hop with hop | hop
    · refine ⟨filterZero (merge [] u 1), ?_, WF_filterZero _ (WF_unpacked u), fun s => ?_⟩
      · rw [e1]; simp only [dispatch, hop, applyFun, negU]; rfl
      · rw [expOf_filterZero _ _ (WF_unpacked u), expOf_unpacked u hw, hd s]
        simp [dimT, hop]
    · refine ⟨filterZero (sqrtU (merge [] u 1)), ?_,
        WF_filterZero _ (WF_sqrtU _ (WF_unpacked u)), fun s => ?_⟩
      · rw [e1]; simp only [dispatch, hop, applyFun]; rfl
      · rw [expOf_filterZero _ _ (WF_sqrtU _ (WF_unpacked u)), expOf_sqrtU, expOf_unpacked u hw,
          hd s]
        simp [dimT, hop]
  | bin op a b _ _ hua hub hop iha ihb =>
    obtain ⟨u, hu, hwu, hdu⟩ := iha
    obtain ⟨v, hv, hwv, hdv⟩ := ihb
    have hga := all_guard_un _ a hu hua
    have hgb := all_guard_un _ b hv hub
    have hall : [(u, isConstT a, 0), (v, isConstT b, 0)].all
        (fun r => !r.1.isEmpty || r.2.1) = true := by
      simp only [List.all_cons, List.all_nil, Bool.and_true, Bool.and_eq_true]
      exact ⟨hga, hgb⟩
    have e1 : unitOf [] (.bin op a b) = (dispatch op [merge [] u 1, merge [] v 1]).map
        fun r => (filterZero r.1, false, 0 + 0 + (if r.2 then 1 else 0)) := by
      simp only [unitOf, hu, hv]
      rw [guarded_true op _ _ hall]
      simp only [List.map, operate_nil2]
      cases dispatch op [merge [] u 1, merge [] v 1] <;> rfl
    have hU := WF_unpacked u
    have hV := WF_unpacked v
    rcases hop with hop | hop | ⟨hop, hsame⟩
    · refine ⟨filterZero (mul (merge [] u 1) (merge [] v 1)), ?_,
        WF_filterZero _ (WF_mul _ _), fun s => ?_⟩
      · rw [e1]; simp only [dispatch, hop, applyFun]; rfl
      · rw [expOf_filterZero _ _ (WF_mul _ _), expOf_mul _ _ _ hU hV, expOf_unpacked u hwu,
          expOf_unpacked v hwv, hdu s, hdv s]
        simp [dimT, hop]
    · refine ⟨filterZero (div (merge [] u 1) (merge [] v 1)), ?_,
        WF_filterZero _ (WF_div _ _), fun s => ?_⟩
      · rw [e1]; simp only [dispatch, hop, applyFun]; rfl
      · rw [expOf_filterZero _ _ (WF_div _ _), expOf_div _ _ _ hU hV, expOf_unpacked u hwu,
          expOf_unpacked v hwv, hdu s, hdv s]
        simp [dimT, hop]
    · -- + / −
      by_cases hue : u = []
      · -- the first operand carries no unit: it is a plain number
        subst hue
        have hca : isConstT a = true := by
          rcases hua with h | ⟨r, h1, h2⟩
          · exact h
          · rw [hu] at h1; cases h1; exact absurd rfl h2
        refine ⟨filterZero (merge [] v 1), ?_, WF_filterZero _ hV, fun s => ?_⟩
        · rw [e1]
          simp only [dispatch, hop, applyFun, merge, (C08_addsub_empty (merge [] v 1)).1]; rfl
        · rw [expOf_filterZero _ _ hV, expOf_unpacked v hwv, hdv s]
          simp [dimT, hop, hca]
      · by_cases hve : v = []
        · subst hve
          have hcb : isConstT b = true := by
            rcases hub with h | ⟨r, h1, h2⟩
            · exact h
            · rw [hv] at h1; cases h1; exact absurd rfl h2
          refine ⟨filterZero (merge [] u 1), ?_, WF_filterZero _ hU, fun s => ?_⟩
          · rw [e1]
            simp only [dispatch, hop, applyFun, merge, (C08_addsub_empty (merge [] u 1)).2]; rfl
          · rw [expOf_filterZero _ _ hU, expOf_unpacked u hwu, hdu s]
            by_cases hca : isConstT a = true
            · have ha0 : ∀ s, dimT [] a s = 0 := by
                intro s; cases a <;> simp_all [isConstT, dimT]
              have hb0 : ∀ s, dimT [] b s = 0 := by
                intro s; cases b <;> simp_all [isConstT, dimT]
              simp [dimT, hop, hca, ha0 s, hb0 s]
            · simp [dimT, hop, hca]
        · -- both operands carry a unit: they must be dimensionally equal
          have hca : isConstT a = false := by
            cases a <;> simp_all [isConstT, unitOf]
          have hcb : isConstT b = false := by
            cases b <;> simp_all [isConstT, unitOf]
          have hsame' : ∀ s, dimT [] a s = dimT [] b s := by
            rcases hsame with h | h | h
            · rw [hca] at h; cases h
            · rw [hcb] at h; cases h
            · exact h
          have hequiv : Equiv (merge [] u 1) (merge [] v 1) := fun s => by
            rw [expOf_unpacked u hwu, expOf_unpacked v hwv, hdu s, hdv s, hsame' s]
          have hne1 : merge [] u 1 ≠ [] := fun e => hue ((merge_nil_eq_nil u 1).mp e)
          have hne2 : merge [] v 1 ≠ [] := fun e => hve ((merge_nil_eq_nil v 1).mp e)
          have hadd := C08_order_insensitive _ _ hU hV hne1 hne2 hequiv
          refine ⟨filterZero (merge [] u 1), ?_, WF_filterZero _ hU, fun s => ?_⟩
          · rw [e1]; simp only [dispatch, hop, applyFun, hadd]; rfl
          · rw [expOf_filterZero _ _ hU, expOf_unpacked u hwu, hdu s]
            simp [dimT, hop, hca]

theorem hasUnit_of_dim (t : UTree) (h : Dom t) (s : Sym) (hs : dimT [] t s ≠ 0) : HasUnit t := by
  obtain ⟨u, hu, _, hd⟩ := C08_dim t h
  refine Or.inr ⟨_, hu, ?_⟩
  intro he
  simp only at he
  rw [he] at hd
  exact hs ((hd s).symm.trans (expOf_nil s))

/-- non-vacuity: `(kg·m) + (m·kg)` — equal units reached in different factor order — is in the
    domain of `C08_dim` -/
example : Dom (.bin "add" (.bin "mul" (.leaf [("kg".toList, 1)]) (.leaf [("m".toList, 1)]))
    (.bin "mul" (.leaf [("m".toList, 1)]) (.leaf [("kg".toList, 1)]))) := by
  have wf1 : WF [("kg".toList, (1 : Rat))] := by simp [WF]
  have wf2 : WF [("m".toList, (1 : Rat))] := by simp [WF]
  have hl1 : HasUnit (.leaf [("kg".toList, 1)]) := Or.inr ⟨_, rfl, by simp⟩
  have hl2 : HasUnit (.leaf [("m".toList, 1)]) := Or.inr ⟨_, rfl, by simp⟩
  have hm : opFun "mul" = some .mul := C08_dispatch.2.2.1
  have d1 : Dom (.bin "mul" (.leaf [("kg".toList, 1)]) (.leaf [("m".toList, 1)])) :=
    Dom.bin _ _ _ (Dom.leaf _ wf1) (Dom.leaf _ wf2) hl1 hl2 (Or.inl hm)
  have d2 : Dom (.bin "mul" (.leaf [("m".toList, 1)]) (.leaf [("kg".toList, 1)])) :=
    Dom.bin _ _ _ (Dom.leaf _ wf2) (Dom.leaf _ wf1) hl2 hl1 (Or.inl hm)
  have v1 : dimT [] (.bin "mul" (.leaf [("kg".toList, 1)]) (.leaf [("m".toList, 1)])) "m".toList ≠ 0 := by
    simp only [dimT, hm, dimU, List.map, sumRat, dimSym]
    have : ¬ ("kg".toList = "m".toList) := by decide
    simp only [this, if_false, if_true]
    grind
  have v2 : dimT [] (.bin "mul" (.leaf [("m".toList, 1)]) (.leaf [("kg".toList, 1)])) "m".toList ≠ 0 := by
    simp only [dimT, hm, dimU, List.map, sumRat, dimSym]
    have : ¬ ("kg".toList = "m".toList) := by decide
    simp only [this, if_false, if_true]
    grind
  refine Dom.bin _ _ _ d1 d2 (hasUnit_of_dim _ d1 _ v1) (hasUnit_of_dim _ d2 _ v2)
    (Or.inr (Or.inr ⟨C08_dispatch.1, Or.inr (Or.inr fun s => ?_)⟩))
  simp only [dimT, hm, dimU, List.map, sumRat, dimSym]
  grind

/-! ### leaves as the user writes them, and sessions with a past -/

/-- **C08 (all unit assignments: any written form).** A quantity created with a unit STRING that
    the reference grammar reads as `u` — `kg*m^2/s^2`, `kg/s^2*m^2`, `m*m*kg/s/s`,
    `kg*m^3/(s^2*m)`, `kg(m^2)/s^2`: chains of `*` and `/` read left to right, a symbol
    written more than once, brackets, implicit multiplication — carries exactly the unit `u`,
    under any definitions; `u` is key-unique, so the leaf is in the domain of `C08_dim`.
    (`refParse` is the conventional reading: C12_parse_eq_ref, C12_sound.) -/
theorem C08_leaf_written (s : List Char) (u : Units) (h : refParse s = some u) (defs : Defs) :
    (WTree.leafS s).read = some (.leaf u) ∧ unitOfW defs (.leafS s) = some (u, false, 0) ∧
      WF u ∧ Dom (.leaf u) := by
  have hp : parse s = some u := by rw [parse_eq_refParse]; exact h
  obtain ⟨_, _, _, _, hw, _⟩ := parse_sound s u hp
  refine ⟨by simp [WTree.read, hp], by simp [unitOfW, WTree.read, hp, unitOf], hw, Dom.leaf u hw⟩

/-- **C08 (two spellings of one unit are not a mismatch).** Operands whose unit strings are read
    as dimensionally equal units — whatever the spelling of either — add without warning. -/
theorem C08_written_forms_agree (s1 s2 : List Char) (u v : Units) (h1 : refParse s1 = some u)
    (h2 : refParse s2 = some v) (nu : u ≠ []) (nv : v ≠ []) (he : Equiv u v) :
    addSub u v = (u, false) :=
  C08_order_insensitive u v (C08_leaf_written s1 u h1 []).2.2.1 (C08_leaf_written s2 v h2 []).2.2.1
    nu nv he

/-- **C08 (main, formulas as typed).** When every unit string of a typed formula `w` is accepted
    (`w.read = some t`) and the formula it denotes is in the domain, the unit of the result is
    the dimensional analysis of `t`, no warning, no exception. -/
theorem C08_written (w : WTree) (t : UTree) (hr : w.read = some t) (hd : Dom t) :
    ∃ u, unitOfW [] w = some (u, isConstT t, 0) ∧ WF u ∧ ∀ s, expOf u s = dimT [] t s := by
  simp only [unitOfW, hr]
  exact C08_dim t hd

/-- **C08 (a session with a past).** The domain of C08 is "no compound-unit definitions active"
    at the time the formula is evaluated.  Whatever was defined earlier in the session: once
    `clear_unit_definitions()` has been called and only rejected definitions followed, every
    formula of the domain gets exactly the unit it gets in a fresh session (`C08_dim`): no name
    defined in the past is shown, no symbol is expanded. -/
theorem C08_after_history (rs rs' : List DefReq) (hrej : ∀ r ∈ rs', r.accepted = false)
    (t : UTree) (h : Dom t) :
    ∃ u, unitOf (runReqs [] (rs ++ DefReq.clear :: rs')) t = some (u, isConstT t, 0) ∧ WF u ∧
      ∀ s, expOf u s = dimT [] t s := by
  rw [runReqs_clear_then_rejected [] rs rs' hrej]
  exact C08_dim t h

/-- non-vacuity: `kg/s^2*m^2` is read by the reference grammar (left to right) as kg·m²·s⁻² -/
example : refParse "kg/s^2*m^2".toList =
    some [("kg".toList, 1), ("s".toList, -2), ("m".toList, 2)] := by decide +kernel

/-- non-vacuity: `m/s/s` is an acceleration and `m*m` an area -/
example : refParse "m/s/s".toList = some [("m".toList, 1), ("s".toList, -2)] ∧
    refParse "m*m".toList = some [("m".toList, 2)] := by
  constructor <;> decide +kernel

end QExPy

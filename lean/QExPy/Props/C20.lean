/-
  C20 — global settings: validated, atomic, one default, restored after temporary use.

  Model: `QExPy/Model/Settings.lean` (state machine `step`, `run`, `withTempMc`) over the tables
  generated from qexpy/settings/settings.py on every run (`QExPy/Generated/Settings.lean`):
  enum members and their literal strings, the strings each enum setter accepts, `initCfg`
  (dict of `Settings.__init__`), `resetCfg` (assignments of `Settings.reset`) and after which outcomes of the
  wrapped function `use_mc_sample_size` writes the saved size back (`tempRestores`).
-/
import QExPy.Lemmas.Settings

namespace QExPy
open Settings

/-! ### what the statement calls "documented values" -/

/-! ### validity: every option accepts exactly its documented values -/

/-- **C20 (valid, print style).** accepted ⇔ member of PrintStyle or one of its strings -/
theorem C20_valid_print_style (c : Cfg) (a : Arg) :
    (step c (.setPrintStyle a)).2 = .ok ↔ DocEnum .printStyle a := by
  have h0 : (step c (.setPrintStyle a)).2 = .ok ↔ (enumArg .printStyle a).isSome := by
    simp only [step]; cases enumArg .printStyle a <;> simp
  rw [h0]
  rcases a with s | l
  · cases s
    case enumMember t i =>
      rw [enumArg_member]
      simp [DocEnum, Gen.setterClass]
      constructor
      · rintro ⟨rfl, h⟩; exact ⟨h, rfl⟩
      · rintro ⟨h, rfl⟩; exact ⟨rfl, h⟩
    case str s =>
      rw [enumArg_str, valueIdx_isSome_iff]
      have hsub : ∀ s ∈ (Gen.members .printStyle).map Prod.snd, s ∈ Gen.setterStrings .printStyle := by
        decide
      have hconv : Gen.setterConv .printStyle = .printStyle := rfl
      rw [hconv]
      simp only [DocEnum, reduceCtorEq, and_false, exists_false, false_or, Arg.scalar.injEq,
        Scalar.str.injEq, exists_eq_right']
      exact ⟨fun h => h.2, fun h => ⟨hsub s h, h⟩⟩
    all_goals simp [enumArg, DocEnum]
  · simp [enumArg, DocEnum]

/-- **C20 (valid, unit style).** accepted ⇔ member of UnitStyle or one of its strings -/
theorem C20_valid_unit_style (c : Cfg) (a : Arg) :
    (step c (.setUnitStyle a)).2 = .ok ↔ DocEnum .unitStyle a := by
  have h0 : (step c (.setUnitStyle a)).2 = .ok ↔ (enumArg .unitStyle a).isSome := by
    simp only [step]; cases enumArg .unitStyle a <;> simp
  rw [h0]
  rcases a with s | l
  · cases s
    case enumMember t i =>
      rw [enumArg_member]
      simp [DocEnum, Gen.setterClass]
      constructor
      · rintro ⟨rfl, h⟩; exact ⟨h, rfl⟩
      · rintro ⟨h, rfl⟩; exact ⟨rfl, h⟩
    case str s =>
      rw [enumArg_str, valueIdx_isSome_iff]
      have hsub : ∀ s ∈ (Gen.members .unitStyle).map Prod.snd, s ∈ Gen.setterStrings .unitStyle := by
        decide
      have hconv : Gen.setterConv .unitStyle = .unitStyle := rfl
      rw [hconv]
      simp only [DocEnum, reduceCtorEq, and_false, exists_false, false_or, Arg.scalar.injEq,
        Scalar.str.injEq, exists_eq_right']
      exact ⟨fun h => h.2, fun h => ⟨hsub s h, h⟩⟩
    all_goals simp [enumArg, DocEnum]
  · simp [enumArg, DocEnum]

/-- **C20 (valid, error method).** accepted ⇔ member of ErrorMethod or one of its strings — the
    AUTO member / the string "auto" being outside the domain of the statement -/
theorem C20_valid_error_method (c : Cfg) (a : Arg) (hA : NotAuto a) :
    (step c (.setErrorMethod a)).2 = .ok ↔ DocEnum .errorMethod a := by
  obtain ⟨-, hA2⟩ := hA
  have h0 : (step c (.setErrorMethod a)).2 = .ok ↔ (enumArg .errorMethod a).isSome := by
    simp only [step]; cases enumArg .errorMethod a <;> simp
  rw [h0]
  rcases a with s | l
  · cases s
    case enumMember t i =>
      rw [enumArg_member]
      simp [DocEnum, Gen.setterClass]
      constructor
      · rintro ⟨rfl, h⟩; exact ⟨h, rfl⟩
      · rintro ⟨h, rfl⟩; exact ⟨rfl, h⟩
    case str s =>
      have hs : s ≠ "auto" := by intro h; apply hA2; rw [h]
      rw [enumArg_str, valueIdx_isSome_iff]
      have hsub : ∀ s ∈ (Gen.members .errorMethod).map Prod.snd, s ≠ "auto" →
          s ∈ Gen.setterStrings .errorMethod := by decide
      have hconv : Gen.setterConv .errorMethod = .errorMethod := rfl
      rw [hconv]
      simp only [DocEnum, reduceCtorEq, and_false, exists_false, false_or, Arg.scalar.injEq,
        Scalar.str.injEq, exists_eq_right']
      exact ⟨fun h => h.2, fun h => ⟨hsub s h hs, h⟩⟩
    all_goals simp [enumArg, DocEnum]
  · simp [enumArg, DocEnum]

/-- **C20 (valid, integer options).** the number of significant figures (through the attribute
    and through `set_sig_figs_for_value/error`) and the Monte Carlo sample size are accepted ⇔
    the argument is a positive `int` -/
theorem C20_valid_int (c : Cfg) (a : Arg) (hb : NotBool a) :
    ((step c (.setSigVal a)).2 = .ok ↔ DocPosInt a) ∧
    ((step c (.sigFigsValue a)).2 = .ok ↔ DocPosInt a) ∧
    ((step c (.sigFigsError a)).2 = .ok ↔ DocPosInt a) ∧
    ((step c (.setMcSize a)).2 = .ok ↔ DocPosInt a) := by
  have h := posInt_ok_iff 0 rfl a hb
  refine ⟨?_, ?_, ?_, ?_⟩ <;>
  · simp only [step, sigValLower_eq, mcSizeLower_eq]
    cases hp : intArg 0 a <;> simp_all

/-- **C20 (valid, plot dimensions).** accepted ⇔ a tuple of exactly two positive numbers
    (`nan` is not a positive number) -/
theorem C20_valid_plot (c : Cfg) (a : Arg) (hb : NoBoolInside a) :
    (step c (.setPlotDims a)).2 = .ok ↔ DocPair a := by
  rcases a with s | l
  · simp [step, plotArg, DocPair]
  · match l with
    | [] => simp [step, plotArg, DocPair, Gen.plotLen]
    | [x] => simp [step, plotArg, DocPair, Gen.plotLen]
    | x :: y :: z :: r => simp [step, plotArg, DocPair, Gen.plotLen]
    | [x, y] =>
      have hx := numPos_ok_iff x (fun b h => hb [x, y] b rfl (by simp [h]))
      have hy := numPos_ok_iff y (fun b h => hb [x, y] b rfl (by simp [h]))
      simp only [step, plotArg, DocPair, Gen.plotLen, List.length_cons, List.length_nil, if_true]
      cases hpx : numPos x <;> cases hpy : numPos y <;> simp_all
      exact ⟨x, y, ⟨rfl, rfl⟩, hx, hy⟩

/-! ### atomicity and frame -/

/-- **C20 (atomic).** A rejected request leaves every option unchanged. -/
theorem C20_atomic (c : Cfg) (op : Op) (h : (step c op).2 = .reject) : (step c op).1 = c := by
  cases op <;> simp only [step] at h ⊢ <;> first | cases h | (split at h <;> simp_all)

/-- **C20 (frame).** Every request, accepted or not, changes at most its own option(s). -/
theorem C20_frame (c : Cfg) (op : Op) : SameOutside op c (step c op).1 := by
  cases op <;> simp only [step, SameOutside] <;> first | trivial | (split <;> rfl)

/-- **C20 (effect).** An accepted positive integer is the value stored. -/
theorem C20_stored_int (c : Cfg) (z : Int) (hz : 0 < z) :
    (step c (.setMcSize (.scalar (.int z)))).1.mcSize = z ∧
    (step c (.setSigVal (.scalar (.int z)))).1.sigVal = z ∧
    (step c (.sigFigsValue (.scalar (.int z)))).1.sigVal = z ∧
    (step c (.sigFigsError (.scalar (.int z)))).1.sigVal = z := by
  simp [step, intArg, hz, sigValLower_eq, mcSizeLower_eq]

/-! ### one default -/

/-- **C20 (one default).** `reset` puts every option at the value of a freshly started session:
    the assignments of `Settings.reset` (generated) applied to ANY state give the dict of
    `Settings.__init__` (generated). -/
theorem C20_one_default (c : Cfg) : Gen.resetCfg c = Gen.initCfg := rfl

/-- **C20 (one default, all histories).** After any finite sequence of valid and invalid
    requests that ends in a reset, the state is the fresh-session state. -/
theorem C20_reset_history (c : Cfg) (ops : List Op) : run c (ops ++ [.reset]) = Gen.initCfg := by
  simp [run, List.foldl_append, step, C20_one_default]

/-- the fresh-session state holds documented values only -/
theorem C20_wf_init : WF Gen.initCfg := by decide

/-- **C20 (invariant).** Whatever is requested, every option keeps holding a documented value
    (member of its own enum class, positive integer, pair of positive numbers). -/
theorem C20_wf_step (c : Cfg) (op : Op) (h : WF c) : WF (step c op).1 := by
  obtain ⟨h1, h2, h3, h4, h5, h6, h7, h8⟩ := h
  cases op <;> simp only [step]
  case reset => rw [C20_one_default]; exact C20_wf_init
  case read => exact ⟨h1, h2, h3, h4, h5, h6, h7, h8⟩
  case setErrorMethod a =>
    split
    · rename_i i hi; exact ⟨enumArg_lt _ _ _ hi, h2, h3, h4, h5, h6, h7, h8⟩
    · exact ⟨h1, h2, h3, h4, h5, h6, h7, h8⟩
  case setPrintStyle a =>
    split
    · rename_i i hi; exact ⟨h1, enumArg_lt _ _ _ hi, h3, h4, h5, h6, h7, h8⟩
    · exact ⟨h1, h2, h3, h4, h5, h6, h7, h8⟩
  case setUnitStyle a =>
    split
    · rename_i i hi; exact ⟨h1, h2, enumArg_lt _ _ _ hi, h4, h5, h6, h7, h8⟩
    · exact ⟨h1, h2, h3, h4, h5, h6, h7, h8⟩
  case setSigVal a =>
    split
    · rename_i z hz; exact ⟨h1, h2, h3, h4, posInt_pos _ sigValLower_eq _ _ hz, h6, h7, h8⟩
    · exact ⟨h1, h2, h3, h4, h5, h6, h7, h8⟩
  case sigFigsValue a =>
    split
    · rename_i z hz; exact ⟨h1, h2, h3, sigModeIdx_lt.1, posInt_pos _ sigValLower_eq _ _ hz, h6, h7, h8⟩
    · exact ⟨h1, h2, h3, h4, h5, h6, h7, h8⟩
  case sigFigsError a =>
    split
    · rename_i z hz; exact ⟨h1, h2, h3, sigModeIdx_lt.2, posInt_pos _ sigValLower_eq _ _ hz, h6, h7, h8⟩
    · exact ⟨h1, h2, h3, h4, h5, h6, h7, h8⟩
  case setMcSize a =>
    split
    · rename_i z hz; exact ⟨h1, h2, h3, h4, h5, posInt_pos _ mcSizeLower_eq _ _ hz, h7, h8⟩
    · exact ⟨h1, h2, h3, h4, h5, h6, h7, h8⟩
  case setPlotDims a =>
    split
    · rename_i w hh hp
      obtain ⟨hw, hh'⟩ := plotArg_pos _ _ _ hp
      exact ⟨h1, h2, h3, h4, h5, h6, hw, hh'⟩
    · exact ⟨h1, h2, h3, h4, h5, h6, h7, h8⟩

/-- **C20 (invariant, all histories).** From a fresh session, after any finite sequence of valid
    and invalid requests every option holds a documented value. -/
theorem C20_wf_run (ops : List Op) (c : Cfg) (h : WF c) : WF (run c ops) := by
  induction ops generalizing c with
  | nil => exact h
  | cons o rest ih => exact ih _ (C20_wf_step c o h)

/-! ### temporary override (`use_mc_sample_size`) -/

/-- **C20 (override: a bad size is refused atomically).** If the decorator's own request for
    the temporary size is rejected, the wrapped computation never runs and no option changes. -/
theorem C20_temp_reject {ρ : Type} (outcome : ρ → Outcome) (k : Arg) (f : Cfg → Cfg × ρ) (c : Cfg)
    (h : (step c (.setMcSize k)).2 = .reject) : withTempMc outcome k f c = (c, none) := by
  unfold withTempMc
  split
  · rfl
  · rename_i c1 heq; rw [heq] at h; cases h

/-- **C20 (override: inside, outcome, restoration — full characterisation).** With a positive
    integer size `k`, for ANY wrapped computation `f` — returning or raising an exception of ANY
    class (`outcome r` may be `.raised cls false`: KeyboardInterrupt, SystemExit, GeneratorExit,
    a direct subclass of BaseException), changing whatever options it likes, including the
    sample size itself —
    * `f` runs on the state with the sample size `k` and every other option untouched,
    * its result (return value or exception) comes out unchanged,
    * afterwards the sample size is what it was before the call, and every other option is
      what `f` left. -/
theorem C20_temp_restored {ρ : Type} (outcome : ρ → Outcome) (k : Int) (hk : 0 < k)
    (f : Cfg → Cfg × ρ) (c : Cfg) (hc : 0 < c.mcSize) :
    withTempMc outcome (.scalar (.int k)) f c =
      ({ (f { c with mcSize := k }).1 with mcSize := c.mcSize },
       some (f { c with mcSize := k }).2) := by
  simp [withTempMc, step, intArg, mcSizeLower_eq, hk, hc, tempRestores_every_outcome]

/-- **C20 (override restored, returning and raising).** Whatever the wrapped computation does and
    however it ends (any `Outcome`: returned, raised an `Exception`, raised a `BaseException` that
    is not an `Exception`), and whatever size was requested (valid or not), the sample size after
    the call is the one before the call. -/
theorem C20_temp_size_restored {ρ : Type} (outcome : ρ → Outcome) (k : Arg) (f : Cfg → Cfg × ρ)
    (c : Cfg) (hc : 0 < c.mcSize) : (withTempMc outcome k f c).1.mcSize = c.mcSize := by
  cases hs : intArg Gen.mcSizeLower k with
  | none => simp [withTempMc, step, hs]
  | some z =>
    simp only [withTempMc, step, hs]
    simp [intArg, mcSizeLower_eq, hc, tempRestores_every_outcome]

/-- **C20 (override nesting is LIFO).** An override `k2` nested in the body of an override `k1`:
    the inner computation sees `k2`, the rest of the outer body sees `k1` again, and after the
    outer call the original size is back — for returning and raising computations alike. -/
theorem C20_temp_nested {ρ : Type} (outcome : ρ → Outcome) (outcome' : Option ρ → Outcome)
    (k1 k2 : Int) (h1 : 0 < k1) (h2 : 0 < k2) (f : Cfg → Cfg × ρ) (c : Cfg) (hc : 0 < c.mcSize) :
    let inner := withTempMc outcome (.scalar (.int k2)) f
    let c1 : Cfg := { c with mcSize := k1 }
    -- the inner computation runs with k2
    inner c1 = ({ (f { c1 with mcSize := k2 }).1 with mcSize := k1 }, some (f { c1 with mcSize := k2 }).2) ∧
    -- after the inner override the outer one is in force again
    (inner c1).1.mcSize = k1 ∧
    -- after the outer override the original size is back
    (withTempMc outcome' (.scalar (.int k1)) inner c).1.mcSize = c.mcSize := by
  refine ⟨?_, ?_, ?_⟩
  · exact C20_temp_restored outcome k2 h2 f _ h1
  · rw [C20_temp_restored outcome k2 h2 f _ h1]
  · exact C20_temp_size_restored outcome' _ _ c hc

/-- non-vacuity: a computation that itself changes the sample size and is then interrupted
    (`KeyboardInterrupt` does not derive from `Exception`), under override 100 from 5000 — the size
    comes back to 5000 and the exception comes out -/
example : withTempMc (fun (r : Outcome) => r) (.scalar (.int 100))
    (fun c => ({ c with mcSize := 7, printStyle := 1 }, .raised "KeyboardInterrupt" false))
    { Gen.initCfg with mcSize := 5000 } =
    ({ Gen.initCfg with mcSize := 5000, printStyle := 1 },
     some (.raised "KeyboardInterrupt" false)) := by decide

end QExPy

/-
  C20 — global settings: validated, atomic, one default, restored after temporary use.

  Model: `QExPy/Model/Settings.lean` (state machine `step`, `run`, `withTempMc`) over the tables
  generated from qexpy/settings/settings.py on every run (`QExPy/Generated/Settings.lean`).
-/
import QExPy.Model.Settings

namespace QExPy
open Settings

/-- **C20 (atomic).** A rejected request leaves every option unchanged. -/
theorem C20_atomic (c : Cfg) (op : Op) (h : (step c op).2 = .reject) : (step c op).1 = c := by
  cases op <;> simp only [step] at h ⊢ <;> first | cases h | (split at h <;> simp_all)

/-- **C20 (one default).** `reset` puts every option at the value of a freshly started session:
    the assignments of `Settings.reset` (generated) applied to ANY state give the dict of
    `Settings.__init__` (generated). -/
theorem C20_one_default (c : Cfg) : Gen.resetCfg c = Gen.initCfg := rfl

end QExPy

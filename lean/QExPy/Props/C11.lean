/-
  C11 — array arithmetic is element-wise scalar arithmetic.

  Theorems about `Model/ArrayArith.lean`.  They hold for every `Num α` (in particular ℝ, the
  instance the C01 theorems are about, and the executable Float/FB instances) and every scalar
  unit semantics `U`.  Element-wise-ness is close to definitional in the model; what is proved
  here is that the *array-level* evaluation (containers, broadcasting, container kinds,
  compositions of any depth) agrees position by position with the *scalar* evaluation, for
  all lengths.  That numpy's object arrays / `np.vectorize` behave like the model is the
  correspondence run (vf/props/c11.py).
-/
import QExPy.Model.ArrayArith
import QExPy.Real
namespace QExPy.Arr
open QExPy.Expr
set_option linter.unusedSectionVars false
variable {α υ : Type} [Num α] (U : UnitAlg α υ)

/-- a scalar container holds exactly one element -/
def AVal.WF (a : AVal α υ) : Prop := a.kind = .scalar → ∃ x, a.elems = [x]

/-- position `i` exists in `a` (every position exists in a scalar: it broadcasts) -/
def AVal.Valid (a : AVal α υ) (i : Nat) : Prop := a.kind = .scalar ∨ i < a.elems.length

theorem Operand.toVal_wf (o : Operand α υ) : (o.toVal U).WF := by
  cases o <;> simp [Operand.toVal, AVal.WF]

theorem Kind.join_scalar_iff (a b : Kind) : a.join b = .scalar ↔ a = .scalar ∧ b = .scalar := by
  cases a <;> cases b <;> simp [Kind.join, Kind.rank]

/-! ### the broadcasting zip -/

/-- core lemma: `zip` applies `f` position by position with scalar broadcasting -/
theorem AVal.zip_spec (f : Sc α υ → Sc α υ → Sc α υ) (a b : AVal α υ) (es : List (Sc α υ))
    (ha : a.WF) (hb : b.WF) (h : AVal.zip f a b = some es) :
    let r : AVal α υ := ⟨a.kind.join b.kind, es⟩
    r.WF ∧ (a.kind ≠ .scalar → es.length = a.elems.length) ∧
      (b.kind ≠ .scalar → es.length = b.elems.length) ∧
      ∀ i, r.Valid i → ∃ x y, a.get? i = some x ∧ b.get? i = some y ∧ r.get? i = some (f x y) := by
  intro r
  by_cases hka : a.kind = .scalar <;> by_cases hkb : b.kind = .scalar
  · -- scalar, scalar
    obtain ⟨x, hx⟩ := ha hka
    obtain ⟨y, hy⟩ := hb hkb
    have hes : es = [f x y] := by
      simp [AVal.zip, hka, hkb, hx, hy] at h; exact h.symm
    have hr : r.kind = .scalar := by simp [r, hka, hkb, Kind.join, Kind.rank]
    refine ⟨fun _ => ⟨f x y, hes⟩, fun h => absurd hka h, fun h => absurd hkb h, ?_⟩
    intro i _
    refine ⟨x, y, ?_, ?_, ?_⟩
    · simp [AVal.get?, hka, hx]
    · simp [AVal.get?, hkb, hy]
    · simp [AVal.get?, hr]; simp [r, hes]
  · -- scalar, array
    obtain ⟨x, hx⟩ := ha hka
    have hes : es = b.elems.map (f x) := by
      have : AVal.zip f a b = some (b.elems.map (f x)) := by
        unfold AVal.zip; rw [hka]
        cases hb' : b.kind <;> simp_all
      rw [this] at h; exact (Option.some.inj h).symm
    have hr : r.kind ≠ .scalar := by
      intro hh; exact hkb ((Kind.join_scalar_iff _ _).1 hh).2
    refine ⟨fun hh => absurd hh hr, fun h => absurd hka h, fun _ => by simp [hes], ?_⟩
    intro i hi
    have hi' : i < es.length := by
      rcases hi with hi | hi
      · exact absurd hi hr
      · exact hi
    have hib : i < b.elems.length := by simpa [hes] using hi'
    refine ⟨x, b.elems[i], ?_, ?_, ?_⟩
    · simp [AVal.get?, hka, hx]
    · simp [AVal.get?, hkb, hib]
    · simp only [AVal.get?, if_neg hr]; simp [r, hes, hib]
  · -- array, scalar
    obtain ⟨y, hy⟩ := hb hkb
    have hes : es = a.elems.map (f · y) := by
      have : AVal.zip f a b = some (a.elems.map (f · y)) := by
        unfold AVal.zip; rw [hkb]
        cases ha' : a.kind <;> simp_all
      rw [this] at h; exact (Option.some.inj h).symm
    have hr : r.kind ≠ .scalar := by
      intro hh; exact hka ((Kind.join_scalar_iff _ _).1 hh).1
    refine ⟨fun hh => absurd hh hr, fun _ => by simp [hes], fun h => absurd hkb h, ?_⟩
    intro i hi
    have hi' : i < es.length := by
      rcases hi with hi | hi
      · exact absurd hi hr
      · exact hi
    have hia : i < a.elems.length := by simpa [hes] using hi'
    refine ⟨a.elems[i], y, ?_, ?_, ?_⟩
    · simp [AVal.get?, hka, hia]
    · simp [AVal.get?, hkb, hy]
    · simp only [AVal.get?, if_neg hr]; simp [r, hes, hia]
  · -- array, array (equal lengths required)
    have hz : AVal.zip f a b =
        if a.elems.length = b.elems.length then some (List.zipWith f a.elems b.elems) else none := by
      unfold AVal.zip
      cases ha' : a.kind <;> cases hb' : b.kind <;> simp_all
    rw [hz] at h
    by_cases hl : a.elems.length = b.elems.length
    · rw [if_pos hl] at h
      have hes : es = List.zipWith f a.elems b.elems := (Option.some.inj h).symm
      have hr : r.kind ≠ .scalar := by
        intro hh; exact hka ((Kind.join_scalar_iff _ _).1 hh).1
      have hlen : es.length = a.elems.length := by simp [hes, hl]
      refine ⟨fun hh => absurd hh hr, fun _ => hlen, fun _ => by rw [hlen, hl], ?_⟩
      intro i hi
      have hi' : i < es.length := by
        rcases hi with hi | hi
        · exact absurd hi hr
        · exact hi
      have hia : i < a.elems.length := by omega
      have hib : i < b.elems.length := by omega
      refine ⟨a.elems[i], b.elems[i], ?_, ?_, ?_⟩
      · simp [AVal.get?, hka, hia]
      · simp [AVal.get?, hkb, hib]
      · simp only [AVal.get?, if_neg hr]; simp [r, hes, hia, hib]
    · rw [if_neg hl] at h; exact absurd h (by simp)

/-! ### the property's clauses -/

/-- **C11, "an array of the same length".** A binary operator with a MeasurementArray on a side
    yields an array as long as each array operand (for all lengths). -/
theorem C11_length (o : Op2) (a b r : AVal α υ) (ha : a.WF) (hb : b.WF)
    (h : AVal.binop U o a b = some r) :
    (a.kind ≠ .scalar → r.elems.length = a.elems.length) ∧
    (b.kind ≠ .scalar → r.elems.length = b.elems.length) := by
  unfold AVal.binop at h
  split at h
  · unfold AVal.fn2 at h
    cases hz : AVal.zip (Sc.bin U o) a b with
    | none => simp [hz] at h
    | some es =>
      simp [hz] at h
      have := AVal.zip_spec (Sc.bin U o) a b es ha hb hz
      subst h
      exact ⟨this.2.1, this.2.2.1⟩
  · exact absurd h (by simp)

/-- **C11, "whose i-th element has the same value, uncertainty and unit as the operation applied
    to the i-th elements individually".** Element `i` of the array result *is* the scalar
    operation `Sc.bin` (formula, hence value and uncertainty by C01, and unit) of the i-th
    elements, scalars broadcasting. -/
theorem C11_elem (o : Op2) (a b r : AVal α υ) (ha : a.WF) (hb : b.WF)
    (h : AVal.binop U o a b = some r) (i : Nat) (hi : i < r.elems.length) :
    ∃ x y, a.get? i = some x ∧ b.get? i = some y ∧ r.elems[i]? = some (Sc.bin U o x y) := by
  unfold AVal.binop at h
  split at h
  next hm =>
    unfold AVal.fn2 at h
    cases hz : AVal.zip (Sc.bin U o) a b with
    | none => simp [hz] at h
    | some es =>
      simp [hz] at h
      have hs := AVal.zip_spec (Sc.bin U o) a b es ha hb hz
      subst h
      have hk : (a.kind.join b.kind) ≠ .scalar := by
        intro hh
        have := (Kind.join_scalar_iff _ _).1 hh
        rcases hm with hm | hm <;> simp_all
      obtain ⟨x, y, hx, hy, hr⟩ := hs.2.2.2 i (Or.inr hi)
      refine ⟨x, y, hx, hy, ?_⟩
      simpa [AVal.get?, hk] using hr
  · exact absurd h (by simp)

/-- the result of an operator with a MeasurementArray is a MeasurementArray -/
theorem C11_kind (o : Op2) (a b r : AVal α υ) (h : AVal.binop U o a b = some r) :
    r.kind = .marray := by
  unfold AVal.binop at h
  split at h
  next hm =>
    unfold AVal.fn2 at h
    cases hz : AVal.zip (Sc.bin U o) a b with
    | none => simp [hz] at h
    | some es =>
      simp [hz] at h
      subst h
      rcases hm with hm | hm
      · simp only [hm]; cases b.kind <;> simp [Kind.join, Kind.rank]
      · simp only [hm]; cases a.kind <;> simp [Kind.join, Kind.rank]
  · exact absurd h (by simp)

/-- value and uncertainty of an element: when one of the two scalars is a quantity, the
    element's (value, uncertainty) is C01's `propagate` of the scalar formula `x ∘ y`; in
    particular its value is the operator applied to the operands' central values. -/
theorem C11_elem_value_error (o : Op2) (x y : Sc α υ) (hq : x.isNum = false ∨ y.isNum = false)
    (env σ : Nat → α) (ρ : Nat → Nat → α) :
    (Sc.bin U o x y).valErr env σ ρ = Expr.propagate env σ ρ (.bin o x.toExpr y.toExpr) ∧
    ((Sc.bin U o x y).valErr env σ ρ).1 = Gen.op2 o (eval env x.toExpr) (eval env y.toExpr) := by
  cases x <;> cases y <;> simp_all [Sc.bin, Sc.valErr, Sc.isNum, Expr.propagate, Expr.eval]

/-- **broadcast law**: a scalar on the right behaves like the array that repeats it -/
theorem C11_broadcast_right (f : Sc α υ → Sc α υ → Sc α υ) (a : AVal α υ) (y : Sc α υ) (k : Kind)
    (ha : a.kind ≠ .scalar) (hk : k ≠ .scalar) :
    AVal.zip f a ⟨.scalar, [y]⟩ = AVal.zip f a ⟨k, List.replicate a.elems.length y⟩ := by
  have h1 : AVal.zip f a ⟨.scalar, [y]⟩ = some (a.elems.map (f · y)) := by
    unfold AVal.zip
    cases h : a.kind <;> simp_all
  have h2 : AVal.zip f a ⟨k, List.replicate a.elems.length y⟩
      = some (List.zipWith f a.elems (List.replicate a.elems.length y)) := by
    unfold AVal.zip
    cases h : a.kind <;> cases k <;> simp_all
  rw [h1, h2]
  congr 1
  generalize a.elems = l
  induction l with
  | nil => rfl
  | cons x xs ih => simp [List.replicate_succ, ih]

/-- **broadcast law**, scalar on the left -/
theorem C11_broadcast_left (f : Sc α υ → Sc α υ → Sc α υ) (b : AVal α υ) (x : Sc α υ) (k : Kind)
    (hb : b.kind ≠ .scalar) (hk : k ≠ .scalar) :
    AVal.zip f ⟨.scalar, [x]⟩ b = AVal.zip f ⟨k, List.replicate b.elems.length x⟩ b := by
  have h1 : AVal.zip f ⟨.scalar, [x]⟩ b = some (b.elems.map (f x)) := by
    unfold AVal.zip
    cases h : b.kind <;> simp_all
  have h2 : AVal.zip f ⟨k, List.replicate b.elems.length x⟩ b
      = some (List.zipWith f (List.replicate b.elems.length x) b.elems) := by
    unfold AVal.zip
    cases h : b.kind <;> cases k <;> simp_all
  rw [h1, h2]
  congr 1
  generalize b.elems = l
  induction l with
  | nil => rfl
  | cons y ys ih => simp [List.replicate_succ, ih]

/-- a vectorised function keeps the length (all lengths) and the container kind -/
theorem C11_fn_length (f : Fn) (a : AVal α υ) :
    (a.fn1 U f).elems.length = a.elems.length ∧ (a.fn1 U f).kind = a.kind := by
  simp [AVal.fn1]

/-- **C11, "math functions applied to plain lists or arrays of numbers return plain numbers of
    the same container kind"** (and a plain number for a plain number): same kind, same length,
    every element the plain number `OPERATIONS[f]` of the element. -/
theorem C11_plain_in_plain_out (f : Fn) (a : AVal α υ) (hp : ∀ s ∈ a.elems, s.isNum = true) :
    (a.fn1 U f).kind = a.kind ∧ (a.fn1 U f).elems.length = a.elems.length ∧
    ∀ s ∈ (a.fn1 U f).elems, s.isNum = true := by
  refine ⟨rfl, by simp [AVal.fn1], ?_⟩
  intro s hs
  simp only [AVal.fn1, List.mem_map] at hs
  obtain ⟨t, ht, rfl⟩ := hs
  have := hp t ht
  cases t with
  | num c => cases f <;> simp [Sc.fn, Sc.isNum]
  | qty e u => simp [Sc.isNum] at this

/-- the same for two-argument `log` over plain numbers: the container is the "larger" of the
    two kinds (list with list or number ⇒ list; any ndarray ⇒ ndarray; numbers ⇒ number) -/
theorem C11_plain_in_plain_out_log (a b r : AVal α υ)
    (hpa : ∀ s ∈ a.elems, s.isNum = true) (hpb : ∀ s ∈ b.elems, s.isNum = true)
    (ha : a.WF) (hb : b.WF) (h : AVal.fn2 U .log a b = some r) :
    r.kind = a.kind.join b.kind ∧ ∀ s ∈ r.elems, s.isNum = true := by
  unfold AVal.fn2 at h
  cases hz : AVal.zip (Sc.bin U .log) a b with
  | none => simp [hz] at h
  | some es =>
    simp [hz] at h
    have hs := AVal.zip_spec (Sc.bin U .log) a b es ha hb hz
    subst h
    refine ⟨rfl, ?_⟩
    intro s hs'
    obtain ⟨i, hi, rfl⟩ := List.getElem_of_mem hs'
    obtain ⟨x, y, hx, hy, hr⟩ := hs.2.2.2 i (Or.inr hi)
    have hxm : x ∈ a.elems := by
      unfold AVal.get? at hx
      split at hx
      · exact List.mem_of_mem_head? hx
      · exact List.mem_of_getElem? hx
    have hym : y ∈ b.elems := by
      unfold AVal.get? at hy
      split at hy
      · exact List.mem_of_mem_head? hy
      · exact List.mem_of_getElem? hy
    have hxn := hpa x hxm
    have hyn := hpb y hym
    have hval : es[i] = Sc.bin U .log x y := by
      unfold AVal.get? at hr
      split at hr
      next hk =>
        obtain ⟨z, hz'⟩ := hs.1 hk
        simp only at hz'
        have : i = 0 := by simp [hz'] at hi; exact hi
        subst this
        simp [hz'] at hr ⊢
        exact hr
      next hk =>
        simp only at hr
        rw [List.getElem?_eq_getElem hi] at hr
        exact Option.some.inj hr
    rw [hval]
    cases x <;> cases y <;> simp_all [Sc.bin, Sc.isNum]

/-! ### compositions: an array expression is the map of the scalar expression -/

/-- all leaves are well-formed containers (true of every `Operand.toVal`) -/
def ATree.WF : ATree α υ → Prop
  | .leaf v => v.WF
  | .fn _ t => t.WF
  | .op _ l r => l.WF ∧ r.WF
  | .log2 b x => b.WF ∧ x.WF

theorem AVal.get?_fn1 (f : Fn) (a : AVal α υ) (i : Nat) :
    (a.fn1 U f).get? i = (a.get? i).map (Sc.fn U f) := by
  unfold AVal.get? AVal.fn1
  split <;> simp [List.head?_map]

theorem AVal.fn1_wf (f : Fn) (a : AVal α υ) (h : a.WF) : (a.fn1 U f).WF := by
  intro hk
  obtain ⟨x, hx⟩ := h hk
  exact ⟨Sc.fn U f x, by simp [AVal.fn1, hx]⟩

theorem AVal.fn2_spec (o : Op2) (a b r : AVal α υ) (ha : a.WF) (hb : b.WF)
    (h : AVal.fn2 U o a b = some r) :
    r.WF ∧ ∀ i, r.Valid i →
      (∃ x y, a.get? i = some x ∧ b.get? i = some y ∧ r.get? i = some (Sc.bin U o x y)) ∧
      a.Valid i ∧ b.Valid i := by
  unfold AVal.fn2 at h
  cases hz : AVal.zip (Sc.bin U o) a b with
  | none => simp [hz] at h
  | some es =>
    simp [hz] at h
    have hs := AVal.zip_spec (Sc.bin U o) a b es ha hb hz
    subst h
    refine ⟨hs.1, fun i hi => ⟨hs.2.2.2 i hi, ?_, ?_⟩⟩
    · by_cases hka : a.kind = .scalar
      · exact Or.inl hka
      · right
        rcases hi with hi | hi
        · exact absurd ((Kind.join_scalar_iff _ _).1 hi).1 hka
        · simpa [hs.2.1 hka] using hi
    · by_cases hkb : b.kind = .scalar
      · exact Or.inl hkb
      · right
        rcases hi with hi | hi
        · exact absurd ((Kind.join_scalar_iff _ _).1 hi).2 hkb
        · simpa [hs.2.2.1 hkb] using hi

/-- **C11 for whole expressions.** Evaluating an expression over arrays (operators, functions,
    two-argument log, nested to any depth, scalars broadcasting) gives at every position `i`
    exactly the same expression evaluated on the i-th elements individually — by induction
    over the expression, for all lengths. -/
theorem C11_tree (t : ATree α υ) (hw : t.WF) (r : AVal α υ) (h : t.eval U = some r) :
    r.WF ∧ ∀ i, r.Valid i → r.get? i = t.at? U i := by
  induction t generalizing r with
  | leaf v =>
    simp [ATree.eval] at h; subst h
    exact ⟨hw, fun i _ => rfl⟩
  | fn f t ih =>
    simp only [ATree.eval, Option.map_eq_some_iff] at h
    obtain ⟨a, ha, rfl⟩ := h
    obtain ⟨hwa, hga⟩ := ih hw a ha
    refine ⟨AVal.fn1_wf U f a hwa, fun i hi => ?_⟩
    have hi' : a.Valid i := by
      rcases hi with hi | hi
      · exact Or.inl hi
      · exact Or.inr (by simpa [AVal.fn1] using hi)
    rw [AVal.get?_fn1, hga i hi']
    rfl
  | op o l rt ihl ihr =>
    simp only [ATree.eval] at h
    cases hl : l.eval U with
    | none => simp [hl] at h
    | some a =>
      cases hr : rt.eval U with
      | none => simp [hl, hr] at h
      | some b =>
        simp [hl, hr] at h
        obtain ⟨hwa, hga⟩ := ihl hw.1 a hl
        obtain ⟨hwb, hgb⟩ := ihr hw.2 b hr
        unfold AVal.binop at h
        split at h
        · obtain ⟨hwr, hsp⟩ := AVal.fn2_spec U o a b r hwa hwb h
          refine ⟨hwr, fun i hi => ?_⟩
          obtain ⟨⟨x, y, hx, hy, hrr⟩, hva, hvb⟩ := hsp i hi
          rw [hrr]
          simp only [ATree.at?]
          rw [← hga i hva, ← hgb i hvb, hx, hy]
          rfl
        · exact absurd h (by simp)
  | log2 bt xt ihb ihx =>
    simp only [ATree.eval] at h
    cases hl : bt.eval U with
    | none => simp [hl] at h
    | some a =>
      cases hr : xt.eval U with
      | none => simp [hl, hr] at h
      | some b =>
        simp [hl, hr] at h
        obtain ⟨hwa, hga⟩ := ihb hw.1 a hl
        obtain ⟨hwb, hgb⟩ := ihx hw.2 b hr
        obtain ⟨hwr, hsp⟩ := AVal.fn2_spec U .log a b r hwa hwb h
        refine ⟨hwr, fun i hi => ?_⟩
        obtain ⟨⟨x, y, hx, hy, hrr⟩, hva, hvb⟩ := hsp i hi
        rw [hrr]
        simp only [ATree.at?]
        rw [← hga i hva, ← hgb i hvb, hx, hy]
        rfl

/-- the length of an array-valued expression is the length of its array leaves: every
    position of the result is a position of the scalar expression (corollary of `C11_tree`) -/
theorem C11_tree_length (t : ATree α υ) (hw : t.WF) (r : AVal α υ) (h : t.eval U = some r)
    (i : Nat) (hi : i < r.elems.length) : ∃ s, t.at? U i = some s ∧ r.elems[i]? = some s := by
  obtain ⟨hwr, hg⟩ := C11_tree U t hw r h
  have := hg i (Or.inr hi)
  by_cases hk : r.kind = .scalar
  · obtain ⟨x, hx⟩ := hwr hk
    have hi0 : i = 0 := by simp [hx] at hi; exact hi
    subst hi0
    refine ⟨x, ?_, by simp [hx]⟩
    rw [← this]; simp [AVal.get?, hk, hx]
  · refine ⟨r.elems[i], ?_, by simp [hi]⟩
    rw [← this]; simp [AVal.get?, hk, hi]

/-- identity is kept element-wise: every element of `a - a` over an array of quantities is the
    formula `x_i - x_i` on one and the same `x_i` — exactly the shape to which
    `C01_self_cancel_sub` applies (zero uncertainty); likewise `a / a` and `C01_self_cancel_div`.
    (Stated structurally so that this file does not depend on the C01 proofs.) -/
theorem C11_same_array_cancels (o : Op2) (es : List (Expr α × υ)) (r : AVal α υ)
    (h : AVal.binop U o ((Operand.marray es).toVal U) ((Operand.marray es).toVal U) = some r)
    (i : Nat) (hi : i < r.elems.length) :
    ∃ e u, es[i]? = some (e, u) ∧ r.elems[i]? = some (Sc.qty (.bin o e e) (U.bin o u e u e)) := by
  have hw := Operand.toVal_wf U (Operand.marray es)
  obtain ⟨x, y, hx, hy, hr⟩ := C11_elem U o _ _ r hw hw h i hi
  have hxy : x = y := by rw [hx] at hy; exact Option.some.inj hy
  subst hxy
  have hx' : (es.map fun (p : Expr α × υ) => (Sc.qty p.1 p.2 : Sc α υ))[i]? = some x := by
    simpa [Operand.toVal, AVal.get?] using hx
  rw [List.getElem?_map] at hx'
  cases hes : es[i]? with
  | none => simp [hes] at hx'
  | some p =>
    simp [hes] at hx'
    refine ⟨p.1, p.2, rfl, ?_⟩
    rw [hr, ← hx']
    simp [Sc.bin, Sc.toExpr, Sc.unit]

/-! ### non-vacuity: the hypotheses are met by concrete operands -/

section examples
def exU : UnitAlg ℝ Unit := ⟨(), fun _ _ => (), fun _ _ _ _ _ => ()⟩
def exA : AVal ℝ Unit := (Operand.marray [(.var 0, ()), (.var 1, ()), (.var 2, ())]).toVal exU
def exL : AVal ℝ Unit := (Operand.listNum [1, 2, 3]).toVal exU
def exS : AVal ℝ Unit := (Operand.scalarNum 2).toVal exU

/-- array ∘ list of the same length evaluates (hypothesis `h` of C11_length/C11_elem) -/
example : (AVal.binop exU .mul exA exL).map (·.elems.length) = some 3 := by
  simp [AVal.binop, AVal.fn2, AVal.zip, exA, exL, Operand.toVal]
/-- a scalar broadcasts -/
example : (AVal.binop exU .pow exS exA).map (·.elems.length) = some 3 := by
  simp [AVal.binop, AVal.fn2, AVal.zip, exA, exS, Operand.toVal]
/-- a composition: sqrt(a * [1,2,3]) - 2 evaluates and is well formed -/
example : ((ATree.op .sub (.fn (.un .sqrt) (.op .mul (.leaf exA) (.leaf exL))) (.leaf exS)).eval exU).map
    (·.elems.length) = some 3 ∧
    (ATree.op .sub (.fn (.un .sqrt) (.op .mul (.leaf exA) (.leaf exL))) (.leaf exS)).WF := by
  constructor
  · simp [ATree.eval, AVal.binop, AVal.fn2, AVal.fn1, AVal.zip, exA, exL, exS, Operand.toVal,
      Kind.join, Kind.rank]
  · simp [ATree.WF, AVal.WF, exA, exL, exS, Operand.toVal]
/-- plain list in: the hypothesis of C11_plain_in_plain_out holds for a list of numbers -/
example : ∀ s ∈ exL.elems, s.isNum = true := by
  simp [exL, Operand.toVal, Sc.isNum]
end examples

end QExPy.Arr

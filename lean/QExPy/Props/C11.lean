/- C11 — array arithmetic is element-wise scalar arithmetic (theorems about Model/ArrayArith). -/
import QExPy.Model.ArrayArith
import QExPy.Real
namespace QExPy.Arr
variable {α υ : Type} [Num α] (U : UnitAlg α υ)

/-- placeholder while the check is wired end-to-end -/
theorem C11_fn_length (f : Fn) (a : AVal α υ) : (a.fn1 U f).elems.length = a.elems.length := by
  simp [AVal.fn1]

end QExPy.Arr

/-
  C02 — Monte Carlo results are the moments of the formula under the stated normal model.

  Model: `MC.simulate` (QExPy/Model/MonteCarlo.lean): the pipeline GIVEN the offsets.
-/
import QExPy.Real
import QExPy.Model.MonteCarlo

namespace QExPy
open MC

/-- **C02 (sample size).** N is the per-quantity size when one is set, else the global size. -/
theorem C02_sample_size (per glob : Nat) :
    (per ≠ 0 → sampleSize per glob = per) ∧ (per = 0 → sampleSize per glob = glob) := by
  constructor <;> intro h <;> simp [sampleSize, h]

end QExPy

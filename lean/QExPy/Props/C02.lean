/-
  C02 — Monte Carlo results are the moments of the formula under the stated normal model.

  Model: `MC.simulate` (QExPy/Model/MonteCarlo.lean): the pipeline GIVEN the offsets.
  Randomness is outside the theorems: they say what the library computes from the draws.
-/
import QExPy.Lemmas.Cholesky
import QExPy.Lemmas.Moments

namespace QExPy
open MC Moments

/-! ## sample size -/

/-- **C02 (sample size).** N is the per-quantity size when one is set, else the global size. -/
theorem C02_sample_size (per glob : Nat) :
    (per ≠ 0 → sampleSize per glob = per) ∧ (per = 0 → sampleSize per glob = glob) := by
  constructor <;> intro h <;> simp [sampleSize, h]

/-! ## Cholesky factor of the correlation matrix -/

/-- **C02 (Cholesky, n = 2).** For a positive-definite symmetric 2×2 matrix the explicit
    factorisation succeeds, its diagonal is positive, and L·Lᵀ = R (L lower triangular:
    `chol` writes the zero above the diagonal, see `C02_chol_matrix`). -/
theorem C02_chol2_correct (r11 r21 r22 : ℝ) (h : PosDef2 r11 r21 r22) :
    ∃ l11 l21 l22, chol2 r11 r21 r22 = some (l11, l21, l22) ∧ 0 < l11 ∧ 0 < l22 ∧
      l11 * l11 = r11 ∧ l21 * l11 = r21 ∧ l21 * l21 + l22 * l22 = r22 := by
  have p1 : 0 < r11 := by
    have := h 1 0 (Or.inl one_ne_zero); simpa [qf2] using this
  obtain ⟨s1, hs1, h11⟩ : ∃ s1 : ℝ, 0 < s1 ∧ r11 = s1 * s1 :=
    ⟨Real.sqrt r11, Real.sqrt_pos.mpr p1, (Real.mul_self_sqrt p1.le).symm⟩
  subst h11
  obtain ⟨l21, h21⟩ : ∃ l21 : ℝ, r21 = l21 * s1 := ⟨r21 / s1, by field_simp⟩
  subst h21
  obtain ⟨d2, h22⟩ : ∃ d2 : ℝ, r22 = l21 * l21 + d2 := ⟨r22 - l21 * l21, by ring⟩
  subst h22
  have p2 : 0 < d2 := by
    have := h (-l21 / s1) 1 (Or.inr one_ne_zero)
    rw [qf2_decomp] at this
    have e : s1 * (-l21 / s1) + l21 * 1 = 0 := by field_simp; ring
    rw [e] at this; simpa using this
  obtain ⟨s2, hs2, hd2⟩ : ∃ s2 : ℝ, 0 < s2 ∧ d2 = s2 * s2 :=
    ⟨Real.sqrt d2, Real.sqrt_pos.mpr p2, (Real.mul_self_sqrt p2.le).symm⟩
  subst hd2
  exact ⟨s1, l21, s2, chol2_of_factor s1 l21 s2 hs1 hs2, hs1, hs2, rfl, rfl, rfl⟩

/-- whenever the factorisation succeeds the matrix was positive definite -/
theorem chol2_some_posdef (r11 r21 r22 : ℝ) (L : ℝ × ℝ × ℝ) (h : chol2 r11 r21 r22 = some L) :
    PosDef2 r11 r21 r22 := by
  simp only [chol2, pivotOk_real, num_sqrt, num_div, num_sub, num_mul] at h
  by_cases p1 : 0 < r11
  · simp only [p1, decide_true, if_true] at h
    by_cases p2 : 0 < r22 - r21 / Real.sqrt r11 * (r21 / Real.sqrt r11)
    · have hs1 : 0 < Real.sqrt r11 := Real.sqrt_pos.mpr p1
      have h11 : r11 = Real.sqrt r11 * Real.sqrt r11 := (Real.mul_self_sqrt p1.le).symm
      have h21 : r21 = r21 / Real.sqrt r11 * Real.sqrt r11 := by field_simp
      have h22 : r22 = r21 / Real.sqrt r11 * (r21 / Real.sqrt r11)
          + (r22 - r21 / Real.sqrt r11 * (r21 / Real.sqrt r11)) := by ring
      intro x y hxy
      rw [h11, h21, h22, qf2_decomp]
      generalize r22 - r21 / Real.sqrt r11 * (r21 / Real.sqrt r11) = d2 at p2 ⊢
      generalize r21 / Real.sqrt r11 = l21
      generalize Real.sqrt r11 = s1 at hs1 ⊢
      by_cases hy : y = 0
      · subst hy
        have hx : x ≠ 0 := by
          rcases hxy with hx | hy
          · exact hx
          · exact absurd rfl hy
        have : 0 < (s1 * x) ^ 2 := by positivity
        simpa using this
      · have : 0 < d2 * y ^ 2 := by positivity
        have : 0 ≤ (s1 * x + l21 * y) ^ 2 := sq_nonneg _
        linarith
    · simp [p2] at h
  · simp [p1] at h

/-- **C02 (Cholesky, n = 2, not positive definite).** `none` — the documented fallback
    (identity factor + warning) applies. -/
theorem C02_chol2_none (r11 r21 r22 : ℝ) (h : ¬ PosDef2 r11 r21 r22) : chol2 r11 r21 r22 = none := by
  cases hc : chol2 r11 r21 r22 with
  | none => rfl
  | some L => exact absurd (chol2_some_posdef r11 r21 r22 L hc) h

/-- **C02 (Cholesky, n = 3).** For a positive-definite symmetric 3×3 matrix the explicit
    factorisation succeeds with a positive diagonal and L·Lᵀ = R (all six entries of the lower
    triangle; the upper triangle of L is zero by construction, see `C02_chol_matrix`). -/
theorem C02_chol3_correct (r11 r21 r22 r31 r32 r33 : ℝ) (h : PosDef3 r11 r21 r22 r31 r32 r33) :
    ∃ l11 l21 l22 l31 l32 l33,
      chol3 r11 r21 r22 r31 r32 r33 = some (l11, l21, l22, l31, l32, l33) ∧
      0 < l11 ∧ 0 < l22 ∧ 0 < l33 ∧
      l11 * l11 = r11 ∧ l21 * l11 = r21 ∧ l21 * l21 + l22 * l22 = r22 ∧
      l31 * l11 = r31 ∧ l31 * l21 + l32 * l22 = r32 ∧ l31 * l31 + l32 * l32 + l33 * l33 = r33 := by
  have p1 : 0 < r11 := by
    have := h 1 0 0 (Or.inl one_ne_zero); simpa [qf3] using this
  obtain ⟨s1, hs1, h11⟩ : ∃ s1 : ℝ, 0 < s1 ∧ r11 = s1 * s1 :=
    ⟨Real.sqrt r11, Real.sqrt_pos.mpr p1, (Real.mul_self_sqrt p1.le).symm⟩
  subst h11
  obtain ⟨l21, h21⟩ : ∃ l21 : ℝ, r21 = l21 * s1 := ⟨r21 / s1, by field_simp⟩
  subst h21
  obtain ⟨l31, h31⟩ : ∃ l31 : ℝ, r31 = l31 * s1 := ⟨r31 / s1, by field_simp⟩
  subst h31
  obtain ⟨d2, h22⟩ : ∃ d2 : ℝ, r22 = l21 * l21 + d2 := ⟨r22 - l21 * l21, by ring⟩
  subst h22
  have p2 : 0 < d2 := by
    have := h (-l21 / s1) 1 0 (Or.inr (Or.inl one_ne_zero))
    rw [qf3_decomp2] at this
    have e : s1 * (-l21 / s1) + l21 * 1 = 0 := by field_simp; ring
    rw [e] at this; simpa using this
  obtain ⟨s2, hs2, hd2⟩ : ∃ s2 : ℝ, 0 < s2 ∧ d2 = s2 * s2 :=
    ⟨Real.sqrt d2, Real.sqrt_pos.mpr p2, (Real.mul_self_sqrt p2.le).symm⟩
  subst hd2
  obtain ⟨l32, h32⟩ : ∃ l32 : ℝ, r32 = l31 * l21 + l32 * s2 :=
    ⟨(r32 - l31 * l21) / s2, by field_simp; ring⟩
  subst h32
  obtain ⟨d3, h33⟩ : ∃ d3 : ℝ, r33 = l31 * l31 + l32 * l32 + d3 :=
    ⟨r33 - l31 * l31 - l32 * l32, by ring⟩
  subst h33
  have p3 : 0 < d3 := by
    have := h (-(l21 * (-l32 / s2) + l31) / s1) (-l32 / s2) 1 (Or.inr (Or.inr one_ne_zero))
    rw [qf3_decomp] at this
    have e1 : s2 * (-l32 / s2) + l32 * 1 = 0 := by field_simp; ring
    have e2 : s1 * (-(l21 * (-l32 / s2) + l31) / s1) + l21 * (-l32 / s2) + l31 * 1 = 0 := by
      field_simp; ring
    rw [e1, e2] at this; simpa using this
  obtain ⟨s3, hs3, hd3⟩ : ∃ s3 : ℝ, 0 < s3 ∧ d3 = s3 * s3 :=
    ⟨Real.sqrt d3, Real.sqrt_pos.mpr p3, (Real.mul_self_sqrt p3.le).symm⟩
  subst hd3
  exact ⟨s1, l21, s2, l31, l32, s3, chol3_of_factor s1 l21 s2 l31 l32 s3 hs1 hs2 hs3, hs1, hs2, hs3,
    rfl, rfl, rfl, rfl, rfl, rfl⟩

/-- whenever the 3×3 factorisation succeeds the matrix was positive definite -/
theorem chol3_some_posdef (r11 r21 r22 r31 r32 r33 : ℝ) (L : ℝ × ℝ × ℝ × ℝ × ℝ × ℝ)
    (h : chol3 r11 r21 r22 r31 r32 r33 = some L) : PosDef3 r11 r21 r22 r31 r32 r33 := by
  simp only [chol3, pivotOk_real, num_sqrt, num_div, num_sub, num_mul] at h
  by_cases p1 : 0 < r11
  · simp only [p1, decide_true, if_true] at h
    have hs1 : 0 < Real.sqrt r11 := Real.sqrt_pos.mpr p1
    have h11 : r11 = Real.sqrt r11 * Real.sqrt r11 := (Real.mul_self_sqrt p1.le).symm
    have h21 : r21 = r21 / Real.sqrt r11 * Real.sqrt r11 := by field_simp
    have h31 : r31 = r31 / Real.sqrt r11 * Real.sqrt r11 := by field_simp
    generalize Real.sqrt r11 = s1 at *
    generalize r21 / s1 = l21 at *
    generalize r31 / s1 = l31 at *
    by_cases p2 : 0 < r22 - l21 * l21
    · simp only [p2, decide_true, if_true] at h
      have hs2 : 0 < Real.sqrt (r22 - l21 * l21) := Real.sqrt_pos.mpr p2
      have h22 : r22 = l21 * l21 + Real.sqrt (r22 - l21 * l21) * Real.sqrt (r22 - l21 * l21) := by
        rw [Real.mul_self_sqrt p2.le]; ring
      have h32 : r32 = l31 * l21 + (r32 - l31 * l21) / Real.sqrt (r22 - l21 * l21)
          * Real.sqrt (r22 - l21 * l21) := by rw [div_mul_cancel₀ _ hs2.ne']; ring
      generalize Real.sqrt (r22 - l21 * l21) = s2 at *
      generalize (r32 - l31 * l21) / s2 = l32 at *
      by_cases p3 : 0 < r33 - l31 * l31 - l32 * l32
      · have h33 : r33 = l31 * l31 + l32 * l32 + (r33 - l31 * l31 - l32 * l32) := by ring
        generalize r33 - l31 * l31 - l32 * l32 = d3 at *
        intro x y z hxyz
        rw [h11, h21, h22, h31, h32, h33, qf3_decomp]
        have n1 : 0 ≤ (s1 * x + l21 * y + l31 * z) ^ 2 := sq_nonneg _
        have n2 : 0 ≤ (s2 * y + l32 * z) ^ 2 := sq_nonneg _
        have n3 : 0 ≤ d3 * z ^ 2 := by positivity
        by_cases hz : z = 0
        · subst hz
          by_cases hy : y = 0
          · subst hy
            have hx : x ≠ 0 := by
              rcases hxyz with hx | hy | hz
              · exact hx
              · exact absurd rfl hy
              · exact absurd rfl hz
            have : 0 < (s1 * x) ^ 2 := by positivity
            simpa using this
          · have : 0 < (s2 * y) ^ 2 := by positivity
            have e : (s2 * y + l32 * 0) ^ 2 = (s2 * y) ^ 2 := by ring
            rw [e]; linarith
        · have : 0 < d3 * z ^ 2 := by positivity
          linarith
      · simp [p3] at h
    · simp [p2] at h
  · simp [p1] at h

/-- **C02 (Cholesky, n = 3, not positive definite).** e.g. ρ = 0.9, 0.9, −0.9: `none`, so the
    documented fallback (identity factor + warning) applies. -/
theorem C02_chol3_none (r11 r21 r22 r31 r32 r33 : ℝ) (h : ¬ PosDef3 r11 r21 r22 r31 r32 r33) :
    chol3 r11 r21 r22 r31 r32 r33 = none := by
  cases hc : chol3 r11 r21 r22 r31 r32 r33 with
  | none => rfl
  | some L => exact absurd (chol3_some_posdef _ _ _ _ _ _ L hc) h

/-- non-vacuity: the identity is positive definite; ρ = (0.9, 0.9, −0.9) is not -/
example : PosDef3 1 0 1 0 0 1 := by
  intro x y z h
  simp only [qf3]
  rcases h with h | h | h
  · have : 0 < x ^ 2 := by positivity
    nlinarith [sq_nonneg y, sq_nonneg z]
  · have : 0 < y ^ 2 := by positivity
    nlinarith [sq_nonneg x, sq_nonneg z]
  · have : 0 < z ^ 2 := by positivity
    nlinarith [sq_nonneg x, sq_nonneg y]

theorem C02_witness_not_posdef : ¬ PosDef3 1 (9/10) 1 (-9/10) (9/10) 1 := by
  intro h
  have := h 1 (-1) 1 (Or.inl one_ne_zero)
  norm_num [qf3] at this

/-! ## the factor the library multiplies the offsets with -/

/-- **C02 (lower triangular).** On a 3×3 matrix `chol` reads the lower triangle only and returns
    the `chol3` entries with zeros above the diagonal (2×2 likewise). -/
theorem C02_chol_matrix (d1 r12 r13 r21 d2 r23 r31 r32 d3 : ℝ) :
    chol [[d1, r12, r13], [r21, d2, r23], [r31, r32, d3]]
      = (chol3 d1 r21 d2 r31 r32 d3).map (fun (l11, l21, l22, l31, l32, l33) =>
          [[l11, 0, 0], [l21, l22, 0], [l31, l32, l33]]) ∧
    chol [[d1, r12], [r21, d2]]
      = (chol2 d1 r21 d2).map (fun (l11, l21, l22) => [[l11, 0], [l21, l22]]) := by
  constructor <;> simp [chol, Mat.get, zero]

theorem unitDiag3 (d1 r12 r13 r21 d2 r23 r31 r32 d3 : ℝ) :
    unitDiag [[d1, r12, r13], [r21, d2, r23], [r31, r32, d3]]
      = [[1, r12, r13], [r21, 1, r23], [r31, r32, 1]] := by
  simp [unitDiag, List.range, List.range.loop, one]

theorem offDiag3 (r12 r13 r21 r23 r31 r32 : ℝ) :
    offDiagAllZero [[1, r12, r13], [r21, 1, r23], [r31, r32, 1]]
      = decide (r12 = 0 ∧ r13 = 0 ∧ r21 = 0 ∧ r23 = 0 ∧ r31 = 0 ∧ r32 = 0) := by
  simp [offDiagAllZero, List.range, List.range.loop, Mat.get, List.all_cons, Bool.and_assoc]

/-- **C02 (the shortcut, as written in the source).** `Gen.mcNoCorrelation` is the translation of
    the test in `if <test>: return sample_vector` of `correlate_samples` (regenerated on every
    run by `vf/tr/mccorr.py`).  On a unit-diagonal matrix of three (two) sources it holds exactly when
    EVERY off-diagonal entry is zero — so the Cholesky step is skipped only when no correlation
    at all is present, never because non-zero correlations happen to cancel. -/
theorem C02_shortcut_generated (r12 r13 r21 r23 r31 r32 : ℝ) :
    Gen.mcNoCorrelation [[1, r12, r13], [r21, 1, r23], [r31, r32, 1]]
      = decide (r12 = 0 ∧ r13 = 0 ∧ r21 = 0 ∧ r23 = 0 ∧ r31 = 0 ∧ r32 = 0) ∧
    Gen.mcNoCorrelation [[1, r12], [r21, 1]] = decide (r12 = 0 ∧ r21 = 0) := by
  set_option linter.unusedSimpArgs false in
  constructor
  · by_cases h12 : r12 = 0 <;> by_cases h13 : r13 = 0 <;> by_cases h21 : r21 = 0 <;>
    by_cases h23 : r23 = 0 <;> by_cases h31 : r31 = 0 <;> by_cases h32 : r32 = 0 <;>
    simp [Gen.mcNoCorrelation, countNonzero, msub, diagMat, anyNonzero, sumAll, trace, feq, matEq,
      triu1, tril1, identity, Mat.get, List.range, List.range.loop, zero, one, Num.sum,
      h12, h13, h21, h23, h31, h32]
  · by_cases h12 : r12 = 0 <;> by_cases h21 : r21 = 0 <;>
    simp [Gen.mcNoCorrelation, countNonzero, msub, diagMat, anyNonzero, sumAll, trace, feq, matEq,
      triu1, tril1, identity, Mat.get, List.range, List.range.loop, zero, one, Num.sum, h12, h21]

/-- the generated shortcut agrees with the model's reading of it (`offDiagAllZero`) -/
theorem shortcut3 (r12 r13 r21 r23 r31 r32 : ℝ) :
    Gen.mcNoCorrelation [[1, r12, r13], [r21, 1, r23], [r31, r32, 1]]
      = decide (r12 = 0 ∧ r13 = 0 ∧ r21 = 0 ∧ r23 = 0 ∧ r31 = 0 ∧ r32 = 0) :=
  (C02_shortcut_generated r12 r13 r21 r23 r31 r32).1

/-- **C02 (factor, three sources).** With `R` the matrix of `get_correlation` values (any
    diagonal — it is replaced by ones):
    * no correlation set ⇒ identity, no warning;
    * some correlation set and the unit-diagonal matrix positive definite ⇒ its Cholesky factor
      `L` (lower triangular, `L·Lᵀ = R`), no warning;
    * some correlation set and not positive definite (e.g. 0.9, 0.9, −0.9) ⇒ identity AND the
      warning flag: the documented fallback, never an error. -/
theorem C02_factor_cases (d1 r12 r13 r21 d2 r23 r31 r32 d3 : ℝ) :
    let R : Mat ℝ := [[d1, r12, r13], [r21, d2, r23], [r31, r32, d3]]
    ((r12 = 0 ∧ r13 = 0 ∧ r21 = 0 ∧ r23 = 0 ∧ r31 = 0 ∧ r32 = 0) → factor R = (identity 3, false)) ∧
    (¬ (r12 = 0 ∧ r13 = 0 ∧ r21 = 0 ∧ r23 = 0 ∧ r31 = 0 ∧ r32 = 0) → PosDef3 1 r21 1 r31 r32 1 →
      ∃ l11 l21 l22 l31 l32 l33,
        factor R = ([[l11, 0, 0], [l21, l22, 0], [l31, l32, l33]], false) ∧
        l11 * l11 = 1 ∧ l21 * l11 = r21 ∧ l21 * l21 + l22 * l22 = 1 ∧
        l31 * l11 = r31 ∧ l31 * l21 + l32 * l22 = r32 ∧ l31 * l31 + l32 * l32 + l33 * l33 = 1) ∧
    (¬ (r12 = 0 ∧ r13 = 0 ∧ r21 = 0 ∧ r23 = 0 ∧ r31 = 0 ∧ r32 = 0) → ¬ PosDef3 1 r21 1 r31 r32 1 →
      factor R = (identity 3, true)) := by
  intro R
  have hlen : (unitDiag R).length = 3 := by simp [R, unitDiag3]
  refine ⟨?_, ?_, ?_⟩
  · intro h0
    simp only [factor, R, unitDiag3, shortcut3, h0, and_self, decide_true, if_true, List.length_cons,
      List.length_nil]
  · intro h0 hpd
    obtain ⟨l11, l21, l22, l31, l32, l33, hc, _, _, _, e1, e2, e3, e4, e5, e6⟩ :=
      C02_chol3_correct 1 r21 1 r31 r32 1 hpd
    refine ⟨l11, l21, l22, l31, l32, l33, ?_, e1, e2, e3, e4, e5, e6⟩
    simp only [factor, R, unitDiag3, shortcut3, h0, decide_false, Bool.false_eq_true, if_false,
      (C02_chol_matrix 1 r12 r13 r21 1 r23 r31 r32 1).1, hc, Option.map_some]
  · intro h0 hnpd
    have hc := C02_chol3_none 1 r21 1 r31 r32 1 hnpd
    simp only [factor, R, unitDiag3, shortcut3, h0, decide_false, Bool.false_eq_true, if_false,
      (C02_chol_matrix 1 r12 r13 r21 1 r23 r31 r32 1).1, hc, Option.map_none, List.length_cons,
      List.length_nil]

/-! ## exact sample moments of what is fed to the formula (no probability) -/

/-- **C02 (sample mean transform).** For ANY finite offset matrix `Z` (N ≥ 1 draws) and any
    factor `L`: sampleMean(μ + D L Z)_i = μ_i + σ_i Σ_k L_ik sampleMean(Z_k). -/
theorem C02_sample_mean_transform {κ ι : Type} [Fintype κ] [Fintype ι] (hN : 0 < Fintype.card κ)
    (μ σ : ι → ℝ) (L : ι → ι → ℝ) (Z : ι → κ → ℝ) (i : ι) :
    sMean (draws μ σ L Z i) = μ i + σ i * ∑ k, L i k * sMean (Z k) :=
  sMean_draws hN μ σ L Z i

/-- **C02 (sample covariance transform).** sampleCov(μ + D L Z) = D L sampleCov(Z) Lᵀ D,
    entry (a, b): σ_a σ_b Σ_k Σ_l L_ak L_bl sampleCov(Z_k, Z_l) (n − 1 denominator). -/
theorem C02_sample_cov_transform {κ ι : Type} [Fintype κ] [Fintype ι] (hN : 0 < Fintype.card κ)
    (μ σ : ι → ℝ) (L : ι → ι → ℝ) (Z : ι → κ → ℝ) (a b : ι) :
    sCov (draws μ σ L Z a) (draws μ σ L Z b)
      = σ a * σ b * ∑ k, ∑ l, L a k * L b l * sCov (Z k) (Z l) :=
  sCov_draws hN μ σ L Z a b

/-- **C02 (corollary: the first two moments the statement names).** If the offsets are
    standardised in the sample (sampleMean Z = 0, sampleCov Z = I) and L·Lᵀ = R, then the draws
    have sample mean μ_i and sample covariance σ_a σ_b R_ab — variances σ_i², correlations ρ_ab —
    whatever the formula. -/
theorem C02_standardised_draws {κ ι : Type} [Fintype κ] [Fintype ι] [DecidableEq ι]
    (hN : 0 < Fintype.card κ) (μ σ : ι → ℝ) (L R : ι → ι → ℝ) (Z : ι → κ → ℝ)
    (hm : ∀ k, sMean (Z k) = 0) (hc : ∀ k l, sCov (Z k) (Z l) = if k = l then 1 else 0)
    (hLR : ∀ a b, ∑ k, L a k * L b k = R a b) (a b : ι) :
    sMean (draws μ σ L Z a) = μ a ∧
      sCov (draws μ σ L Z a) (draws μ σ L Z b) = σ a * σ b * R a b := by
  constructor
  · rw [sMean_draws hN]; simp [hm]
  · rw [sCov_draws hN, ← hLR a b]
    congr 1
    apply Finset.sum_congr rfl; intro k _
    simp [hc]

/-- **C02 (affine formulas are exact).** For an affine formula c + Σ g_i x_i the outcomes have
    sample mean f(sample means) and sample variance gᵀ Ĉ g with Ĉ the sample covariance of the
    draws — the first-order law of C01 evaluated on the sample moments, with no approximation. -/
theorem C02_affine_exact {κ ι : Type} [Fintype κ] [Fintype ι] (hN : 0 < Fintype.card κ)
    (c : ℝ) (g : ι → ℝ) (X : ι → κ → ℝ) :
    sMean (fun j => c + ∑ i, g i * X i j) = c + ∑ i, g i * sMean (X i) ∧
    sCov (fun j => c + ∑ i, g i * X i j) (fun j => c + ∑ i, g i * X i j)
      = ∑ i, ∑ k, g i * g k * sCov (X i) (X k) := by
  -- reuse the transform with one output row: μ = c, σ = 1, L = g, Z = X
  have hm := sMean_draws (κ := κ) (ι := ι) hN (fun _ => c) (fun _ => 1) (fun _ k => g k) X
  have hcv := sCov_draws (κ := κ) (ι := ι) hN (fun _ => c) (fun _ => 1) (fun _ k => g k) X
  by_cases hne : Nonempty ι
  · obtain ⟨i0⟩ := hne
    have hd : draws (fun _ => c) (fun _ => 1) (fun _ k => g k) X i0
        = fun j => c + ∑ i, g i * X i j := by funext j; simp [draws]
    have hm0 := hm i0
    have hc0 := hcv i0 i0
    rw [hd] at hm0 hc0
    simp only [one_mul] at hm0 hc0
    exact ⟨hm0, hc0⟩
  · have hemp : IsEmpty ι := not_nonempty_iff.mp hne
    have hN' : (Fintype.card κ : ℝ) ≠ 0 := by exact_mod_cast hN.ne'
    constructor
    · simp [sMean, Finset.sum_const, hN']
    · simp [sCov, sMean, Finset.sum_const, hN']

/-- lower-triangular 3×3 factor as an index function -/
def L3 (l11 l21 l22 l31 l32 l33 : ℝ) : Fin 3 → Fin 3 → ℝ :=
  ![![l11, 0, 0], ![l21, l22, 0], ![l31, l32, l33]]

/-- symmetric 3×3 unit-diagonal correlation matrix as an index function -/
def R3 (r21 r31 r32 : ℝ) : Fin 3 → Fin 3 → ℝ :=
  ![![1, r21, r31], ![r21, 1, r32], ![r31, r32, 1]]

/-- **C02 (three sources, headline).** For a positive-definite correlation assignment
    (ρ21, ρ31, ρ32) the factor the library computes makes the draws carry exactly the moments the
    statement names whenever the offsets are standardised in the sample: sample mean μ_a, sample
    variances σ_a², sample correlations ρ_ab — for every formula evaluated on them afterwards. -/
theorem C02_draws_carry_correlations3 {κ : Type} [Fintype κ] (hN : 0 < Fintype.card κ)
    (μ σ : Fin 3 → ℝ) (r21 r31 r32 : ℝ) (hpd : PosDef3 1 r21 1 r31 r32 1)
    (Z : Fin 3 → κ → ℝ)
    (hm : ∀ k, sMean (Z k) = 0) (hc : ∀ k l, sCov (Z k) (Z l) = if k = l then 1 else 0) :
    ∃ l11 l21 l22 l31 l32 l33,
      chol3 1 r21 1 r31 r32 1 = some (l11, l21, l22, l31, l32, l33) ∧
      ∀ a b, sMean (draws μ σ (L3 l11 l21 l22 l31 l32 l33) Z a) = μ a ∧
        sCov (draws μ σ (L3 l11 l21 l22 l31 l32 l33) Z a) (draws μ σ (L3 l11 l21 l22 l31 l32 l33) Z b)
          = σ a * σ b * R3 r21 r31 r32 a b := by
  obtain ⟨l11, l21, l22, l31, l32, l33, hc3, _, _, _, e1, e2, e3, e4, e5, e6⟩ :=
    C02_chol3_correct 1 r21 1 r31 r32 1 hpd
  refine ⟨l11, l21, l22, l31, l32, l33, hc3, ?_⟩
  intro a b
  apply C02_standardised_draws hN μ σ _ _ Z hm hc
  intro a b
  fin_cases a <;> fin_cases b <;> simp [Fin.sum_univ_three, L3, R3] <;> nlinarith

/-! ## the reported result, tied to the model's list functions -/

instance : IsFin ℝ := ⟨fun _ => true⟩

theorem numSum_real (l : List ℝ) : Num.sum l = l.sum := by
  unfold Num.sum
  have : ∀ (a : ℝ) (l : List ℝ), List.foldl Num.add a l = a + l.sum := by
    intro a l
    induction l generalizing a with
    | nil => simp
    | cons x xs ih => simp [List.foldl, ih, add_assoc]
  simpa using this 0 l

/-- the model's `mean` is the sample mean of the list's entries -/
theorem mean_eq_sMean (l : List ℝ) : MC.mean l = sMean (fun j : Fin l.length => l[j]) := by
  simp only [MC.mean, sMean, num_div, num_ofNat, numSum_real, Fintype.card_fin]
  congr 1
  simp

/-- the model's `std1` is the square root of the n − 1 sample variance -/
theorem std1_eq_sCov (l : List ℝ) (hl : l ≠ []) :
    MC.std1 l = Real.sqrt (sCov (fun j : Fin l.length => l[j]) (fun j : Fin l.length => l[j])) := by
  have hlen : 1 ≤ l.length := List.length_pos_iff.mpr hl
  simp only [MC.std1, num_sqrt, num_div, num_ofNat, numSum_real, num_mul, num_sub, sCov,
    Fintype.card_fin, ← mean_eq_sMean]
  congr 2
  · exact (Fin.sum_univ_fun_getElem l (fun x => (x - MC.mean l) * (x - MC.mean l))).symm
  · rw [Nat.cast_sub hlen]; simp

/-- **C02 (result definition).** The stored sample set is the formula applied to every draw with
    the non-finite outcomes removed; the reported value is its mean and the reported uncertainty
    its sample standard deviation with the n − 1 denominator; the warning flag is the factor's. -/
theorem C02_result_def {α : Type} [Num α] [IsFin α] (e : Expr α) (order : List Nat)
    (μ σ : Nat → α) (R Z : Mat α) :
    let r := simulate e order μ σ R Z
    let N := (Z.getD 0 []).length
    r.samples = keepFinite (outcomes e order μ (dataSets order μ σ R Z).1 N) ∧
    r.value = MC.mean r.samples ∧ r.error = MC.std1 r.samples ∧
    r.warned = (factor R).2 ∧ r.raw = N := by
  simp [simulate, meanStd, dataSets]

/-- **C02 (moments of the stored set).** Over ℝ: value = sample mean, error = √(sample variance
    with n − 1) of the stored outcomes. -/
theorem C02_result_moments (l : List ℝ) (hl : l ≠ []) :
    (meanStd l).1 = sMean (fun j : Fin l.length => l[j]) ∧
    (meanStd l).2 = Real.sqrt (sCov (fun j : Fin l.length => l[j]) (fun j : Fin l.length => l[j])) :=
  ⟨mean_eq_sMean l, std1_eq_sCov l hl⟩

/-- **C02 (discard).** A non-finite outcome never contributes: everything kept is finite, is one
    of the outcomes, and the order of the kept outcomes is unchanged. -/
theorem C02_discard {α : Type} [IsFin α] (ys : List α) :
    (∀ y ∈ keepFinite ys, IsFin.isFinite y = true ∧ y ∈ ys) ∧ (keepFinite ys).Sublist ys ∧
    (∀ y ∈ ys, IsFin.isFinite y = true → y ∈ keepFinite ys) := by
  refine ⟨?_, List.filter_sublist, ?_⟩
  · intro y hy
    have := List.mem_filter.mp hy
    exact ⟨this.2, this.1⟩
  · intro y hy hf
    exact List.mem_filter.mpr ⟨hy, hf⟩

/-- **C02 (kept ≤ N).** At most N outcomes are stored, N = number of draws. -/
theorem C02_kept_le {α : Type} [Num α] [IsFin α] (e : Expr α) (order : List Nat)
    (μ σ : Nat → α) (R Z : Mat α) :
    (simulate e order μ σ R Z).samples.length ≤ (simulate e order μ σ R Z).raw := by
  have h : (simulate e order μ σ R Z).samples
      = keepFinite (outcomes e order μ (dataSets order μ σ R Z).1 (Z.getD 0 []).length) := by
    simp [simulate, dataSets]
  have hr : (simulate e order μ σ R Z).raw = (Z.getD 0 []).length := by simp [simulate]
  rw [h, hr]
  calc (keepFinite (outcomes e order μ (dataSets order μ σ R Z).1 (Z.getD 0 []).length)).length
      ≤ (outcomes e order μ (dataSets order μ σ R Z).1 (Z.getD 0 []).length).length :=
        List.length_filter_le _ _
    _ = (Z.getD 0 []).length := by simp [outcomes]

/-- **C02 (one source, model level).** `_generate_random_data_set` on the model's lists:
    mean(μ + σ z) = μ + σ mean(z) and std₁(μ + σ z) = |σ| std₁(z) for any non-empty offset list. -/
theorem C02_scaleShift_moments (μ σ : ℝ) (zs : List ℝ) (hz : zs ≠ []) :
    MC.mean (scaleShift μ σ zs) = μ + σ * MC.mean zs ∧
    MC.std1 (scaleShift μ σ zs) = |σ| * MC.std1 zs := by
  have hlen : (zs.length : ℝ) ≠ 0 := by
    have : 0 < zs.length := List.length_pos_iff.mpr hz
    exact_mod_cast this.ne'
  have hsum : ∀ l : List ℝ, (l.map fun z => z * σ + μ).sum = σ * l.sum + l.length * μ := by
    intro l
    induction l with
    | nil => simp
    | cons x xs ih => simp [ih]; ring
  have hm : MC.mean (scaleShift μ σ zs) = μ + σ * MC.mean zs := by
    simp only [MC.mean, scaleShift, num_div, num_ofNat, numSum_real, num_add, num_mul, hsum,
      List.length_map]
    field_simp
    ring
  refine ⟨hm, ?_⟩
  have hsq : ∀ l : List ℝ, ∀ m : ℝ,
      ((l.map fun z => z * σ + μ).map fun x => (x - (μ + σ * m)) * (x - (μ + σ * m))).sum
        = σ ^ 2 * (l.map fun x => (x - m) * (x - m)).sum := by
    intro l m
    induction l with
    | nil => simp
    | cons x xs ih => simp only [List.map_cons, List.sum_cons, ih]; ring
  have hm' : MC.mean (List.map (fun z => z * σ + μ) zs) = μ + σ * MC.mean zs := by
    simpa [scaleShift] using hm
  simp only [MC.std1, scaleShift, num_sqrt, num_div, num_ofNat, numSum_real, num_mul, num_sub,
    num_add, List.length_map]
  rw [hm', hsq, mul_div_assoc, Real.sqrt_mul (sq_nonneg σ), Real.sqrt_sq_eq_abs]

/-! ## the list pipeline computes the `draws` of the transform theorems -/

theorem axpy_length (l : ℝ) (x acc : List ℝ) (h : x.length = acc.length) :
    (axpy l x acc).length = acc.length := by
  simp [axpy, h]

theorem axpy_getD (l : ℝ) (x acc : List ℝ) (j : Nat) (h : x.length = acc.length) :
    (axpy l x acc).getD j 0 = acc.getD j 0 + l * x.getD j 0 := by
  unfold axpy
  by_cases hj : j < acc.length
  · have hjx : j < x.length := by omega
    simp [List.getD_eq_getElem?_getD, List.getElem?_zipWith, List.getElem?_eq_getElem hj,
      List.getElem?_eq_getElem hjx]
  · have hjx : ¬ j < x.length := by omega
    have h1 : x.length ≤ j := by omega
    have h2 : acc.length ≤ j := by omega
    simp [List.getD_eq_getElem?_getD, List.getElem?_zipWith, List.getElem?_eq_none h1,
      List.getElem?_eq_none h2]

theorem foldl_axpy_getD (ps : List (ℝ × List ℝ)) (n j : Nat) :
    ∀ acc : List ℝ, acc.length = n → (∀ p ∈ ps, p.2.length = n) →
      ((ps.foldl (fun acc (p : ℝ × List ℝ) => axpy p.1 p.2 acc) acc).getD j 0
        = acc.getD j 0 + (ps.map fun p => p.1 * p.2.getD j 0).sum) ∧
      (ps.foldl (fun acc (p : ℝ × List ℝ) => axpy p.1 p.2 acc) acc).length = n := by
  induction ps with
  | nil => intro acc h _; simp [h]
  | cons p ps ih =>
    intro acc hacc hz
    have hp : p.2.length = acc.length := by rw [hacc]; exact hz p (List.mem_cons_self ..)
    have hlen : (axpy p.1 p.2 acc).length = n := by rw [axpy_length _ _ _ hp, hacc]
    have := ih (axpy p.1 p.2 acc) hlen (fun q hq => hz q (List.mem_cons_of_mem _ hq))
    simp only [List.foldl_cons, List.map_cons, List.sum_cons]
    refine ⟨?_, this.2⟩
    rw [this.1, axpy_getD _ _ _ _ hp]; ring

/-- entry j of row `Lrow · Z` -/
theorem mulRow_getD (Lrow : List ℝ) (Z : Mat ℝ) (n j : Nat) (hz : ∀ z ∈ Z, z.length = n) :
    (mulRow Lrow Z n).getD j 0 = ((List.zip Lrow Z).map fun p => p.1 * p.2.getD j 0).sum := by
  have h := (foldl_axpy_getD (List.zip Lrow Z) n j (List.replicate n zero) (by simp)
    (fun p hp => hz p.2 (List.of_mem_zip hp).2)).1
  have e : mulRow Lrow Z n
      = (List.zip Lrow Z).foldl (fun acc (p : ℝ × List ℝ) => axpy p.1 p.2 acc) (List.replicate n zero) := rfl
  rw [e, h]
  have : (List.replicate n (zero : ℝ)).getD j 0 = 0 := by
    simp [List.getD_eq_getElem?_getD, List.getElem?_replicate, zero]
    split <;> rfl
  rw [this]; simp

/-- **C02 (what is fed to the formula, any number of sources).** The list pipeline computes
    exactly the `draws` of the transform theorems:
    * `np.dot(L, Z)`: entry (r, j) of `matMul L Z` is Σ_k L_rk Z_kj;
    * `offsets * error + value`: entry j of `scaleShift μ σ row` is row_j·σ + μ;
    * `dataSets` pairs the r-th source with row r of `matMul (factor R) Z`, scaled and shifted. -/
theorem C02_dataSets_entry (L Z : Mat ℝ) (r j : Nat) (hr : r < L.length)
    (hz : ∀ z ∈ Z, z.length = (Z.getD 0 []).length) :
    ((matMul L Z).getD r []).getD j 0
        = ((List.zip (L.getD r []) Z).map fun p => p.1 * p.2.getD j 0).sum ∧
    (∀ (μ σ : ℝ) (row : List ℝ), j < row.length →
        (scaleShift μ σ row).getD j 0 = row.getD j 0 * σ + μ) ∧
    (∀ (order : List Nat) (μ σ : Nat → ℝ) (R : Mat ℝ),
        (dataSets order μ σ R Z).1
          = (List.zip order (matMul (factor R).1 Z)).map fun p => scaleShift (μ p.1) (σ p.1) p.2) := by
  refine ⟨?_, ?_, ?_⟩
  · have hrow : (matMul L Z).getD r [] = mulRow (L.getD r []) Z (Z.getD 0 []).length := by
      simp [matMul, List.getD_eq_getElem?_getD, List.getElem?_map, List.getElem?_eq_getElem hr]
    rw [hrow]
    exact mulRow_getD _ Z _ j hz
  · intro μ σ row hj
    simp [scaleShift, List.getD_eq_getElem?_getD, List.getElem?_map, List.getElem?_eq_getElem hj]
  · intro order μ σ R
    simp [dataSets]

theorem identity3 : (identity 3 : Mat ℝ) = [[1, 0, 0], [0, 1, 0], [0, 0, 1]] := by
  simp [identity, List.range, List.range.loop, one, zero]

/-- **C02 (fallback = uncorrelated draws, three sources).** When the factor is the identity
    (no correlation set, or the non-positive-definite fallback) the offsets reach the formula
    unchanged: entry (r, j) of `matMul I Z` is Z_rj, i.e. X_rj = μ_r + σ_r Z_rj — the samples of the
    UNCORRELATED model. -/
theorem C02_fallback_uncorrelated3 (z1 z2 z3 : List ℝ) (h2 : z2.length = z1.length)
    (h3 : z3.length = z1.length) (r j : Nat) (hr : r < 3) :
    ((matMul (identity 3) [z1, z2, z3]).getD r []).getD j 0 = (([z1, z2, z3] : Mat ℝ).getD r []).getD j 0 := by
  have hz : ∀ z ∈ ([z1, z2, z3] : Mat ℝ), z.length = (([z1, z2, z3] : Mat ℝ).getD 0 []).length := by
    intro z hz
    simp at hz
    rcases hz with rfl | rfl | rfl <;> simp [h2, h3]
  have h := (C02_dataSets_entry (identity 3) [z1, z2, z3] r j (by simp [identity]; exact hr) hz).1
  rw [h, identity3]
  have : r = 0 ∨ r = 1 ∨ r = 2 := by omega
  rcases this with rfl | rfl | rfl <;> simp

end QExPy

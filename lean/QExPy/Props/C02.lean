/-
  C02 — Monte Carlo results are the moments of the formula under the stated normal model.

  Model: `MC.simulate` (QExPy/Model/MonteCarlo.lean): the pipeline GIVEN the offsets.
  Randomness is outside the theorems: they say what the library computes from the draws.
-/
import QExPy.Lemmas.Cholesky

namespace QExPy
open MC

/-! ## sample size -/

/-- **C02 (sample size).** N is the per-quantity size when one is set, else the global size. -/
theorem C02_sample_size (per glob : Nat) :
    (per ≠ 0 → sampleSize per glob = per) ∧ (per = 0 → sampleSize per glob = glob) := by
  constructor <;> intro h <;> simp [sampleSize, h]

/-! ## Cholesky factor of the correlation matrix -/

/-- **C02 (Cholesky, n = 2).** For a positive-definite symmetric 2×2 matrix the explicit
    factorisation succeeds, its diagonal is positive, and L·Lᵀ = R (L lower triangular:
    `chol` writes the zero above the diagonal, see `C02_chol_matrix`). -/
theorem C02_chol2_correct (r11 r21 r22 : ℝ) (h : PosDef2 r11 r21 r22) :
    ∃ l11 l21 l22, chol2 r11 r21 r22 = some (l11, l21, l22) ∧ 0 < l11 ∧ 0 < l22 ∧
      l11 * l11 = r11 ∧ l21 * l11 = r21 ∧ l21 * l21 + l22 * l22 = r22 := by
  have p1 : 0 < r11 := by
    have := h 1 0 (Or.inl one_ne_zero); simpa [qf2] using this
  obtain ⟨s1, hs1, h11⟩ : ∃ s1 : ℝ, 0 < s1 ∧ r11 = s1 * s1 :=
    ⟨Real.sqrt r11, Real.sqrt_pos.mpr p1, (Real.mul_self_sqrt p1.le).symm⟩
  subst h11
  obtain ⟨l21, h21⟩ : ∃ l21 : ℝ, r21 = l21 * s1 := ⟨r21 / s1, by field_simp⟩
  subst h21
  obtain ⟨d2, h22⟩ : ∃ d2 : ℝ, r22 = l21 * l21 + d2 := ⟨r22 - l21 * l21, by ring⟩
  subst h22
  have p2 : 0 < d2 := by
    have := h (-l21 / s1) 1 (Or.inr one_ne_zero)
    rw [qf2_decomp] at this
    have e : s1 * (-l21 / s1) + l21 * 1 = 0 := by field_simp; ring
    rw [e] at this; simpa using this
  obtain ⟨s2, hs2, hd2⟩ : ∃ s2 : ℝ, 0 < s2 ∧ d2 = s2 * s2 :=
    ⟨Real.sqrt d2, Real.sqrt_pos.mpr p2, (Real.mul_self_sqrt p2.le).symm⟩
  subst hd2
  exact ⟨s1, l21, s2, chol2_of_factor s1 l21 s2 hs1 hs2, hs1, hs2, rfl, rfl, rfl⟩

/-- whenever the factorisation succeeds the matrix was positive definite -/
theorem chol2_some_posdef (r11 r21 r22 : ℝ) (L : ℝ × ℝ × ℝ) (h : chol2 r11 r21 r22 = some L) :
    PosDef2 r11 r21 r22 := by
  simp only [chol2, pivotOk_real, num_sqrt, num_div, num_sub, num_mul] at h
  by_cases p1 : 0 < r11
  · simp only [p1, decide_true, if_true] at h
    by_cases p2 : 0 < r22 - r21 / Real.sqrt r11 * (r21 / Real.sqrt r11)
    · have hs1 : 0 < Real.sqrt r11 := Real.sqrt_pos.mpr p1
      have h11 : r11 = Real.sqrt r11 * Real.sqrt r11 := (Real.mul_self_sqrt p1.le).symm
      have h21 : r21 = r21 / Real.sqrt r11 * Real.sqrt r11 := by field_simp
      have h22 : r22 = r21 / Real.sqrt r11 * (r21 / Real.sqrt r11)
          + (r22 - r21 / Real.sqrt r11 * (r21 / Real.sqrt r11)) := by ring
      intro x y hxy
      rw [h11, h21, h22, qf2_decomp]
      generalize r22 - r21 / Real.sqrt r11 * (r21 / Real.sqrt r11) = d2 at p2 ⊢
      generalize r21 / Real.sqrt r11 = l21
      generalize Real.sqrt r11 = s1 at hs1 ⊢
      by_cases hy : y = 0
      · subst hy
        have hx : x ≠ 0 := by
          rcases hxy with hx | hy
          · exact hx
          · exact absurd rfl hy
        have : 0 < (s1 * x) ^ 2 := by positivity
        simpa using this
      · have : 0 < d2 * y ^ 2 := by positivity
        have : 0 ≤ (s1 * x + l21 * y) ^ 2 := sq_nonneg _
        linarith
    · simp [p2] at h
  · simp [p1] at h

/-- **C02 (Cholesky, n = 2, not positive definite).** `none` — the documented fallback
    (identity factor + warning) applies. -/
theorem C02_chol2_none (r11 r21 r22 : ℝ) (h : ¬ PosDef2 r11 r21 r22) : chol2 r11 r21 r22 = none := by
  cases hc : chol2 r11 r21 r22 with
  | none => rfl
  | some L => exact absurd (chol2_some_posdef r11 r21 r22 L hc) h

/-- **C02 (Cholesky, n = 3).** For a positive-definite symmetric 3×3 matrix the explicit
    factorisation succeeds with a positive diagonal and L·Lᵀ = R (all six entries of the lower
    triangle; the upper triangle of L is zero by construction, see `C02_chol_matrix`). -/
theorem C02_chol3_correct (r11 r21 r22 r31 r32 r33 : ℝ) (h : PosDef3 r11 r21 r22 r31 r32 r33) :
    ∃ l11 l21 l22 l31 l32 l33,
      chol3 r11 r21 r22 r31 r32 r33 = some (l11, l21, l22, l31, l32, l33) ∧
      0 < l11 ∧ 0 < l22 ∧ 0 < l33 ∧
      l11 * l11 = r11 ∧ l21 * l11 = r21 ∧ l21 * l21 + l22 * l22 = r22 ∧
      l31 * l11 = r31 ∧ l31 * l21 + l32 * l22 = r32 ∧ l31 * l31 + l32 * l32 + l33 * l33 = r33 := by
  have p1 : 0 < r11 := by
    have := h 1 0 0 (Or.inl one_ne_zero); simpa [qf3] using this
  obtain ⟨s1, hs1, h11⟩ : ∃ s1 : ℝ, 0 < s1 ∧ r11 = s1 * s1 :=
    ⟨Real.sqrt r11, Real.sqrt_pos.mpr p1, (Real.mul_self_sqrt p1.le).symm⟩
  subst h11
  obtain ⟨l21, h21⟩ : ∃ l21 : ℝ, r21 = l21 * s1 := ⟨r21 / s1, by field_simp⟩
  subst h21
  obtain ⟨l31, h31⟩ : ∃ l31 : ℝ, r31 = l31 * s1 := ⟨r31 / s1, by field_simp⟩
  subst h31
  obtain ⟨d2, h22⟩ : ∃ d2 : ℝ, r22 = l21 * l21 + d2 := ⟨r22 - l21 * l21, by ring⟩
  subst h22
  have p2 : 0 < d2 := by
    have := h (-l21 / s1) 1 0 (Or.inr (Or.inl one_ne_zero))
    rw [qf3_decomp2] at this
    have e : s1 * (-l21 / s1) + l21 * 1 = 0 := by field_simp; ring
    rw [e] at this; simpa using this
  obtain ⟨s2, hs2, hd2⟩ : ∃ s2 : ℝ, 0 < s2 ∧ d2 = s2 * s2 :=
    ⟨Real.sqrt d2, Real.sqrt_pos.mpr p2, (Real.mul_self_sqrt p2.le).symm⟩
  subst hd2
  obtain ⟨l32, h32⟩ : ∃ l32 : ℝ, r32 = l31 * l21 + l32 * s2 :=
    ⟨(r32 - l31 * l21) / s2, by field_simp; ring⟩
  subst h32
  obtain ⟨d3, h33⟩ : ∃ d3 : ℝ, r33 = l31 * l31 + l32 * l32 + d3 :=
    ⟨r33 - l31 * l31 - l32 * l32, by ring⟩
  subst h33
  have p3 : 0 < d3 := by
    have := h (-(l21 * (-l32 / s2) + l31) / s1) (-l32 / s2) 1 (Or.inr (Or.inr one_ne_zero))
    rw [qf3_decomp] at this
    have e1 : s2 * (-l32 / s2) + l32 * 1 = 0 := by field_simp; ring
    have e2 : s1 * (-(l21 * (-l32 / s2) + l31) / s1) + l21 * (-l32 / s2) + l31 * 1 = 0 := by
      field_simp; ring
    rw [e1, e2] at this; simpa using this
  obtain ⟨s3, hs3, hd3⟩ : ∃ s3 : ℝ, 0 < s3 ∧ d3 = s3 * s3 :=
    ⟨Real.sqrt d3, Real.sqrt_pos.mpr p3, (Real.mul_self_sqrt p3.le).symm⟩
  subst hd3
  exact ⟨s1, l21, s2, l31, l32, s3, chol3_of_factor s1 l21 s2 l31 l32 s3 hs1 hs2 hs3, hs1, hs2, hs3,
    rfl, rfl, rfl, rfl, rfl, rfl⟩

/-- whenever the 3×3 factorisation succeeds the matrix was positive definite -/
theorem chol3_some_posdef (r11 r21 r22 r31 r32 r33 : ℝ) (L : ℝ × ℝ × ℝ × ℝ × ℝ × ℝ)
    (h : chol3 r11 r21 r22 r31 r32 r33 = some L) : PosDef3 r11 r21 r22 r31 r32 r33 := by
  simp only [chol3, pivotOk_real, num_sqrt, num_div, num_sub, num_mul] at h
  by_cases p1 : 0 < r11
  · simp only [p1, decide_true, if_true] at h
    have hs1 : 0 < Real.sqrt r11 := Real.sqrt_pos.mpr p1
    have h11 : r11 = Real.sqrt r11 * Real.sqrt r11 := (Real.mul_self_sqrt p1.le).symm
    have h21 : r21 = r21 / Real.sqrt r11 * Real.sqrt r11 := by field_simp
    have h31 : r31 = r31 / Real.sqrt r11 * Real.sqrt r11 := by field_simp
    generalize Real.sqrt r11 = s1 at *
    generalize r21 / s1 = l21 at *
    generalize r31 / s1 = l31 at *
    by_cases p2 : 0 < r22 - l21 * l21
    · simp only [p2, decide_true, if_true] at h
      have hs2 : 0 < Real.sqrt (r22 - l21 * l21) := Real.sqrt_pos.mpr p2
      have h22 : r22 = l21 * l21 + Real.sqrt (r22 - l21 * l21) * Real.sqrt (r22 - l21 * l21) := by
        rw [Real.mul_self_sqrt p2.le]; ring
      have h32 : r32 = l31 * l21 + (r32 - l31 * l21) / Real.sqrt (r22 - l21 * l21)
          * Real.sqrt (r22 - l21 * l21) := by rw [div_mul_cancel₀ _ hs2.ne']; ring
      generalize Real.sqrt (r22 - l21 * l21) = s2 at *
      generalize (r32 - l31 * l21) / s2 = l32 at *
      by_cases p3 : 0 < r33 - l31 * l31 - l32 * l32
      · have h33 : r33 = l31 * l31 + l32 * l32 + (r33 - l31 * l31 - l32 * l32) := by ring
        generalize r33 - l31 * l31 - l32 * l32 = d3 at *
        intro x y z hxyz
        rw [h11, h21, h22, h31, h32, h33, qf3_decomp]
        have n1 : 0 ≤ (s1 * x + l21 * y + l31 * z) ^ 2 := sq_nonneg _
        have n2 : 0 ≤ (s2 * y + l32 * z) ^ 2 := sq_nonneg _
        have n3 : 0 ≤ d3 * z ^ 2 := by positivity
        by_cases hz : z = 0
        · subst hz
          by_cases hy : y = 0
          · subst hy
            have hx : x ≠ 0 := by
              rcases hxyz with hx | hy | hz
              · exact hx
              · exact absurd rfl hy
              · exact absurd rfl hz
            have : 0 < (s1 * x) ^ 2 := by positivity
            simpa using this
          · have : 0 < (s2 * y) ^ 2 := by positivity
            have e : (s2 * y + l32 * 0) ^ 2 = (s2 * y) ^ 2 := by ring
            rw [e]; linarith
        · have : 0 < d3 * z ^ 2 := by positivity
          linarith
      · simp [p3] at h
    · simp [p2] at h
  · simp [p1] at h

/-- **C02 (Cholesky, n = 3, not positive definite).** e.g. ρ = 0.9, 0.9, −0.9: `none`, so the
    documented fallback (identity factor + warning) applies. -/
theorem C02_chol3_none (r11 r21 r22 r31 r32 r33 : ℝ) (h : ¬ PosDef3 r11 r21 r22 r31 r32 r33) :
    chol3 r11 r21 r22 r31 r32 r33 = none := by
  cases hc : chol3 r11 r21 r22 r31 r32 r33 with
  | none => rfl
  | some L => exact absurd (chol3_some_posdef _ _ _ _ _ _ L hc) h

/-- non-vacuity: the identity is positive definite; ρ = (0.9, 0.9, −0.9) is not -/
example : PosDef3 1 0 1 0 0 1 := by
  intro x y z h
  simp only [qf3]
  rcases h with h | h | h
  · have : 0 < x ^ 2 := by positivity
    nlinarith [sq_nonneg y, sq_nonneg z]
  · have : 0 < y ^ 2 := by positivity
    nlinarith [sq_nonneg x, sq_nonneg z]
  · have : 0 < z ^ 2 := by positivity
    nlinarith [sq_nonneg x, sq_nonneg y]

theorem C02_witness_not_posdef : ¬ PosDef3 1 (9/10) 1 (-9/10) (9/10) 1 := by
  intro h
  have := h 1 (-1) 1 (Or.inl one_ne_zero)
  norm_num [qf3] at this

end QExPy

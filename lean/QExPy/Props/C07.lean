/-
  C07 — a fit result is self-consistent: function, residuals, chi-squared, correlations.

  The model functions are the *generated* `Gen.fitRule` (QExPy/Generated/Fitters.lean,
  regenerated from qexpy/fitting/utils.py: FITTERS on every run); the fit result is
  `Fit.FitResult` (QExPy/Model/Fit.lean).
-/
import QExPy.Lemmas.FitResult
import QExPy.Lemmas.FitSums
import QExPy.Lemmas.Session

namespace QExPy
open Fit Expr
set_option linter.unusedTactic false

/-- **C07 (polynomial model).** For every number of coefficients, the pre-set polynomial model
    applied to the coefficient list `cs` *in the order `numpy.polyfit` returns it* (highest
    power first) is the polynomial `Σ_k cs_k · x^(d−k)`, `d = |cs| − 1`.  The left-hand side is
    the generated term: it contains `cs.reverse` iff the Python source says `reversed(coeffs)`. -/
theorem C07_poly_model (env : Nat → ℝ) (x : Expr ℝ) (cs : List (Expr ℝ)) :
    eval env (Gen.fitRule .polynomial x cs)
      = ∑ k ∈ Finset.range cs.length,
          eval env (cs.getD k (Expr.const 0)) * (eval env x) ^ (cs.length - 1 - k) := by
  simp only [Gen.fitRule]
  refine eval_reduce1_horner env x _ ?_ cs
  intro a b
  simp [eval, Gen.op2, -mul_eq_mul_left_iff, -mul_eq_mul_right_iff]
  close_rule

/-- **C07 (linear model).** `fit_function(x) = a·x + b`, slope first. -/
theorem C07_lin (env : Nat → ℝ) (x a b : Expr ℝ) :
    eval env (Gen.fitRule .linear x [a, b]) = eval env a * eval env x + eval env b := by
  simp [Gen.fitRule, Expr.arg, eval, Gen.op2, -mul_eq_mul_left_iff, -mul_eq_mul_right_iff]
  close_rule

/-- **C07 (quadratic model).** `a·x² + b·x + c`, highest power first. -/
theorem C07_quad (env : Nat → ℝ) (x a b c : Expr ℝ) :
    eval env (Gen.fitRule .quadratic x [a, b, c])
      = eval env a * eval env x ^ 2 + eval env b * eval env x + eval env c := by
  simp [Gen.fitRule, Expr.arg, eval, Gen.op2, -mul_eq_mul_left_iff, -mul_eq_mul_right_iff]
  close_rule

/-- **C07 (exponential model).** `c·exp(−a·x)` with parameters (amplitude, decay constant). -/
theorem C07_expo (env : Nat → ℝ) (x c a : Expr ℝ) :
    eval env (Gen.fitRule .exponential x [c, a])
      = eval env c * Real.exp (-(eval env a * eval env x)) := by
  simp [Gen.fitRule, Expr.arg, eval, Gen.op2, Gen.op1, -mul_eq_mul_left_iff,
    -mul_eq_mul_right_iff]
  close_rule

/-- **C07 (Gaussian model).** `norm/sqrt(2π·std²) · exp(−(x−mean)²/(2·std²))` with parameters
    (normalization, mean, std) in this order. -/
theorem C07_gauss (env : Nat → ℝ) (x n mu sd : Expr ℝ) :
    eval env (Gen.fitRule .gaussian x [n, mu, sd])
      = eval env n / Real.sqrt (2 * Real.pi * eval env sd ^ 2)
        * Real.exp (-(eval env x - eval env mu) ^ 2 / (2 * eval env sd ^ 2)) := by
  simp [Gen.fitRule, Expr.arg, eval, Gen.op2, Gen.op1, -mul_eq_mul_left_iff,
    -mul_eq_mul_right_iff]
  close_rule

/-- **C07 (Gaussian model, both branches of the width).** The pre-set Gaussian depends on `std`
    only through `std²`: a width `sd'` with the opposite sign gives the same function, so
    `(norm, mean, −std)` is a parameter set in its own right (a fit started from a negative width
    returns one) and `fit_function` must be the SAME curve there.  Stated for the generated term:
    a rewrite that is equal only for `std > 0` (e.g. `sqrt(2π)·std` for `sqrt(2π·std²)`) makes
    this, like `C07_gauss`, unprovable. -/
theorem C07_gauss_even (env : Nat → ℝ) (x n mu sd sd' : Expr ℝ)
    (h : eval env sd' = -eval env sd) :
    eval env (Gen.fitRule .gaussian x [n, mu, sd'])
      = eval env (Gen.fitRule .gaussian x [n, mu, sd]) := by
  rw [C07_gauss, C07_gauss, h, neg_sq]

/-- non-vacuity of `C07_gauss_even`: the widths `2` and `−2` -/
example : eval (fun _ => (0:ℝ)) (Gen.fitRule .gaussian (Expr.const 1)
      [Expr.const 3, Expr.const 0, Expr.const (-2)])
    = eval (fun _ => (0:ℝ)) (Gen.fitRule .gaussian (Expr.const 1)
      [Expr.const 3, Expr.const 0, Expr.const 2]) :=
  C07_gauss_even _ _ _ _ _ _ (by simp [eval])

/-- non-vacuity / the documented example: coefficients `[3, 1]` (as `polyfit` returns them for
    y = 3x + 1) evaluate to 7 at x = 2 -/
example : eval (fun _ => (0:ℝ)) (Gen.fitRule .polynomial (Expr.const 2) [Expr.const 3, Expr.const 1])
    = 7 := by
  rw [C07_poly_model]
  simp [Finset.sum_range_succ, eval]
  norm_num

/-! ### the fit result -/

/-- **C07.** `fit_function(x)` (central value) is the fitted model evaluated at `x` with the
    returned parameters. -/
theorem C07_fit_value (r : FitResult ℝ) (x : ℝ) :
    (r.fitFunction x).1 = eval r.params (r.f (Expr.const x) ((List.range r.m).map Expr.var)) :=
  rfl

/-- **C07.** For the pre-set polynomial model with `m` coefficients (degree `m−1`, every
    degree): `fit_function(x) = Σ_k p_k · x^(m−1−k)`, `p` in the order `polyfit` returns. -/
theorem C07_fit_value_poly (m : Nat) (params : Nat → ℝ) (cov : Nat → Nat → ℝ) (x : ℝ) :
    ((⟨m, Gen.fitRule .polynomial, params, cov⟩ : FitResult ℝ).fitFunction x).1
      = ∑ k ∈ Finset.range m, params k * x ^ (m - 1 - k) := by
  rw [C07_fit_value, C07_poly_model]
  simp only [List.length_map, List.length_range]
  apply Finset.sum_congr rfl
  intro k hk
  rw [eval_vars_getD _ _ _ (Finset.mem_range.mp hk)]
  simp [eval]

/-- **C07 (the fitted function is the evaluated function).** The generated pre-set polynomial model at the parameters `p` is the design matrix
    applied to `p` — the function whose residuals `polyfit` minimises is the model function the
    fit result evaluates. -/
theorem C07_poly_design (d : Nat) (x p : Nat → ℝ) (i : Nat) :
    fval (modelExpr .polynomial (d + 1)) (d + 1) p (x i) = pred (d + 1) (design d x) p i := by
  rw [design_pred_eq]
  unfold fval modelExpr
  rw [C07_poly_model]
  simp only [List.length_map, List.length_range]
  apply Finset.sum_congr rfl
  intro k hk
  have hk' := Finset.mem_range.mp hk
  rw [eval_vars_getD _ _ _ hk']
  simp [eval, envOf, hk']

/-- **C07.** For the polynomial model the general objective is
    the linear least-squares objective, so `C06_wls_optimal` is about the function the fit result evaluates. -/
theorem C07_objective_poly (n d : Nat) (x y s p : Nat → ℝ) :
    objectiveNL (modelExpr .polynomial (d + 1)) n (d + 1) x y s p
      = objective n (d + 1) (design d x) s y p := by
  simp only [objectiveNL, objective, resid]
  congr 1
  funext i
  rw [C07_poly_design]

/-- **C07.** residual of a data point = `y − fit_function(x)`. -/
theorem C07_residual_def (r : FitResult ℝ) (pt : Pt ℝ) :
    r.residual pt = pt.y - (r.fitFunction pt.x).1 := rfl

/-- **C07.** chi-squared is the sum of `(residual/σ_y)²` over the points with `σ_y ≠ 0`. -/
theorem C07_chi2_def (r : FitResult ℝ) (d : List (Pt ℝ)) :
    r.chi2 d = ((d.filter fun pt => decide (pt.sy ≠ 0)).map fun pt =>
      ((pt.y - (r.fitFunction pt.x).1) / pt.sy) ^ 2).sum := by
  unfold FitResult.chi2
  rw [numSum_eq]
  congr 1
  have hf : (fun pt : Pt ℝ => !Num.isZero pt.sy) = fun pt => decide (pt.sy ≠ 0) := by
    funext pt; simp
  rw [hf]
  apply List.map_congr_left
  intro pt _
  simp [Num.sq, FitResult.residual, sq]

/-- **C07.** As uncertainties are never negative, "σ_y ≠ 0" is "σ_y > 0". -/
theorem C07_chi2_points (d : List (Pt ℝ)) (h : ∀ pt ∈ d, 0 ≤ pt.sy) :
    (d.filter fun pt => decide (pt.sy ≠ 0)) = d.filter fun pt => decide (0 < pt.sy) := by
  apply List.filter_congr
  intro pt hpt
  have := h pt hpt
  simp only [decide_eq_decide]
  constructor
  · intro hne; exact lt_of_le_of_ne this (Ne.symm hne)
  · intro hlt; exact ne_of_gt hlt

/-- **C07.** chi-squared is non-negative. -/
theorem C07_chi2_nonneg (r : FitResult ℝ) (d : List (Pt ℝ)) : 0 ≤ r.chi2 d := by
  rw [C07_chi2_def]
  apply List.sum_nonneg
  intro v hv
  obtain ⟨pt, _, rfl⟩ := List.mem_map.mp hv
  positivity

/-! ### one covariance matrix -/

/-- **C07.** The squared parameter uncertainty is the diagonal of the covariance. -/
theorem C07_perr_sq (r : FitResult ℝ) (k : Nat) (h : 0 ≤ r.cov k k) : r.perr k ^ 2 = r.cov k k := by
  simp [FitResult.perr, Real.sq_sqrt h]

/-- **C07.** The reported correlation matrix and the correlations registered between the
    parameter objects are the same function of the one covariance matrix. -/
theorem C07_corr_registered (r : FitResult ℝ) (i j : Nat) : r.corrMatrix i j = r.regCorr i j := rfl

/-- **C07.** unit diagonal of the correlation matrix -/
theorem C07_corr_diag (r : FitResult ℝ) (k : Nat) (h : 0 < r.cov k k) : r.corrMatrix k k = 1 := by
  simp only [FitResult.corrMatrix, num_div, num_mul, num_sqrt]
  rw [Real.mul_self_sqrt (le_of_lt h)]
  exact div_self (ne_of_gt h)

/-- **C07.** the correlation matrix is symmetric when the covariance is -/
theorem C07_corr_symm (r : FitResult ℝ) (hsym : ∀ i j, r.cov i j = r.cov j i) (i j : Nat) :
    r.corrMatrix i j = r.corrMatrix j i := by
  simp only [FitResult.corrMatrix, num_div, num_mul, num_sqrt]
  rw [hsym i j, mul_comm]

/-- **C07.** For a covariance whose 2×2 minors are positive semidefinite (`cov_ij² ≤ cov_ii·cov_jj`)
    every correlation lies in [−1, 1]: `set_covariance` (which rejects |ρ| > 1) accepts every
    entry of a genuine covariance matrix. -/
theorem C07_corr_bounded (r : FitResult ℝ) (i j : Nat) (hi : 0 < r.cov i i) (hj : 0 < r.cov j j)
    (hminor : r.cov i j ^ 2 ≤ r.cov i i * r.cov j j) : |r.regCorr i j| ≤ 1 := by
  simp only [FitResult.regCorr, FitResult.perr, num_div, num_mul, num_sqrt]
  have hpos : 0 < Real.sqrt (r.cov i i) * Real.sqrt (r.cov j j) :=
    mul_pos (Real.sqrt_pos.mpr hi) (Real.sqrt_pos.mpr hj)
  rw [abs_div, abs_of_pos hpos, div_le_one hpos]
  rw [← Real.sqrt_mul (le_of_lt hi)]
  apply Real.abs_le_sqrt
  exact hminor

/-- **C07 (covariance round trip).** The covariance the derivative method rebuilds from the
    parameter uncertainties `σ_i = sqrt(cov_ii)` and the registered correlations
    `ρ_ij = cov_ij/(σ_i σ_j)` is the fit covariance again. -/
theorem C07_cov_roundtrip (r : FitResult ℝ) (i j : Nat) (hi : 0 < r.cov i i)
    (hj : 0 < r.cov j j) : Cov r.perr r.regCorr i j = r.cov i j := by
  unfold Cov
  by_cases h : i = j
  · subst h
    simp [FitResult.perr, Real.sq_sqrt (le_of_lt hi)]
  · simp only [h, if_false, FitResult.regCorr, FitResult.perr, num_div, num_mul, num_sqrt]
    have h1 : Real.sqrt (r.cov i i) ≠ 0 := ne_of_gt (Real.sqrt_pos.mpr hi)
    have h2 : Real.sqrt (r.cov j j) ≠ 0 := ne_of_gt (Real.sqrt_pos.mpr hj)
    field_simp

/-- **C07 (uncertainty band).** The uncertainty of `fit_function(x)` is `sqrt(gᵀ Cov g)` with
    `g_k = ∂f/∂p_k` (`FitResult.grad`, the exact partial derivative by `C03_diff_correct`) and
    `Cov` the fit covariance — the parameter uncertainties and the registered correlations
    recombine to exactly that matrix (`C07_cov_roundtrip`).  Sum over the parameters the
    formula depends on. -/
theorem C07_band (r : FitResult ℝ) (x : ℝ) (hsym : ∀ i j, r.cov i j = r.cov j i)
    (hpos : ∀ k ∈ sources (r.funExpr (Expr.const x)), 0 < r.cov k k) :
    (r.fitFunction x).2
      = Real.sqrt (quadForm (r.grad x) r.cov (sources (r.funExpr (Expr.const x)))) := by
  unfold FitResult.fitFunction
  have hρ : ∀ i j, r.regCorr i j = r.regCorr j i := by
    intro i j
    simp only [FitResult.regCorr, num_div, num_mul]
    rw [hsym i j, mul_comm]
  rw [C01_error _ _ _ hρ]
  congr 1
  exact quadForm_congr _ _ _ _ (fun i hi j hj => C07_cov_roundtrip r i j (hpos i hi) (hpos j hj))

/-- **C07 (uncertainty band, all parameters).** With `m` parameters of positive variance and a
    model formula in those parameters only: `error² = Σ_{i<m} Σ_{j<m} g_i g_j Cov_ij`. -/
theorem C07_band_all (r : FitResult ℝ) (x : ℝ) (hsym : ∀ i j, r.cov i j = r.cov j i)
    (hpos : ∀ k < r.m, 0 < r.cov k k)
    (hsrc : ∀ k ∈ sources (r.funExpr (Expr.const x)), k < r.m)
    (hpsd : 0 ≤ ∑ i ∈ Finset.range r.m, ∑ j ∈ Finset.range r.m, r.grad x i * r.grad x j * r.cov i j) :
    (r.fitFunction x).2 ^ 2
      = ∑ i ∈ Finset.range r.m, ∑ j ∈ Finset.range r.m, r.grad x i * r.grad x j * r.cov i j := by
  rw [C07_band r x hsym (fun k hk => hpos k (hsrc k hk))]
  have hext := quadForm_extend (r.grad x) r.cov (sources (r.funExpr (Expr.const x)))
    (List.range r.m) (sources_nodup _) List.nodup_range
    (fun i hi => List.mem_range.mpr (hsrc i hi))
    (fun i _ hni => C03_not_mem r.params i _ hni)
  rw [hext, quadForm_finset _ _ _ List.nodup_range, List.toFinset_range]
  exact Real.sq_sqrt hpsd

/-- **C07.** `g_k` is the exact partial derivative of the model with respect to parameter `k`. -/
theorem C07_grad_exact (r : FitResult ℝ) (x : ℝ) (k : Nat)
    (h : InDom r.params (r.funExpr (Expr.const x))) :
    HasDerivAt (fun t => eval (Function.update r.params k t) (r.funExpr (Expr.const x)))
      (r.grad x k) (r.params k) :=
  C03_diff_correct r.params k _ h

/-- **C07 (uncertainty band of a polynomial fit, every degree).**
    `fit_function(x).error² = Σ_{i,j<m} g_i g_j Cov_ij`. -/
theorem C07_band_poly (m : Nat) (params : Nat → ℝ) (cov : Nat → Nat → ℝ) (x : ℝ)
    (hsym : ∀ i j, cov i j = cov j i) (hpos : ∀ k < m, 0 < cov k k) :
    let r : FitResult ℝ := ⟨m, Gen.fitRule .polynomial, params, cov⟩
    0 ≤ (∑ i ∈ Finset.range m, ∑ j ∈ Finset.range m, r.grad x i * r.grad x j * cov i j) →
    (r.fitFunction x).2 ^ 2
      = ∑ i ∈ Finset.range m, ∑ j ∈ Finset.range m, r.grad x i * r.grad x j * cov i j := by
  intro r hpsd
  exact C07_band_all r x hsym hpos (sources_poly m params cov x) hpsd

/-- **C07 (uncertainty band of every other pre-set model).** For the linear, quadratic,
    exponential and Gaussian models with their own number of parameters:
    `fit_function(x).error² = Σ_{i,j<m} g_i g_j Cov_ij`. -/
theorem C07_band_preset (model : FitModel) (hm : model ≠ .polynomial) (params : Nat → ℝ)
    (cov : Nat → Nat → ℝ) (x : ℝ) (hsym : ∀ i j, cov i j = cov j i)
    (hpos : ∀ k < Gen.fitFixedParams model, 0 < cov k k) :
    let m := Gen.fitFixedParams model
    let r : FitResult ℝ := ⟨m, Gen.fitRule model, params, cov⟩
    0 ≤ (∑ i ∈ Finset.range m, ∑ j ∈ Finset.range m, r.grad x i * r.grad x j * cov i j) →
    (r.fitFunction x).2 ^ 2
      = ∑ i ∈ Finset.range m, ∑ j ∈ Finset.range m, r.grad x i * r.grad x j * cov i j := by
  intro m r hpsd
  exact C07_band_all r x hsym hpos (sources_preset model hm params cov x) hpsd

/-- the defect that was repaired, pinned: folding the coefficients in reversed order evaluates
    `[3, 1]` (the line 3x + 1 as `polyfit` returns it) at x = 2 to 5, not 7 -/
theorem C07_reversed_fold_witness :
    eval (fun _ => (0:ℝ)) (Expr.reduce1 (fun acc item => Expr.bin .add (Expr.bin .mul acc (Expr.const 2)) item)
      ([Expr.const 3, Expr.const 1] : List (Expr ℝ)).reverse) = 5 := by
  simp [Expr.reduce1, eval, Gen.op2]
  norm_num

/-- non-vacuity of `C07_band_all`: a straight-line fit with slope 3 ± 1, intercept 1 ± 1,
    uncorrelated -/
example (x : ℝ) :
    let r : FitResult ℝ := ⟨2, Gen.fitRule .linear, fun k => if k = 0 then 3 else 1,
      fun i j => if i = j then 1 else 0⟩
    (∀ i j, r.cov i j = r.cov j i) ∧ (∀ k < r.m, 0 < r.cov k k) ∧
    (∀ k ∈ sources (r.funExpr (Expr.const x)), k < r.m) ∧
    0 ≤ ∑ i ∈ Finset.range r.m, ∑ j ∈ Finset.range r.m, r.grad x i * r.grad x j * r.cov i j := by
  refine ⟨?_, ?_, ?_, ?_⟩
  · intro i j; by_cases h : i = j <;> simp [h, eq_comm]
  · intro k _; simp
  · simp [FitResult.funExpr, Gen.fitRule, Expr.arg, sources, List.range_succ, List.eraseDups_cons]
  · apply Finset.sum_nonneg; intro i _
    apply Finset.sum_nonneg; intro j _
    by_cases h : i = j
    · subst h; simp; exact mul_self_nonneg _
    · simp [h]


/-! ### the session between the fit and the reads (Model/Session.lean) -/
section Session
open Session

/-- **C07 (one covariance, for as long as the session lasts — one request).** A request of the
    session that is not `reset_correlations` (a setting written, the configuration reset, unit
    definitions cleared or added, other objects made with covariances among themselves, a rejected
    request, a collector run) leaves the covariance record of every pair of objects that existed
    before it as it was. -/
theorem C07_session_step_invisible (s : State) (r : Req) (hr : r.forgets = false) (i j : Nat)
    (hi : i < s.next) (hj : j < s.next) :
    lookup (step s r) i j = lookup s i j ∧ s.next ≤ (step s r).next := by
  cases r with
  | newObjects n covs =>
    refine ⟨?_, by simp [step]⟩
    show Option.map _ ((covs.map (shift s.next) ++ s.reg).find? (keyMatch i j)) = _
    rw [List.find?_append, find_shift_none _ _ _ hi hj]
    simp [lookup]
  | resetCorrelations => simp [Req.forgets] at hr
  | _ => simp [step, lookup]

/-- **C07 (one covariance, for as long as the session lasts).** After every history of session
    requests without `reset_correlations` the register answers for the parameters of an earlier fit
    what it answered right after the fit: uncertainties, reported matrix and registered
    correlations keep coming from the one covariance. -/
theorem C07_session_invisible (rs : List Req) (hrs : ∀ r ∈ rs, r.forgets = false) (s : State)
    (i j : Nat) (hi : i < s.next) (hj : j < s.next) :
    lookup (run s rs) i j = lookup s i j := by
  induction rs generalizing s with
  | nil => rfl
  | cons r rs ih =>
    have h := C07_session_step_invisible s r (hrs r (by simp)) i j hi hj
    have h2 := ih (fun r' hr' => hrs r' (by simp [hr'])) (step s r) (by omega) (by omega)
    rw [show run s (r :: rs) = run (step s r) rs from rfl, h2, h.1]

/-- **C07 (the excluded request).** `reset_correlations` is the request that forgets: the guard of
    `C07_session_invisible` is needed. -/
theorem C07_session_reset_correlations_forgets (s : State) (i j : Nat) :
    lookup (step s .resetCorrelations) i j = none := by
  simp [step, lookup]

/-- non-vacuity: a history of every kind of request after a three-parameter fit -/
example : lookup (run (afterFit 3) [.setSetting "print_style" 2, .resetConfig, .newObjects 2 [((0, 1), 0)],
    .rejected, .clearUnits]) 0 2 = some 2 := by decide

end Session

end QExPy

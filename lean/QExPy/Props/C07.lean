/-
  C07 — a fit result is self-consistent.
-/
import QExPy.Real
import QExPy.Model.Fit
import QExPy.Props.C03

namespace QExPy
open Fit

end QExPy

/-
  C16 — Monte Carlo strategies report functions of the one retrievable sample set.

  Models: `ModeWalk` (QExPy/Model/ModeWalk.lean) and the settings machine `MCS`
  (QExPy/Model/MCSettings.lean) whose initial state is the generated defaults table
  (QExPy/Generated/MC.lean, regenerated from MonteCarloSettings.__init__ on every run).
-/
import QExPy.Real
import QExPy.Model.MCSettings
import QExPy.Lemmas.ModeWalk
import QExPy.Lemmas.MCWalk

namespace QExPy
open MCS ModeWalk

/-! ## the mode walk -/

/-- **C16 (fullest bin).** The reported value is the centre of the FIRST bin holding the
    maximum count. -/
theorem C16_argmax (n : List Nat) (hn : n ≠ []) (c : ℝ) :
    let imax := (modeWalk n c).1
    imax < n.length ∧ (∀ i, at' n i ≤ at' n imax) ∧ ∀ i, i < imax → at' n i < at' n imax := by
  simpa [modeWalk, walk] using argmax_spec n hn

theorem enoughAt_real (c : ℝ) (tot count : Nat) :
    enoughAt c tot count = true ↔ c * (tot : ℝ) ≤ (count : ℝ) := by
  simp [enoughAt, modeNotEnough_eq]

theorem enoughAt_real_false (c : ℝ) (tot count : Nat) :
    enoughAt c tot count = false ↔ (count : ℝ) < c * (tot : ℝ) := by
  simp [enoughAt, modeNotEnough_eq]

/-- **C16 (main, mode strategy).** For every count list and every confidence `c ∈ (0, 1]`, the
    number `k` of bin widths the walk reports is the LEAST `k` such that the bins within `k` of
    the fullest bin — positions beyond either end of the histogram contributing nothing — hold at
    least the fraction `c` of all samples. -/
theorem C16_walk_spec (n : List Nat) (hn : n ≠ []) (c : ℝ) (_hc0 : 0 < c) (hc1 : c ≤ 1) :
    let imax := (modeWalk n c).1
    let k := (modeWalk n c).2
    c * (total n : ℝ) ≤ (cover n imax k : ℝ) ∧
      ∀ j, j < k → (cover n imax j : ℝ) < c * (total n : ℝ) := by
  have him := (argmax_spec n hn).1
  have h := loop_spec n (argmax n) (enoughAt c (total n)) n.length 0
  rw [cover_zero n _ him] at h
  obtain ⟨_, _, h3, h4, h5⟩ := h
  simp only [modeWalk, walk]
  constructor
  · rcases h5 with h5 | h5 | h5
    · exact (enoughAt_real _ _ _).mp h5
    · rw [cover_all n _ _ h5]
      have : (0:ℝ) ≤ (total n : ℝ) := Nat.cast_nonneg _
      nlinarith
    · -- fuel exhausted: k = len, nothing can be left on either side
      have hg : canGrow n (argmax n) (loop n (argmax n) (enoughAt c (total n)) n.length 0
          (at' n (argmax n))).1 = false := by
        rw [h5]; simp [canGrow]; omega
      rw [cover_all n _ _ hg]
      have : (0:ℝ) ≤ (total n : ℝ) := Nat.cast_nonneg _
      nlinarith
  · intro j hj
    exact (enoughAt_real_false _ _ _).mp (h4 j (Nat.zero_le _) hj).1

/-- **C16 (walk stays inside).** The walk never steps past BOTH ends of the histogram: at the
    reported `k` (if any step was taken) at least one of the positions `imax − k`, `imax + k`
    is a bin, so `k ≤ max imax (len − 1 − imax) < len`; positions outside are never read
    (`stepAdd` guards both reads). -/
theorem C16_walk_edges (n : List Nat) (hn : n ≠ []) (c : ℝ) :
    let imax := (modeWalk n c).1
    let k := (modeWalk n c).2
    k = 0 ∨ k ≤ imax ∨ imax + k < n.length := by
  have him := (argmax_spec n hn).1
  have h := loop_spec n (argmax n) (enoughAt c (total n)) n.length 0
  rw [cover_zero n _ him] at h
  obtain ⟨_, _, _, h4, _⟩ := h
  simp only [modeWalk, walk]
  by_cases hk : (loop n (argmax n) (enoughAt c (total n)) n.length 0 (at' n (argmax n))).1 = 0
  · exact Or.inl hk
  · right
    have := (h4 ((loop n (argmax n) (enoughAt c (total n)) n.length 0 (at' n (argmax n))).1 - 1)
      (Nat.zero_le _) (by omega)).2
    simp [canGrow] at this
    omega

/-- **C16 (reported pair of the mode strategy).** value = centre of bin `imax`,
    error = `k` bin widths, and the error is never negative for ascending edges. -/
theorem C16_mode_result (n : List Nat) (edges : List ℝ) (c : ℝ) :
    let e := fun i => edges.getD i 0
    (modeResult n edges c).1 = (e (modeWalk n c).1 + e ((modeWalk n c).1 + 1)) / 2 ∧
    (modeResult n edges c).2 = ((modeWalk n c).2 : ℝ) * ((e (edges.length - 1) - e 0) / (n.length : ℝ)) := by
  simp [modeResult, modeValue_eq, modeError_eq]

theorem C16_error_nonneg (n : List Nat) (edges : List ℝ) (c : ℝ)
    (h : edges.getD 0 0 ≤ edges.getD (edges.length - 1) 0) :
    0 ≤ (modeResult n edges c).2 := by
  rw [(C16_mode_result n edges c).2]
  apply mul_nonneg (Nat.cast_nonneg _)
  apply div_nonneg _ (Nat.cast_nonneg _)
  linarith

/-- non-vacuity and the recorded witness (DESIGN §9): counts `[0]*95+[5,5,10,30,50]`… here the
    short analogue `[0,0,5,5,10,30,50]` at confidence 9/10: mode in the last bin, k = 2 steps, the
    positions beyond the right end contribute nothing. -/
example : walk [0, 0, 5, 5, 10, 30, 50] (fun count => decide (90 ≤ count)) = (6, 2) := by decide

example : ([0, 0, 5, 5, 10, 30, 50] : List Nat) ≠ [] ∧ (0:ℝ) < 9/10 ∧ (9/10:ℝ) ≤ 1 := by
  refine ⟨by simp, by norm_num, by norm_num⟩

/-! ## the settings machine -/

/-- **C16 (initial state).** The defaults dict of `MonteCarloSettings.__init__`, as regenerated
    from the source: follow the global size, mean-and-std strategy, confidence in (0, 1], no
    range; nothing simulated or cached. -/
theorem C16_init_generated (g : Nat) :
    let s : St ℝ := MCS.init g
    s.size = 0 ∧ s.strategy = .meanStd ∧ 0 < s.conf ∧ s.conf ≤ 1 ∧ s.range = none ∧
      s.sim = none ∧ s.cMean = none ∧ s.cMode = none ∧ s.cCustom = none ∧ s.global = g := by
  simp only [MCS.init, Gen.mcInitSize, Gen.mcInitStrategy, Gen.mcInitConf, Gen.mcInitConfNum,
    Gen.mcInitConfDen, num_div, num_ofNat]
  refine ⟨trivial, trivial, ?_, ?_, trivial, trivial, trivial, trivial, trivial, trivial⟩ <;> norm_num

/-- every cached entry equals recomputation from the CURRENT samples and settings -/
def Coherent (w : World ℝ) (s : St ℝ) : Prop :=
  (∀ p, s.cMean = some p → ∃ id, s.sim = some id ∧ p = meanOf w s.range id) ∧
  (∀ p, s.cMode = some p → ∃ id, s.sim = some id ∧ p = modeOf w s.conf id) ∧
  (s.cCustom.isSome → s.sim.isSome)

theorem coherent_ensure (w : World ℝ) (s : St ℝ) (h : Coherent w s) : Coherent w (ensure s) := by
  unfold ensure
  cases hs : s.sim with
  | some id => simpa [hs] using h
  | none =>
    obtain ⟨h1, h2, h3⟩ := h
    have c1 : s.cMean = none := by
      cases hc : s.cMean with
      | none => rfl
      | some p => obtain ⟨id, hid, _⟩ := h1 p hc; simp [hs] at hid
    have c2 : s.cMode = none := by
      cases hc : s.cMode with
      | none => rfl
      | some p => obtain ⟨id, hid, _⟩ := h2 p hc; simp [hs] at hid
    refine ⟨?_, ?_, ?_⟩ <;> simp [c1, c2]

theorem ensure_sim_isSome (s : St ℝ) : (ensure s).sim.isSome := by
  unfold ensure
  cases hs : s.sim <;> simp [hs]

theorem coherent_clear (w : World ℝ) (s : St ℝ) : Coherent w (clear s) := by
  refine ⟨?_, ?_, ?_⟩ <;> simp [clear]

theorem coherent_setConf' (w : World ℝ) (s : St ℝ) (c : ℝ) (h : Coherent w s) :
    Coherent w (setConf' s c).1 := by
  unfold setConf'
  split
  · exact h
  · obtain ⟨h1, h2, h3⟩ := h
    exact ⟨h1, by simp, h3⟩

theorem coherent_evalCore (w : World ℝ) (t : St ℝ) (id : Nat) (hid : t.sim = some id)
    (h : Coherent w t) : Coherent w (evalCore w t id).1 := by
  obtain ⟨size, strategy, conf, range, sim, next, cMean, cMode, cCustom, glob, log⟩ := t
  simp only at hid
  subst hid
  obtain ⟨h1, h2, h3⟩ := h
  simp only at h1 h2 h3
  cases strategy <;> cases cCustom <;> cases cMean <;> cases cMode <;>
    simp_all [evalCore, Coherent]

theorem coherent_evaluate (w : World ℝ) (s : St ℝ) (h : Coherent w s) :
    Coherent w (evaluate w s).1 := by
  have he := coherent_ensure w s h
  obtain ⟨id, hid⟩ := Option.isSome_iff_exists.mp (ensure_sim_isSome s)
  simp only [evaluate, hid, Option.getD_some]
  exact coherent_evalCore w _ id hid he

/-- **C16 (cache coherence, one step).** Whatever the operation, every cached result still
    equals recomputation from the current samples and settings afterwards. -/
theorem C16_cache_coherent_step (w : World ℝ) (s : St ℝ) (o : Op ℝ) (h : Coherent w s) :
    Coherent w (step w s o).1 := by
  have he := coherent_ensure w s h
  have hsome := ensure_sim_isSome s
  cases o with
  | setSize k =>
    simp only [step]
    split
    · exact he
    · exact coherent_clear w _
  | resetSize => exact he
  | setConf c => exact coherent_setConf' w _ c he
  | setRange r =>
    simp only [step]
    cases r with
    | none => exact ⟨by simp, by simp, by simp⟩
    | some r =>
      obtain ⟨lo, hi⟩ := r
      simp only []
      split
      · exact he
      · exact ⟨by simp, by simp, by simp⟩
  | useMode c =>
    have hm : Coherent w { ensure s with strategy := .mode } := he
    simp only [step]
    cases c with
    | none => exact hm
    | some c =>
      simp only []
      split
      · exact hm
      · have hc := coherent_setConf' w _ c he
        split
        · rename_i s' heq
          rw [heq] at hc
          exact hc
        · exact hc
  | useMean => exact he
  | useCustom v e =>
    simp only [step]
    split
    · exact he
    · obtain ⟨h1, h2, _⟩ := he
      exact ⟨h1, h2, fun _ => hsome⟩
  | read => exact coherent_evaluate w s h
  | samples => exact he
  | recalc => exact coherent_clear w s
  | setGlobal g => exact h
  | display b r => exact he
  | bystander => exact h

/-- **C16 (cache coherence, all histories).** From a fresh quantity, after ANY sequence of
    strategy / confidence / range / sample-size changes, custom values, reads and
    recalculations, every cached result equals recomputation from the current samples and
    settings. -/
theorem C16_cache_coherent (w : World ℝ) (g : Nat) (ops : List (Op ℝ)) :
    Coherent w (run w (MCS.init g) ops) := by
  have h0 : Coherent w (MCS.init g : St ℝ) :=
    ⟨by simp [MCS.init], by simp [MCS.init], by simp [MCS.init]⟩
  generalize (MCS.init g : St ℝ) = s at h0
  induction ops generalizing s with
  | nil => exact h0
  | cons o os ih => exact ih _ (C16_cache_coherent_step w s o h0)

/-- what a read must return: a function of (strategy, confidence, range, current samples, custom) -/
noncomputable def readSpec (w : World ℝ) (s : St ℝ) (id : Nat) : ℝ × ℝ :=
  match s.strategy, s.cCustom with
  | .custom, some p => p
  | .custom, none => meanOf w s.range id
  | .meanStd, _ => meanOf w s.range id
  | .mode, _ => modeOf w s.conf id

/-- **C16 (read).** In a coherent state a read returns exactly `readSpec` of the stored
    simulation (drawn now if there was none): mean / n−1 standard deviation of the samples inside
    the range, or the mode walk at the current confidence, or the custom pair. -/
theorem C16_read_spec (w : World ℝ) (s : St ℝ) (h : Coherent w s) :
    ∃ id, (ensure s).sim = some id ∧
      (step w s Op.read).2 = Out.pair (readSpec w (ensure s) id).1 (readSpec w (ensure s) id).2 := by
  have he := coherent_ensure w s h
  obtain ⟨id, hid⟩ := Option.isSome_iff_exists.mp (ensure_sim_isSome s)
  refine ⟨id, hid, ?_⟩
  simp only [step, evaluate, hid, Option.getD_some]
  generalize ensure s = t at he hid
  obtain ⟨size, strategy, conf, range, sim, next, cMean, cMode, cCustom, glob, log⟩ := t
  simp only at hid
  subst hid
  obtain ⟨h1, h2, h3⟩ := he
  simp only at h1 h2 h3
  cases strategy <;> cases cCustom <;> cases cMean <;> cases cMode <;>
    simp_all [evalCore, readSpec]

/-- **C16 (read after any history).** After ANY history from a fresh quantity, a read returns
    `readSpec` of the settings and the samples the user can retrieve at that moment. -/
theorem C16_read_after_history (w : World ℝ) (g : Nat) (ops : List (Op ℝ)) :
    let s := run w (MCS.init g) ops
    ∃ id, (ensure s).sim = some id ∧ (step w (ensure s) Op.samples).2 = Out.sampleSet id ∧
      (step w s Op.read).2 = Out.pair (readSpec w (ensure s) id).1 (readSpec w (ensure s) id).2 := by
  intro s
  obtain ⟨id, hid, hr⟩ := C16_read_spec w s (C16_cache_coherent w g ops)
  refine ⟨id, hid, ?_, hr⟩
  have hidem : ∀ t : St ℝ, t.sim = some id → ensure t = t := by
    intro t ht; simp [ensure, ht]
  simp only [step, hidem _ hid, hid, Option.getD_some]

/-- the operations that must keep the simulation -/
def keepsSim : Op ℝ → Prop
  | .setSize k => k < 0          -- a rejected request changes nothing
  | .recalc => False
  | _ => True

/-- **C16 (one sample set).** Changing confidence, range or strategy, setting a custom pair,
    reading, retrieving the samples, `reset_sample_size()` and a change of the global size all
    keep the stored simulation; assigning a sample size and recalculation drop it (the next
    access draws a new one, with a new id). -/
theorem C16_sim_changes_only (w : World ℝ) (s : St ℝ) (o : Op ℝ) (id : Nat) (hs : s.sim = some id) :
    (keepsSim o → (step w s o).1.sim = some id) ∧
    (¬ keepsSim o → (step w s o).1.sim = none) := by
  have he : ensure s = s := by simp [ensure, hs]
  cases o with
  | setSize k =>
    by_cases hk : k < 0 <;> simp [keepsSim, step, he, hs, hk, clear]
  | resetSize => simp [keepsSim, step, he, hs]
  | setConf c =>
    simp only [keepsSim, step, he, setConf']
    split <;> simp [hs]
  | setRange r =>
    simp only [keepsSim, step, he]
    cases r with
    | none => simp [hs]
    | some r =>
      obtain ⟨lo, hi⟩ := r
      simp only []
      split <;> simp [hs]
  | useMode c =>
    simp only [keepsSim, step, he, setConf']
    cases c with
    | none => simp [hs]
    | some c =>
      simp only []
      split
      · simp [hs]
      · by_cases hv : 1 < c ∨ c < 0 <;> simp [mcConfBad_iff, hv, hs]
  | useMean => simp [keepsSim, step, he, hs]
  | useCustom v e =>
    simp only [keepsSim, step, he]
    split <;> simp [hs]
  | read =>
    simp only [keepsSim, step, evaluate, he, hs, Option.getD_some]
    refine ⟨fun _ => ?_, fun h => absurd trivial h⟩
    obtain ⟨size, strategy, conf, range, sim, next, cMean, cMode, cCustom, glob, log⟩ := s
    simp only at hs
    subst hs
    cases strategy <;> cases cCustom <;> simp [evalCore]
  | samples => simp [keepsSim, step, he, hs]
  | recalc => simp [keepsSim, step, clear]
  | setGlobal g => simp [keepsSim, step, hs]
  | display b r => simp [keepsSim, step, he, hs]
  | bystander => simp [keepsSim, step, hs]

/-- **C16 (a rejected request changes nothing).** When the library raises `ValueError` (negative
    sample size, confidence outside [0, 1], inverted range, negative custom uncertainty, mode
    strategy requested with an invalid confidence) the settings, the strategy, the stored
    simulation and every cached result are exactly what they were once the `d.mc` access had made
    sure a simulation exists — in particular the next read reports what it reported before. -/
theorem C16_rejected_unchanged (w : World ℝ) (s : St ℝ) (o : Op ℝ)
    (hr : (step w s o).2 = .rejected) : (step w s o).1 = ensure s := by
  cases o with
  | setSize k =>
    simp only [step] at hr ⊢
    split at hr
    · simp [*]
    · cases hr
  | resetSize => simp [step] at hr
  | setConf c =>
    simp only [step, setConf'] at hr ⊢
    by_cases hv : 1 < c ∨ c < 0
    · simp [mcConfBad_iff, hv]
    · simp [mcConfBad_iff, hv] at hr
  | setRange r =>
    cases r with
    | none => simp [step] at hr
    | some r =>
      obtain ⟨lo, hi⟩ := r
      simp only [step] at hr ⊢
      split at hr
      · simp [*]
      · cases hr
  | useMode c =>
    cases c with
    | none => simp [step] at hr
    | some c =>
      simp only [step, setConf'] at hr ⊢
      by_cases hz : Num.isZero c = true
      · simp [hz] at hr
      · by_cases hv : 1 < c ∨ c < 0
        · simp [mcConfBad_iff, hz, hv]
        · simp [mcConfBad_iff, hz, hv] at hr
  | useMean => simp [step] at hr
  | useCustom v e =>
    simp only [step] at hr ⊢
    by_cases hv : e < 0
    · simp [mcCustomBad_eq, hv]
    · simp [mcCustomBad_eq, hv] at hr
  | read =>
    simp only [step, evaluate] at hr
    generalize ensure s = t at hr
    obtain ⟨size, strategy, conf, range, sim, next, cMean, cMode, cCustom, glob, log⟩ := t
    cases strategy <;> cases cCustom <;> simp [evalCore] at hr
  | samples => simp [step] at hr
  | recalc => simp [step] at hr
  | setGlobal g => simp [step] at hr
  | display b r => simp [step] at hr
  | bystander => simp [step] at hr

/-- a dropped simulation is replaced by one with a NEW id -/
theorem C16_new_sim_is_new (s : St ℝ) (hs : s.sim = none) :
    (ensure s).sim = some s.next ∧ (ensure s).next = s.next + 1 ∧
      (ensure s).log = s.log ++ [MC.sampleSize s.size s.global] := by
  simp [ensure, hs, effSize]

/-- **C16 (mean/std uses exactly the samples inside the range).** -/
theorem C16_mean_std_range (w : World ℝ) (lo hi : ℝ) (id : Nat) :
    meanOf w (some (lo, hi)) id = MC.meanStd ((w.samples id).filter fun x => decide (lo ≤ x ∧ x ≤ hi)) ∧
    meanOf w none id = MC.meanStd (w.samples id) ∧
    ∀ x, x ∈ inRange (some (lo, hi)) (w.samples id) ↔ x ∈ w.samples id ∧ lo ≤ x ∧ x ≤ hi := by
  refine ⟨?_, rfl, ?_⟩
  · simp only [meanOf, inRange]
    congr 1
    apply List.filter_congr
    intro x _
    rw [Bool.eq_iff_iff]
    simp [not_lt]
  · intro x
    simp [inRange, List.mem_filter]

/-- **C16 (custom pair verbatim).** After `use_custom_value_and_error(v, e)` with `e ≥ 0`, a read
    returns `(v, e)`, and keeps doing so across reads, sample retrievals and confidence changes. -/
theorem C16_custom (w : World ℝ) (s : St ℝ) (v e : ℝ) (he : 0 ≤ e) :
    let s1 := (step w s (.useCustom v e)).1
    (step w s1 .read).2 = Out.pair v e ∧
    (step w (step w s1 .read).1 .read).2 = Out.pair v e ∧
    ∀ c, (step w (step w s1 (.setConf c)).1 .read).2 = Out.pair v e := by
  obtain ⟨id, hid⟩ := Option.isSome_iff_exists.mp (ensure_sim_isSome s)
  have hlt : ¬ e < 0 := not_lt.mpr he
  simp only [step, hlt, mcCustomBad_eq, decide_false, Bool.false_eq_true, if_false]
  generalize ensure s = t at hid
  obtain ⟨size, strategy, conf, range, sim, next, cMean, cMode, cCustom, glob, log⟩ := t
  simp only at hid
  subst hid
  refine ⟨?_, ?_, ?_⟩
  · simp [evaluate, ensure, evalCore]
  · simp [evaluate, ensure, evalCore]
  · intro c
    simp only [setConf', ensure]
    split <;> simp [evaluate, ensure, evalCore]

/-! ## looking is not touching -/

theorem ensure_idem (s : St ℝ) : ensure (ensure s) = ensure s := by
  obtain ⟨id, hid⟩ := Option.isSome_iff_exists.mp (ensure_sim_isSome s)
  generalize ensure s = t at hid
  simp [ensure, hid]

/-- every operation starts by making sure a simulation exists (`d.mc` / `evaluate`), except the
    two that drop it or do not touch the quantity: on a state that already has one, `ensure` first
    makes no difference -/
theorem step_ensure (w : World ℝ) (s : St ℝ) (o : Op ℝ)
    (ho : o ≠ .recalc ∧ o ≠ .bystander ∧ ∀ g, o ≠ .setGlobal g) :
    step w (ensure s) o = step w s o := by
  cases o with
  | recalc => exact absurd rfl ho.1
  | bystander => exact absurd rfl ho.2.1
  | setGlobal g => exact absurd rfl (ho.2.2 g)
  | _ => simp [step, evaluate, ensure_idem]

/-- **C16 (a picture is not a result).** Displaying the histogram — with ANY number of bins and
    ANY display window, under any strategy, whether or not a result is buffered at that moment —
    stores nothing: the state afterwards is the state the `d.mc` access alone leaves (`ensure`), the
    simulation is the one `samples` returns, and the next read returns exactly what it would have
    returned without the display: `readSpec` of the settings and the retrievable samples (100 bins
    over all samples for the mode strategy — never the displayed histogram). -/
theorem C16_display_invisible (w : World ℝ) (s : St ℝ) (bins : Nat) (window : Option (ℝ × ℝ)) :
    (step w s (.display bins window)).1 = ensure s ∧
    (step w s (.display bins window)).2 = .ok ∧
    step w (step w s (.display bins window)).1 .read = step w s .read ∧
    (∀ o : Op ℝ, (o ≠ .recalc ∧ o ≠ .bystander ∧ ∀ g, o ≠ .setGlobal g) →
      step w (step w s (.display bins window)).1 o = step w s o) := by
  refine ⟨rfl, rfl, ?_, ?_⟩
  · simp [step, evaluate, ensure_idem]
  · intro o ho
    exact step_ensure w s o ho

/-- **C16 (read after a history with pictures).** After ANY history — pictures with any bin count
    and window included — followed by one more picture, a read returns `readSpec` of the settings
    and of the sample set the user can retrieve at that moment. -/
theorem C16_read_after_display (w : World ℝ) (g : Nat) (ops : List (Op ℝ)) (bins : Nat)
    (window : Option (ℝ × ℝ)) :
    let s := run w (MCS.init g) ops
    ∃ id, (ensure s).sim = some id ∧
      (step w (step w s (.display bins window)).1 Op.read).2 =
        Out.pair (readSpec w (ensure s) id).1 (readSpec w (ensure s) id).2 := by
  intro s
  obtain ⟨id, hid, _, hr⟩ := C16_read_after_history w g ops
  refine ⟨id, hid, ?_⟩
  rw [(C16_display_invisible w s bins window).2.2.1]
  exact hr

/-- **C16 (other objects).** What is done to other objects (a figure drawn, a fit, another
    quantity configured or simulated, a function run under a temporary sample size) leaves this
    quantity's settings, simulation, buffered results AND the configured global sample size as
    they were: the next simulation still has the per-quantity size if set, else that global size. -/
theorem C16_bystander_invisible (w : World ℝ) (s : St ℝ) :
    (step w s .bystander).1 = s ∧ effSize (step w s .bystander).1 = effSize s ∧
    ∀ o : Op ℝ, step w (step w s .bystander).1 o = step w s o := by
  refine ⟨rfl, rfl, fun o => rfl⟩

end QExPy

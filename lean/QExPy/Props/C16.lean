/-
  C16 — Monte Carlo strategies report functions of the one retrievable sample set.

  Models: `ModeWalk` (QExPy/Model/ModeWalk.lean) and the settings machine `MCS`
  (QExPy/Model/MCSettings.lean) whose initial state is the generated defaults table
  (QExPy/Generated/MC.lean, regenerated from MonteCarloSettings.__init__ on every run).
-/
import QExPy.Real
import QExPy.Model.MCSettings

namespace QExPy
open MCS

/-- **C16 (initial state).** The defaults dict of `MonteCarloSettings.__init__`, as regenerated
    from the source: follow the global size, mean-and-std strategy, confidence in (0, 1], no
    range; nothing simulated or cached. -/
theorem C16_init_generated (g : Nat) :
    let s : St ℝ := MCS.init g
    s.size = 0 ∧ s.strategy = .meanStd ∧ 0 < s.conf ∧ s.conf ≤ 1 ∧ s.range = none ∧
      s.sim = none ∧ s.cMean = none ∧ s.cMode = none ∧ s.cCustom = none ∧ s.global = g := by
  simp only [MCS.init, Gen.mcInitSize, Gen.mcInitStrategy, Gen.mcInitConf, Gen.mcInitConfNum,
    Gen.mcInitConfDen, num_div, num_ofNat]
  refine ⟨trivial, trivial, ?_, ?_, trivial, trivial, trivial, trivial, trivial, trivial⟩ <;> norm_num

end QExPy

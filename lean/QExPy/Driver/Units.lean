/- Units commands (C08, C12, C13, C18): `uparse`, `uprint`, `utree`, `udefs`, `usession`. -/
import QExPy.Driver.Json
import QExPy.Model.Units
import QExPy.Model.UnitParse
import QExPy.Model.UnitDefs
import QExPy.Model.UnitWritten
import QExPy.Model.ParseSession
namespace QExPy.Drv
open Lean QExPy QExPy.U

private def getRat (n d : Json) : R Rat := do
  let n ← n.getInt?
  let d ← d.getNat?
  if d = 0 then throw "zero denominator" else pure (mkRat n d)

/-- [[sym, num, den], ...] as a key-unique association list (later duplicates overwrite) -/
def getUnits (j : Json) : R Units := do
  let a ← getArr j
  let mut u : Units := []
  for e in a do
    let t ← getArr e
    let s ← getStr t[0]!
    let q ← getRat t[1]! t[2]!
    u := if hasKey u s.toList then u.map (fun (k, v) => if k = s.toList then (k, q) else (k, v))
         else u ++ [(s.toList, q)]
  pure u

def putRat (q : Rat) : List Json := [Json.num (JsonNumber.fromInt q.num), (q.den : Json)]

def putUnits (u : Units) : Json :=
  Json.arr (u.map fun (k, e) => Json.arr ((Json.str (String.ofList k) :: putRat e).toArray)).toArray

def putOptUnits (o : Option Units) : Json :=
  match o with
  | some u => obj [("ok", Json.bool true), ("units", putUnits u)]
  | none => obj [("ok", Json.bool false)]

/-- [[name, units], ...] applied in order with `define` -/
def getDefs (j : Json) : R Defs := do
  let a ← getArr j
  let mut d : Defs := []
  for e in a do
    let t ← getArr e
    let s ← getStr t[0]!
    let u ← getUnits t[1]!
    d := define d s.toList u
  pure d

/-- [["define", name, expr] | ["clear"], ...] : a define/clear history as the user typed it -/
def getReqs (j : Json) : R (List DefReq) := do
  (← getArr j).toList.mapM fun e => do
    let t ← getArr e
    match (← getStr t[0]!) with
    | "define" => pure (DefReq.define (← getStr t[1]!).toList (← getStr t[2]!).toList)
    | "clear" => pure DefReq.clear
    | k => throw s!"unknown request {k}"

/-- definitions of a command: `reqs` (history of requests, run by `runReqs`: rejected requests
    leave the definitions unchanged) or, when absent, `defs` (already parsed, all accepted) -/
def getDefsOrReqs (j : Json) : R Defs := do
  match j.getObjVal? "reqs" with
  | .ok r => pure (runReqs [] (← getReqs r))
  | .error _ => getDefs (fieldD j "defs" (Json.arr #[]))

/-- a formula as typed: `["leafw", s]` is a quantity created with the unit STRING `s` (parsed by
    the model's parser, as the constructor does), `["leaf", units]` one whose exponent map is
    given directly -/
private partial def getTree (j : Json) : R WTree := do
  let a ← getArr j
  let tag ← getStr a[0]!
  match tag with
  | "leaf" => do pure (WTree.leafU (← getUnits a[1]!))
  | "leafw" => do pure (WTree.leafS (← getStr a[1]!).toList)
  | "const" => pure WTree.const
  | "powc" => do
    let t ← getTree a[1]!
    let k ← getRat a[2]! a[3]!
    pure (WTree.powc t k)
  | "node" => do
    let op ← getStr a[1]!
    let args ← (← getArr a[2]!).toList.mapM getTree
    match args with
    | [x] => pure (WTree.un op x)
    | [x, y] => pure (WTree.bin op x y)
    | _ => throw "node arity"
  | t => throw s!"unknown tree tag {t}"

/-- {"cmd":"uparse","s":..} → model parse, reference-grammar parse, raw tokens accepted? -/
def cmdUParse (j : Json) : R Json := do
  let s ← getStr (← field j "s")
  let cs := s.toList
  pure (obj [("model", putOptUnits (parse cs)), ("ref", putOptUnits (refParse cs)),
    ("lex", Json.bool (rawTop cs).isSome)])

/-- {"cmd":"uprint","units":..,"frac":bool,"defs":[..] | "reqs":[..]} → printed string (the
    `unit` property) under the definitions given or left by the define/clear history `reqs`,
    what the model parser reads back from it -/
def cmdUPrint (j : Json) : R Json := do
  let u ← getUnits (← field j "units")
  let frac ← (← field j "frac").getBool?
  let defs ← getDefsOrReqs j
  if !smallDen u then throw "exponent denominator > 10"
  let s := unitProp defs frac u
  let back := if s.isEmpty then some [] else parse s
  pure (obj [("s", Json.str (String.ofList s)), ("back", putOptUnits back)])

/-- {"cmd":"utree","defs":[..] | "reqs":[..],"tree":..,"syms":[..]} → `_unit` of the result of
    the formula as typed (leaf unit strings parsed first: `unitOfW`), number of mismatch warnings, and the dimensional-analysis value `dimT` at every symbol of `syms` -/
def cmdUTree (j : Json) : R Json := do
  let defs ← getDefsOrReqs j
  let w ← getTree (← field j "tree")
  let syms ← (← getArr (fieldD j "syms" (Json.arr #[]))).toList.mapM getStr
  match w.read with
  | none => pure (obj [("ok", Json.bool false), ("unread", Json.bool true), ("dim", Json.arr #[])])
  | some t =>
  let dims := syms.map fun s =>
    Json.arr ((Json.str s :: putRat (dimT defs.reverse t s.toList)).toArray)
  let expanded (u : Units) := syms.map fun s =>
    Json.arr ((Json.str s :: putRat (dimU defs.reverse u s.toList)).toArray)
  match unitOfW defs w with
  | some (u, _, w) =>
    pure (obj [("ok", Json.bool true), ("units", putUnits u), ("warn", (w : Json)),
      ("expanded", Json.arr (expanded u).toArray), ("dim", Json.arr dims.toArray)])
  | none => pure (obj [("ok", Json.bool false), ("dim", Json.arr dims.toArray)])

/-- {"cmd":"udefs","reqs":[..]} → per request: accepted?; the definitions after the history -/
def cmdUDefs (j : Json) : R Json := do
  let reqs ← getReqs (← field j "reqs")
  let defs := runReqs [] reqs
  pure (obj [("accepted", Json.arr (reqs.map fun r => Json.bool r.accepted).toArray),
    ("defs", Json.arr (defs.map fun (n, u) =>
      Json.arr #[Json.str (String.ofList n), putUnits u]).toArray)])

/-- ["parse", s] | ["edit", h, "set", key, num, den] | ["edit", h, "pop", key] |
    ["edit", h, "clear"] | ["read", h] : one request of a parse session -/
def getPReq (j : Json) : R PReq := do
  let t ← getArr j
  match (← getStr t[0]!) with
  | "parse" => pure (PReq.parse (← getStr t[1]!).toList)
  | "read" => pure (PReq.read (← t[1]!.getNat?))
  | "edit" => do
    let h ← t[1]!.getNat?
    match (← getStr t[2]!) with
    | "set" => pure (PReq.edit h (Edit.set (← getStr t[3]!).toList (← getRat t[4]! t[5]!)))
    | "pop" => pure (PReq.edit h (Edit.pop (← getStr t[3]!).toList))
    | "clear" => pure (PReq.edit h Edit.clear)
    | k => throw s!"unknown edit {k}"
  | k => throw s!"unknown session request {k}"

/-- {"cmd":"usession","steps":[..]} → the reply of every request of the history (`runS`) -/
def cmdUSession (j : Json) : R Json := do
  let rs ← (← getArr (← field j "steps")).toList.mapM getPReq
  pure (obj [("replies", Json.arr ((runS [] rs).map putOptUnits).toArray)])

def unitsCmds : List (String × (Json → R Json)) :=
  [("uparse", cmdUParse), ("uprint", cmdUPrint), ("utree", cmdUTree), ("udefs", cmdUDefs),
   ("usession", cmdUSession)]

end QExPy.Drv

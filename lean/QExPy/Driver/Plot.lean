/- `plot` command (C19): render a plot specification with the model; numbers come back as FB
   (value, error bound) pairs. -/
import QExPy.Driver.Json
import QExPy.Driver.Expr
import QExPy.Model.Plot
import QExPy.Model.FitBase
import QExPy.Generated.Fitters
namespace QExPy.Drv
open Lean QExPy QExPy.Plot


def getRange (j : Json) : R (Option (FB × FB)) :=
  match j with
  | Json.null => pure none
  | _ => do
    let a ← getFList j
    match a with
    | [lo, hi] => pure (some (FB.exact lo, FB.exact hi))
    | _ => throw "range must be null or [lo, hi]"

def strD (j : Json) (k : String) : String :=
  match (fieldD j k (Json.str "")).getStr? with | .ok s => s | .error _ => ""

def getDataSet (j : Json) : R (DataSet FB) := do
  pure { xs := ← getFBList (← field j "xs"), ys := ← getFBList (← field j "ys"),
         xerr := ← getFBList (← field j "xerr"), yerr := ← getFBList (← field j "yerr"),
         range := ← getRange (fieldD j "range" Json.null),
         xname := strD j "xname", xunit := strD j "xunit", yname := strD j "yname",
         yunit := strD j "yunit", label := strD j "label" }

def getFunc (j : Json) : R (Func FB) := do
  -- a pre-set fit model is the GENERATED `Gen.fitRule` (variable 0 = x, 1..k = parameters);
  -- any other function arrives as expression nodes
  let e ← match fieldD j "model" Json.null with
    | Json.str name =>
      match FitModel.ofName? name with
      | some fm => do
        let k ← (← field j "k").getNat?
        pure (Gen.fitRule fm (Expr.var 0) ((List.range k).map fun i => Expr.var (i + 1)))
      | none => throw s!"unknown pre-set fit model {name}"
    | _ => do
      let nodes ← getArr (← field j "nodes")
      let root ← (← field j "root").getNat?
      let es ← buildExpr nodes
      match es[root]? with | some e => pure e | none => throw "bad root"
  let vals ← getFList (← field j "vals")
  let errs ← getFList (← field j "errs")
  let rhoJ ← getArr (fieldD j "rho" (Json.arr #[]))
  let rho ← rhoJ.toList.mapM fun r => do
    let a ← getArr r
    pure ((← a[0]!.getNat?), (← a[1]!.getNat?), (← getF a[2]!))
  let ρ : Nat → Nat → FB := fun i k =>
    match rho.find? (fun (a, b, _) => (a == i && b == k) || (a == k && b == i)) with
    | some (_, _, r) => FB.exact r
    | none => FB.exact 0.0
  pure { f := e, env := fun k => FB.exact (vals.getD k 0.0), σ := fun k => FB.exact (errs.getD k 0.0),
         ρ := ρ, range := ← getRange (fieldD j "range" Json.null),
         xname := strD j "xname", xunit := strD j "xunit", yname := strD j "yname",
         yunit := strD j "yunit", label := strD j "label" }

def getHist (j : Json) : R (Hist FB) := do
  let ss ← getFBList (← field j "samples")
  let b ← match fieldD j "edges" Json.null with
    | Json.null => do
      let n ← (← field j "bins").getNat?
      pure (Binning.count n (← getRange (fieldD j "range" Json.null)))
    | e => do pure (Binning.edges (← getFBList e))
  let w ← match fieldD j "weights" Json.null with
    | Json.null => pure none
    | wj => do pure (some (← getFBList wj))
  let dens := match (fieldD j "density" (Json.bool false)).getBool? with | .ok v => v | _ => false
  pure { samples := ss, binning := b, label := strD j "label", weights := w, density := dens }

def getObj (j : Json) : R (Obj FB) := do
  let t ← getStr (← field j "t")
  match t with
  | "dataset" => pure (.dataset (← getDataSet j))
  | "function" => pure (.function (← getFunc j))
  | "fit" => pure (.fit { fn := ← getFunc (← field j "fn"), data := ← getDataSet (← field j "data") })
  | "hist" => pure (.histogram (← getHist j))
  | t => throw s!"unknown object {t}"

def putFBs (l : List FB) : Json := Json.arr (l.map putFB).toArray
def axName : Ax → String | .main => "main" | .res => "res"

def putCmd : DrawCmd FB → Json
  | .points ax xs ys => obj [("c", "points"), ("ax", axName ax), ("xs", putFBs xs), ("ys", putFBs ys)]
  | .errorbars ax xs ys ye xe => obj [("c", "errorbars"), ("ax", axName ax), ("xs", putFBs xs),
      ("ys", putFBs ys), ("yerr", putFBs ye), ("xerr", putFBs xe)]
  | .curve xs ys => obj [("c", "curve"), ("xs", putFBs xs), ("ys", putFBs ys)]
  | .band xs lo hi => obj [("c", "band"), ("xs", putFBs xs), ("lo", putFBs lo), ("hi", putFBs hi)]
  | .bars hs es => obj [("c", "bars"), ("heights", putFBs hs), ("edges", putFBs es)]
  | .label w t => obj [("c", "label"), ("which", w), ("text", t)]
  | .legend ts => obj [("c", "legend"), ("texts", Json.arr (ts.map Json.str).toArray)]

/-- a sample so close to an interior edge that rounding of the edge decides its bin -/
def histAmbiguous (h : Hist FB) : Bool :=
  h.edges.any fun e => h.samples.any fun s =>
    (s.v - e.v).abs ≤ 8.0 * e.e + 1e-13 * e.v.abs && s.v != e.v

def cmdPlot (j : Json) : R Json := do
  let objsJ ← getArr (← field j "objs")
  let objs ← objsJ.toList.mapM getObj
  let b (k : String) : Bool := match (fieldD j k (Json.bool false)).getBool? with | .ok v => v | _ => false
  let xr ← getRange (fieldD j "xrange" Json.null)
  let p : Plot FB :=
    { objs := objs
      errorBars := b "errorBars"
      residuals := b "residuals"
      legend := b "legend"
      xname := strD j "xname"
      xunit := strD j "xunit"
      yname := strD j "yname"
      yunit := strD j "yunit"
      title := strD j "title"
      xrange := xr }
  let dom := match p.domain with
    | some (lo, hi) => Json.arr #[putFB lo, putFB hi]
    | none => Json.null
  let hists := objs.filterMap fun o => match o with
    | .histogram h => some (obj [
        ("counts", Json.arr ((Hist.counts h.samples h.edges).map fun (n : Nat) => (n : Json)).toArray),
        ("values", putFBs h.binValues), ("heights", putFBs h.returned.1),
        ("edges", putFBs h.returned.2), ("ambiguous", Json.bool (histAmbiguous h))])
    | _ => none
  pure (obj [("cmds", Json.arr (p.render.map putCmd).toArray), ("domain", dom),
    ("hists", Json.arr hists.toArray)])

def plotCmds : List (String × (Json → R Json)) := [("plot", cmdPlot)]

end QExPy.Drv

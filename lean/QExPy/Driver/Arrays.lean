/- `arr` command (C11): evaluate an array-level expression tree in the model; per element
   value/uncertainty through `Expr.propagate` with the FB error bound.  Units are not carried
   by the driver (υ := Unit): the unit strings are compared with the real scalar operation
   by the harness. -/
import QExPy.Driver.Json
import QExPy.Driver.Expr
import QExPy.Model.ArrayArith
namespace QExPy.Drv
open Lean QExPy QExPy.Arr

def unitU : UnitAlg FB Unit := ⟨(), fun _ _ => (), fun _ _ _ _ _ => ()⟩

private def kindName : Kind → String
  | .scalar => "scalar" | .list => "list" | .ndarray => "ndarray" | .marray => "marray"

def getOperand (es : Array (Expr FB)) (j : Json) : R (Operand FB Unit) := do
  let k ← getStr (← field j "k")
  let node (n : Json) : R (Expr FB) := do
    let i ← n.getNat?
    match es[i]? with
    | some e => pure e
    | none => throw s!"bad node reference {i}"
  match k with
  | "scalarNum" => pure (.scalarNum (FB.exact (← getF (← field j "c"))))
  | "quantity" => pure (.quantity (← node (← field j "n")) ())
  | "pair" => do
    match (← node (← field j "n")) with
    | .var i => pure (.pair i)
    | _ => throw "pair operand must reference a var node"
  | "listNum" => pure (.listNum ((← getFList (← field j "cs")).map FB.exact))
  | "ndarrayNum" => pure (.ndarrayNum ((← getFList (← field j "cs")).map FB.exact))
  | "marray" => do
    let ns ← getArr (← field j "ns")
    let l ← ns.toList.mapM node
    pure (.marray (l.map fun e => (e, ())))
  | k => throw s!"unknown operand kind {k}"

private partial def getTree (es : Array (Expr FB)) (j : Json) : R (ATree FB Unit) := do
  let a ← getArr j
  let tag ← getStr a[0]!
  match tag with
  | "leaf" => pure (.leaf ((← getOperand es a[1]!).toVal unitU))
  | "fn" => do
    let cls ← getStr a[1]!
    let nm ← getStr a[2]!
    let t ← getTree es a[3]!
    match cls with
    | "un" => match Op1.ofName? nm with
      | some o => pure (.fn (.un o) t)
      | none => throw s!"unknown op1 {nm}"
    | "deg" => match DegOp.ofName? nm with
      | some o => pure (.fn (.deg o) t)
      | none => throw s!"unknown degop {nm}"
    | c => throw s!"unknown fn class {c}"
  | "op" => do
    let nm ← getStr a[1]!
    match Op2.ofName? nm with
    | some o => pure (.op o (← getTree es a[2]!) (← getTree es a[3]!))
    | none => throw s!"unknown op2 {nm}"
  | "log2" => pure (.log2 (← getTree es a[1]!) (← getTree es a[2]!))
  | t => throw s!"unknown tree tag {t}"

def cmdArr (j : Json) : R Json := do
  let nodes ← getArr (← field j "nodes")
  let es ← buildExpr nodes
  let vals ← getFList (← field j "vals")
  let errs ← getFList (← field j "errs")
  let rhoJ ← getArr (fieldD j "rho" (Json.arr #[]))
  let rho ← rhoJ.toList.mapM fun r => do
    let a ← getArr r
    pure ((← a[0]!.getNat?), (← a[1]!.getNat?), (← getF a[2]!))
  let env : Nat → FB := fun i => FB.exact (vals.getD i 0.0)
  let σ : Nat → FB := fun i => FB.exact (errs.getD i 0.0)
  let ρ : Nat → Nat → FB := fun i k =>
    match rho.find? (fun (a, b, _) => (a == i && b == k) || (a == k && b == i)) with
    | some (_, _, r) => FB.exact r
    | none => FB.exact 0.0
  let tree ← getTree es (← field j "tree")
  let putSc (s : Sc FB Unit) : Json :=
    let (v, e) := s.valErr env σ ρ
    obj [("q", Json.bool (!s.isNum)), ("value", putFB v), ("error", putFB e)]
  match tree.eval unitU with
  | none => pure (obj [("reject", Json.bool true)])
  | some r =>
    -- the same tree written for the i-th elements individually (the statement's right-hand side)
    let n := r.elems.length
    let ats := (List.range n).map fun i =>
      match tree.at? unitU i with
      | some s => putSc s
      | none => Json.null
    pure (obj [("kind", Json.str (kindName r.kind)), ("len", (n : Json)),
      ("elems", Json.arr (r.elems.map putSc).toArray), ("at", Json.arr ats.toArray)])

def arraysCmds : List (String × (Json → R Json)) := [("arr", cmdArr)]

end QExPy.Drv

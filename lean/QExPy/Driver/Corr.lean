/- `c04` command: run a history of the correlation store model. -/
import QExPy.Driver.Json
import QExPy.Model.Corr
namespace QExPy.Drv
open Lean QExPy QExPy.Corr

def optF (j : Json) : R (Option FB) :=
  match j with
  | Json.null => pure none
  | v => do pure (some (FB.exact (← getF v)))

def parseQty (j : Json) : R (Qty FB) := do
  let kn ← getStr (← field j "kind")
  let k ← match Kind.ofName? kn with | some k => pure k | none => throw s!"kind {kn}"
  match k with
  | .single => pure ⟨k, FB.exact (← getF (← field j "std")), [], true⟩
  | .repeated =>
    let raw := (← getFList (← field j "raw")).map FB.exact
    let plain ← (fieldD j "plain" (Json.bool true)).getBool?
    pure ⟨k, Stats.std1 raw, raw, plain⟩
  | _ => pure ⟨k, FB.exact 0.0, [], true⟩

def parseWhich (s : String) : R Which :=
  match s with | "corr" => pure .corr | "cov" => pure .cov | _ => throw s!"which {s}"
def parseForm (s : String) : R Form :=
  match s with | "fn" => pure .fn | "meth" => pure .meth | _ => throw s!"form {s}"

def putOut : Out FB → Json
  | .ok => Json.str "ok"
  | .reject => Json.str "reject"
  | .num x => putFB x

/-- all reads `q.get_x(i, j)` over the quantities, both argument orders, i = j included -/
def snapshot (s : State FB) : Json :=
  let n := s.qs.length
  let idx := List.range n
  Json.arr (idx.map fun i => Json.arr (idx.map fun k =>
    Json.arr #[putOut (get s .corr .fn i k), putOut (get s .cov .fn i k)]).toArray).toArray

def cmdC04 (j : Json) : R Json := do
  let qs ← (← getArr (← field j "qs")).toList.mapM parseQty
  let ops ← getArr (← field j "ops")
  let mut s : State FB := ⟨qs, []⟩
  let mut outs : Array Json := #[]
  for o in ops do
    let a ← getArr o
    let tag ← getStr a[0]!
    match tag with
    | "snap" => outs := outs.push (snapshot s)
    -- harness-only requests: a quantity that is made later in the history (`new`; in the model the
    -- identity of a quantity is its index and all of `qs` exist from the start: before it is made no
    -- request names it and no read of it is compared) and re-seeding a random generator (`reseed`;
    -- the model has none).  Both leave the store as it is (`C04_unrecorded_zero`, `C04_get_pure`
    -- say what the later reads must be).
    | "new" | "reseed" => outs := outs.push (putOut (Out.ok (α := FB)))
    | "reset" =>
      let (s', r) := step s .reset
      s := s'; outs := outs.push (putOut r)
    | "setstd" =>
      let (s', r) := step s (.setStd (← a[1]!.getNat?) (FB.exact (← getF a[2]!)))
      s := s'; outs := outs.push (putOut r)
    | "set" =>
      let w ← parseWhich (← getStr a[1]!)
      let f ← parseForm (← getStr a[2]!)
      let (s', r) := step s (.set w f (← a[3]!.getNat?) (← a[4]!.getNat?) (← optF a[5]!))
      s := s'; outs := outs.push (putOut r)
    | "get" =>
      let w ← parseWhich (← getStr a[1]!)
      let f ← parseForm (← getStr a[2]!)
      let (s', r) := step s (.get w f (← a[3]!.getNat?) (← a[4]!.getNat?))
      s := s'; outs := outs.push (putOut r)
    | t => throw s!"unknown c04 op {t}"
  pure (obj [("outs", Json.arr outs),
             ("stds", Json.arr (s.qs.map fun q => putFB q.std).toArray),
             ("records", Json.num (JsonNumber.fromNat s.store.length))])

def corrCmds : List (String × (Json → R Json)) := [("c04", cmdC04)]

end QExPy.Drv

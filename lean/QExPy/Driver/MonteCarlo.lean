/- Monte Carlo commands (C02, C16): `mc`, `chol`, `modewalk`, `mchistory`, `mcinit`. -/
import QExPy.Driver.Json
import QExPy.Driver.Expr
import QExPy.Model.MonteCarlo
import QExPy.Model.ModeWalk
import QExPy.Model.MCSettings
namespace QExPy.Drv
open Lean QExPy

def getFBMat (j : Json) : R (List (List FB)) := do
  let a ← getArr j
  a.toList.mapM getFBList

def putFBList (l : List FB) : Json := Json.arr (l.map putFB).toArray

def putMat (m : List (List FB)) : Json := Json.arr (m.map putFBList).toArray

/-- `mc`: the whole pipeline given the offsets -/
def cmdMc (j : Json) : R Json := do
  let nodes ← getArr (← field j "nodes")
  let root ← (← field j "root").getNat?
  let es ← buildExpr nodes
  let e ← match es[root]? with | some e => pure e | none => throw "bad root"
  let vals ← getFList (← field j "vals")
  let errs ← getFList (← field j "errs")
  let order ← getNatList (← field j "order")
  let Rm ← getFBMat (← field j "R")
  let Z ← getFBMat (← field j "Z")
  let per ← (fieldD j "per" (0 : Nat)).getNat?
  let glob ← (fieldD j "global" (0 : Nat)).getNat?
  let μ : Nat → FB := fun i => FB.exact (vals.getD i 0.0)
  let σ : Nat → FB := fun i => FB.exact (errs.getD i 0.0)
  let r := MC.simulate e order μ σ Rm Z
  let (L, _) := MC.factor Rm
  pure (obj [("samples", putFBList r.samples), ("value", putFB r.value), ("error", putFB r.error),
    ("warned", Json.bool r.warned), ("raw", (r.raw : Json)),
    ("size", (MC.sampleSize per glob : Json)), ("L", putMat L),
    ("sources", Json.arr ((Expr.sources e).map (fun (n : Nat) => (n : Json))).toArray)])

/-- `chol`: numpy.linalg.cholesky on its own; also the general-n algorithm for cross-checking -/
def cmdChol (j : Json) : R Json := do
  let Rm ← getFBMat (← field j "R")
  let put (o : Option (List (List FB))) : Json :=
    match o with
    | some L => putMat L
    | none => Json.null
  pure (obj [("L", put (MC.chol Rm)), ("Lgen", put (MC.cholGen Rm)),
    ("offdiag0", Json.bool (MC.offDiagAllZero Rm)),
    ("warned", Json.bool (MC.factor Rm).2)])

/-- `modewalk`: find_mode_and_uncertainty on given counts / edges / confidence, plus the
    decidable spec predicate evaluated on an implementation answer `k_impl` (if given) -/
def cmdModeWalk (j : Json) : R Json := do
  let n ← getNatList (← field j "counts")
  let edges ← getFBList (← field j "edges")
  let conf ← getF (← field j "conf")
  let c : FB := FB.exact conf
  let (imax, k) := ModeWalk.modeWalk n c
  let (v, e) := ModeWalk.modeResult n edges c
  let tot := ModeWalk.total n
  let enough := ModeWalk.enoughAt c tot
  let specOf (kk : Nat) : Bool :=
    enough (ModeWalk.cover n imax kk) && (List.range kk).all fun i => !enough (ModeWalk.cover n imax i)
  let kimpl := (fieldD j "k_impl" Json.null).getNat?
  let specImpl : Json := match kimpl with
    | .ok kk => Json.bool (specOf kk)
    | .error _ => Json.null
  pure (obj [("imax", (imax : Json)), ("k", (k : Json)), ("value", putFB v), ("error", putFB e),
    ("total", (tot : Json)), ("cover", (ModeWalk.cover n imax k : Json)),
    ("spec_model", Json.bool (specOf k)), ("spec_impl", specImpl),
    ("hit_end", Json.bool (decide (imax < k) || decide (n.length ≤ imax + k)))])

private def getOp (j : Json) : R (MCS.Op FB) := do
  let a ← getArr j
  let tag ← getStr a[0]!
  let f (i : Nat) : R FB := do
    match a[i]? with
    | some x => pure (FB.exact (← getF x))
    | none => throw s!"missing argument {i} of {tag}"
  match tag with
  | "setSize" => do pure (.setSize (← a[1]!.getInt?))
  | "resetSize" => pure .resetSize
  | "setConf" => do pure (.setConf (← f 1))
  | "setRange" => if a.size ≥ 3 then do pure (.setRange (some ((← f 1), (← f 2)))) else pure (.setRange none)
  | "useMode" => if a.size ≥ 2 then do pure (.useMode (some (← f 1))) else pure (.useMode none)
  | "useMean" => pure .useMean
  | "useCustom" => do pure (.useCustom (← f 1) (← f 2))
  | "read" => pure .read
  | "samples" => pure .samples
  | "recalc" => pure .recalc
  | "setGlobal" => do pure (.setGlobal (← a[1]!.getNat?))
  | "display" =>
    let bins := match a[1]? with | some x => (x.getNat?.toOption.getD 100) | none => 100
    if a.size ≥ 4 then do pure (.display bins (some ((← f 2), (← f 3)))) else pure (.display bins none)
  | "bystander" => pure .bystander
  | t => throw s!"unknown op {t}"

def putOpt (o : Option (FB × FB)) : Json :=
  match o with
  | some (v, e) => Json.arr #[putFB v, putFB e]
  | none => Json.null

/-- `mchistory`: run the settings machine over a history.  `sims` maps a simulation id (decimal
    string) to its retrieved samples and their numpy histogram. -/
def cmdMcHistory (j : Json) : R Json := do
  let glob ← (← field j "global").getNat?
  let simsJ := fieldD j "sims" (Json.mkObj [])
  let simOf (id : Nat) : Option Json :=
    match simsJ.getObjVal? (toString id) with | .ok v => some v | .error _ => none
  -- decode all simulations once
  let ops ← (← getArr (← field j "ops")).toList.mapM getOp
  let maxId := ops.length + 2
  let mut table : Array (List FB × List Nat × List FB) := #[]
  for id in List.range maxId do
    match simOf id with
    | some s =>
      let smp ← getFBList (← field s "samples")
      let cnt ← getNatList (← field s "counts")
      let edg ← getFBList (← field s "edges")
      table := table.push (smp, cnt, edg)
    | none => table := table.push ([], [], [])
  let w : MCS.World FB :=
    { samples := fun id => (table.getD id ([], [], [])).1,
      hist := fun id => let t := table.getD id ([], [], []); (t.2.1, t.2.2) }
  let mut s : MCS.St FB := MCS.init glob
  let mut outs : Array Json := #[]
  for o in ops do
    let (s', out) := MCS.step w s o
    s := s'
    let oj : Json := match out with
      | .ok => obj [("out", "ok")]
      | .rejected => obj [("out", "rejected")]
      | .pair v e =>
        let walk : Json := match s.strategy, s.sim with
          | .mode, some id =>
            let (imax, k) := ModeWalk.modeWalk (w.hist id).1 s.conf
            let len := (w.hist id).1.length
            obj [("imax", (imax : Json)), ("k", (k : Json)),
              ("hit_end", Json.bool (decide (imax < k) || decide (len ≤ imax + k)))]
          | _, _ => Json.null
        obj [("out", "pair"), ("value", putFB v), ("error", putFB e), ("walk", walk)]
      | .sampleSet id => obj [("out", "samples"), ("id", (id : Json))]
    let st : Json := obj [("size", (s.size : Json)), ("strategy", (s.strategy.name : Json)),
      ("conf", putF s.conf.v), ("hasRange", Json.bool s.range.isSome),
      ("sim", match s.sim with | some id => (id : Json) | none => Json.null),
      ("drawn", (s.next : Json)), ("eff", (MCS.effSize s : Json)),
      ("cMean", Json.bool s.cMean.isSome), ("cMode", Json.bool s.cMode.isSome),
      ("cCustom", Json.bool s.cCustom.isSome)]
    outs := outs.push (oj.setObjVal! "st" st)
  pure (obj [("steps", Json.arr outs), ("log", Json.arr (s.log.map (fun (n : Nat) => (n : Json))).toArray)])

/-- `mcinit`: the generated defaults (what a fresh `d.mc` must show) -/
def cmdMcInit (_ : Json) : R Json := do
  let s : MCS.St FB := MCS.init 0
  pure (obj [("size", (s.size : Json)), ("strategy", (s.strategy.name : Json)),
    ("strategyText", (Gen.mcInitStrategyText : Json)), ("conf", putF s.conf.v),
    ("rangeEmpty", Json.bool Gen.mcInitRangeEmpty),
    ("tieBroken", Json.arr (Gen.mcTieBroken.map (fun (s : String) => (s : Json))).toArray)])

def mcCmds : List (String × (Json → R Json)) :=
  [("mc", cmdMc), ("chol", cmdChol), ("modewalk", cmdModeWalk), ("mchistory", cmdMcHistory),
   ("mcinit", cmdMcInit)]

end QExPy.Drv

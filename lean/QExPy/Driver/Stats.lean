/- `c10` command: statistics of a reading array, selector trace, downstream use, inferred covariance. -/
import QExPy.Driver.Json
import QExPy.Model.Stats
import QExPy.Model.Downstream
namespace QExPy.Drv
open Lean QExPy

def optFBList (j : Json) (k : String) : R (Option (List FB)) :=
  match j.getObjVal? k with
  | .ok Json.null => pure none
  | .ok v => do pure (some (← getFBList v))
  | .error _ => pure none

/-- `k * a + c` propagated by the derivative method from the (value, error) in use -/
def downstream (k c : FB) (r : Stats.Rep FB) : FB × FB := Stats.downstream k c r.value r.error

def cmdC10 (j : Json) : R Json := do
  let xs ← getFBList (← field j "xs")
  let esO ← optFBList j "es"
  let es := esO.getD (xs.map fun _ => FB.exact 0.0)
  let selNames ← (← getArr (fieldD j "sels" (Json.arr #[]))).toList.mapM getStr
  let sels ← selNames.mapM fun s => match Stats.Sel.ofName? s with
    | some x => pure x
    | none => throw s!"unknown selector {s}"
  let k := FB.exact (← getF (fieldD j "k" (putF 1.0)))
  let c := FB.exact (← getF (fieldD j "c" (putF 0.0)))
  let r0 := Stats.Rep.init xs es
  -- states after 0, 1, 2, … selectors
  let states := (sels.foldl (fun (acc : List (Stats.Rep FB) × Stats.Rep FB) s =>
      let r := Stats.Rep.step acc.2 s
      (acc.1 ++ [r], r)) ([r0], r0)).1
  let hz := Stats.hasZero es
  let base : List (String × Json) := [
    ("mean", putFB (Stats.mean xs)), ("std", putFB (Stats.std1 xs)), ("sem", putFB (Stats.sem xs)),
    ("haszero", Json.bool hz),
    ("wmean", if hz then Json.null else putFB (Stats.wmean xs es)),
    ("perr", if hz then Json.null else putFB (Stats.perr es)),
    ("trace", Json.arr (states.map fun r => Json.arr #[putFB r.value, putFB r.error]).toArray),
    ("down", Json.arr (states.map fun r =>
        let d := downstream k c r
        Json.arr #[putFB d.1, putFB d.2]).toArray),
    -- the later calculation written in terms of intermediate results made before the selector steps
    ("downvia", Json.arr (states.map fun r =>
        let d := Stats.downstreamVia k c r.value r.error
        Json.arr #[putFB d.1, putFB d.2]).toArray),
    ("downsq", Json.arr (states.map fun r =>
        let d := Stats.downstreamSq k r.value r.error
        Json.arr #[putFB d.1, putFB d.2]).toArray)]
  let extra ← match (← optFBList j "ys") with
    | none => pure []
    | some ys => pure [("cov", putFB (Stats.cov1 xs ys)), ("corr", putFB (Stats.corr xs ys)),
                       ("stdy", putFB (Stats.std1 ys))]
  pure (obj (base ++ extra))

/-- `c10pair`: two repeated measurements `a` (xs, es) and `b` (ys, fs), selector steps on either
    (`["a", sel]` / `["b", sel]`), a correlation factor (inferred = clipped normalised sample
    covariance, or an explicit number) that is in force from state `rho_from` on; after every step the
    pairs in use and the downstream formulas of all shapes -/
def cmdC10Pair (j : Json) : R Json := do
  let xs ← getFBList (← field j "xs")
  let ys ← getFBList (← field j "ys")
  let es := (← optFBList j "es").getD (xs.map fun _ => FB.exact 0.0)
  let fs := (← optFBList j "fs").getD (ys.map fun _ => FB.exact 0.0)
  let stepsJ ← getArr (fieldD j "steps" (Json.arr #[]))
  let steps ← stepsJ.toList.mapM fun st => do
    let a ← getArr st
    let who ← getStr a[0]!
    let nm ← getStr a[1]!
    match Stats.Sel.ofName? nm with
    | some x => pure (who == "a", x)
    | none => throw s!"unknown selector {nm}"
  let k1 := FB.exact (← getF (fieldD j "k1" (putF 1.0)))
  let k2 := FB.exact (← getF (fieldD j "k2" (putF 1.0)))
  let c := FB.exact (← getF (fieldD j "c" (putF 0.0)))
  let rhoMode ← getStr (fieldD j "rho_mode" (Json.str "none"))
  let rhoFrom ← (fieldD j "rho_from" (0 : Nat)).getNat?
  let one : FB := FB.exact 1.0
  let rho : FB ← match rhoMode with
    | "inferred" => pure (Stats.clip (Stats.corr xs ys) (Num.neg one) one)
    | "explicit" => do pure (FB.exact (← getF (← field j "rho")))
    | _ => pure (FB.exact 0.0)
  let a0 := Stats.Rep.init xs es
  let b0 := Stats.Rep.init ys fs
  let states := (steps.foldl (fun (acc : List (Stats.Rep FB × Stats.Rep FB) × (Stats.Rep FB × Stats.Rep FB)) st =>
      let (a, b) := acc.2
      let nxt := if st.1 then (Stats.Rep.step a st.2, b) else (a, Stats.Rep.step b st.2)
      (acc.1 ++ [nxt], nxt)) ([(a0, b0)], (a0, b0))).1
  let outStates := states.map fun (a, b) =>
    Json.arr #[putFB a.value, putFB a.error, putFB b.value, putFB b.error]
  let idx := List.range states.length
  let down := (states.zip idx).map fun ((a, b), i) =>
    let r := if i < rhoFrom then FB.exact 0.0 else rho
    obj (Stats.Shape2.all.map fun sh =>
      let d := Stats.downstream2 sh k1 k2 c a.value a.error b.value b.error r
      (sh.name, Json.arr #[putFB d.1, putFB d.2]))
  pure (obj [("states", Json.arr outStates.toArray), ("down", Json.arr down.toArray),
    ("rho", putFB rho), ("stdx", putFB (Stats.std1 xs)), ("stdy", putFB (Stats.std1 ys)),
    ("hasz_a", Json.bool (Stats.hasZero es)), ("hasz_b", Json.bool (Stats.hasZero fs))])

def statsCmds : List (String × (Json → R Json)) := [("c10", cmdC10), ("c10pair", cmdC10Pair)]

end QExPy.Drv

/- `c10` command: statistics of a reading array, selector trace, downstream use, inferred covariance. -/
import QExPy.Driver.Json
import QExPy.Model.Stats
import QExPy.Model.Downstream
namespace QExPy.Drv
open Lean QExPy

def optFBList (j : Json) (k : String) : R (Option (List FB)) :=
  match j.getObjVal? k with
  | .ok Json.null => pure none
  | .ok v => do pure (some (← getFBList v))
  | .error _ => pure none

/-- `k * a + c` propagated by the derivative method from the (value, error) in use -/
def downstream (k c : FB) (r : Stats.Rep FB) : FB × FB := Stats.downstream k c r.value r.error

def cmdC10 (j : Json) : R Json := do
  let xs ← getFBList (← field j "xs")
  let esO ← optFBList j "es"
  let es := esO.getD (xs.map fun _ => FB.exact 0.0)
  let selNames ← (← getArr (fieldD j "sels" (Json.arr #[]))).toList.mapM getStr
  let sels ← selNames.mapM fun s => match Stats.Sel.ofName? s with
    | some x => pure x
    | none => throw s!"unknown selector {s}"
  let k := FB.exact (← getF (fieldD j "k" (putF 1.0)))
  let c := FB.exact (← getF (fieldD j "c" (putF 0.0)))
  let r0 := Stats.Rep.init xs es
  -- states after 0, 1, 2, … selectors
  let states := (sels.foldl (fun (acc : List (Stats.Rep FB) × Stats.Rep FB) s =>
      let r := Stats.Rep.step acc.2 s
      (acc.1 ++ [r], r)) ([r0], r0)).1
  let hz := Stats.hasZero es
  let base : List (String × Json) := [
    ("mean", putFB (Stats.mean xs)), ("std", putFB (Stats.std1 xs)), ("sem", putFB (Stats.sem xs)),
    ("haszero", Json.bool hz),
    ("wmean", if hz then Json.null else putFB (Stats.wmean xs es)),
    ("perr", if hz then Json.null else putFB (Stats.perr es)),
    ("trace", Json.arr (states.map fun r => Json.arr #[putFB r.value, putFB r.error]).toArray),
    ("down", Json.arr (states.map fun r =>
        let d := downstream k c r
        Json.arr #[putFB d.1, putFB d.2]).toArray)]
  let extra ← match (← optFBList j "ys") with
    | none => pure []
    | some ys => pure [("cov", putFB (Stats.cov1 xs ys)), ("corr", putFB (Stats.corr xs ys)),
                       ("stdy", putFB (Stats.std1 ys))]
  pure (obj (base ++ extra))

def statsCmds : List (String × (Json → R Json)) := [("c10", cmdC10)]

end QExPy.Drv

/- `world` command: run a history on the session state machine (C05, C15). -/
import QExPy.Driver.Expr
import QExPy.Model.World
namespace QExPy.Drv
open Lean QExPy

def getMethod (j : Json) : R Method := do
  match (← getStr j) with
  | "derivative" => pure .derivative
  | "monte-carlo" => pure .monteCarlo
  | s => throw s!"unknown method {s}"

def outJson : Out FB → Json
  | .ok => obj [("t", "ok")]
  | .deriv v e => obj [("t", "d"), ("v", putFB v), ("e", putFB e)]
  | .mc s => obj [("t", "mc"), ("s", (s : Nat))]
  | .num x => obj [("t", "num"), ("x", putFB x)]
  | .none => obj [("t", "none")]

def cmdWorld (j : Json) : R Json := do
  let nodesJ ← getArr (← field j "nodes")
  let es ← buildExpr nodesJ
  -- calculated quantities = non-leaf DAG nodes, in DAG order
  let mut idx : Array (Option Nat) := #[]
  let mut wnodes : Array (Node FB) := #[]
  for h : i in [0:nodesJ.size] do
    let tag ← getStr ((← getArr nodesJ[i])[0]!)
    if tag == "var" || tag == "const" then
      idx := idx.push none
    else
      idx := idx.push (some wnodes.size)
      wnodes := wnodes.push { formula := es[i]! }
  let nodeIdx (k : Nat) : R Nat :=
    match idx[k]? with
    | some (some n) => pure n
    | _ => throw s!"node {k} is not a calculated quantity"
  let vals ← getFList (← field j "vals")
  let errs ← getFList (← field j "errs")
  let rhoJ ← getArr (fieldD j "rho" (Json.arr #[]))
  let rho ← rhoJ.toList.mapM fun r => do
    let a ← getArr r
    pure ((← a[0]!.getNat?), (← a[1]!.getNat?), FB.exact (← getF a[2]!))
  let opsJ ← getArr (← field j "ops")
  let ops ← opsJ.toList.mapM fun o => do
    let a ← getArr o
    let tag ← getStr a[0]!
    match tag with
    | "setValue" => pure (Op.setValue (← a[1]!.getNat?) (FB.exact (← getF a[2]!)))
    | "setError" => pure (Op.setError (← a[1]!.getNat?) (FB.exact (← getF a[2]!)))
    | "setRel" => pure (Op.setRel (← a[1]!.getNat?) (FB.exact (← getF a[2]!)))
    | "setCorr" => pure (Op.setCorr (← a[1]!.getNat?) (← a[2]!.getNat?) (FB.exact (← getF a[3]!)))
    | "resetCorr" => pure Op.resetCorr
    | "read" => pure (Op.read (← nodeIdx (← a[1]!.getNat?)))
    | "readDeriv" => pure (Op.readDeriv (← nodeIdx (← a[1]!.getNat?)) (← a[2]!.getNat?))
    | "recalc" => pure (Op.recalc (← nodeIdx (← a[1]!.getNat?)))
    | "setGlobal" => pure (Op.setGlobal (← getMethod a[1]!))
    | "setMethod" => pure (Op.setMethod (← nodeIdx (← a[1]!.getNat?)) (← getMethod a[2]!))
    | "resetMethod" => pure (Op.resetMethod (← nodeIdx (← a[1]!.getNat?)))
    | "setSize" => pure (Op.setSize (← nodeIdx (← a[1]!.getNat?)) (← a[2]!.getNat?))
    | "touchMc" => pure (Op.touchMc (← nodeIdx (← a[1]!.getNat?)))
    | t => throw s!"unknown op {t}"
  let w : World FB := { vals := vals.map FB.exact, errs := errs.map FB.exact, corr := rho.reverse,
                        nodes := wnodes.toList }
  let (_, outs) := w.run ops
  pure (obj [("outs", Json.arr (outs.map outJson).toArray)])

def worldCmds : List (String × (Json → R Json)) := [("world", cmdWorld)]

end QExPy.Drv

/- Line-protocol command of the session model (C07): which parameter covariances a history of
   session-level requests leaves registered. -/
import QExPy.Driver.Json
import QExPy.Model.Session
namespace QExPy.Drv
open Lean QExPy.Session

def getPairs (j : Json) : R Reg := do
  let a ← getArr j
  a.toList.mapM fun e => do
    let p ← getNatList e
    match p with
    | [x, y] => pure ((x, y), (0 : Int))
    | _ => throw "pair expected"

def getReq (j : Json) : R Req := do
  let a ← getArr j
  match a.toList with
  | [] => throw "empty request"
  | h :: t =>
    let k ← getStr h
    match k, t with
    | "set", [n, v] => pure (.setSetting (← getStr n) (← v.getInt?))
    | "reset-config", _ => pure .resetConfig
    | "clear-units", _ => pure .clearUnits
    | "define-unit", [n] => pure (.defineUnit (← getStr n))
    | "new", [n, cs] => pure (.newObjects (← n.getNat?) (← getPairs cs))
    | "rejected", _ => pure .rejected
    | "collect", _ => pure .collect
    | "reset-correlations", _ => pure .resetCorrelations
    | _, _ => throw s!"unknown session request {k}"

/-- {"m": parameters of the fit, "reqs": [...]} -> {"kept": m x m booleans (record of the pair
    still the one the fit wrote), "config_default": bool, "objects": ids handed out} -/
def cmdFitSession (j : Json) : R Json := do
  let m ← (← field j "m").getNat?
  let reqs ← (← getArr (← field j "reqs")).toList.mapM getReq
  let s0 := afterFit m
  let s := run s0 reqs
  let kept := (List.range m).map fun i => Json.arr ((List.range m).map fun k =>
    Json.bool (i == k || lookup s i k == lookup s0 i k)).toArray
  pure (obj [("kept", Json.arr kept.toArray), ("config_default", Json.bool s.config.isEmpty),
             ("objects", Json.num (JsonNumber.fromNat s.next))])

def sessionCmds : List (String × (Json → R Json)) := [("fit.session", cmdFitSession)]

end QExPy.Drv

/- Registry of line-protocol commands: one `xxxCmds` list per Driver/*.lean file. -/
import QExPy.Driver.Json
import QExPy.Driver.Expr
import QExPy.Driver.Arrays
import QExPy.Driver.Plot
namespace QExPy.Drv
open Lean

def allCmds : List (String × (Json → R Json)) :=
  exprCmds ++ arraysCmds ++ plotCmds

end QExPy.Drv

/- Registry of line-protocol commands: one `xxxCmds` list per Driver/*.lean file. -/
import QExPy.Driver.Json
import QExPy.Driver.Expr
import QExPy.Driver.Settings
import QExPy.Driver.Printing
namespace QExPy.Drv
open Lean

def allCmds : List (String × (Json → R Json)) :=
  exprCmds ++ settingsCmds ++ printingCmds

end QExPy.Drv

/- Registry of line-protocol commands: one `xxxCmds` list per Driver/*.lean file. -/
import QExPy.Driver.Json
import QExPy.Driver.Expr
import QExPy.Driver.Settings
namespace QExPy.Drv
open Lean

def allCmds : List (String × (Json → R Json)) :=
  exprCmds ++ settingsCmds

end QExPy.Drv

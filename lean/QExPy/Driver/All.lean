/- Registry of line-protocol commands: one `xxxCmds` list per Driver/*.lean file. -/
import QExPy.Driver.Json
import QExPy.Driver.Expr
import QExPy.Driver.MonteCarlo
namespace QExPy.Drv
open Lean

def allCmds : List (String × (Json → R Json)) :=
  exprCmds
  ++ mcCmds

end QExPy.Drv

/- Registry of line-protocol commands: one `xxxCmds` list per Driver/*.lean file. -/
import QExPy.Driver.Json
import QExPy.Driver.Expr
import QExPy.Driver.Stats
import QExPy.Driver.Corr
import QExPy.Driver.Uncert
import QExPy.Driver.ArrayEdit
namespace QExPy.Drv
open Lean

def allCmds : List (String × (Json → R Json)) :=
  exprCmds ++ statsCmds ++ corrCmds ++ uncertCmds ++ arrayCmds

end QExPy.Drv

/- `c17` command: run an edit history of the list-of-pairs model of a MeasurementArray. -/
import QExPy.Driver.Json
import QExPy.Model.ArrayEdit
namespace QExPy.Drv
open Lean QExPy QExPy.ArrayEdit

def fbx (j : Json) : R FB := do pure (FB.exact (← getF j))

def parsePairs (j : Json) : R (List (FB × FB)) := do
  (← getArr j).toList.mapM fun p => do
    let a ← getArr p
    pure ((← fbx a[0]!), (← fbx a[1]!))

def parseItem (j : Json) : R (Item FB) := do
  let a ← getArr j
  match (← getStr a[0]!) with
  | "num" => pure (.num (← fbx a[1]!))
  | "pair" => pure (.pair (← fbx a[1]!) (← fbx a[2]!))
  | "meas" => pure (.meas (← fbx a[1]!) (← fbx a[2]!))
  | "bad" => pure .bad
  | t => throw s!"item {t}"

def parseAOperand (j : Json) : R (ArrayEdit.Operand FB) := do
  let a ← getArr j
  match (← getStr a[0]!) with
  | "one" => pure (.one (← parseItem a[1]!))
  | "many" => pure (.many (← (← getArr a[1]!).toList.mapM parseItem))
  | "arr" => pure (.arr (← parsePairs a[1]!))
  | t => throw s!"operand {t}"

def parseEdit (j : Json) : R (Edit FB) := do
  let a ← getArr j
  match (← getStr a[0]!) with
  | "append" => pure (.append (← parseAOperand a[1]!))
  | "insert" => pure (.insert (← a[1]!.getInt?) (← parseAOperand a[2]!))
  | "delete" => pure (.delete (← a[1]!.getInt?))
  | "set" => pure (.setItem (← a[1]!.getInt?) (← parseItem a[2]!))
  | t => throw s!"edit {t}"

def putArr (a : Arr FB) : Json :=
  obj [("name", Json.str a.name), ("unit", Json.str a.unit),
       ("elems", Json.arr (a.elems.map fun x =>
          Json.arr #[putF x.v.v, putF x.e.v, Json.str x.name, Json.str x.unit]).toArray),
       ("sum", Json.arr #[putFB (ArrayEdit.sum a).1, putFB (ArrayEdit.sum a).2]),
       ("mean", Json.arr #[putFB (ArrayEdit.mean a).1, putFB (ArrayEdit.mean a).2]),
       ("std", putFB (ArrayEdit.std a))]

def cmdC17 (j : Json) : R Json := do
  let name ← getStr (← field j "name")
  let unit ← getStr (← field j "unit")
  let init ← parsePairs (← field j "init")
  let edits ← (← getArr (← field j "edits")).toList.mapM parseEdit
  let mut a : Arr FB := ArrayEdit.mk name unit init
  let mut outs : Array Json := #[obj [("out", Json.str "ok"), ("arr", putArr a)]]
  for e in edits do
    match ArrayEdit.edit a e with
    | some a' =>
      a := a'
      outs := outs.push (obj [("out", Json.str "ok"), ("arr", putArr a)])
    | none => outs := outs.push (obj [("out", Json.str "reject"), ("arr", putArr a)])
  pure (obj [("steps", Json.arr outs)])

def arrayCmds : List (String × (Json → R Json)) := [("c17", cmdC17)]

end QExPy.Drv

/- `settings` command: runs a program of settings requests (with nested temporary overrides)
   through the state-machine model and prints the trace (C20). -/
import QExPy.Driver.Json
import QExPy.Model.Settings
namespace QExPy.Drv
open Lean QExPy.Settings

def enumTyOfName? : String → Option EnumTy
  | "ErrorMethod" => some .errorMethod
  | "PrintStyle" => some .printStyle
  | "UnitStyle" => some .unitStyle
  | "SigFigMode" => some .sigFigMode
  | _ => none

def getFloatV (j : Json) : R FloatV :=
  match j with
  | .str "inf" => pure .posInf
  | .str "-inf" => pure .negInf
  | .str "nan" => pure .nan
  | _ => do
    let a ← getArr j
    let n ← a[0]!.getInt?
    let d ← a[1]!.getNat?
    pure (.fin n d)

def putFloatV : FloatV → Json
  | .fin n d => Json.arr #[Json.num (JsonNumber.fromInt n), Json.num (JsonNumber.fromNat d)]
  | .posInf => "inf"
  | .negInf => "-inf"
  | .nan => "nan"

def getScalar (j : Json) : R Scalar := do
  let k ← getStr (← field j "k")
  match k with
  | "enum" => do
    let ty ← getStr (← field j "ty")
    let m ← getStr (← field j "m")
    match enumTyOfName? ty with
    | some t =>
      match nameIdx (Gen.members t) m with
      | some i => pure (.enumMember t i)
      | none => throw s!"enum {ty} has no member {m}"
    | none => throw s!"unknown enum class {ty}"
  | "str" => do pure (.str (← getStr (← field j "v")))
  | "int" => do pure (.int (← (← field j "v").getInt?))
  | "float" => do pure (.float (← getFloatV (← field j "v")))
  | "bool" => do pure (.bool (← (← field j "v").getBool?))
  | "none" => pure .none
  | _ => pure .other

def getArg (j : Json) : R Arg := do
  let k ← getStr (← field j "k")
  if k == "tuple" then
    let a ← getArr (← field j "v")
    let l ← a.toList.mapM fun x => do
      let kk ← getStr (← field x "k")
      if kk == "tuple" then pure Scalar.other else getScalar x
    pure (.tuple l)
  else
    pure (.scalar (← getScalar j))

def memberName (ty : EnumTy) (i : Nat) : String :=
  match (Gen.members ty)[i]? with
  | some (n, _) => n
  | none => s!"?{i}"

def putCfg (c : Cfg) : Json :=
  obj [("em", memberName .errorMethod c.errorMethod), ("ps", memberName .printStyle c.printStyle),
       ("us", memberName .unitStyle c.unitStyle), ("sm", memberName .sigFigMode c.sigMode),
       ("sv", Json.num (JsonNumber.fromInt c.sigVal)), ("mc", Json.num (JsonNumber.fromInt c.mcSize)),
       ("pw", putFloatV c.plotW), ("ph", putFloatV c.plotH)]

def putRes : Res → Json
  | .ok => "ok"
  | .reject => "reject"

private def getOp (name : String) (j : Json) : R Op := do
  match name with
  | "reset" => pure .reset
  | "read" => pure .read
  | _ =>
    let a ← getArg (← field j "arg")
    match name with
    | "set_error_method" => pure (.setErrorMethod a)
    | "set_print_style" => pure (.setPrintStyle a)
    | "set_unit_style" => pure (.setUnitStyle a)
    | "sig_fig_value" => pure (.setSigVal a)
    | "set_sig_figs_for_value" => pure (.sigFigsValue a)
    | "set_sig_figs_for_error" => pure (.sigFigsError a)
    | "set_monte_carlo_sample_size" => pure (.setMcSize a)
    | "set_plot_dimensions" => pure (.setPlotDims a)
    | _ => throw s!"unknown op {name}"

/-- result of a wrapped body: the events it logged (or a protocol error) and how it ended -/
abbrev BodyRes := Except String (Array Json) × Outcome

/-- `"raise"`: absent / false = the body returns; true = it raises `Boom` (an `Exception`);
    `{"cls": name, "exc": issubclass(cls, Exception)}` = it raises an instance of that class -/
def getOutcome (s : Json) : R Outcome :=
  match s.getObjVal? "raise" with
  | .error _ => pure .returned
  | .ok (.bool false) => pure .returned
  | .ok .null => pure .returned
  | .ok (.bool true) => pure (.raised "Boom" true)
  | .ok o => do
    let cls ← getStr (← field o "cls")
    let exc ← (← field o "exc").getBool?
    pure (.raised cls exc)

def putOutcome : Outcome → Json
  | .returned => "ok"
  | .raised cls _ => Json.str ("raised:" ++ cls)

partial def runStmts (stmts : List Json) (c : Cfg) : Cfg × Except String (Array Json) :=
  match stmts with
  | [] => (c, .ok #[])
  | s :: rest =>
    let one : Cfg × Except String (Array Json) :=
      match (do
        let name ← getStr (← field s "op")
        if name == "temp" then
          let k ← getArg (← field s "size")
          let body ← getArr (← field s "body")
          let ends ← getOutcome s
          let f : Cfg → Cfg × BodyRes := fun c1 =>
            let (c2, evs) := runStmts body.toList c1
            (c2, (evs.map (fun a => #[obj [("t", "enter"), ("cfg", putCfg c1)]] ++ a), ends))
          let (c', r) := withTempMc (ρ := BodyRes) (fun r => r.2) k f c
          match r with
          | none => pure (c', #[obj [("t", "exit"), ("r", "reject"), ("cfg", putCfg c')]])
          | some (.error e, _) => throw e
          | some (.ok evs, ended) =>
            pure (c', evs ++ #[obj [("t", "exit"), ("r", putOutcome ended), ("cfg", putCfg c')]])
        else
          let op ← getOp name s
          let (c', r) := step c op
          pure (c', #[obj [("t", "op"), ("r", putRes r), ("cfg", putCfg c')]])
        : R (Cfg × Array Json)) with
      | .ok (c', evs) => (c', .ok evs)
      | .error e => (c, .error e)
    match one with
    | (c', .ok evs) =>
      let (c'', more) := runStmts rest c'
      (c'', more.map (fun m => evs ++ m))
    | (c', .error e) => (c', .error e)

def getCfgStart (j : Json) : R Cfg := do
  match j.getObjVal? "start" with
  | .ok (.str "init") => pure Gen.initCfg
  | .ok (.str "reset") => pure (Gen.resetCfg Gen.initCfg)
  | _ => pure Gen.initCfg

def cmdSettings (j : Json) : R Json := do
  let prog ← getArr (← field j "prog")
  let c0 ← getCfgStart j
  let (c, evs) := runStmts prog.toList c0
  let evs ← evs
  pure (obj [("init", putCfg c0), ("trace", Json.arr evs), ("final", putCfg c),
             ("wf", Json.bool (decide (WF c))),
             ("tieBroken", Json.arr (Gen.settingsTieBroken.map Json.str).toArray)])

def settingsCmds : List (String × (Json → R Json)) := [("settings", cmdSettings)]

end QExPy.Drv

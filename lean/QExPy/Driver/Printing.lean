/- `print_model` (what the exact model prints) and `print_spec` (the decidable predicate
   `PrintedOK` evaluated on the implementation's parsed output) — C09. -/
import QExPy.Driver.Json
import QExPy.Model.PrintText
namespace QExPy.Drv
open Lean QExPy.Printing

def getBigInt (j : Json) : R Int :=
  match j with
  | .str s => match s.toInt? with
    | some z => pure z
    | none => throw s!"not an integer: {s}"
  | _ => j.getInt?

/-- exact rational as `[num, den]` (strings or numbers) -/
private def getRat (j : Json) : R Rat := do
  let a ← getArr j
  let n ← getBigInt a[0]!
  let d ← getBigInt a[1]!
  if d ≤ 0 then throw "denominator must be positive"
  pure (mkRat n d.toNat)

def getPCfg (j : Json) : R PCfg := do
  let style ← match (← getStr (← field j "style")) with
    | "default" => pure Style.default
    | "scientific" => pure Style.scientific
    | "latex" => pure Style.latex
    | s => throw s!"unknown style {s}"
  let mode ← match (← getStr (← field j "mode")) with
    | "auto" => pure Mode.auto
    | "error" => pure Mode.error
    | "value" => pure Mode.value
    | s => throw s!"unknown mode {s}"
  let n ← (← field j "n").getNat?
  pure { style, mode, n }

def putInt (z : Int) : Json := Json.str (toString z)

def putPrinted (p : Printed) : Json :=
  obj [("mv", putInt p.mantV), ("me", putInt p.mantE), ("dv", (p.decV : Json)),
       ("de", (p.decE : Json)), ("p", Json.num (JsonNumber.fromInt p.pow10)),
       ("bare", Json.bool p.errBare), ("sci", Json.bool p.sci), ("latex", Json.bool p.latex)]

def getPrinted (j : Json) : R Printed := do
  pure { mantV := ← getBigInt (← field j "mv"), mantE := ← getBigInt (← field j "me"),
         decV := ← (← field j "dv").getNat?, decE := ← (← field j "de").getNat?,
         pow10 := ← (← field j "p").getInt?, errBare := ← (← field j "bare").getBool?,
         sci := ← (← field j "sci").getBool?, latex := ← (← field j "latex").getBool? }

def cmdPrintModel (j : Json) : R Json := do
  let v ← getRat (← field j "v")
  let e ← getRat (← field j "e")
  let cfg ← getPCfg j
  let p := fmt cfg v e
  pure (obj [("printed", putPrinted p), ("text", render p),
             ("ok", Json.bool (decide (PrintedOK v e cfg p))),
             ("tieBroken", Json.arr (Gen.printingTieBroken.map Json.str).toArray)])

def cmdPrintSpec (j : Json) : R Json := do
  let v ← getRat (← field j "v")
  let e ← getRat (← field j "e")
  let cfg ← getPCfg j
  -- the implementation's raw text is read back by the Lean parser (`text`); a pre-parsed
  -- structure (`printed`) is accepted for the spec self-test
  let p ← match j.getObjVal? "text" with
    | .ok t => do
      match parsePrinted (← getStr t) with
      | some p => pure p
      | none => throw "unparsed"
    | .error _ => getPrinted (← field j "printed")
  let x := pivot cfg.mode v e
  let p0 : Int := ilog10 x - cfg.n + 1
  pure (obj [("ok", Json.bool (decide (PrintedOK v e cfg p))),
             ("parsed", putPrinted p),
             ("pivotZero", Json.bool (decide (x = 0))),
             ("p0", Json.num (JsonNumber.fromInt p0)),
             ("carryAllowed", Json.bool (decide (p10 cfg.n - tol ≤ qabs x / p10 p0))),
             ("place", Json.num (JsonNumber.fromInt (p.pow10 - p.decV)))])

def printingCmds : List (String × (Json → R Json)) :=
  [("print_model", cmdPrintModel), ("print_spec", cmdPrintSpec)]

end QExPy.Drv

/- `fit.cert` (C06) and `fit.result` (C07): the optimality certificate for parameters returned by
   numpy.polyfit / scipy.curve_fit, and the fit-result model. -/
import QExPy.Driver.Json
import QExPy.Driver.Expr
import QExPy.Model.Fit
namespace QExPy.Drv
open Lean QExPy QExPy.Fit

def getPts (j : Json) : R (List (Pt FB)) := do
  let a ← getArr j
  a.toList.mapM fun r => do
    let v ← getFList r
    match v with
    | [x, y, sx, sy] => pure ⟨FB.exact x, FB.exact y, FB.exact sx, FB.exact sy⟩
    | _ => throw "bad point"

def getMat (j : Json) : R (List (List Float)) := do (← getArr j).toList.mapM getFList

def putMatF (m : Nat) (f : Nat → Nat → Float) : Json :=
  Json.arr ((List.range m).map fun i => Json.arr ((List.range m).map fun k => putF (f i k)).toArray).toArray

def putMatFB (m : Nat) (f : Nat → Nat → FB) : Json :=
  Json.arr ((List.range m).map fun i => Json.arr ((List.range m).map fun k => putFB (f i k)).toArray).toArray

/-- the model function: pre-set (generated `fitRule`) or a user formula over variables
    `0..m-1` (parameters) and `m` (x) -/
def getModelF (j : Json) : R (Expr FB → List (Expr FB) → Expr FB) := do
  let name ← getStr (← field j "model")
  if name == "custom" then
    let nodes ← getArr (← field j "nodes")
    let root ← (← field j "root").getNat?
    let es ← buildExpr nodes
    let e ← match es[root]? with | some e => pure e | none => throw "bad root"
    let m ← (← field j "m").getNat?
    pure fun x ps => Expr.subst (fun k => if k < m then Expr.arg ps k else x) e
  else match FitModel.ofName? name with
    | some fm => pure (Gen.fitRule fm)
    | none => throw s!"unknown model {name}"

/-- inverse of a symmetric positive matrix by Gauss–Jordan with partial pivoting after
    diagonal scaling; returns (inverse, condition estimate ‖N_s‖∞‖N_s⁻¹‖∞, ok) -/
def invertSym (m : Nat) (N : Nat → Nat → Float) : (Nat → Nat → Float) × Float × Bool := Id.run do
  let dsc : Array Float := Array.ofFn (n := m) fun i => 1.0 / Float.sqrt (N i i).abs
  let mut a : Array (Array Float) := Array.ofFn (n := m) fun i =>
    Array.ofFn (n := 2 * m) fun j =>
      if j.val < m then N i j * dsc[i.val]! * dsc[j.val]!
      else if j.val - m == i.val then 1.0 else 0.0
  let mut normN := 0.0
  for r in [0:m] do
    let mut s := 0.0
    for c in [0:m] do
      s := s + (a[r]![c]!).abs
    if s > normN then normN := s
  let mut ok := true
  for c in [0:m] do
    let mut piv := c
    for r in [c+1:m] do
      if (a[r]![c]!).abs > (a[piv]![c]!).abs then piv := r
    let pv := a[piv]![c]!
    if pv == 0.0 || !pv.isFinite then ok := false
    let tmp := a[c]!
    a := a.set! c a[piv]!
    a := a.set! piv tmp
    let d := a[c]![c]!
    a := a.set! c ((a[c]!).map (· / d))
    let rowc := a[c]!
    for r in [0:m] do
      if r != c then
        let f := a[r]![c]!
        a := a.set! r ((a[r]!).mapIdx fun j v => v - f * rowc[j]!)
  let mut normX := 0.0
  for r in [0:m] do
    let mut s := 0.0
    for c in [0:m] do
      s := s + (a[r]![m + c]!).abs
    if s > normX then normX := s
  let inv : Nat → Nat → Float := fun i k => (a[i]!)[m + k]! * dsc[i]! * dsc[k]!
  (inv, normN * normX, ok)

def fsum (n : Nat) (f : Nat → Float) : Float := (List.range n).foldl (fun acc i => acc + f i) 0.0

/-- C06 certificate.  Input: the whole data set, the optional x-range, the model, the first-pass
    optimum (when x-uncertainties are present) and the parameters the implementation returned.
    Output: the quantities the theorems of Props/C06 speak about, evaluated at those parameters. -/
def cmdFitCert (j : Json) : R Json := do
  let kind ← getStr (← field j "kind")
  let all ← getPts (← field j "pts")
  let pts ← match fieldD j "range" Json.null with
    | Json.null => pure all
    | r => do
      let v ← getFList r
      match v with
      | [lo, hi] => pure (select (FB.exact lo) (FB.exact hi) all)
      | _ => throw "bad range"
  let sel : List Nat ← match fieldD j "range" Json.null with
    | Json.null => pure (List.range all.length)
    | r => do
      let v ← getFList r
      match v with
      | [lo, hi] => pure ((List.range all.length).filter fun i =>
          inRange (FB.exact lo) (FB.exact hi) (all.getD i default))
      | _ => throw "bad range"
  let n := pts.length
  let popt ← getFList (← field j "popt")
  let m := popt.length
  let p : Nat → FB := fun k => FB.exact (popt.getD k 0.0)
  let parr := pts.toArray
  let pt : Nat → Pt FB := fun i => parr.getD i default
  let x : Nat → FB := fun i => (pt i).x
  let y : Nat → FB := fun i => (pt i).y
  let hy := hasYerr pts
  let hx := hasXerr pts
  let one : FB := Num.ofNat 1
  if kind == "poly" then
    let d := m - 1
    let s : Nat → FB := fun i => if hy then (pt i).sy else one
    -- the design matrix, tabulated
    let Atab : Array (Array FB) := Array.ofFn (n := n) fun i => Array.ofFn (n := m) fun k =>
      design d x i.val k.val
    let A : Nat → Nat → FB := fun i k => (Atab.getD i #[]).getD k default
    let res := (List.range m).map fun k => normalRes n m A s y p k
    -- magnitude of each component: Σ_i |A_ik| (|y_i| + Σ_j |A_ij p_j|) / s_i²
    let mag := (List.range m).map fun k => fsum n fun i =>
      (A i k).v.abs * ((y i).v.abs + fsum m fun l => ((A i l).v * (p l).v).abs) / ((s i).v * (s i).v)
    let S := objective n m A s y p
    let fac := S.v / Float.ofNat (n - m)
    let Ntab : Array (Array Float) := Array.ofFn (n := m) fun k => Array.ofFn (n := m) fun l =>
      (normalMat n A s k.val l.val).v
    let N : Nat → Nat → Float := fun k l => (Ntab.getD k #[]).getD l 0.0
    let (inv, kappa, ok) := invertSym m N
    -- the model's own solution of the normal equations (reference only)
    let b : Nat → Float := fun k => fsum n fun i => (A i k).v * (y i).v / ((s i).v * (s i).v)
    let psol := (List.range m).map fun k => fsum m fun l => inv k l * b l
    pure (obj [("n", (n : Nat)), ("sel", Json.arr (sel.map fun (i : Nat) => (i : Json)).toArray),
      ("hasYerr", hy), ("hasXerr", hx), ("S", putFB S),
      ("grad", Json.arr (res.map putFB).toArray), ("mag", Json.arr (mag.map putF).toArray),
      ("fac", putF fac), ("cov", putMatF m fun k l => fac * inv k l),
      ("kappa", putF kappa), ("invok", ok), ("psol", Json.arr (psol.map putF).toArray)])
  else
    let f ← getModelF j
    let e : Expr FB := f (Expr.var m) ((List.range m).map Expr.var)
    let p1 : Nat → FB ← match fieldD j "p1" Json.null with
      | Json.null => pure p
      | v => do
        let l ← getFList v
        pure fun k => FB.exact (l.getD k 0.0)
    let stab : Array FB := Array.ofFn (n := n) fun i =>
      if hx then Num.sqrt (effVar e m p1 (pt i.val))
      else if hy then (pt i.val).sy else one
    let s : Nat → FB := fun i => stab.getD i default
    let Jtab : Array (Array FB) := Array.ofFn (n := n) fun i => Array.ofFn (n := m) fun k =>
      fgrad e m p (x i.val) k.val
    let Jm : Nat → Nat → FB := fun i k => (Jtab.getD i #[]).getD k default
    let rtab : Array FB := Array.ofFn (n := n) fun i => Num.sub (y i.val) (fval e m p (x i.val))
    let r : Nat → FB := fun i => rtab.getD i default
    let g := (List.range m).map fun k => gradNL e n m x y s p k
    let jn := (List.range m).map fun k => Float.sqrt (fsum n fun i =>
      ((Jm i k).v / (s i).v) * ((Jm i k).v / (s i).v))
    let rn := Float.sqrt (fsum n fun i => ((r i).v / (s i).v) * ((r i).v / (s i).v))
    let yn := Float.sqrt (fsum n fun i => ((y i).v / (s i).v) * ((y i).v / (s i).v))
    let S := objectiveNL e n m x y s p
    let Ntab : Array (Array Float) := Array.ofFn (n := m) fun k => Array.ofFn (n := m) fun l =>
      fsum n fun i => (Jm i k.val).v * (Jm i l.val).v / ((s i).v * (s i).v)
    let N : Nat → Nat → Float := fun k l => (Ntab.getD k #[]).getD l 0.0
    let (inv, kappa, ok) := invertSym m N
    -- one Gauss–Newton step from the returned parameters: δ = (JᵀWJ)⁻¹ JᵀW r
    let step := (List.range m).map fun k => fsum m fun l => inv k l * (g.getD l default).v
    pure (obj [("n", (n : Nat)), ("sel", Json.arr (sel.map fun (i : Nat) => (i : Json)).toArray),
      ("hasYerr", hy), ("hasXerr", hx), ("S", putFB S),
      ("grad", Json.arr (g.map putFB).toArray), ("jn", Json.arr (jn.map putF).toArray),
      ("rn", putF rn), ("yn", putF yn), ("s", Json.arr ((List.range n).map fun i => putFB (s i)).toArray),
      ("res", Json.arr ((List.range n).map fun i => putFB (r i)).toArray),
      ("cov", putMatF m inv), ("kappa", putF kappa), ("invok", ok),
      ("step", Json.arr (step.map putF).toArray)])

/-- C07: the fit result computed from the implementation's own parameters and covariance -/
def cmdFitResult (j : Json) : R Json := do
  let f ← getModelF j
  let params ← getFList (← field j "params")
  let m := params.length
  let covL ← getMat (← field j "cov")
  let xs ← getFList (← field j "xs")
  let pts ← getPts (← field j "pts")
  let r : FitResult FB := {
    m := m, f := f,
    params := fun k => FB.exact (params.getD k 0.0),
    cov := fun i k => FB.exact ((covL.getD i []).getD k 0.0) }
  let fit := xs.map fun x =>
    let (v, e) := r.fitFunction (FB.exact x)
    -- the statement's formula, computed directly: gᵀ Cov g
    let g : Nat → FB := fun k => r.grad (FB.exact x) k
    let q : FB := sumN m fun i => sumN m fun k => Num.mul (Num.mul (g i) (g k)) (r.cov i k)
    Json.arr #[putFB v, putFB e, putFB q]
  let res := pts.map fun pt =>
    let (v, e) := r.residualFull pt
    Json.arr #[putFB (r.residual pt), putFB v, putFB e]
  pure (obj [("fit", Json.arr fit.toArray), ("res", Json.arr res.toArray),
    ("chi2", putFB (r.chi2 pts)),
    ("perr", Json.arr ((List.range m).map fun k => putFB (r.perr k)).toArray),
    ("corr", putMatFB m r.corrMatrix), ("regcorr", putMatFB m r.regCorr)])

def fitCmds : List (String × (Json → R Json)) :=
  [("fit.cert", cmdFitCert), ("fit.result", cmdFitResult)]

end QExPy.Drv

/- `c14` command: run a history of creation / mutation paths over a heap of quantities. -/
import QExPy.Driver.Json
import QExPy.Driver.Corr
import QExPy.Model.Uncert
namespace QExPy.Drv
open Lean QExPy QExPy.Uncert

def fbList (j : Json) : R (List FB) := do pure ((← getFList j).map FB.exact)
def fb1 (j : Json) : R FB := do pure (FB.exact (← getF j))

def parseSpec (j : Json) : R (ErrSpec FB) :=
  match j with
  | Json.null => pure .none
  | v => do
    let a ← getArr v
    match (← getStr a[0]!) with
    | "common" => pure (.common (← fb1 a[1]!))
    | "each" => pure (.each (← fbList a[1]!))
    | "rel" => pure (.rel (← fb1 a[1]!))
    | "rels" => pure (.rels (← fbList a[1]!))
    | t => throw s!"spec {t}"

def parseOperand (j : Json) : R (Operand FB) := do
  let a ← getArr j
  match (← getStr a[0]!) with
  | "num" => pure (.num (← fb1 a[1]!))
  | "pair" => pure (.pair (← fb1 a[1]!) (← fb1 a[2]!))
  | "ref" => pure (.ref (← a[1]!.getNat?))
  | t => throw s!"operand {t}"

def parseUOp (j : Json) : R (Op FB) := do
  let a ← getArr j
  match (← getStr a[0]!) with
  | "meas" => pure (.mkMeasurement (← fb1 a[1]!) (← optF a[2]!))
  | "rep" => pure (.mkRepeated (← fbList a[1]!) (← parseSpec a[2]!))
  | "array" => pure (.mkArray (← fbList a[1]!) (← parseSpec a[2]!))
  | "xy" => pure (.mkXY (← fbList a[1]!) (← fbList a[2]!) (← parseSpec a[3]!) (← parseSpec a[4]!))
  | "rewrap" => pure (.rewrap (← getNatList a[1]!) (← parseSpec a[2]!))
  | "rewrapxy" => pure (.rewrapXY (← getNatList a[1]!) (← getNatList a[2]!) (← parseSpec a[3]!) (← parseSpec a[4]!))
  | "seterr" => pure (.setError (← a[1]!.getNat?) (← fb1 a[2]!))
  | "setrel" => pure (.setRelError (← a[1]!.getNat?) (← fb1 a[2]!))
  | "setval" => pure (.setValue (← a[1]!.getNat?) (← fb1 a[2]!))
  | "sel" =>
    match Stats.Sel.ofName? (← getStr a[2]!) with
    | some s => pure (.sel (← a[1]!.getNat?) s)
    | none => throw "selector"
  | "arith" =>
    match Op2.ofName? (← getStr a[1]!) with
    | some o => pure (.arith o (← parseOperand a[2]!) (← parseOperand a[3]!))
    | none => throw "op2"
  | "un" =>
    match Op1.ofName? (← getStr a[1]!) with
    | some o => pure (.unary o (← a[2]!.getNat?))
    | none => throw "op1"
  | "mcmean" => pure (.mcMeanStd (← a[1]!.getNat?) (← fbList a[2]!))
  | "mcmode" => pure (.mcMode (← a[1]!.getNat?) (← getNatList a[2]!) (← fbList a[3]!) (← fb1 a[4]!))
  | "mccustom" => pure (.mcCustom (← a[1]!.getNat?) (← fb1 a[2]!) (← fb1 a[3]!))
  | t => throw s!"unknown c14 op {t}"

private def kindName : Uncert.Kind → String
  | .single => "single" | .repeated => "repeated" | .derived => "derived"

def putHeap (h : Heap FB) : Json :=
  Json.arr (h.map fun q => Json.arr #[Json.str (kindName q.kind), putFB q.value, putFB q.error]).toArray

def cmdC14 (j : Json) : R Json := do
  let ops ← (← getArr (← field j "ops")).toList.mapM parseUOp
  let mut h : Heap FB := []
  let mut outs : Array Json := #[]
  for op in ops do
    let (h', o) := Uncert.step h op
    h := h'
    -- the hypothesis of the invariant theorem (`WF`): histogram edges in order
    let wf : Bool := match op with
      | .mcMode _ _ edges _ => Uncert.edgesOrdered edges
      | _ => true
    outs := outs.push (obj [("out", Json.str (match o with | .ok => "ok" | .reject => "reject")),
                            ("heap", putHeap h), ("wf", Json.bool wf)])
  pure (obj [("steps", Json.arr outs)])

def uncertCmds : List (String × (Json → R Json)) := [("c14", cmdC14)]

end QExPy.Drv

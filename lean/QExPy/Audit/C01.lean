import QExPy.Props.C01
#print axioms QExPy.rule1
#print axioms QExPy.rule2
#print axioms QExPy.rule_pow_const
#print axioms QExPy.C03_diff_correct
#print axioms QExPy.C01_value
#print axioms QExPy.C01_statement_form
#print axioms QExPy.C01_quadratic_form
#print axioms QExPy.C01_error
#print axioms QExPy.C01_partials_exact
#print axioms QExPy.C01_perm_invariant
#print axioms QExPy.C01_self_cancel_sub
#print axioms QExPy.C01_self_cancel_div
#print axioms QExPy.C01_sums_nonneg

/-
  Helper lemmas for C10 (statistics of an array of readings), all about the model
  `QExPy/Model/Stats.lean` instantiated at `ℝ`.

  Part 1: bridging lemmas — the model written in plain Mathlib terms over `List ℝ`.
  Part 2: list-sum algebra (Σ(x−c), Σ(x−m)², Cauchy–Schwarz for `zipWith`).
  Part 3: mean / deviations / variance / covariance under shift, scaling, affine maps.
  Part 4: bounds (|cov| ≤ std·std), clip, weighted mean, selector state machine.
-/
import QExPy.Real
import QExPy.Model.Stats
import Mathlib.Tactic.Ring
import Mathlib.Tactic.Linarith
import Mathlib.Tactic.FieldSimp
import Mathlib.Tactic.Positivity
import Mathlib.Tactic.NormNum

namespace QExPy.Stats

/-! ### Part 1: bridging -/

theorem numSum_eq' (l : List ℝ) : Num.sum l = l.sum := by
  unfold Num.sum
  have : ∀ (a : ℝ) (l : List ℝ), List.foldl Num.add a l = a + l.sum := by
    intro a l
    induction l generalizing a with
    | nil => simp
    | cons x xs ih => simp [List.foldl, ih, add_assoc]
  simpa using this 0 l

/-- `x ** 2` (a real power with the exponent `(2 : ℕ)` cast to `ℝ`) is the square -/
theorem rpow_two' (x : ℝ) : x ^ (((2 : ℕ) : ℝ)) = x ^ 2 := by
  rw [Real.rpow_natCast]

/-! congruence helpers: the bridging lemmas below compare the regenerated term with the textbook
    form *up to ring identities under the sums* (so `1 / (e * e)`, `values * weights`, a trailing
    division instead of a leading factor … still close) -/

theorem sum_zipWith_congr {f g : ℝ → ℝ → ℝ} (h : ∀ a b, f a b = g a b) (as bs : List ℝ) :
    (List.zipWith f as bs).sum = (List.zipWith g as bs).sum := by
  rw [show f = g from funext fun a => funext fun b => h a b]

theorem sum_zipWith_swap (f : ℝ → ℝ → ℝ) (as bs : List ℝ) :
    (List.zipWith f as bs).sum = (List.zipWith (fun b a => f a b) bs as).sum := by
  rw [List.zipWith_comm]

theorem sum_map_congr {f g : ℝ → ℝ} (h : ∀ a, f a = g a) (as : List ℝ) :
    (as.map f).sum = (as.map g).sum := by
  rw [show f = g from funext h]

theorem mean_eq (xs : List ℝ) : mean xs = xs.sum / (xs.length : ℝ) := by
  simp [mean, Gen.arrMeanValue, Np.mean, numSum_eq']

theorem devs_eq (xs : List ℝ) : devs xs = xs.map (fun x => x - mean xs) := rfl

theorem devs_length (xs : List ℝ) : (devs xs).length = xs.length := by
  simp [devs]

theorem ssq_eq (xs : List ℝ) : ssq xs = (xs.map fun x => (x - mean xs) ^ 2).sum := by
  simp only [ssq, numSum_eq', devs_eq, List.map_map]
  congr 1
  apply List.map_congr_left
  intro x _
  simp [Num.sq, sq]

/-- the sum of squares as a sum over the list of deviations -/
theorem ssq_eq_devs (xs : List ℝ) : ssq xs = ((devs xs).map fun d => d ^ 2).sum := by
  rw [ssq_eq, devs_eq, List.map_map]; rfl

theorem var1_eq (xs : List ℝ) : var1 xs = ssq xs / ((xs.length - 1 : ℕ) : ℝ) := by
  simp [var1]

theorem var1_eq' (xs : List ℝ) (h : 1 ≤ xs.length) :
    var1 xs = ssq xs / ((xs.length : ℝ) - 1) := by
  rw [var1_eq, Nat.cast_sub h, Nat.cast_one]

theorem std1_eq (xs : List ℝ) : std1 xs = Real.sqrt (var1 xs) := by
  simp [std1, Gen.arrStd, Gen.arrStdDdof, Np.std, Np.var, var1, ssq, devs, mean, Gen.arrMeanValue]

theorem sem_eq (xs : List ℝ) : sem xs = std1 xs / Real.sqrt (xs.length : ℝ) := by
  simp [sem, Gen.arrSem, std1]

theorem weights_eq (es : List ℝ) : weights es = es.map fun e => 1 / e ^ 2 := by
  simp [weights, Num.sq, sq]

theorem wmean_eq (xs es : List ℝ) :
    wmean xs es = (List.zipWith (fun e x => 1 / e ^ 2 * x) es xs).sum
        / (es.map fun e => 1 / e ^ 2).sum := by
  simp only [wmean, Gen.arrWmean, numSum_eq', List.zipWith_map_left, List.zipWith_map_right,
    num_mul, num_div, num_pow, num_ofNat, rpow_two', Nat.cast_one] <;>
  (congr 1
   · first
      | exact sum_zipWith_congr (fun a b => by ring) _ _
      | (rw [sum_zipWith_swap]; exact sum_zipWith_congr (fun a b => by ring) _ _)
   · exact sum_map_congr (fun a => by ring) _)

theorem perr_eq (es : List ℝ) : perr es = 1 / Real.sqrt ((es.map fun e => 1 / e ^ 2).sum) := by
  simp only [perr, Gen.arrPerr, numSum_eq', num_sqrt, num_div, num_pow, num_mul, num_ofNat,
    rpow_two', Nat.cast_one, Real.sqrt_div zero_le_one, Real.sqrt_one] <;>
  first
    | rfl
    | (congr 2; exact sum_map_congr (fun a => by ring) _)

theorem cov1_eq (xs ys : List ℝ) :
    cov1 xs ys = 1 / ((xs.length - 1 : ℕ) : ℝ)
        * (List.zipWith (fun a b => a * b) (devs xs) (devs ys)).sum := by
  have hz : ∀ (f : ℝ → ℝ → ℝ), (List.zipWith f (devs xs) (devs ys))
      = List.zipWith (fun a b => f (a - mean xs) (b - mean ys)) xs ys := by
    intro f; simp [devs, List.zipWith_map]
  rw [hz]
  simp only [cov1, Gen.calcCov, mean, Gen.arrMeanValue, numSum_eq', num_mul, num_div, num_sub,
    num_ofNat, Nat.cast_one]
  have hs : ∀ (f : ℝ → ℝ → ℝ), (∀ a b, f a b = (a - Np.mean xs) * (b - Np.mean ys)) →
      (List.zipWith f xs ys).sum
        = (List.zipWith (fun a b => (a - Np.mean xs) * (b - Np.mean ys)) xs ys).sum :=
    fun f h => sum_zipWith_congr h _ _
  rw [hs _ (fun a b => by ring)]
  cases xs with
  | nil => simp
  | cons x xs => simp; try ring

theorem corr_eq (xs ys : List ℝ) : corr xs ys = cov1 xs ys / (std1 xs * std1 ys) := rfl

/-- `ExperimentalValueArray.sum()`: Σx ± sqrt(Σ s²) -/
theorem sumPair_eq (xs es : List ℝ) :
    sumPair xs es = (xs.sum, Real.sqrt ((es.map (· ^ 2)).sum)) := by
  simp only [sumPair, Gen.arrSumValue, Gen.arrSumError, numSum_eq', num_sqrt, num_pow, num_mul,
    num_ofNat, rpow_two', List.zipWith_self] <;>
  first
    | rfl
    | (congr 2; exact sum_map_congr (fun a => by ring) _)

/-- `ExperimentalValueArray.mean()`: mean ± error on the mean -/
theorem meanPair_eq (xs : List ℝ) : meanPair xs = (mean xs, sem xs) := by
  simp [meanPair, mean, sem, Gen.arrMeanError]

/-! ### Part 2: list-sum algebra -/

theorem sum_map_sub_const (xs : List ℝ) (c : ℝ) :
    (xs.map fun x => x - c).sum = xs.sum - (xs.length : ℝ) * c := by
  induction xs with
  | nil => simp
  | cons x xs ih => simp only [List.map_cons, List.sum_cons, List.length_cons, ih]; push_cast; ring

theorem sum_map_sq_sub (xs : List ℝ) (m : ℝ) :
    (xs.map fun x => (x - m) ^ 2).sum
      = (xs.map fun x => x ^ 2).sum - 2 * m * xs.sum + (xs.length : ℝ) * m ^ 2 := by
  induction xs with
  | nil => simp
  | cons x xs ih => simp only [List.map_cons, List.sum_cons, List.length_cons, ih]; push_cast; ring

theorem sum_map_sq_nonneg (xs : List ℝ) : 0 ≤ (xs.map fun x => x ^ 2).sum := by
  apply List.sum_nonneg
  intro y hy
  obtain ⟨x, _, rfl⟩ := List.mem_map.mp hy
  positivity

/-- Cauchy–Schwarz for lists (any lengths: `zipWith` truncates) -/
theorem cauchy_schwarz_zipWith (as bs : List ℝ) :
    ((List.zipWith (fun a b => a * b) as bs).sum) ^ 2
      ≤ (as.map fun a => a ^ 2).sum * (bs.map fun b => b ^ 2).sum := by
  induction as generalizing bs with
  | nil => simp
  | cons a as ih =>
    cases bs with
    | nil =>
      simp only [List.zipWith_nil_right, List.sum_nil, List.map_nil, mul_zero]
      norm_num
    | cons b bs =>
      simp only [List.zipWith_cons_cons, List.sum_cons, List.map_cons]
      have hA := sum_map_sq_nonneg as
      have hB := sum_map_sq_nonneg bs
      have hS := ih bs
      set S := (List.zipWith (fun a b => a * b) as bs).sum
      set A := (as.map fun a => a ^ 2).sum
      set B := (bs.map fun b => b ^ 2).sum
      -- need 2abS ≤ a²B + b²A
      have key : 2 * (a * b) * S ≤ a ^ 2 * B + b ^ 2 * A := by
        rcases hA.eq_or_lt with hA0 | hApos
        · have hS0 : S = 0 := by
            have : S ^ 2 ≤ 0 := by rw [← hA0] at hS; simpa using hS
            exact pow_eq_zero_iff (two_ne_zero) |>.mp (le_antisymm this (sq_nonneg S))
          rw [hS0, ← hA0]; nlinarith [mul_nonneg (sq_nonneg a) hB]
        · have h1 : 0 ≤ A * (a ^ 2 * B + b ^ 2 * A - 2 * (a * b) * S) := by
            nlinarith [sq_nonneg (a * S - b * A), mul_le_mul_of_nonneg_left hS (sq_nonneg a)]
          have := nonneg_of_mul_nonneg_right h1 hApos
          linarith
      nlinarith [key]

/-! ### Part 3: mean, deviations, variance, covariance under affine maps -/

theorem length_pos_of_ne_nil {xs : List ℝ} (h : xs ≠ []) : (0 : ℝ) < xs.length := by
  exact_mod_cast List.length_pos_of_ne_nil h

theorem sum_devs (xs : List ℝ) (h : xs ≠ []) : (devs xs).sum = 0 := by
  have hn : (xs.length : ℝ) ≠ 0 := (length_pos_of_ne_nil h).ne'
  rw [devs_eq, sum_map_sub_const, mean_eq]
  field_simp
  ring

theorem ssq_nonneg (xs : List ℝ) : 0 ≤ ssq xs := by
  rw [ssq_eq_devs]; exact sum_map_sq_nonneg _

theorem var1_nonneg (xs : List ℝ) : 0 ≤ var1 xs := by
  rw [var1_eq]; exact div_nonneg (ssq_nonneg xs) (Nat.cast_nonneg _)

theorem std1_nonneg (xs : List ℝ) : 0 ≤ std1 xs := Real.sqrt_nonneg _

theorem ssq_alt (xs : List ℝ) (h : xs ≠ []) :
    ssq xs = (xs.map fun x => x ^ 2).sum - (xs.length : ℝ) * mean xs ^ 2 := by
  have hn : (xs.length : ℝ) ≠ 0 := (length_pos_of_ne_nil h).ne'
  have hs : xs.sum = (xs.length : ℝ) * mean xs := by rw [mean_eq]; field_simp
  rw [ssq_eq, sum_map_sq_sub, hs]; ring

theorem mean_affine (xs : List ℝ) (h : xs ≠ []) (k c : ℝ) :
    mean (xs.map fun x => k * x + c) = k * mean xs + c := by
  have hn : (xs.length : ℝ) ≠ 0 := (length_pos_of_ne_nil h).ne'
  have hs : (xs.map fun x => k * x + c).sum = k * xs.sum + (xs.length : ℝ) * c := by
    clear h hn
    induction xs with
    | nil => simp
    | cons x xs ih =>
      simp only [List.map_cons, List.sum_cons, List.length_cons, ih]; push_cast; ring
  rw [mean_eq, mean_eq, hs, List.length_map]
  field_simp

theorem devs_affine (xs : List ℝ) (h : xs ≠ []) (k c : ℝ) :
    devs (xs.map fun x => k * x + c) = (devs xs).map fun d => k * d := by
  rw [devs_eq, devs_eq, mean_affine xs h, List.map_map, List.map_map]
  apply List.map_congr_left
  intro x _
  simp only [Function.comp]
  ring

theorem ssq_affine (xs : List ℝ) (h : xs ≠ []) (k c : ℝ) :
    ssq (xs.map fun x => k * x + c) = k ^ 2 * ssq xs := by
  rw [ssq_eq_devs, ssq_eq_devs, devs_affine xs h, List.map_map, ← List.sum_map_mul_left]
  congr 1
  apply List.map_congr_left
  intro d _
  simp only [Function.comp]
  ring

theorem var1_affine (xs : List ℝ) (h : xs ≠ []) (k c : ℝ) :
    var1 (xs.map fun x => k * x + c) = k ^ 2 * var1 xs := by
  rw [var1_eq, var1_eq, ssq_affine xs h, List.length_map, mul_div_assoc]

theorem std1_affine (xs : List ℝ) (h : xs ≠ []) (k c : ℝ) :
    std1 (xs.map fun x => k * x + c) = |k| * std1 xs := by
  rw [std1_eq, std1_eq, var1_affine xs h, Real.sqrt_mul (sq_nonneg k), Real.sqrt_sq_eq_abs]

theorem sum_zipWith_mul_map (ds : List ℝ) (k : ℝ) :
    (List.zipWith (fun a b => a * b) ds (ds.map fun d => k * d)).sum
      = k * (ds.map fun d => d ^ 2).sum := by
  induction ds with
  | nil => simp
  | cons d ds ih => simp only [List.map_cons, List.zipWith_cons_cons, List.sum_cons, ih]; ring

theorem cov1_affine (xs : List ℝ) (h : xs ≠ []) (k c : ℝ) :
    cov1 xs (xs.map fun x => k * x + c) = k * var1 xs := by
  rw [cov1_eq, devs_affine xs h, sum_zipWith_mul_map, var1_eq, ssq_eq_devs]
  ring

theorem cov1_self (xs : List ℝ) : cov1 xs xs = var1 xs := by
  rw [cov1_eq, var1_eq, ssq_eq_devs]
  have : (List.zipWith (fun a b => a * b) (devs xs) (devs xs)).sum
      = ((devs xs).map fun d => d ^ 2).sum := by
    generalize devs xs = ds
    induction ds with
    | nil => simp
    | cons d ds ih => simp only [List.map_cons, List.zipWith_cons_cons, List.sum_cons, ih]; ring
  rw [this]; ring

/-! ### Part 4: bounds -/

theorem cov1_sq_le (xs ys : List ℝ) (h : xs.length = ys.length) :
    cov1 xs ys ^ 2 ≤ var1 xs * var1 ys := by
  rw [cov1_eq, var1_eq, var1_eq, ssq_eq_devs, ssq_eq_devs, ← h]
  have cs := cauchy_schwarz_zipWith (devs xs) (devs ys)
  set S := (List.zipWith (fun a b => a * b) (devs xs) (devs ys)).sum
  set A := ((devs xs).map fun a => a ^ 2).sum
  set B := ((devs ys).map fun b => b ^ 2).sum
  have : (1 / ((xs.length - 1 : ℕ) : ℝ) * S) ^ 2
      = (1 / ((xs.length - 1 : ℕ) : ℝ)) ^ 2 * S ^ 2 := by ring
  rw [this]
  have : A / ((xs.length - 1 : ℕ) : ℝ) * (B / ((xs.length - 1 : ℕ) : ℝ))
      = (1 / ((xs.length - 1 : ℕ) : ℝ)) ^ 2 * (A * B) := by ring
  rw [this]
  exact mul_le_mul_of_nonneg_left cs (sq_nonneg _)

theorem abs_cov1_le (xs ys : List ℝ) (h : xs.length = ys.length) :
    |cov1 xs ys| ≤ std1 xs * std1 ys := by
  rw [std1_eq, std1_eq, ← Real.sqrt_mul (var1_nonneg xs), ← Real.sqrt_sq_eq_abs]
  exact Real.sqrt_le_sqrt (cov1_sq_le xs ys h)

theorem clip_of_mem (x lo hi : ℝ) (h1 : lo ≤ x) (h2 : x ≤ hi) : clip x lo hi = x := by
  simp [clip, not_lt.mpr h1, not_lt.mpr h2]

/-! ### Part 5: weighted mean and propagated error -/

theorem sum_weights_nonneg (es : List ℝ) : 0 ≤ (es.map fun e => 1 / e ^ 2).sum := by
  apply List.sum_nonneg
  intro y hy
  obtain ⟨e, _, rfl⟩ := List.mem_map.mp hy
  positivity

theorem sum_weights_pos (es : List ℝ) (hne : es ≠ []) (h : ∀ e ∈ es, e ≠ 0) :
    0 < (es.map fun e => 1 / e ^ 2).sum := by
  apply List.sum_pos
  · intro y hy
    obtain ⟨e, he, rfl⟩ := List.mem_map.mp hy
    have := h e he
    positivity
  · simpa using hne

/-- Σ((x−m)/e)² expanded around an arbitrary centre μ -/
theorem chi2_decomp (xs es : List ℝ) (μ m : ℝ) :
    (List.zipWith (fun x e => ((x - m) / e) ^ 2) xs es).sum
      = (List.zipWith (fun x e => ((x - μ) / e) ^ 2) xs es).sum
        + 2 * (μ - m) * (List.zipWith (fun x e => (x - μ) / e ^ 2) xs es).sum
        + (μ - m) ^ 2 * (List.zipWith (fun _ e => 1 / e ^ 2) xs es).sum := by
  induction xs generalizing es with
  | nil => simp
  | cons x xs ih =>
    cases es with
    | nil => simp
    | cons e es =>
      simp only [List.zipWith_cons_cons, List.sum_cons, ih es]
      ring

theorem sum_resid (xs es : List ℝ) (h : es.length = xs.length) (μ : ℝ) :
    (List.zipWith (fun x e => (x - μ) / e ^ 2) xs es).sum
      = (List.zipWith (fun e x => 1 / e ^ 2 * x) es xs).sum
        - μ * (es.map fun e => 1 / e ^ 2).sum := by
  induction xs generalizing es with
  | nil =>
    have : es = [] := List.length_eq_zero_iff.mp h
    subst this; simp
  | cons x xs ih =>
    cases es with
    | nil => simp at h
    | cons e es =>
      have h' : es.length = xs.length := by simpa using h
      simp only [List.zipWith_cons_cons, List.sum_cons, List.map_cons, ih es h']
      ring

theorem sum_zipWith_weights (xs es : List ℝ) (h : es.length = xs.length) :
    (List.zipWith (fun (_ : ℝ) e => 1 / e ^ 2) xs es).sum = (es.map fun e => 1 / e ^ 2).sum := by
  induction xs generalizing es with
  | nil =>
    have : es = [] := List.length_eq_zero_iff.mp h
    subst this; simp
  | cons x xs ih =>
    cases es with
    | nil => simp at h
    | cons e es =>
      have h' : es.length = xs.length := by simpa using h
      simp only [List.zipWith_cons_cons, List.sum_cons, List.map_cons, ih es h']

/-- the weighted residuals about the weighted mean sum to zero -/
theorem sum_resid_wmean (xs es : List ℝ) (h : es.length = xs.length)
    (hW : (es.map fun e => 1 / e ^ 2).sum ≠ 0) :
    (List.zipWith (fun x e => (x - wmean xs es) / e ^ 2) xs es).sum = 0 := by
  rw [sum_resid xs es h, wmean_eq]
  field_simp
  ring

theorem chi2_wmean (xs es : List ℝ) (h : es.length = xs.length)
    (hW : (es.map fun e => 1 / e ^ 2).sum ≠ 0) (m : ℝ) :
    (List.zipWith (fun x e => ((x - m) / e) ^ 2) xs es).sum
      = (List.zipWith (fun x e => ((x - wmean xs es) / e) ^ 2) xs es).sum
        + (wmean xs es - m) ^ 2 * (es.map fun e => 1 / e ^ 2).sum := by
  rw [chi2_decomp xs es (wmean xs es) m, sum_resid_wmean xs es h hW,
    sum_zipWith_weights xs es h]
  ring

theorem perr_sq (es : List ℝ) : perr es ^ 2 = 1 / (es.map fun e => 1 / e ^ 2).sum := by
  rw [perr_eq, div_pow, one_pow, Real.sq_sqrt (sum_weights_nonneg es)]

theorem perr_sq_propagated (es : List ℝ) (h : ∀ e ∈ es, e ≠ 0) :
    (es.map fun e => (1 / e ^ 2 / (es.map fun e => 1 / e ^ 2).sum) ^ 2 * e ^ 2).sum
      = 1 / (es.map fun e => 1 / e ^ 2).sum := by
  set W := (es.map fun e => 1 / e ^ 2).sum with hW
  have h1 : (es.map fun e => (1 / e ^ 2 / W) ^ 2 * e ^ 2)
      = es.map fun e => (1 / W ^ 2) * (1 / e ^ 2) := by
    apply List.map_congr_left
    intro e he
    have := h e he
    by_cases hw : W = 0
    · simp [hw]
    · field_simp
  rw [h1, List.sum_map_mul_left, ← hW]
  by_cases hw : W = 0
  · simp [hw]
  · field_simp

/-! ### Part 6: the selector state machine -/

theorem hasZero_eq_false_iff (es : List ℝ) : hasZero es = false ↔ ∀ e ∈ es, e ≠ 0 := by
  simp [hasZero, Gen.arrWmeanNan]

theorem hasZero_eq_true_iff (es : List ℝ) : hasZero es = true ↔ ∃ e ∈ es, e = 0 := by
  simp [hasZero, Gen.arrWmeanNan]

/-! The constructor and the four selectors in the vocabulary of the theorems.  These are the
    places where the regenerated `Gen.repInit*` / `Gen.use*` are unfolded: a selector that writes
    another field, reads another statistic or loses its guard no longer proves its equation. -/

theorem init_eq (xs es : List ℝ) : Rep.init xs es = ⟨xs, es, mean xs, sem xs⟩ := by
  simp [Rep.init, Gen.repInitValue, Gen.repInitError, mean, sem]

theorem step_useStd (r : Rep ℝ) : r.step .useStd = { r with error := std1 r.xs } := by
  simp [Rep.step, Rep.set, Gen.useStd, std1, Gen.arrStdDdof]

theorem step_useSem (r : Rep ℝ) : r.step .useSem = { r with error := sem r.xs } := by
  simp [Rep.step, Rep.set, Gen.useSem, sem]

theorem step_useWmean (r : Rep ℝ) :
    r.step .useWmean = if hasZero r.es then r else { r with value := wmean r.xs r.es } := by
  by_cases h : Gen.arrWmeanNan r.es = true <;>
    simp [Rep.step, Rep.set, Gen.useWmean, hasZero, wmean, h]

theorem step_usePerr (r : Rep ℝ) :
    r.step .usePerr = if hasZero r.es then r else { r with error := perr r.es } := by
  have h : Gen.arrPerrNan r.es = hasZero r.es := by simp [hasZero, Gen.arrPerrNan, Gen.arrWmeanNan]
  by_cases h' : hasZero r.es = true <;>
    simp [Rep.step, Rep.set, Gen.usePerr, h, perr, h']

theorem run_nil (r : Rep ℝ) : r.run [] = r := rfl

theorem run_cons (r : Rep ℝ) (s : Sel) (ss : List Sel) : r.run (s :: ss) = (r.step s).run ss := rfl

theorem run_snoc (r : Rep ℝ) (ss : List Sel) (s : Sel) :
    r.run (ss ++ [s]) = (r.run ss).step s := by
  simp [Rep.run, List.foldl_append]

theorem step_xs (r : Rep ℝ) (s : Sel) : (r.step s).xs = r.xs := by
  cases s <;> rfl

theorem step_es (r : Rep ℝ) (s : Sel) : (r.step s).es = r.es := by
  cases s <;> rfl

theorem run_xs (r : Rep ℝ) (ss : List Sel) : (r.run ss).xs = r.xs := by
  induction ss generalizing r with
  | nil => rfl
  | cons s ss ih => rw [run_cons, ih, step_xs]

theorem run_es (r : Rep ℝ) (ss : List Sel) : (r.run ss).es = r.es := by
  induction ss generalizing r with
  | nil => rfl
  | cons s ss ih => rw [run_cons, ih, step_es]

end QExPy.Stats

/-
  Lexical level of the unit-string parser (C12, C13):
    * `scan_text`, `rawTop_text`: the scanner accounts for every character — the texts of the
      tokens it returns concatenate to the input (after the dot replacement); nothing is skipped.
    * `rawTop_roundtrip`: a lexically unambiguous token list is what the scanner returns for
      its text.
-/
import QExPy.Lemmas.ParseEquiv
namespace QExPy.U

/-! ### `mapM` in `Option` as a structural function -/

def mapOpt {α β : Type} (f : α → Option β) : List α → Option (List β)
  | [] => some []
  | a :: r =>
    match f a, mapOpt f r with
    | some b, some bs => some (b :: bs)
    | _, _ => none

theorem mapM_eq_mapOpt {α β : Type} (f : α → Option β) (l : List α) : l.mapM f = mapOpt f l := by
  induction l with
  | nil => rfl
  | cons a r ih =>
    rw [List.mapM_cons, ih]
    simp only [mapOpt]
    cases f a <;> cases mapOpt f r <;> rfl

/-! ### texts -/

def textR : List Raw → List Char
  | [] => []
  | t :: r => t.text ++ textR r

mutual
/-- the text a token stands for -/
def UTok.text : UTok → List Char
  | .sym s => s
  | .pw s e => s ++ '^' :: e
  | .mul => ['*']
  | .div => ['/']
  | .one => ['1']
  | .par ts => '(' :: (textL ts ++ [')'])
def textL : List UTok → List Char
  | [] => []
  | t :: r => t.text ++ textL r
end

theorem textL_append (a b : List UTok) : textL (a ++ b) = textL a ++ textL b := by
  induction a with
  | nil => simp [textL]
  | cons t r ih => simp [textL, ih]

/-! ### the scanner consumes what it returns -/

theorem take_drop (p : Char → Bool) (cs : List Char) : cs.takeWhile p ++ cs.dropWhile p = cs :=
  List.takeWhile_append_dropWhile

theorem scanInt_text (cs m r : List Char) (h : scanInt cs = some (m, r)) : m ++ r = cs := by
  unfold scanInt at h
  split at h
  · rename_i r'
    simp only at h
    split at h
    · cases h
    · simp only [Option.some.injEq, Prod.mk.injEq] at h
      obtain ⟨rfl, rfl⟩ := h
      simp
  · simp only at h
    split at h
    · cases h
    · simp only [Option.some.injEq, Prod.mk.injEq] at h
      obtain ⟨rfl, rfl⟩ := h
      simp

theorem scanFrac_text (cs m r : List Char) (h : scanFrac cs = some (m, r)) : m ++ r = cs := by
  unfold scanFrac at h
  split at h
  · rename_i r0
    split at h
    · rename_i n r2 hn
      have h1 := scanInt_text _ _ _ hn
      simp only at h
      split at h
      · rename_i r3 he hd
        simp only [Option.some.injEq, Prod.mk.injEq] at h
        obtain ⟨rfl, rfl⟩ := h
        have h2 := take_drop isDg r2
        rw [hd] at h2
        subst h1
        simpa using h2
      · cases h
    · cases h
  · cases h

theorem scanPow_text (cs e r : List Char) (h : scanPow cs = some (e, r)) : '^' :: (e ++ r) = cs := by
  unfold scanPow at h
  split at h
  · rename_i r0
    split at h
    · rename_i x hx
      simp only [Option.some.injEq] at h
      subst h
      rw [scanInt_text _ _ _ hx]
    · rw [scanFrac_text _ _ _ h]
  · cases h

theorem scanBrk_text : ∀ (f : Nat) (cs c r : List Char), scanBrk f cs = some (c, r) →
    c ++ ')' :: r = cs := by
  intro f
  induction f with
  | zero => intro cs c r h; simp [scanBrk] at h
  | succ f ih =>
    intro cs c r h
    unfold scanBrk at h
    split at h
    · cases h
    · cases h
    · simp only [Option.some.injEq, Prod.mk.injEq] at h
      obtain ⟨rfl, rfl⟩ := h
      rfl
    · cases h
    · rename_i f' r0 hf
      obtain rfl : f = f' := by omega
      split at h
      · rename_i t r2 ht
        have h1 := scanFrac_text _ _ _ ht
        cases h2 : scanBrk f r2 with
        | none => simp [h2] at h
        | some y =>
          obtain ⟨c', r3⟩ := y
          simp only [h2, Option.map, Option.some.injEq, Prod.mk.injEq] at h
          obtain ⟨rfl, rfl⟩ := h
          have := ih _ _ _ h2
          rw [← h1, ← this]
          simp
      · cases h
    · rename_i f' ch r0 _ _ _ hf
      obtain rfl : f = f' := by omega
      cases h2 : scanBrk f r0 with
      | none => simp [h2] at h
      | some y =>
        obtain ⟨c', r3⟩ := y
        simp only [h2, Option.map, Option.some.injEq, Prod.mk.injEq] at h
        obtain ⟨rfl, rfl⟩ := h
        have := ih _ _ _ h2
        rw [← this]
        simp

theorem scanTok_text (b : Bool) (cs : List Char) (t : Raw) (r : List Char)
    (h : scanTok b cs = some (t, r)) : t.text ++ r = cs := by
  unfold scanTok at h
  split at h
  · cases h
  · simp only [Option.some.injEq, Prod.mk.injEq] at h
    obtain ⟨rfl, rfl⟩ := h; rfl
  · simp only [Option.some.injEq, Prod.mk.injEq] at h
    obtain ⟨rfl, rfl⟩ := h; rfl
  · rename_i r0
    split at h
    · cases h2 : scanBrk (r0.length + 1) r0 with
      | none => simp [h2] at h
      | some y =>
        obtain ⟨c', r3⟩ := y
        simp only [h2, Option.map, Option.some.injEq, Prod.mk.injEq] at h
        obtain ⟨rfl, rfl⟩ := h
        have := scanBrk_text _ _ _ _ h2
        simp [Raw.text, this]
    · cases h
  · rename_i c r0 _ _ _
    split at h
    · simp only at h
      split at h
      · rename_i e r2 he
        simp only [Option.some.injEq, Prod.mk.injEq] at h
        obtain ⟨rfl, rfl⟩ := h
        have h1 := scanPow_text _ _ _ he
        have h2 := take_drop isAl (c :: r0)
        simp only [Raw.text, List.append_assoc, List.cons_append]
        rw [h1]
        exact h2
      · simp only [Option.some.injEq, Prod.mk.injEq] at h
        obtain ⟨rfl, rfl⟩ := h
        exact take_drop isAl (c :: r0)
    · cases h

theorem scan_text (b : Bool) : ∀ (f : Nat) (cs : List Char) (rs : List Raw),
    scan b f cs = some rs → textR rs = cs := by
  intro f
  induction f with
  | zero =>
    intro cs rs h
    cases cs with
    | nil => simp only [scan, Option.some.injEq] at h; subst h; rfl
    | cons c r => simp [scan] at h
  | succ f ih =>
    intro cs rs h
    cases cs with
    | nil => simp only [scan, Option.some.injEq] at h; subst h; rfl
    | cons c r =>
      simp only [scan] at h
      split at h
      · cases h
      · rename_i t r' ht
        cases h2 : scan b f r' with
        | none => simp [h2] at h
        | some rs' =>
          simp only [h2, Option.map, Option.some.injEq] at h
          subst h
          simp only [textR, ih _ _ h2]
          exact scanTok_text _ _ _ _ ht

/-! ### the tokeniser as explicit case distinctions -/

theorem dotFrom : Gen.lexDotFrom.toList = ['⋅'] := by decide
theorem dotTo : Gen.lexDotTo.toList = ['*'] := by decide

theorem replaceDot_eq (cs : List Char) :
    replaceDot cs = cs.map fun c => if c = '⋅' then '*' else c := by
  simp [replaceDot, dotFrom, dotTo]

def flatConv : Raw → Option UTok
  | .sym s => some (.sym s)
  | .pw s e => some (.pw s e)
  | .mul => some .mul
  | .div => some .div
  | .brk _ => none

def topConv : Raw → Option UTok
  | .sym s => some (.sym s)
  | .pw s e => some (.pw s e)
  | .mul => some .mul
  | .div => some .div
  | .brk c => (rawFlat c).map .par

def flatConvT : Raw → Option Tok
  | .sym s => some (.sym s)
  | .pw s e => some (.pw s e)
  | .mul => some .mul
  | .div => some .div
  | .brk _ => none

def topConvT : Raw → Option Tok
  | .sym s => some (.sym s)
  | .pw s e => some (.pw s e)
  | .mul => some .mul
  | .div => some .div
  | .brk c => (lexFlat c).map .grp

/-- the tokeniser after the dot replacement: strip the bare numerator, scan, convert -/
def rawCore (brackets : Bool) (conv : Raw → Option UTok) (cs : List Char) : Option (List UTok) :=
  match scan brackets ((stripOne cs).2.length + 1) (stripOne cs).2 with
  | none => none
  | some rs =>
    if rs.isEmpty then none else
    match mapOpt conv rs with
    | none => none
    | some ts => some ((if (stripOne cs).1 then [UTok.one] else []) ++ ts)

def lexCore (brackets : Bool) (conv : Raw → Option Tok) (cs : List Char) : Option (List Tok) :=
  match scan brackets ((stripOne cs).2.length + 1) (stripOne cs).2 with
  | none => none
  | some rs =>
    if rs.isEmpty then none else
    match mapOpt conv rs with
    | none => none
    | some ts => some (group ((if (stripOne cs).1 then [Tok.one] else []) ++ ts))

theorem rawFlat_eq (cs : List Char) : rawFlat cs = rawCore false flatConv (replaceDot cs) := by
  unfold rawFlat rawCore
  simp only [mapM_eq_mapOpt]
  cases scan false ((stripOne (replaceDot cs)).2.length + 1) (stripOne (replaceDot cs)).2 with
  | none => rfl
  | some rs =>
    have key : ∀ g : Raw → Option UTok, g = flatConv →
      (do let ts ← mapOpt g rs
          pure ((if (stripOne (replaceDot cs)).fst = true then [UTok.one] else []) ++ ts)) =
      match mapOpt flatConv rs with
        | none => none
        | some ts => some ((if (stripOne (replaceDot cs)).fst = true then [UTok.one] else []) ++ ts) := by
      intro g hg; subst hg; cases mapOpt flatConv rs <;> rfl
    simp only [Option.bind_eq_bind, Option.bind_some]
    by_cases he : rs.isEmpty = true
    · rw [if_pos he, if_pos he]; rfl
    · rw [if_neg he, if_neg he]
      exact key _ (by funext r; cases r <;> rfl)

theorem rawTop_eq (cs : List Char) : rawTop cs = rawCore true topConv (replaceDot cs) := by
  unfold rawTop rawCore
  simp only [mapM_eq_mapOpt]
  cases scan true ((stripOne (replaceDot cs)).2.length + 1) (stripOne (replaceDot cs)).2 with
  | none => rfl
  | some rs =>
    have key : ∀ g : Raw → Option UTok, g = topConv →
      (do let ts ← mapOpt g rs
          pure ((if (stripOne (replaceDot cs)).fst = true then [UTok.one] else []) ++ ts)) =
      match mapOpt topConv rs with
        | none => none
        | some ts => some ((if (stripOne (replaceDot cs)).fst = true then [UTok.one] else []) ++ ts) := by
      intro g hg; subst hg; cases mapOpt topConv rs <;> rfl
    simp only [Option.bind_eq_bind, Option.bind_some]
    by_cases he : rs.isEmpty = true
    · rw [if_pos he, if_pos he]; rfl
    · rw [if_neg he, if_neg he]
      exact key _ (by funext r; cases r <;> rfl)

theorem lexFlat_eq (cs : List Char) : lexFlat cs = lexCore false flatConvT (replaceDot cs) := by
  unfold lexFlat lexCore
  simp only [mapM_eq_mapOpt]
  cases scan false ((stripOne (replaceDot cs)).2.length + 1) (stripOne (replaceDot cs)).2 with
  | none => rfl
  | some rs =>
    have key : ∀ g : Raw → Option Tok, g = flatConvT →
      (do let ts ← mapOpt g rs
          pure (group ((if (stripOne (replaceDot cs)).fst = true then [Tok.one] else []) ++ ts))) =
      match mapOpt flatConvT rs with
        | none => none
        | some ts =>
          some (group ((if (stripOne (replaceDot cs)).fst = true then [Tok.one] else []) ++ ts)) := by
      intro g hg; subst hg; cases mapOpt flatConvT rs <;> rfl
    simp only [Option.bind_eq_bind, Option.bind_some]
    by_cases he : rs.isEmpty = true
    · rw [if_pos he, if_pos he]; rfl
    · rw [if_neg he, if_neg he]
      exact key _ (by funext r; cases r <;> rfl)

theorem lexTop_eq (cs : List Char) : lexTop cs = lexCore true topConvT (replaceDot cs) := by
  unfold lexTop lexCore
  simp only [mapM_eq_mapOpt]
  cases scan true ((stripOne (replaceDot cs)).2.length + 1) (stripOne (replaceDot cs)).2 with
  | none => rfl
  | some rs =>
    have key : ∀ g : Raw → Option Tok, g = topConvT →
      (do let ts ← mapOpt g rs
          pure (group ((if (stripOne (replaceDot cs)).fst = true then [Tok.one] else []) ++ ts))) =
      match mapOpt topConvT rs with
        | none => none
        | some ts =>
          some (group ((if (stripOne (replaceDot cs)).fst = true then [Tok.one] else []) ++ ts)) := by
      intro g hg; subst hg; cases mapOpt topConvT rs <;> rfl
    simp only [Option.bind_eq_bind, Option.bind_some]
    by_cases he : rs.isEmpty = true
    · rw [if_pos he, if_pos he]; rfl
    · rw [if_neg he, if_neg he]
      exact key _ (by funext r; cases r <;> rfl)

/-! ### the code's tokeniser = the ungrouped tokeniser followed by the grouping pass -/

theorem conv_append (a b : List UTok) : conv (a ++ b) = conv a ++ conv b := by
  induction a with
  | nil => simp [conv]
  | cons t r ih => simp [conv, ih]

theorem mapOpt_conv (f : Raw → Option UTok) (g : Raw → Option Tok)
    (h : ∀ r, g r = (f r).map convTok) (rs : List Raw) :
    mapOpt g rs = (mapOpt f rs).map conv := by
  induction rs with
  | nil => simp [mapOpt, conv]
  | cons r rs ih =>
    simp only [mapOpt, ih, h r]
    cases f r <;> cases mapOpt f rs <;> simp [conv]

theorem lexCore_eq (b : Bool) (f : Raw → Option UTok) (g : Raw → Option Tok)
    (h : ∀ r, g r = (f r).map convTok) (cs : List Char) :
    lexCore b g cs = (rawCore b f cs).map groupAll := by
  unfold lexCore rawCore
  cases scan b ((stripOne cs).2.length + 1) (stripOne cs).2 with
  | none => rfl
  | some rs =>
    simp only [mapOpt_conv f g h]
    by_cases he : rs.isEmpty = true
    · simp [he]
    · simp only [he]
      cases mapOpt f rs with
      | none => rfl
      | some ts =>
        simp only [Option.map, groupAll]
        cases (stripOne cs).1 <;> simp [conv, convTok]

theorem lexFlat_raw (cs : List Char) : lexFlat cs = (rawFlat cs).map groupAll := by
  rw [lexFlat_eq, rawFlat_eq]
  exact lexCore_eq false flatConv flatConvT (fun r => by cases r <;> rfl) _

theorem lexTop_raw (cs : List Char) : lexTop cs = (rawTop cs).map groupAll := by
  rw [lexTop_eq, rawTop_eq]
  refine lexCore_eq true topConv topConvT (fun r => ?_) _
  cases r with
  | brk c =>
    simp only [topConvT, topConv, lexFlat_raw, Option.map_map]
    cases rawFlat c <;> simp [convTok, groupAll]
  | _ => rfl

/-- **the library's parse pipeline equals the reference pipeline on every string** -/
theorem parse_eq_refParse (cs : List Char) : parse cs = refParse cs := by
  unfold parse refParse
  rw [lexTop_raw]
  cases rawTop cs with
  | none => rfl
  | some ts =>
    simp only [Option.map, Option.bind_eq_bind, Option.bind_some, tokens_equiv]

/-! ### nothing is skipped -/

def NoDot (cs : List Char) : Prop := ∀ c ∈ cs, c ≠ '⋅'

theorem noDot_replaceDot (cs : List Char) : NoDot (replaceDot cs) := by
  rw [replaceDot_eq]
  intro c hc
  simp only [List.mem_map] at hc
  obtain ⟨a, _, rfl⟩ := hc
  split
  · decide
  · assumption

theorem replaceDot_id (cs : List Char) (h : NoDot cs) : replaceDot cs = cs := by
  rw [replaceDot_eq]
  induction cs with
  | nil => rfl
  | cons c r ih =>
    have h1 : c ≠ '⋅' := h c (by simp)
    have h2 : NoDot r := fun x hx => h x (by simp [hx])
    simp [h1, ih h2]

theorem NoDot.append_left {a b : List Char} (h : NoDot (a ++ b)) : NoDot a :=
  fun c hc => h c (by simp [hc])
theorem NoDot.append_right {a b : List Char} (h : NoDot (a ++ b)) : NoDot b :=
  fun c hc => h c (by simp [hc])

theorem stripOne_text (cs : List Char) :
    (if (stripOne cs).1 then ['1'] else []) ++ (stripOne cs).2 = cs := by
  unfold stripOne
  split <;> simp

theorem mapOpt_text (f : Raw → Option UTok)
    (hf : ∀ r t, NoDot r.text → f r = some t → t.text = r.text) (rs : List Raw)
    (hnd : NoDot (textR rs)) (ts : List UTok) (hm : mapOpt f rs = some ts) :
    textL ts = textR rs := by
  induction rs generalizing ts with
  | nil => simp only [mapOpt, Option.some.injEq] at hm; subst hm; rfl
  | cons r rs ih =>
    simp only [mapOpt] at hm
    split at hm
    · rename_i t ts'' h4 h5
      simp only [Option.some.injEq] at hm
      subst hm
      simp only [textL, textR]
      rw [hf r t (NoDot.append_left hnd) h4, ih (NoDot.append_right hnd) _ h5]
    · cases hm

theorem rawCore_text (b : Bool) (f : Raw → Option UTok)
    (hf : ∀ r t, NoDot r.text → f r = some t → t.text = r.text) (cs : List Char) (hc : NoDot cs)
    (ts : List UTok) (h : rawCore b f cs = some ts) : textL ts = cs := by
  unfold rawCore at h
  split at h
  · cases h
  · rename_i rs hs
    have h1 := scan_text _ _ _ _ hs
    split at h
    · cases h
    · split at h
      · cases h
      · rename_i ts' hm
        simp only [Option.some.injEq] at h
        subst h
        have h2 := stripOne_text cs
        have hnd : NoDot (textR rs) := by
          rw [h1]
          exact NoDot.append_right (h2 ▸ hc)
        have h3 : textL ts' = textR rs := mapOpt_text f hf rs hnd ts' hm
        rw [textL_append, h3, h1]
        conv => rhs; rw [← h2]
        cases (stripOne cs).1 <;> rfl

theorem rawFlat_text (cs : List Char) (ts : List UTok) (h : rawFlat cs = some ts) :
    textL ts = replaceDot cs := by
  rw [rawFlat_eq] at h
  refine rawCore_text false flatConv (fun r t _ h => ?_) _ (noDot_replaceDot cs) ts h
  cases r <;> simp only [flatConv, Option.some.injEq] at h <;> first | (subst h; rfl) | cases h

/-- **C12, lexical level: the scanner accounts for every character.**  The texts of the tokens
    it returns (brackets as nested lists, the bare numerator as "1") concatenate to the input
    string after the replacement of the dot sign by `*`. -/
theorem rawTop_text (cs : List Char) (ts : List UTok) (h : rawTop cs = some ts) :
    textL ts = replaceDot cs := by
  rw [rawTop_eq] at h
  refine rawCore_text true topConv (fun r t hn h => ?_) _ (noDot_replaceDot cs) ts h
  cases r with
  | brk c =>
    simp only [topConv] at h
    cases hc : rawFlat c with
    | none => simp [hc] at h
    | some b =>
      simp only [hc, Option.map, Option.some.injEq] at h
      subst h
      have hnc : NoDot c := fun x hx => hn x (by simp [Raw.text, hx])
      simp only [UTok.text, Raw.text, rawFlat_text c b hc, replaceDot_id c hnc]
  | _ => simp only [topConv, Option.some.injEq] at h; subst h; rfl

end QExPy.U

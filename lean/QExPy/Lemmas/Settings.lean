/-
  Helper definitions and lemmas for C20 (settings state machine).
  `DocEnum`, `DocPosInt`, `PosNum`, `DocPair` spell out what the statement calls the documented
  values of an option; `NotBool`, `NoBoolInside`, `NotAuto` delimit the judged domain.
-/
import QExPy.Model.Settings

namespace QExPy.Settings
/-- enum option: a member of the option's own enum class, or the literal string of one -/
def DocEnum (ty : EnumTy) (a : Arg) : Prop :=
  (∃ i, i < (Gen.members ty).length ∧ a = .scalar (.enumMember ty i)) ∨
  (∃ s, s ∈ (Gen.members ty).map Prod.snd ∧ a = .scalar (.str s))

/-- positive integer -/
def DocPosInt (a : Arg) : Prop := ∃ z : Int, 0 < z ∧ a = .scalar (.int z)

/-- positive number (`int` or `float`; `nan` is not positive) -/
def PosNum (s : Scalar) : Prop :=
  (∃ z : Int, 0 < z ∧ s = .int z) ∨ (∃ x : FloatV, x.pos = true ∧ s = .float x)

/-- pair of positive numbers -/
def DocPair (a : Arg) : Prop := ∃ x y, a = .tuple [x, y] ∧ PosNum x ∧ PosNum y

/-- `True` is the integer 1 in Python: acceptance of `bool` arguments is not judged -/
def NotBool (a : Arg) : Prop := ∀ b, a ≠ .scalar (.bool b)
def NoBoolInside (a : Arg) : Prop := ∀ l b, a = .tuple l → Scalar.bool b ∉ l

/-- the AUTO member of ErrorMethod (only meaningful per quantity) is outside the domain -/
def NotAuto (a : Arg) : Prop :=
  (∀ i, (Gen.members .errorMethod)[i]? = some ("AUTO", "auto") →
      a ≠ .scalar (.enumMember .errorMethod i)) ∧
  a ≠ .scalar (.str "auto")

theorem enumArg_member (ty t : EnumTy) (i : Nat) :
    (enumArg ty (.scalar (.enumMember t i))).isSome ↔
      (t = Gen.setterClass ty ∧ i < (Gen.members t).length) := by
  simp only [enumArg]; split
  · rename_i h; simpa using h
  · rename_i h; simpa using h

theorem enumArg_str (ty : EnumTy) (s : String) :
    (enumArg ty (.scalar (.str s))).isSome ↔
      (s ∈ Gen.setterStrings ty ∧ (valueIdx (Gen.members (Gen.setterConv ty)) s).isSome) := by
  simp only [enumArg]; split <;> simp_all

/-- the generated wrapper shape writes the saved size back after EVERY outcome of the wrapped
    function: a return, an exception derived from `Exception`, and one that is not
    (`KeyboardInterrupt`, `SystemExit`, `GeneratorExit`, direct subclasses of `BaseException`) -/
theorem tempRestores_every_outcome (o : Outcome) : Gen.tempRestores o = true := by
  cases o <;> rfl

theorem sigValLower_eq : Gen.sigValLower = 0 := rfl
theorem mcSizeLower_eq : Gen.mcSizeLower = 0 := rfl

theorem posInt_ok_iff (L : Int) (hL : L = 0) (a : Arg) (hb : NotBool a) :
    (intArg L a).isSome ↔ DocPosInt a := by
  subst hL
  rcases a with s | l
  · cases s <;> simp [intArg, DocPosInt]
    case bool b => exact absurd rfl (hb b)
  · simp [intArg, DocPosInt]

theorem gtInt_eq_pos (x : FloatV) : x.gtInt 0 Gen.plotRejectsNan = x.pos := by
  cases x <;> simp [FloatV.gtInt, FloatV.pos, Gen.plotRejectsNan]

theorem numPos_ok_iff (s : Scalar) (hb : ∀ b, s ≠ .bool b) : (numPos s).isSome ↔ PosNum s := by
  have hL : Gen.plotLower = 0 := rfl
  cases s <;> simp only [numPos, hL, gtInt_eq_pos] <;> simp [PosNum]
  case bool b => exact absurd rfl (hb b)

/-- the options a request may change -/
def SameOutside (op : Op) (c c' : Cfg) : Prop :=
  match op with
  | .setErrorMethod _ => c' = { c with errorMethod := c'.errorMethod }
  | .setPrintStyle _ => c' = { c with printStyle := c'.printStyle }
  | .setUnitStyle _ => c' = { c with unitStyle := c'.unitStyle }
  | .setSigVal _ => c' = { c with sigVal := c'.sigVal }
  | .sigFigsValue _ => c' = { c with sigVal := c'.sigVal, sigMode := c'.sigMode }
  | .sigFigsError _ => c' = { c with sigVal := c'.sigVal, sigMode := c'.sigMode }
  | .setMcSize _ => c' = { c with mcSize := c'.mcSize }
  | .setPlotDims _ => c' = { c with plotW := c'.plotW, plotH := c'.plotH }
  | .reset => True
  | .read => c' = c

theorem valueIdx_lt (l : List (String × String)) (s : String) (i : Nat)
    (h : valueIdx l s = some i) : i < l.length := by
  induction l generalizing i with
  | nil => simp [valueIdx] at h
  | cons p rest ih =>
    obtain ⟨n, v⟩ := p
    simp only [valueIdx] at h
    split at h
    · cases h; simp
    · cases hr : valueIdx rest s with
      | none => simp [hr] at h
      | some j =>
        simp [hr] at h
        have := ih j hr
        subst h; simp; omega

theorem enumArg_lt (ty : EnumTy) (a : Arg) (i : Nat) (h : enumArg ty a = some i) :
    i < (Gen.members ty).length := by
  rcases a with s | l
  · cases s <;> simp [enumArg] at h
    case enumMember t j =>
      obtain ⟨⟨h1, h2⟩, rfl⟩ := h
      cases ty <;> simp_all [Gen.setterClass]
    case str s =>
      have := valueIdx_lt _ _ _ h.2
      cases ty <;> simpa [Gen.setterConv] using this
  · simp [enumArg] at h

theorem posInt_pos (L : Int) (hL : L = 0) (a : Arg) (z : Int) (h : intArg L a = some z) : 0 < z := by
  subst hL
  rcases a with s | l
  · cases s <;> simp [intArg] at h
    · obtain ⟨hh, rfl⟩ := h; exact hh
    · obtain ⟨hh, rfl⟩ := h; simp [hh]
  · simp [intArg] at h

theorem numPos_pos (s : Scalar) (x : FloatV) (h : numPos s = some x) : x.pos = true := by
  have hL : Gen.plotLower = 0 := rfl
  cases s <;> simp only [numPos, hL, gtInt_eq_pos] at h
  case int z =>
    split at h
    · rename_i hz; cases h; simpa [FloatV.pos] using hz
    · cases h
  case float y =>
    split at h
    · rename_i hy; cases h; exact hy
    · cases h
  case bool b =>
    split at h
    · rename_i hz; cases h; simp [FloatV.pos]
    · cases h
  all_goals cases h

theorem plotArg_pos (a : Arg) (w h : FloatV) (hp : plotArg a = some (w, h)) :
    w.pos = true ∧ h.pos = true := by
  rcases a with s | l
  · simp [plotArg] at hp
  · match l with
    | [] => simp [plotArg, Gen.plotLen] at hp
    | [x] => simp [plotArg, Gen.plotLen] at hp
    | x :: y :: z :: r => simp [plotArg, Gen.plotLen] at hp
    | [x, y] =>
      simp only [plotArg, Gen.plotLen, List.length_cons, List.length_nil, if_true] at hp
      cases hx : numPos x <;> cases hy : numPos y <;> simp [hx, hy] at hp
      obtain ⟨rfl, rfl⟩ := hp
      exact ⟨numPos_pos _ _ hx, numPos_pos _ _ hy⟩

theorem sigModeIdx_lt : sigModeIdx "VALUE" < (Gen.members .sigFigMode).length ∧
    sigModeIdx "ERROR" < (Gen.members .sigFigMode).length := by decide

theorem valueIdx_isSome_iff (l : List (String × String)) (s : String) :
    (valueIdx l s).isSome ↔ s ∈ l.map Prod.snd := by
  induction l with
  | nil => simp [valueIdx]
  | cons p rest ih =>
    obtain ⟨n, v⟩ := p
    simp only [valueIdx, List.map_cons, List.mem_cons]
    split
    · rename_i h; simp [h]
    · rename_i h
      rw [Option.isSome_map, ih]
      constructor
      · exact Or.inr
      · rintro (h' | h')
        · exact absurd h'.symm h
        · exact h'


end QExPy.Settings

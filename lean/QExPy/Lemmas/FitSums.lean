/-
  Helper lemmas for the fit model over ℝ: `sumN` is a `Finset.range` sum, `npow` is `^`,
  the parameter/abscissa environment commutes with `Function.update`.
-/
import QExPy.Real
import QExPy.Model.Fit
import QExPy.Props.C01

namespace QExPy
open Fit

theorem sumN_eq (n : Nat) (f : Nat → ℝ) : sumN n f = ∑ i ∈ Finset.range n, f i := by
  unfold sumN
  rw [numSum_eq]
  induction n with
  | zero => simp
  | succ n ih =>
    rw [List.range_succ, List.map_append, List.sum_append, ih, Finset.sum_range_succ]
    simp

theorem npow_eq (x : ℝ) (k : Nat) : npow x k = x ^ k := by
  induction k with
  | zero => simp [npow]
  | succ k ih => simp [npow, ih, pow_succ]

/-- row `i` of the design matrix applied to `p` -/
theorem design_pred_eq (d : Nat) (x p : Nat → ℝ) (i : Nat) :
    pred (d + 1) (design d x) p i = ∑ k ∈ Finset.range (d + 1), p k * x i ^ (d - k) := by
  simp only [pred, design, sumN_eq, npow_eq, num_mul]
  apply Finset.sum_congr rfl
  intro k _
  ring

/-- changing parameter `k < m` in the environment of a model formula -/
theorem envOf_update_param (m : Nat) (p : Nat → ℝ) (x : ℝ) (k : Nat) (hk : k < m) (t : ℝ) :
    envOf m (Function.update p k t) x = Function.update (envOf m p x) k t := by
  funext j
  unfold envOf
  by_cases hj : j = k
  · subst hj; simp [hk]
  · simp [Function.update_of_ne hj]

/-- changing the abscissa in the environment of a model formula (variable `m`) -/
theorem envOf_update_x (m : Nat) (p : Nat → ℝ) (x t : ℝ) :
    envOf m p t = Function.update (envOf m p x) m t := by
  funext j
  unfold envOf
  by_cases hj : j = m
  · subst hj; simp
  · simp [hj]

end QExPy
